"""Render harness histories (vrun env JSON) as Coq terms for Cases/EnvRun.v."""
from vlib import coq_str

KIND = {"simple": None, "": None, "lru": "Lru", "lfu": "Lfu", "slru": "Slru", "tinylfu": "Tlfu"}


def z(n):
    return "(%d)" % int(n)


def b(x):
    return "true" if x else "false"


def sterm(h):
    return coq_str(bytes.fromhex(h))


def cachepol(kind, cap):
    k = KIND[kind]
    return "{| cp_kind := %s; cp_cap := %s |}" % ("None" if k is None else "Some " + k, z(cap))


def policy(p):
    return ("{| p_expire := %s; p_rci := %s; p_precision := %s; p_cache_sk := %s; p_cache_ik := %s; p_shared_ik := %s; "
            "p_sk_pol := %s; p_ik_pol := %s; p_cache_sessions := %s; p_sess_cap := %s; p_sess_dur := %s; p_sess_kind := %s |}") % (
        z(p["Expire"]), z(p["RCI"]), z(p["Precision"]), b(p["CacheSK"]), b(p["CacheIK"]), b(p["SharedIK"]),
        cachepol(p["SKPol"], p["SKCap"]), cachepol(p["IKPol"], p["IKCap"]), b(p["CacheSessions"]), z(p["SessCap"]),
        z(p["SessDur"]), KIND[p["SessPol"] or "slru"])


def faults(fs):
    kinds = {"err": "FErr", "dup": "FDup", "errafter": "FErrAfter"}
    plan = {}
    for f in (fs or []):           # the harness keeps the last entry for a call index
        plan[int(f[0])] = f[1]
    # "cancel" (the caller's context becomes done during that call, the call itself succeeds) is no fault for the model:
    # nothing in the SDK may depend on it
    return "[" + "; ".join("(%d%%nat, %s)" % (i, kinds[k]) for i, k in plan.items() if k != "cancel") + "]"


def mut(m):
    k = m["k"]
    j = max(0, int(m.get("j", 0)))
    return {"mutdata": "MutData", "mutkey": "MutKey", "datafrom": "DataFrom %d" % j, "keyfrom": "KeyFrom %d" % j,
            "parentfrom": "ParentFrom %d" % j, "parentcreated": "ParentCreated %s" % z(m.get("c", 0)),
            "parentid": "ParentId %s" % (sterm(m.get("id", ""))), "keycreated": "KeyCreated %s" % z(m.get("c", 0)),
            "nilkey": "NilKey", "nilparent": "NilParent"}[k]


def hop(o):
    k = o["k"]
    if k == "newfactory":
        suf = "None" if o.get("suffix") is None else "(Some %s)" % sterm(o["suffix"])
        return "HNewFactory %s %s %s %s" % (policy(o["policy"]), sterm(o.get("svc", "")), sterm(o.get("prod", "")), suf)
    if k == "getsession":
        return "HGetSession %d %s" % (o.get("f", 0), sterm(o.get("id", "")))
    if k == "encrypt":
        return "HEncrypt %d %d %s" % (o.get("s", 0), o.get("payload", 0), faults(o.get("faults")))
    if k == "decrypt":
        return "HDecrypt %d %d [%s] %s" % (o.get("s", 0), o.get("rec", 0), "; ".join(mut(m) for m in (o.get("muts") or [])), faults(o.get("faults")))
    if k == "closesession":
        return "HCloseSession %d" % o.get("s", 0)
    if k == "closefactory":
        return "HCloseFactory %d" % o.get("f", 0)
    if k == "advance":
        return "HAdvance %s" % z(o.get("d", 0))
    if k == "revoke":
        return "HRevoke %s %s" % (sterm(o.get("id", "")), z(o.get("created", 0)))
    if k == "dropparent":
        return "HDropParent %s %s" % (sterm(o.get("id", "")), z(o.get("created", 0)))
    if k == "corruptkey":
        return "HCorruptKey %s %s" % (sterm(o.get("id", "")), z(o.get("created", 0)))
    raise ValueError(k)


def ptxt(kind, n):
    return {"K": "PKey %d" % n, "P": "PPayload %d" % n, "J": "PJunk 0"}[kind]


def mres(a):
    if a[0] == "none":
        return "MNone"
    if a[0] == "err":
        return "MErr"
    return "(MSome %s %s)" % (z(a[1]), b(a[2]))


def event(e):
    k, a = e["k"], e.get("a") or []
    if k == "MLoad":
        return "EvMLoad %s %s %s" % (sterm(a[0]), z(a[1]), mres(a[2:]))
    if k == "MLoadLatest":
        return "EvMLoadLatest %s %s" % (sterm(a[0]), mres(a[1:]))
    if k == "MStore":
        par = "None" if a[2] is None else "(Some {| km_id := %s; km_created := %s |})" % (sterm(a[2]), z(a[3]))
        r = a[4]
        if r is True:
            res = "StTrue"
        elif r is False:
            res = "StFalse"
        elif r == "dup":
            res = "StDup"
        elif r == "err":
            res = "StErr"
        else:
            res = "(StErrAfter %s)" % b(a[5])
        return "EvMStore %s %s %s %s" % (sterm(a[0]), z(a[1]), par, res)
    if k == "KEnc":
        return "EvKEnc %s" % b(a[0])
    if k == "KDec":
        return "EvKDec %s" % b(a[0])
    if k == "AEnc":
        return "EvAEnc (%s) %d (%s) %s" % (ptxt(a[0], a[1]), a[2], ptxt(a[3], a[4]), b(a[5]))
    if k == "ADec":
        return "EvADec (%s) %s" % (ptxt(a[0], a[1]), b(a[2]))
    if k == "SNew":
        return "EvSNew %d (%s) %s" % (a[0], ptxt(a[1], a[2]), b(a[3]))
    if k == "SRand":
        return "EvSRand %d %s" % (a[0], b(a[1]))
    if k == "SClose":
        return "EvSClose %d" % a[0]
    if k == "SCloseAgain":
        return "EvSClose %d" % a[0]      # a second release of the same secret: the model never does this
    if k == "SUseClosed":
        return "EvSUseClosed %d" % a[0]
    raise ValueError(k)


def ores(ob):
    r = ob["r"]
    n = ob.get("n", 0)
    if r == "unit":
        return "OUnit"
    if r == "factory":
        return "OFactory %d" % n
    if r == "session":
        return "OSession %d" % n
    if r == "refused":
        return "ORefused"
    if r == "enc":
        return "OEnc {| km_id := %s; km_created := %s |} %s" % (sterm(ob["pid"]), z(ob.get("pc", 0)), z(ob.get("c", 0)))
    if r == "dec":
        return "ODec %s" % ("None" if n < 0 else "(Some %d%%nat)" % n)
    if r == "err":
        return "OErr"
    if r in ("panic", "stuck", "skipped"):   # stuck: the operation never returned; skipped: the operations after it were not run
        return "OPanic"
    raise ValueError(r)


def case_term(c):
    ops = ";\n    ".join(hop(o) for o in c["ops"])
    obs = ";\n    ".join("(%s, [%s])" % (ores(ob), "; ".join(event(e) for e in (ob.get("ev") or []))) for ob in c["obs"])
    return "{| ec_t0 := %s; ec_ops := [\n    %s];\n  ec_obs := [\n    %s] |}" % (z(c["t0"]), ops, obs)


PRELUDE = "From Asherah Require Import Envelope.Session Cases.EnvRun.\nOpen Scope Z_scope.\n"

MASKS = {1: "api-results", 2: "metastore-calls", 4: "kms-calls", 8: "aead-calls", 16: "secret-creation", 32: "secret-release"}


def eval_cases(name, cases, shard=40, workers=14):
    """Returns {case index: (first differing op, mask)} and errors."""
    import os, re, time
    from concurrent.futures import ThreadPoolExecutor
    import vlib
    jobs = []
    for i in range(0, len(cases), shard):
        part = cases[i:i + shard]
        # self-test of the evaluator: a copy of the shard's first history with its last observation removed must be reported
        # (index len(part)); a shard whose canary is not reported is an error, never "no differences"
        canary = dict(part[0])
        canary["obs"] = part[0]["obs"][:-1]
        txt = PRELUDE + "Definition cases : list ecase := [\n%s].\n" % ";\n".join(case_term(c) for c in part + [canary])
        txt += "Definition D := Eval vm_compute in diffs_from 0%nat cases.\nPrint D.\n"
        jobs.append((i, len(part), txt))
    diffs, errs = {}, []

    def one(job):
        i, npart, txt = job
        rc, out, dt = vlib.coq_eval("%s_%d_%d" % (name, os.getpid(), i), txt, timeout=1800)
        flat = " ".join(out.split())
        if rc != 0 or "D = " not in flat:
            return i, None, out[-3000:]
        body = flat.split("D = ", 1)[1].split(" : list")[0].replace("%nat", "")
        trip = [(int(a), int(b_), int(c_)) for a, b_, c_ in re.findall(r"\((\d+), \((\d+), (\d+)\)\)", body)]
        if not any(a == npart for a, _, _ in trip):
            return i, None, "evaluator self-test failed: the canary history of this shard was not reported as differing; output: " + out[-1500:]
        return i, [t for t in trip if t[0] != npart], None

    t0 = time.time()
    with ThreadPoolExecutor(max_workers=workers) as ex:
        for i, tr, e in ex.map(one, jobs):
            if e is not None:
                errs.append(e)
            else:
                for a, op, mask in tr:
                    diffs[i + a] = (op, mask)
    d = os.path.join(vlib.BUILD, "cases")
    for f in os.listdir(d):
        if ("%s_%d_" % (name, os.getpid())) in f:
            try:
                os.remove(os.path.join(d, f))
            except OSError:
                pass
    return diffs, errs, time.time() - t0
