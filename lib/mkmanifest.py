#!/usr/bin/env python3
"""Regenerates MANIFEST.json from the table below (single source of truth for the checks)."""
import json, os
ROOT = os.path.dirname(os.path.dirname(os.path.abspath(__file__)))

CHECKS = {
 "C06": dict(
  text="Coq theorems over ALL strings: the default partition's guard accepts a foreign partition's key id iff the partition ids are equal; "
       "the suffixed guard is characterised exactly as a prefix match, so isolation is proved outside the prefix relation and REFUTED inside it "
       "(known finding B). Model tied to the code by running real sessions over adversarial id pairs and comparing ids + guard outcome inside Coq; concurrent GetSession calls for different partitions (session-cache schedule family, free-running rounds): a record produced through the session handed out for p names p's key id.",
  note="Trusted: Coq kernel+VM; Print Assumptions = closed; fmt.Sprintf/strings.Index modelled as append/prefix; differential tie is testing. "
       "Partial: suffixed sessions violate the full statement (known_findings.json C06-B).",
  technique="Coq proof (string injectivity lemmas) + differential correspondence + impl monitor", design="6/C06"),
 "C15": dict(
  text="Coq theorems for EVERY policy (lru, lfu, slru, tinylfu with arbitrary sketch decisions), every capacity >= 1, every expiry setting and every "
       "operation sequence (induction over reachable states): size <= capacity and the lookup table / policy structure hold the same duplicate-free key set "
       "(C15_bounded); no nil-victim panic (C15_total); refinement to an abstract map - entries change only by Set/Delete/Close or by being reported to the "
       "callback, Get returns the retrievable entry (C15_lookup); every callback carries the value held, its key is no longer retrievable, no key twice, entries "
       "leave only by callback/Delete/Close, Close reports all (C15_callbacks, C15_close_reports_all); LRU / LFU victims are least recently / least frequently used (C15_lru_victim_..., C15_lfu_victim_...). Model tied to the code by differential execution of "
       "random + exhaustive small-scope sequences compared inside Coq, plus an independent monitor on the implementation (bounded, lookup, exact-once, panic, deadlock).",
  note="Trusted: Coq kernel+VM; closed under the global context. Modelled not verified: container/list, mutex/channel behaviour (async delivery is compared as a sequence), "
       "TinyLFU sketch (victim choice taken from the observed eviction; theorems hold for every choice). Victim choice: LRU and LFU are theorems by DEFINITION (a ghost last-use time / use count is carried beside the cache: every entry "
       "evicted to make room is a least recently / least frequently used one, for every operation sequence) and an independent monitor checks the same on the implementation; SLRU's victim "
       "(probation tail, else protected tail) is decided by the correspondence with the model. Deadlock freedom is checked dynamically (5 s watchdog), not proved.",
  technique="Coq proof (invariant + refinement by induction over operations) + differential correspondence + impl monitor", design="6/C15"),
}


ENVNOTE = 'Trusted: Coq kernel+VM; symbolic AEAD/KMS (AES-GCM correctness+integrity, crypto/rand uniqueness assumed; the harness runs the real ones); virtual clock via build-time overlay; differential tie is testing. The envelope model (coq/Envelope/*.v) follows envelope.go, key_cache.go, session.go, session_cache.go function by function incl. deferred Closes; full boundary-call traces agreed on every generated history.'

def env(text, note, design, technique="Coq theorems on the executable envelope model + full-trace differential correspondence + impl monitor"):
    return dict(text=text, note=ENVNOTE + " " + note, technique=technique, design=design)

CHECKS.update({
 "C01": env("Histories (any policy, caches, faults, revocations, rotations, restarts) are run on the real SDK and on the Coq envelope model; API results must agree, every genuine record must decrypt to its payload in "
            "a live session and in an independent fresh-process reference decryptor, caller buffers (incl. spare capacity, reused after the call) must be unchanged. PROVED over all histories (one service/product, default "
            "key ids): the record a successful Encrypt returns decrypts to exactly the encrypted payload in another process that has only the metastore and the KMS (empty tables, caching off), at that moment "
            "and at every later point of the history (cache-coherence invariant + symbolic execution of the cache-less Decrypt); AND inside one long-lived process with key caches of any policy and capacity: after any "
            "history of new factories/sessions, encrypts and decrypts under any fault plans, clock changes and revocations, a fault-free Decrypt in any live session of the same partition id returns exactly the payload "
            "(total correctness: liveness invariant on reference counts with a ghost map of holds, Envelope/Live.v 2900 lines); with Session.Close in the history too for factories whose sessions own no key cache "
            "(shared IK cache or IK caching off, Envelope/LiveClose.v), and for EVERY policy (per-session / shared / no key caches, with or without the session cache), where Session.Close destroys the cache the session owns (a cached session's once evicted and released by its last holder) and SessionFactory.Close destroys the factory's caches, as long as no operation "
            "addresses a closed session or a session of a closed factory: the decrypt in any OPEN session of the partition returns the payload (liveness invariant relative to the set of destroyed caches, Envelope/LiveD.v + LiveCloseD.v); and an UNFAULTED Encrypt after any such history cannot fail - through cache hits, stale or invalid entries, metastore loads, key creation and the "
            "duplicate fallback (Envelope/Total.v 1000 lines; Envelope/TotalD.v: the same on open sessions after histories that close sessions and factories).",
            "Not in the theorems: operations on a session whose underlying encryption was closed or whose factory was closed, region-suffixed ids, stored rows with creation stamp 0 (side condition nz_store), concurrency (C08/C16 models); "
            "these are decided by the correspondence and the monitors.", "6/C01"),
 "C02": env("Fault plans (err / false duplicate / error-after-write on every metastore, KMS, AEAD, allocator call, singles and pairs) on cold/warm/rotating states: a returned record's IK row and SK row must be in the "
            "authoritative store at return and a fresh process must decrypt it; an unfaulted encrypt must succeed. PROVED over all histories (any fault plans, policies, evictions, restarts, revocations; one "
            "service/product, default key ids): every record ever returned names a stored intermediate key row whose parent system key row is stored, and is sealed so that those rows and the KMS open it "
            "(cache-coherence invariant through key_cache.go / envelope.go / session.go / session_cache.go, 2000 lines of Coq); the store only grows and only holds well-formed rows.",
            "The fresh-process clause is a theorem too (C02_fresh_process_decrypts), and so is 'once the faults stop the next operation succeeds' for Encrypt (C02_once_the_faults_stop_encrypt_succeeds, histories without closes / session cache; ..._with_closes: any key-cache policy, session and factory closes in the history, open sessions of open factories). "
            "Not in the theorems: region-suffixed ids, several services in one metastore.", "6/C02"),
 "C03": env("AEAD/KMS/secret-factory call traces must equal the model's; payload sealed only under a data key generated in the same operation, data key used once, real (key, nonce) pairs unique, plaintext scan of rows/records/log lines/KMS traffic.",
            "Nonce/key freshness of crypto/rand is an assumption; the theorem is that the code asks for a fresh key and nonce every time.", "6/C03"),
 "C04": env("Boundary-clock histories: no record under an expired IK, no IK created under an expired SK (when no fault is injected), IK dropped within one interval of its SK's expiry. PROVED over all histories "
            "(clause 1): an unfaulted Encrypt that returns a record wrote it under an intermediate key that is not expired at the time of the operation, however the key was obtained - cache hit, stale reload, "
            "metastore load, creation, duplicate fallback - and (clause 2) every row an unfaulted Encrypt adds names a parent that is not expired at that time, i.e. no intermediate key is created under an expired system key "
            "(Envelope/Expiry.v 970 lines; policy sanity ExpireKeyAfter >= CreateDatePrecision + 1 s).",
            "Clause 3 (an IK whose SK expired stops being used within one interval) is refuted on the faithful model by known findings C04-IK (decrypt-path refresh) and C04-DUP (unvalidated adoption in the fallbacks), both with computed witnesses; outside those "
            "signatures they are decided by the correspondence and the monitor.", "6/C04"),
 "C05": env("Revocation of latest/older IK/SK at boundary offsets: bound of one interval (IK) / two intervals (parent SK) when a later stamp is creatable; and what the bound rests on at the metastore: a Revoked flag an operator writes into the table is visible to the very next Load / LoadLatest of every metastore implementation (SQL x3, DynamoDB v1/v2 over fakes in which an eventually consistent read lags one write behind).", "Known finding C05-IK.", "6/C05"),
 "C07": env("Every mutation kind (bit flips, truncations, splices, nil fields, foreign parents) on genuine records plus corrupted metastore rows: decrypt returns the original payload of the Data it carries or an error, never other bytes, never panics; the SQL and both DynamoDB metastores under cold sessions with key rows damaged in the engine's own representation (23 kinds x IK/SK row x 5 implementations): Load, LoadLatest, Decrypt, Encrypt return an error or the payload, never panic.",
            "Symbolic AEAD: a modified ciphertext opens under no key.", "6/C07"),
 "C09": env("Secret creation/release traces must equal the model's (release compared as a set per operation); no use after release, no double release, nothing live with caching disabled, nothing live after teardown. "
            "PROVED: the data key of an Encrypt is released on every outcome; over all histories, in a session with key caching disabled ANY Decrypt (any record, tampering, fault plan, outcome) leaves every secret it "
            "allocated closed and touches no earlier secret or key object, and ANY Encrypt there leaves every secret it allocated closed except at most one - the system key leaked by finding C09-J - "
            "(ownership invariant with exact reference counts through all load/create/store/duplicate-fallback paths, Envelope/Release.v 850 lines); secrets are never reopened.",
            "Known finding C09-J (system key looked up on parent mismatch is never released) refutes exact accounting on the Encrypt duplicate-fallback path; 'released on Close' for CACHED keys "
            "is decided by the trace correspondence and the monitor, not by a theorem.", "6/C09"),
 "C10": env("Coq theorems on a statement-level model of the unwrapping sites (decryptRow, systemKeyFromEKR, intermediateKeyFromEKR, NewCryptoKey, both AWS plugins' EncryptKey/DecryptKey): for EVERY choice of "
            "failing later steps and every list of regions, every buffer that held key plaintext is zero at return (except the system-key buffer handed to the caller, wiped by NewCryptoKey on both outcomes). "
            "Decided on the code by a monitor: every buffer returned by AEAD/KMS key-unwrapping calls and every buffer passed to a failing SecretFactory.New is re-read after the public call returns, under fault "
            "plans (env harness), and the regional KMS fakes re-read the data-key plaintext after EncryptKey/DecryptKey of both AWS plugins.",
            "Partial: the wipe model is not executable against the code (buffers are not part of the envelope model's trace); the tie is the monitor under the same failure choices plus the ADec/KDec/SNew event "
            "correspondence that fixes where such buffers come into existence.", "6/C10", technique="Coq proof (case analysis over failure choices / induction over regions) + buffer re-read monitor under fault plans"),
 "C20": env("Metastore/KMS call traces must equal the model's; with simple caches no key record is re-read and no system key re-unwrapped within one interval of its last load; with caching disabled every operation re-reads and nothing stays live. "
            "PROVED at session and history level (Envelope/Repeat.v, RepeatH.v, SkOnce.v): a Decrypt/Encrypt that finds its key fresh makes no metastore or KMS call (any cache policy); from EVERY history state a Decrypt step that succeeded on a session with the "
            "default simple key cache, taken again at once or after any clock advance that keeps the entry within one interval of its load, reports no metastore and no KMS event (all three paths of GetOrLoad); with the system key fresh in the factory's simple cache "
            "any session env's loadIntermediateKey and the whole loadLatestOrCreateIntermediateKey (validation, creation, store, duplicate fallback) make no KMS call under any fault plan; premises decidable and met in reachable worlds.",
            "Restricted to keys valid at the time (the revoked-latest corner must consult the metastore); the repeat theorems cover the simple (default) key cache - evicting policies and the encrypt-side repeat are decided by the correspondence and the monitor.", "6/C20"),
})

CHECKS["C19"] = dict(
  text="Coq theorems for EVERY request sequence and EVERY SDK behaviour behind the handler: exactly one response per request, no sequence reaches the nil-dereference state "
       "(incl. rejected get-session followed by anything or end of stream), encrypt/decrypt before a successful get-session and every second get-session are error responses "
       "without touching the SDK, after a successful get-session responses are exactly the SDK's answers. Tie: ALL sequences up to a bounded length over 9 request kinds plus random "
       "longer ones run through the real handler over an in-memory stream and compared with the model inside Coq; monitor: one response per request, no nil response, no panic.",
  note="Trusted: Coq kernel+VM, closed under the global context; gRPC transport replaced by an in-memory stream; protobuf getters. The SDK is abstract in the theorems so C01/C06/C07 transfer.",
  technique="Coq proof (state machine, induction over request sequences) + exhaustive small-scope differential correspondence", design="6/C19")

CHECKS["C17"] = dict(
  text="Coq theorems for every list of regional clients, every subset able to generate/wrap and every subset able to decrypt: unwrap succeeds iff some configured region with an "
       "entry can decrypt; the regional Decrypt attempts are exactly the client order restricted to regions with an entry, stopping at the first success; the first client (preferred) is "
       "tried first; wrap succeeds iff some region can generate and the envelope holds exactly the generating region plus every region that could wrap; wrap-then-unwrap characterised. "
       "Tie: both plugins over fake regional KMS clients (v1 and v2 SDK interfaces), incl. v1<->v2 envelope exchange, compared with the model in Coq; monitors: preferred first, data-key plaintext wiped, documented JSON envelope.",
  note="Trusted: Coq kernel+VM, closed under the global context. Modelled not verified: AWS KMS (per-region success oracle, blobs only the issuing region opens). The non-preferred client order "
       "(Go map iteration) is observed by a probe call, then fixed in the model.",
  technique="Coq proof (list induction) + differential correspondence over fakes", design="6/C17")

CHECKS["C13"] = dict(
  text="Coq theorems: the key-table specification never changes or removes a stored row, Store reports true exactly when the (id, created) was absent and the row then reads back intact, "
       "LoadLatest returns the greatest creation time; the DynamoDB-style adapter model over a backend with arbitrary staleness and overwriting puts refines the specification for EVERY operation "
       "sequence and EVERY staleness oracle because it asks for strong consistency, a conditional put and a backward scan (and a witness shows each flag is necessary). Tie: the in-memory, SQL "
       "(3 placeholder dialects) and both DynamoDB metastores run over semantic fakes and are compared with the specification inside Coq on random overlapping sequences.",
  note="Trusted: Coq kernel+VM, closed under the global context. Modelled not verified: real SQL engines and DynamoDB (the Go fakes implement their documented semantics adversarially: stale unless "
       "ConsistentRead, overwrite unless conditional, placeholder style enforced, PRIMARY KEY(id, created)).",
  technique="Coq proof (spec lemmas + refinement by induction over operations) + differential correspondence over semantic fakes", design="6/C13")

CHECKS["C11"] = dict(
  text="Coq theorems on a model of the secret protocol over a page record (mapped, locked, protection, holds-secret): a created secret is locked and no-access; readers nested to ANY depth see the "
       "secret read-only and leave the pages no-access; Close wipes, then unlocks, then unmaps; a closed secret rejects every access without touching a page; and for ANY number of readers and closers "
       "under ANY schedule no callback ever touches unmapped / no-access / wiped pages, protection is no-access exactly when no reader is inside, close() completes at most once (counting invariant, "
       "induction over the schedule). Tie: both implementations over an interposed memcall that is a shadow page table; primitive-call traces, page state and results compared with the model in Coq.",
  note="Partial: the kernel effects of mlock/madvise/mprotect/munmap, awnumar/memcall and memguard's allocator are assumptions (page record); for memguard only Protect is interposable. The Go scheduler is "
       "represented by interleavings of the blocks that run under the secret's rw lock; the concurrent theorem is tied to the code by the sequential correspondence of those blocks, not by controlled schedules.",
  technique="Coq proof (invariants, induction on nesting depth and on schedules) + differential correspondence over a shadow page table", design="6/C11")
CHECKS["C12"] = dict(
  text="Coq theorems for EVERY fault plan (any set of failing primitive calls): New and CreateRandom return a fully protected secret or an error, never a degraded secret; after a failed creation "
       "the pages are wiped, and unlocked/unmapped unless that cleanup primitive itself failed; on every path secret bytes are zeroed before Unlock/Free; a failed open changes neither reader count nor pages; "
       "a failed Close leaves the secret closable and a fault-free retry completes it. Tie: ALL single and pair fault positions over creation x access x close plus random plans on the real code through the "
       "interposed memcall, compared call-by-call with the model in Coq; monitors: wipe-before-unlock, callbacks see original bytes, InUse counter balanced.",
  note="Same modelling assumptions as C11. InUse accounting is monitored with the collector off (finalizers of abandoned secrets touch the global counter at arbitrary times).",
  technique="Coq proof (case analysis over all fault positions) + exhaustive fault-position correspondence", design="6/C12")

CHECKS["C18"] = dict(
  text="Coq theorems: base64 round-trips EVERY byte string; ciphertext || tag(16) || nonce(12) splits back uniquely for every ciphertext (incl. the 28-byte empty plaintext); key ids determine the partition; a READER written from the documented JSON shape recovers every key record and every data row record (ids any bytes, stamps any integer, keys/data any bytes, optional parts) "
       "from the documented-shape printer's output, so the shape is unambiguous (Format/JsonParse.v; all 256 escaped characters and every decimal stamp read back). "
       "The documented JSON shape is an executable printer (field order, omitempty, base64, Go's HTML-safe escaping); the SDK's JSON for key records and data row records is compared with it byte for byte inside Coq; "
       "the SQL key_record equals that JSON; both DynamoDB item layouts are checked against the documented attribute layout; an independent codec written from the documentation decrypts what the SDK writes and the SDK "
       "decrypts what it writes, for payload sizes 0,1,15,16,17,1000.",
  note="Partial: the JSON model covers ASCII key ids (non-ASCII / invalid UTF-8 are outside it); the proved reader accepts the printer's layout only (field order, no white space) and is also run on the SDK's bytes in the comparison; the sidecar's wire records are checked across key rotations on open streams; Java/C# are represented by the documentation-side codec; "
       "the gRPC message mapping is exercised end to end by the C19 harness.",
  technique="Coq proof (base64/layout/id lemmas, reader/printer round trip) + byte-for-byte differential against a documented-shape printer + two-way exchange with a reference codec", design="6/C18")

CHECKS["C08"] = dict(
  text="Coq theorem (counting invariant, induction over schedules): for ANY number of goroutines, ANY schedule and ANY set of entries evicted at each load (every policy, capacity >= 1) no goroutine ever uses a "
       "destroyed key and reference counts are exact (cache reference + holders); the unlock-then-count order of the tree before fix 8f60ea4 is refuted by a 15-step schedule. Sequential half on the envelope "
       "model (Envelope/Live.v): through any history of factories, sessions, encrypts/decrypts with any faults, evictions, refreshes and reloads every key sitting in a key cache is open; with session and factory closes in the history (Envelope/LiveCloseD.v) every key an OPEN session of an open factory can reach "
       "through its caches is open; the eviction callback (which releases the cache's reference) is checked to run at most once per entry on the real generic cache. Tie: seeded random and PCT-priority "
       "schedules of 2-4 real goroutines against one factory with capacity-1/2 caches under a cooperative controller whose yield points are inserted by the overlay before every lock acquisition, "
       "reference-count update and condition wait; monitors: every operation on an open session succeeds with the right bytes, no use after destroy, no double release, no deadlock. "
       "Plus free-running rounds of real goroutines under the Go race detector (harness/cmd/vstress): no unsynchronised conflicting accesses to SDK state, operations on sessions nobody closed succeed.",
  note="Partial: the Go scheduler and memory model are represented by interleavings of the blocks between synchronisation points; data-race freedom inside a block is checked by the race-detector rounds, not proved; asynchronous eviction callbacks run uncontrolled. "
       "The model is not compared step by step with the code: the tie is the schedule exploration on the real code at the same yield points.",
  technique="Coq proof (invariant over unbounded threads/schedules) + controlled-schedule exploration of real goroutines + race-detector rounds", design="6/C08")
CHECKS["C16"] = dict(
  text="Coq theorem for ANY number of goroutines/partitions, ANY schedule of Get/use/Close/Remove/factory-Close steps and ANY evictions: no holder uses a session whose underlying encryption was closed; usage counter = "
       "number of holders; underlying Close at most once and only after the session left the cache and its last holder closed; one partition id per cached session. Tie: controlled schedules of real goroutines over "
       "more partitions than the session cache holds (capacity 1-2, lru/slru/lfu, also with a shared LRU-1 key cache); monitors: holders' operations succeed, nothing used after destruction, nothing released twice, "
       "nothing live after factory close, no deadlock.",
  note="Partial in the same sense as C08; expiry is modelled as eviction; Remove goroutines run uncontrolled in the harness.",
  technique="Coq proof (invariant over unbounded threads/schedules) + controlled-schedule exploration of real goroutines", design="6/C16")

CHECKS["C14"] = dict(
  text="Coq theorems: every SDK operation of every process, under every fault plan, only appends rows at absent (id, created) keys - nothing in the metastore is ever modified, removed or duplicated; "
       "and for every world and fault plan the intermediate key generated by createIntermediateKey is either persisted (its row is in the store when it is handed out) or discarded (its secret is released "
       "before the call returns). Tie: 2-3 real processes on one metastore, parked before every metastore call and released one at a time by seeded uniform/PCT schedules from cold, warm, IK/SK-expired and "
       "IK/SK-revoked states; monitors = the property statement (chain stored at return, every process and a fresh process decrypt every record, no row modified, no generated key left live).",
  note="Partial: interference between the metastore calls of ONE operation is not expressible in the sequential envelope model; convergence under such interleavings is decided by the schedule exploration on the real code, not proved.",
  technique="Coq proof (frame theorem + per-call case analysis) + metastore-granularity schedule exploration of real processes", design="6/C14")

NOT_APPLICABLE = []


def category_of(pid):
    import re
    src = os.path.join(ROOT, "coq", "Properties", pid + ".v")
    if os.path.exists(src) and re.search(r"^\s*Theorem\s", open(src).read(), flags=re.M):
        return "proof"
    return "exploration"


def main():
    checks = []
    for pid in sorted(CHECKS):
        c = CHECKS[pid]
        checks.append({
            "property_id": pid,
            "quick_cmd": "./check %s quick" % pid,
            "thorough_cmd": "./check %s thorough" % pid,
            "evidence_file": "evidence/%s.json" % pid,
            "replay_cmd_template": "./check %s --replay {path}" % pid,
            "engine": "coq+vrun",
            "level_claimed": {"category": c.get("category", category_of(pid)), "text": c["text"], "design_ref": "DESIGN.md §" + c["design"]},
            "level_note": c["note"],
            "technique": c["technique"],
        })
    claimed = set(CHECKS)
    na = list(NOT_APPLICABLE)
    for i in range(1, 21):
        pid = "C%02d" % i
        if pid not in claimed and not any(x["property_id"] == pid for x in na):
            na.append({"property_id": pid, "reason": "check under construction in this session (model and tie not yet committed); not a claim that the technique cannot apply"})
    m = {
        "version": 1,
        "setup_cmd": "./setup.sh",
        "hooks": {
            "guard": "verif",
            "enable": "go build -tags verif -overlay <generated by lib/vlib.make_overlay from /repo's current tree> (virtual clock rewrite of time.Now(), add-only test constructors, an accessor for the key ids the SDK derives for a partition); no hook is committed to /repo",
            "baseline_off_cmd": json.load(open("/root/.vp/BASELINE.json"))["cmd"] if os.path.exists("/root/.vp/BASELINE.json") else "",
            "source_commits": [],
            "add_only": True,
        },
        "engines": [
            {"name": "coq", "path": "coq/", "serves_properties": sorted(claimed), "kind_free_text": "Coq 8.16.1 development: executable Gallina models + theorems (Properties/Cxx.v)"},
            {"name": "vrun", "path": "harness/", "serves_properties": sorted(claimed), "kind_free_text": "Go harness run against /repo's working tree through replace + -overlay; emits observations that Coq compares with the model"},
            {"name": "vstress", "path": "harness/cmd/vstress/", "serves_properties": ["C08"], "kind_free_text": "free-running goroutines on one session factory, built with the Go race detector (go build -race, cgo) against /repo's working tree"},
        ],
        "checks": checks,
        "not_applicable": na,
        "notes": "See DESIGN.md. known_findings.json lists recorded defects and fix: commits.",
    }
    with open(os.path.join(ROOT, "MANIFEST.json"), "w") as f:
        json.dump(m, f, indent=1)


if __name__ == "__main__":
    main()
