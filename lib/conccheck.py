"""Controlled-schedule runs of real goroutines (harness/sched + the yield overlay)."""
import json
import envcheck


def run(ck, family, tier, seed, replay, n_quick=150, n_thorough=1500, only=None):
    runs = [["-replay", replay]] if replay else [["-seed", str(seed), "-n", str(n_quick if tier == "quick" else n_thorough), "-x", family]]
    cases = envcheck.run_harness(ck, "conc", runs, timeout=1500)
    if cases is None:
        # the harness process itself died (e.g. SIGSEGV on freed secret pages): that is a crash of the code under test
        if ck.violations and "run" in ck.violations[-1][0]:
            ck.violations[-1] = (ck.replay_file("crash-" + family, {"what": "the process crashed while running controlled schedules of family %s" % family,
                                                                     "rerun": "vrun conc " + " ".join(runs[0])}), "")
        return None
    if only:
        for c in cases:
            c["viol"] = [v for v in (c.get("viol") or []) if only in v]
    viol = [c for c in cases if c.get("viol")]
    nt = set(json.dumps(c.get("trace")) for c in cases if len(c.get("trace") or []) >= 8)
    ck.cov.setdefault("schedules", {})[family] = {
        "evaluations": len(cases), "distinct_schedules": len(nt), "threads": sorted(set(c["threads"] for c in cases)),
        "configs": sorted(set(c["cfg"] for c in cases)), "avg_released_steps": round(sum(len(c.get("trace") or []) for c in cases) / max(1, len(cases)), 1),
        "sample_trace": (cases[0].get("trace") or [])[:25],
    }
    if viol:
        v = viol[0]
        ck.violation(ck.replay_file("sched-" + family, {"what": v["viol"], "Case": {k: v[k] for k in ("family", "cfg", "seed", "threads", "steps")}, "schedule": v.get("trace")}))
    return cases
