"""Shared driver for the envelope-model properties (C01-C05, C07, C09, C10, C20): run histories on the real
SDK, compare with the Coq model on the projections relevant to the property, evaluate the property's
implementation-only monitor, apply known findings, write evidence."""
import json, os
import vlib, envterms
from vlib import Check

SEC = 1000000000


def hx(s):
    return bytes.fromhex(s).decode("latin-1")


def journal_tail(path):
    """The last history a crashed env harness had started: {"T0","Cfg","Tags","Ops"} (replay format), or None."""
    if not os.path.exists(path):
        return None
    case = None
    for line in open(path, errors="replace"):
        try:
            d = json.loads(line)
        except ValueError:
            continue
        if "start" in d:
            case = {"T0": d["start"]["t0"], "Cfg": d["start"]["cfg"], "Tags": d["start"].get("tags"), "Ops": []}
        elif "op" in d and case is not None:
            case["Ops"].append(d["op"])
    return case


def run_harness(ck, sub, runs, timeout=1200):
    """runs: list of argument lists for `vrun <sub>`; returns list of cases or None."""
    binp, ok, blog = vlib.go_build("vrun")
    ck.oblige(ok, "harness-build", blog)
    if not ok:
        ck.violation(ck.replay_file("build", {"obligation": "harness build against /repo failed", "log": blog[-4000:]}), False)
        return None
    cases = []
    try:
        for i, extra in enumerate(runs):
            outp = os.path.join(vlib.BUILD, "%s-%s-%d-%d.json" % (ck.prop, sub, os.getpid(), i))
            rc, so, se, dt = vlib.run([binp, sub, "-out", outp] + extra, timeout=timeout)
            ck.oblige(rc == 0, "harness-run " + " ".join(extra), so + se)
            if rc != 0:
                crashed = journal_tail(outp + ".journal")
                if crashed is not None and ("panic:" in se or "fatal error:" in se or "SIGSEGV" in se):
                    # the process died on a goroutine the harness cannot recover (e.g. a clean-up goroutine of the SDK): the journal's last
                    # history is the input
                    ck.violation(ck.replay_file("crash", {"what": "the process crashed while (or shortly after) running this history: " +
                                                                   next((l for l in se.splitlines() if l.startswith(("panic:", "fatal error:"))), "Go runtime abort"),
                                                          "trace": se[-3000:], "Case": crashed}))
                else:
                    ck.violation(ck.replay_file("run", {"obligation": "harness run failed: " + " ".join(extra), "log": (so + se)[-4000:]}), False)
                for pth in (outp, outp + ".journal"):
                    if os.path.exists(pth):
                        os.remove(pth)
                return None
            cases += json.load(open(outp))["cases"]
            os.remove(outp)
    finally:
        if os.path.exists(binp):
            os.remove(binp)
    return cases


# ------------------------------------------------------------------------------------------------ context

class Ctx:
    """Per-case bookkeeping replayed from the op list: which policy/partition/cache each session has."""

    def __init__(self, case):
        self.case = case
        self.fpol = []
        self.sess = {}     # sid -> (factory, partition hex)
        self.closed_s, self.closed_f = set(), set()
        self.rows = []

    def feed(self, op, ob):
        k = op["k"]
        if k == "newfactory" and ob["r"] == "factory":
            self.fpol.append(op["policy"])
        elif k == "getsession" and ob["r"] == "session":
            self.sess.setdefault(ob["n"], (op.get("f", 0), op.get("id", "")))

    def pol(self, sid):
        return self.fpol[self.sess[sid][0]]

    def cache_of(self, sid):
        p = self.pol(sid)
        if p["CacheIK"] and p["SharedIK"]:
            return ("f", self.sess[sid][0])
        return ("s", sid)


def ev_list(ob):
    return ob.get("ev") or []


def has_m_events(ob):
    return any(e["k"] in ("MLoad", "MLoadLatest", "MStore") for e in ev_list(ob))


def trunc_stamp(t, precision):
    if precision > 0:
        return (t - ((t + 62135596800 * SEC) % precision)) // SEC
    return t // SEC


# ------------------------------------------------------------------------------------------------ monitors
# each monitor yields dicts {what, case, op, finding (id or None)}

def finding_ik(case, ctx, i, sid, pid, pc, t, rci):
    """Signature of known findings I/K: the key cache entry the violating encrypt trusted was (re)loaded by a
    decrypt-path load within the last interval, and no latest-key validation happened in that cache within it."""
    cache = ctx.cache_of(sid)
    td = tv = None
    newest = None         # the newest key of this id the cache has adopted as its latest so far
    superseded = False    # at the decrypt-path load of (pid, pc) the cache already knew a NEWER latest key of this id
    c2 = Ctx(case)
    for j in range(i):
        op, ob = case["ops"][j], case["obs"][j]
        c2.feed(op, ob)
        if op["k"] not in ("encrypt", "decrypt"):
            continue
        s = op.get("s", 0)
        if s not in c2.sess or c2.cache_of(s) != cache:
            continue
        for e in ev_list(ob):
            a = e.get("a") or []
            if e["k"] == "MLoadLatest" and a[0] == pid and a[1] != "err" and ob["r"] in ("enc", "dec"):
                tv = ob["now"]       # a validation counts only if the operation got through it (a faulted one may stop right after the read)
            if e["k"] == "MLoad" and op["k"] == "decrypt" and a[0] == pid and a[1] == pc and a[2] == "some":
                td = ob["now"]
                superseded = newest is not None and newest > pc
        if op["k"] == "encrypt" and ob["r"] == "enc" and ob.get("pid") == pid:
            newest = ob["pc"] if newest is None else max(newest, ob["pc"])
    # the finding is about a key the cache had no newer replacement for when the decrypt path (re)loaded it: the unchanged code
    # never lets a load of an OLDER key take the place of the latest one
    return td is not None and td >= t - rci and (tv is None or tv < t - rci) and not superseded


def finding_dup(ob, pid):
    """Signature of known finding DUP: within THIS operation the insert of a new intermediate key for `pid` was not accepted
    (a row with the same creation stamp exists) and the SDK then adopted the latest stored row for that id, without
    validating that row's parent system key."""
    refused = False
    for e in ev_list(ob):
        a = e.get("a") or []
        if e["k"] == "MStore" and a[0] == pid and a[4] is not True:
            refused = True
        if refused and e["k"] == "MLoadLatest" and a[0] == pid:
            return True
    return False


def finding_dup_cached(case, ctx, i, sid, pid, pc):
    """Form c of known finding DUP: the operation that installed the key cache's current latest key for `pid` (the last one before `i`
    in that cache that read the latest row) went through the duplicate fallback and adopted exactly (pid, pc); operation `i` then used
    the cached copy without another latest-key read."""
    cache = ctx.cache_of(sid)
    c2 = Ctx(case)
    last = None
    for j in range(i):
        op, ob = case["ops"][j], case["obs"][j]
        c2.feed(op, ob)
        if op["k"] not in ("encrypt", "decrypt"):
            continue
        s = op.get("s", 0)
        if s not in c2.sess or c2.cache_of(s) != cache:
            continue
        reads = [e for e in ev_list(ob) if e["k"] == "MLoadLatest" and (e.get("a") or [None])[0] == pid]
        if reads:
            a = reads[-1]["a"]
            last = finding_dup(ob, pid) and a[1] == "some" and a[2] == pc
    if any(e["k"] == "MLoadLatest" and (e.get("a") or [None])[0] == pid for e in ev_list(case["obs"][i])):
        return False
    return bool(last)


def mon_c01(cases):
    for ci, c in enumerate(cases):
        ctx = Ctx(c)
        recs = c.get("recs") or []
        for i, (op, ob) in enumerate(zip(c["ops"], c["obs"])):
            ctx.feed(op, ob)
            if ob.get("frame"):
                yield dict(what=ob["frame"], case=ci, op=i, finding=None)
            if op["k"] == "encrypt" and ob["r"] == "enc" and ob.get("refdec") != "ok":
                yield dict(what="record returned by encrypt does not decrypt in a fresh process: %s" % ob.get("refdec"), case=ci, op=i, finding=None)
            if op["k"] == "decrypt" and not op.get("muts") and not op.get("faults"):
                r = op.get("rec", 0)
                if r < len(recs) and recs[r]["part"] == ob.get("part"):
                    if not (ob["r"] == "dec" and ob.get("n") == recs[r]["payload"]):
                        yield dict(what="genuine record %d of this partition did not decrypt to its payload (result %s)" % (r, ob["r"]), case=ci, op=i, finding=None)


def mon_c02(cases):
    for ci, c in enumerate(cases):
        malformed = any("malformed" in t for t in c.get("tags") or [])
        for i, (op, ob) in enumerate(zip(c["ops"], c["obs"])):
            if ob["r"] == "stuck":
                # "a failed operation returns an error ... once the faults stop the next operation succeeds": an operation that never
                # returns does neither (the watchdog gave it 20 s of real time; nothing in these histories waits on a real clock)
                yield dict(what="%s never returned (wedged after the failures earlier in this history)" % op["k"], case=ci, op=i, finding=None)
                continue
            if op["k"] != "encrypt":
                continue
            if ob["r"] == "enc":
                if not ob.get("durable"):
                    yield dict(what="encrypt returned a record whose IK row or its SK row is not in the metastore", case=ci, op=i, finding=None)
                if ob.get("refdec") != "ok":
                    yield dict(what="a fresh process cannot decrypt the returned record: %s" % ob.get("refdec"), case=ci, op=i, finding=None)
            elif ob["r"] == "err" and not op.get("faults") and not malformed:
                yield dict(what="encrypt without any injected fault failed", case=ci, op=i, finding=None)
            elif ob["r"] == "panic":
                yield dict(what="encrypt panicked: %s" % ob.get("panicmsg"), case=ci, op=i, finding=None)


def mon_c03(cases):
    for ci, c in enumerate(cases):
        drk_used = {}
        for i, (op, ob) in enumerate(zip(c["ops"], c["obs"])):
            for l in ob.get("leaks") or []:
                yield dict(what="plaintext " + l, case=ci, op=i, finding=None)
            rands = set()
            for e in ev_list(ob):
                a = e.get("a") or []
                if e["k"] == "SRand" and a[1]:
                    rands.add(a[0])
                if e["k"] == "AEnc" and a[5]:
                    kk, kn, n, pk, pn = a[0], a[1], a[2], a[3], a[4]
                    if pk == "P":
                        if kk != "K" or kn not in rands:
                            yield dict(what="payload sealed under a key not generated in this operation", case=ci, op=i, finding=None)
                        if kn in drk_used:
                            yield dict(what="data key material %d used for two payload encryptions" % kn, case=ci, op=i, finding=None)
                        drk_used[kn] = i
                    if pk == "J" and op["k"] == "encrypt":
                        yield dict(what="unidentified bytes sealed during encrypt", case=ci, op=i, finding=None)
        if c.get("weaknonce"):
            yield dict(what=c["weaknonce"], case=ci, op=len(c["ops"]) - 1, finding=None)
        if c.get("sealdup"):
            yield dict(what="(key, nonce) pair used twice: %s" % c["sealdup"], case=ci, op=len(c["ops"]) - 1, finding=None)
        for w in c.get("kmsbad") or []:
            yield dict(what="KMS was handed something other than system-key material: %s" % w, case=ci, op=len(c["ops"]) - 1, finding=None)


def mon_c04(cases):
    for ci, c in enumerate(cases):
        ctx = Ctx(c)
        born_bad = set()      # intermediate keys a FAULTED operation stored under a system key that was already expired (finding DUP, form b)
        for i, (op, ob) in enumerate(zip(c["ops"], c["obs"])):
            ctx.feed(op, ob)
            if op["k"] != "encrypt":
                continue
            sid = op.get("s", 0)
            p = ctx.pol(sid)
            t = ob["now"]
            if op.get("faults"):
                for e in ev_list(ob):
                    a = e.get("a") or []
                    if e["k"] == "MStore" and hx(a[0]).startswith("_IK_") and a[2] is not None and a[3] * SEC + p["Expire"] < t:
                        born_bad.add((a[0], a[1]))
                continue          # the property is conditional on the metastore accepting writes
            for e in ev_list(ob):
                a = e.get("a") or []
                if e["k"] == "MStore" and hx(a[0]).startswith("_IK_") and a[2] is not None:
                    if a[3] * SEC + p["Expire"] < t:
                        yield dict(what="intermediate key created under a system key that is expired at that time", case=ci, op=i, finding=None)
            if ob["r"] != "enc":
                continue
            if ob["pc"] * SEC + p["Expire"] < t:
                yield dict(what="record names an intermediate key older than the key lifetime", case=ci, op=i, finding=None)
            ikp = ob.get("ikparent")
            if ikp and ikp[1] * SEC + p["Expire"] + p["RCI"] < t:
                f = "C04-IK" if finding_ik(c, ctx, i, sid, ob["pid"], ob["pc"], t, p["RCI"]) else (
                    "C04-DUP" if finding_dup(ob, ob["pid"]) or (ob["pid"], ob["pc"]) in born_bad or finding_dup_cached(c, ctx, i, sid, ob["pid"], ob["pc"]) else None)
                yield dict(what="intermediate key still used more than one revoke-check interval after its system key expired", case=ci, op=i, finding=f)


def mon_c05(cases):
    for ci, c in enumerate(cases):
        ctx = Ctx(c)
        revs = c.get("revs") or []
        recs = c.get("recs") or []
        parents = []          # per successful encrypt: (IK id, IK created), (SK id, SK created)
        born_bad = set()      # intermediate keys a FAULTED operation stored under a system key revoked more than two intervals before
        for i, (op, ob) in enumerate(zip(c["ops"], c["obs"])):
            ctx.feed(op, ob)
            if op["k"] == "encrypt" and op.get("faults"):
                pf = ctx.pol(op.get("s", 0))
                for e in ev_list(ob):
                    a = e.get("a") or []
                    if e["k"] == "MStore" and hx(a[0]).startswith("_IK_") and a[2] is not None and any(
                            rv["id"] == a[2] and rv["created"] == a[3] and ob["now"] > rv["at"] + 2 * pf["RCI"] for rv in revs):
                        born_bad.add((a[0], a[1]))
            if op["k"] == "encrypt" and ob["r"] == "enc":
                parents.append(((ob["pid"], ob["pc"]), tuple(ob.get("ikparent") or ())))
            # "Records written under the revoked key remain decryptable"
            if op["k"] == "decrypt" and not op.get("muts") and not op.get("faults"):
                r = op.get("rec", 0)
                if r < len(recs) and r < len(parents) and recs[r]["part"] == ob.get("part"):
                    hit = [rv for rv in revs if rv["at"] <= ob["now"] and (rv["id"], rv["created"]) in parents[r]]
                    if hit and not (ob["r"] == "dec" and ob.get("n") == recs[r]["payload"]):
                        yield dict(what="record %d, written under key %s (created %d) that was revoked later, no longer decrypts (result %s)" % (
                            r, hx(hit[0]["id"]), hit[0]["created"], ob["r"]), case=ci, op=i, finding=None)
            if op["k"] != "encrypt" or ob["r"] != "enc" or op.get("faults"):
                continue
            sid = op.get("s", 0)
            p = ctx.pol(sid)
            t = ob["now"]
            stamp = trunc_stamp(t, p["Precision"])
            for rv in revs:
                if rv["at"] > t:
                    continue
                if rv["id"] == ob["pid"] and rv["created"] == ob["pc"] and t > rv["at"] + p["RCI"] and stamp > ob["pc"]:
                    # not attributable to finding C05-IK: a decrypt-path (re)load made after the revocation copies the revoked flag
                    # onto the cached key, so the next encrypt does notice a revoked INTERMEDIATE key (the finding concerns its parent)
                    yield dict(what="record written under an intermediate key revoked more than one interval ago", case=ci, op=i, finding=None)
                ikp = ob.get("ikparent")
                # "provided a key with a later creation stamp can be created": a later system-key stamp is available, and either a later
                # intermediate-key stamp is too or this very operation created (and stored) the intermediate key it used
                made_here = any(e["k"] == "MStore" and (e.get("a") or [None])[0] == ob["pid"] and (e.get("a") or [None, None])[1] == ob["pc"]
                                and (e.get("a") or [None])[-1] is True for e in ev_list(ob))
                if ikp and rv["id"] == ikp[0] and rv["created"] == ikp[1] and t > rv["at"] + 2 * p["RCI"] and stamp > ikp[1] and (stamp > ob["pc"] or made_here):
                    f = "C05-IK" if finding_ik(c, ctx, i, sid, ob["pid"], ob["pc"], t, p["RCI"]) else (
                        "C05-DUP" if finding_dup(ob, ob["pid"]) or (ob["pid"], ob["pc"]) in born_bad or finding_dup_cached(c, ctx, i, sid, ob["pid"], ob["pc"]) else None)
                    yield dict(what="record written under an intermediate key whose system key was revoked more than two intervals ago", case=ci, op=i, finding=f)


def mon_c07(cases):
    for ci, c in enumerate(cases):
        recs = c.get("recs") or []
        for i, (op, ob) in enumerate(zip(c["ops"], c["obs"])):
            if ob["r"] == "panic":
                yield dict(what="operation %s panicked: %s" % (op["k"], ob.get("panicmsg")), case=ci, op=i, finding=None)
            if ob["r"] == "stuck":
                yield dict(what="operation %s never returned (20 s watchdog): the process is wedged" % op["k"], case=ci, op=i, finding=None)
            if op["k"] == "decrypt" and ob["r"] == "dec":
                src = op.get("rec", 0)
                for m in op.get("muts") or []:
                    if m["k"] == "datafrom":
                        src = m.get("j", 0)
                want = recs[src]["payload"] if src < len(recs) else None
                if ob.get("n") != want:
                    yield dict(what="decrypt returned bytes that are not the payload encrypted under the record's Data", case=ci, op=i, finding=None)


def dup_ik_store_before(c, upto):
    """Has some operation up to `upto` gone through createIntermediateKey's duplicate path (IK store refused,
    latest IK re-read)?  (finding J: the parent SK looked up there is never released)"""
    for ob in c["obs"][:upto + 1]:
        st = False
        for e in ev_list(ob):
            a = e.get("a") or []
            if e["k"] == "MStore" and hx(a[0]).startswith("_IK_") and a[4] is not True:
                st = True
            if st and e["k"] == "MLoadLatest" and hx(a[0]).startswith("_IK_"):
                return True
    return False


def sk_secrets(c):
    """ids of secrets holding system-key material (created right after a KMS call)."""
    out = set()
    for ob in c["obs"]:
        prev = None
        evs = ev_list(ob)
        for j, e in enumerate(evs):
            a = e.get("a") or []
            if e["k"] == "SNew" and prev == "KDec" and a[3]:
                out.add(a[0])
            if e["k"] == "SRand" and a[1] and j + 1 < len(evs) and evs[j + 1]["k"] == "KEnc":
                out.add(a[0])
            prev = e["k"]
    return out


def mon_c09(cases):
    for ci, c in enumerate(cases):
        ctx = Ctx(c)
        sks = None
        nocache_all = True
        for i, (op, ob) in enumerate(zip(c["ops"], c["obs"])):
            ctx.feed(op, ob)
            for e in ev_list(ob):
                if e["k"] == "SUseClosed":
                    yield dict(what="a released secret was accessed", case=ci, op=i, finding=None)
                if e["k"] == "SCloseAgain":
                    yield dict(what="a secret was released twice", case=ci, op=i, finding=None)
            if op["k"] == "newfactory":
                p = op["policy"]
                if p["CacheSK"] or p["CacheIK"] or p["CacheSessions"]:
                    nocache_all = False
            live = ob.get("live") or []
            leak = None
            if op["k"] in ("encrypt", "decrypt"):
                # data-key secrets of this operation must be gone
                created = [e["a"][0] for e in ev_list(ob) if e["k"] in ("SRand", "SNew") and e["a"][-1]]
                if nocache_all and live:
                    leak = ("with key caching disabled secrets %s are still live after the call" % live, live)
            if i == len(c["ops"]) - 1 and c.get("torn_down") and live:
                leak = ("secrets %s still live after every session and factory was closed" % live, live)
            if leak:
                if sks is None:
                    sks = sk_secrets(c)
                f = "C09-J" if set(leak[1]) <= sks and dup_ik_store_before(c, i) else None
                yield dict(what=leak[0], case=ci, op=i, finding=f)


def mon_c14(cases):
    """C14's end state on sequential histories in which KMS round trips take time (the clock crosses stamp boundaries while a key is being
    created): every returned record is under keys that are in the metastore and that another process can load."""
    for ci, c in enumerate(cases):
        for i, (op, ob) in enumerate(zip(c["ops"], c["obs"])):
            if op["k"] != "encrypt" or ob["r"] != "enc":
                continue
            if not ob.get("durable"):
                yield dict(what="encrypt returned a record under a key chain that is not in the metastore (the intermediate key row, or the system key row it names, is missing): "
                                "no other process can load it", case=ci, op=i, finding=None)
            elif ob.get("refdec") != "ok":
                yield dict(what="another process, holding only the metastore and the KMS, cannot decrypt the returned record: %s" % ob.get("refdec"), case=ci, op=i, finding=None)


def mon_c16(cases):
    """Session-cache histories with expiry under the virtual clock: holders keep working, every secret is released exactly once, nothing
    is left once every holder and the factory closed.  (System-key secrets leaked through the duplicate-store path are finding C09-J of
    property C09 and are not session resources: they are left to C09.)"""
    for ci, c in enumerate(cases):
        sks = None
        malformed = any("malformed" in t for t in c.get("tags") or [])
        for i, (op, ob) in enumerate(zip(c["ops"], c["obs"])):
            for e in ev_list(ob):
                if e["k"] == "SUseClosed":
                    yield dict(what="a key of a session was used after it had been released", case=ci, op=i, finding=None)
                if e["k"] == "SCloseAgain":
                    yield dict(what="a session's key was released twice", case=ci, op=i, finding=None)
            if ob["r"] in ("panic", "stuck"):
                yield dict(what="%s on a handed-out session %s" % (op["k"], "panicked: %s" % ob.get("panicmsg") if ob["r"] == "panic" else "never returned"), case=ci, op=i, finding=None)
            if op["k"] == "encrypt" and ob["r"] == "err" and not op.get("faults") and not malformed:
                yield dict(what="encrypt on a session its holder has not closed failed without any injected fault", case=ci, op=i, finding=None)
            live = ob.get("live") or []
            if i == len(c["ops"]) - 1 and c.get("torn_down") and live:
                if sks is None:
                    sks = sk_secrets(c)
                if not (set(live) <= sks and dup_ik_store_before(c, i)):
                    yield dict(what="secrets %s still live after every session and the factory were closed: a session that left the cache was never torn down" % live,
                               case=ci, op=i, finding=None)


def mon_c10(cases):
    for ci, c in enumerate(cases):
        for i, (op, ob) in enumerate(zip(c["ops"], c["obs"])):
            for u in ob.get("unwiped") or []:
                yield dict(what="plaintext key bytes left on the heap after the operation returned: " + u, case=ci, op=i, finding=None)


def mon_c20(cases):
    for ci, c in enumerate(cases):
        ctx = Ctx(c)
        revoked_any = bool(c.get("revs"))
        loads = {}     # (cache, key id, created) -> last load time
        kdec = {}      # (factory, sk id, created) -> last KMS unwrap time
        known = {}     # as loads, but forgotten whenever a faulted operation may have touched the caches (third clause)
        parents = []   # per successful encrypt: intermediate key (id, created) of the record
        for i, (op, ob) in enumerate(zip(c["ops"], c["obs"])):
            ctx.feed(op, ob)
            if op["k"] == "encrypt" and ob["r"] == "enc":
                parents.append((ob["pid"], ob["pc"]))
            if op["k"] in ("encrypt", "decrypt") and op.get("faults"):
                # a use after the interval whose re-read FAILED must fail: using the stale key anyway is the third clause broken
                pf = ctx.pol(op.get("s", 0))
                simple_f = pf["CacheSK"] and pf["CacheIK"] and pf["SKPol"] in ("", "simple") and pf["IKPol"] in ("", "simple")
                usedf = None
                if op["k"] == "encrypt" and ob["r"] == "enc":
                    usedf = (ob["pid"], ob["pc"])
                elif op["k"] == "decrypt" and ob["r"] == "dec" and not op.get("muts") and op.get("rec", 0) < len(parents):
                    usedf = parents[op.get("rec", 0)]
                if usedf is not None and simple_f and not revoked_any:
                    t0 = known.get((ctx.cache_of(op.get("s", 0)), usedf[0], usedf[1]))
                    reread_ok = any((e["k"] == "MLoad" and (e.get("a") or [None, None, None])[0] == usedf[0] and (e.get("a") or [None, None, None])[2] == "some") or
                                    (e["k"] == "MLoadLatest" and (e.get("a") or [None, None])[0] == usedf[0] and (e.get("a") or [None, None])[1] == "some")
                                    for e in ev_list(ob))
                    if t0 is not None and ob["now"] > t0 + pf["RCI"] and not reread_ok:
                        yield dict(what="intermediate key used %d ns after its last load (revoke-check interval %d ns) although its record could not be re-read (the failed re-read was swallowed)" % (
                            ob["now"] - t0, pf["RCI"]), case=ci, op=i, finding=None)
                known.clear()
            if op["k"] not in ("encrypt", "decrypt") or op.get("faults"):
                continue
            sid = op.get("s", 0)
            p = ctx.pol(sid)
            t = ob["now"]
            f = ctx.sess[sid][0]
            if not p["CacheSK"] and not p["CacheIK"] and not p["CacheSessions"]:
                if ob["r"] in ("enc", "dec") and not has_m_events(ob):
                    yield dict(what="with caching disabled an operation completed without reading the metastore (something was retained)", case=ci, op=i, finding=None)
                continue
            simple = p["CacheSK"] and p["CacheIK"] and p["SKPol"] in ("", "simple") and p["IKPol"] in ("", "simple")
            if not simple or revoked_any:
                continue
            # "after the interval the next use re-reads the key's record once before using it"
            used = None
            if op["k"] == "encrypt" and ob["r"] == "enc":
                used = (ob["pid"], ob["pc"])
            elif op["k"] == "decrypt" and ob["r"] == "dec" and not op.get("muts") and op.get("rec", 0) < len(parents):
                used = parents[op.get("rec", 0)]
            if used is not None:
                ukey = (ctx.cache_of(sid), used[0], used[1])
                t0 = known.get(ukey)
                reread = any(e["k"] in ("MLoad", "MLoadLatest") and (e.get("a") or [None])[0] == used[0] for e in ev_list(ob))
                if t0 is not None and t > t0 + p["RCI"] and not reread:
                    yield dict(what="intermediate key used %d ns after its last load (revoke-check interval %d ns) without re-reading its record from the metastore" % (
                        t - t0, p["RCI"]), case=ci, op=i, finding=None)
            prev = None
            adopted_latest = {}
            for e in ev_list(ob):
                a = e.get("a") or []
                if e["k"] == "MLoad" and a[2] == "some" or e["k"] == "MLoadLatest" and a[1] == "some":
                    cr = a[1] if e["k"] == "MLoad" else a[2]
                    known[(ctx.cache_of(sid) if hx(a[0]).startswith("_IK_") else ("f", f), a[0], cr)] = t
                if e["k"] == "MStore" and a[-1] is True and ob["r"] == "enc":
                    known[(ctx.cache_of(sid) if hx(a[0]).startswith("_IK_") else ("f", f), a[0], a[1])] = t
                if e["k"] == "KDec" and a[0] and prev is not None:
                    key = (f,) + prev
                    if key in kdec and t <= kdec[key] + p["RCI"] and prev[1] * SEC + p["Expire"] >= t:
                        yield dict(what="system key unwrapped by the KMS twice within one revoke-check interval in one factory", case=ci, op=i, finding=None)
                    kdec[key] = t
                if e["k"] == "MLoad" and a[2] == "some":
                    prev = (a[0], a[1])
                    key = (ctx.cache_of(sid) if hx(a[0]).startswith("_IK_") else ("f", f), a[0], a[1])
                    if key in loads and t <= loads[key] + p["RCI"] and a[1] * SEC + p["Expire"] >= t:
                        yield dict(what="key record re-read from the metastore within one revoke-check interval of its last load", case=ci, op=i, finding=None)
                    loads[key] = t
                elif e["k"] == "MLoadLatest" and a[1] == "some":
                    prev = (a[0], a[2])
                    key = (ctx.cache_of(sid) if hx(a[0]).startswith("_IK_") else ("f", f), a[0], a[2])
                    if key in loads and t <= loads[key] + p["RCI"] and a[2] * SEC + p["Expire"] >= t:
                        yield dict(what="latest key re-read from the metastore within one revoke-check interval of its last load", case=ci, op=i, finding=None)
                    loads[key] = t
                    adopted_latest[a[0]] = key
                elif e["k"] in ("MLoad", "MLoadLatest", "MStore"):
                    prev = None
                    # a new key of this id is created in the same operation: the latest row read before was rejected (e.g. its parent
                    # system key is expired) and never entered the cache, so a later first use of it is not a "repeat"
                    if e["k"] == "MStore" and a[0] in adopted_latest:
                        loads.pop(adopted_latest.pop(a[0]), None)
                    # a key this operation created and stored enters the cache now: reading it back from the metastore within the
                    # interval is a repeat just as for a loaded key
                    if e["k"] == "MStore" and a[-1] is True and ob["r"] == "enc":
                        loads[(ctx.cache_of(sid) if hx(a[0]).startswith("_IK_") else ("f", f), a[0], a[1])] = t


MONITORS = {"C01": mon_c01, "C02": mon_c02, "C03": mon_c03, "C04": mon_c04, "C05": mon_c05, "C07": mon_c07,
            "C09": mon_c09, "C10": mon_c10, "C14": mon_c14, "C16": mon_c16, "C20": mon_c20}

# which trace projections must agree with the model for each property (see Cases/EnvRun.v)
MASK = {"C01": 1, "C02": 1 | 2, "C03": 4 | 8 | 16, "C04": 1 | 2, "C05": 1 | 2, "C07": 1, "C09": 16 | 32, "C10": 1 | 16, "C16": 16 | 32, "C20": 2 | 4}


def nontrivial(prop, c):
    """Did this history reach the property's interesting state?"""
    ops, obs = c["ops"], c["obs"]
    if prop == "C01":
        return sum(1 for o, b in zip(ops, obs) if o["k"] == "decrypt" and b["r"] == "dec") >= 2 and any(o["k"] in ("advance", "revoke", "closefactory") for o in ops)
    if prop == "C02":
        return any(o["k"] == "encrypt" and o.get("faults") for o in ops)
    if prop == "C03":
        return sum(1 for b in obs if b["r"] == "enc") >= 3
    if prop == "C04":
        pol = next(o["policy"] for o in ops if o["k"] == "newfactory")
        return sum(o.get("d", 0) for o in ops if o["k"] == "advance") > pol["Expire"] and any(b["r"] == "enc" for b in obs)
    if prop == "C05":
        return bool(c.get("revs")) and any(b["r"] == "enc" and b["now"] > c["revs"][0]["at"] for b in obs)
    if prop == "C07":
        return any(o["k"] == "decrypt" and o.get("muts") for o in ops) or any(o["k"] in ("dropparent", "corruptkey") for o in ops)
    if prop == "C09":
        return any(o["k"] == "closefactory" for o in ops) and sum(1 for b in obs if b["r"] in ("enc", "dec")) >= 3
    if prop == "C10":
        return sum(1 for b in obs for e in ev_list(b) if e["k"] in ("ADec", "KDec")) >= 4
    if prop == "C20":
        return sum(1 for b in obs if b["r"] in ("enc", "dec") and not has_m_events(b)) >= 2
    return True


def summarize_case(c, upto=None, width=14):
    ops = c["ops"] if upto is None else c["ops"][:upto + 1]
    return {"cfg": c.get("cfg"), "t0": c["t0"], "ops": ops[-width:], "results": [o["r"] for o in c["obs"][:len(ops)]][-width:]}


def shrink_ops(case, i):
    """The failing prefix is the replay (histories are deterministic given the op list)."""
    return {"T0": case["t0"], "Cfg": case.get("cfg"), "Tags": case.get("tags"), "Ops": case["ops"][:i + 1],
            "torn_down": bool(case.get("torn_down")) and i == len(case["ops"]) - 1}


def finish_env(ck, prop, cases, rule, extra_tb=(), corr=True, mask=None):
    """Monitors + correspondence + evidence + verdicts for one envelope property."""
    listed = {f["id"] for f in vlib.known_findings()["findings"]}
    viols, known = [], {}
    for v in MONITORS[prop](cases):
        if v["finding"] and v["finding"] in listed:
            known.setdefault(v["finding"], []).append(v)
        else:
            viols.append(v)
    diffs, errs = {}, []
    if corr:
        diffs, errs, dt = envterms.eval_cases(prop.lower(), cases)
        for e in errs:
            ck.oblige(False, "correspondence-eval", e)
    m = MASK[prop] if mask is None else mask
    bad = {i: d for i, d in diffs.items() if d[1] & m}
    other = {i: d for i, d in diffs.items() if not (d[1] & m)}
    if corr:
        ck.oblige(not bad and not errs, "correspondence model=impl on %d histories (projection %s)" % (
            len(cases), "+".join(v for k, v in envterms.MASKS.items() if k & m)),
            json.dumps([{"case": summarize_case(cases[i], d[0]), "first_diff_op": d[0],
                         "differs_in": [v for k, v in envterms.MASKS.items() if k & d[1]]} for i, d in list(bad.items())[:2]])[:6000])
    nt = set()
    cells = {}
    opk = {}
    for c in cases:
        cells[c.get("cfg", "?")] = cells.get(c.get("cfg", "?"), 0) + 1
        for o in c["ops"]:
            opk[o["k"]] = opk.get(o["k"], 0) + 1
        if nontrivial(prop, c):
            nt.add(json.dumps(c["ops"], sort_keys=True))
    ck.cov.update({
        "evaluations": len(cases), "distinct_nontrivial": len(nt), "rule": rule,
        "ops_total": sum(len(c["ops"]) for c in cases), "op_kinds": opk, "config_cells": cells,
        "faulted_ops": sum(1 for c in cases for o in c["ops"] if o.get("faults")),
        "traces_validated_against_impl": len(cases) - len(bad),
        "diverging_outside_projection": len(other),
        "known_finding_hits": {k: len(v) for k, v in known.items()},
        "samples": [summarize_case(c) for c in cases[:2]],
    })
    ck.cov["trusted_base"] += list(extra_tb) + [
        "symbolic AEAD/KMS (Dolev-Yao): AES-256-GCM correctness + ciphertext integrity and uniqueness of crypto/rand output are assumed; "
        "the harness runs the real AES-GCM and StaticKMS",
        "time.Now is redirected to a virtual clock by a build-time overlay generated from /repo's current files",
    ]
    for fid, vs in known.items():
        f = next(x for x in vlib.known_findings()["findings"] if x["id"] == fid)
        ck.known_finding("%s: %s (%d generated histories hit it)" % (fid, f["what"], len(vs)))
    if viols:
        v = viols[0]
        ck.violation(ck.replay_file("impl", {"what": v["what"], "failing_op": v["op"], "Case": shrink_ops(cases[v["case"]], v["op"]),
                                             "observed": cases[v["case"]]["obs"][v["op"]], "more": len(viols) - 1}))
    elif bad:
        i, d = next(iter(bad.items()))
        ck.violation(ck.replay_file("corr", {"obligation": "%s correspondence (Cases/EnvRun.case_diff)" % prop, "first_diff_op": d[0],
                                             "differs_in": [v for k, v in envterms.MASKS.items() if k & d[1]],
                                             "Case": shrink_ops(cases[i], d[0]), "observed": cases[i]["obs"][d[0]]}), False)
    elif ck.discharged != ck.obligations and not ck.violations:
        ck.violation(ck.replay_file("oblig", {"obligation": ck.cov.get("failed_obligations")}), False)
    return ck.finish()
