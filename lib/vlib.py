"""Shared machinery for ./check: Coq build, Print Assumptions, Go harness build with the
verification overlay, evidence files, verdict lines."""
import fcntl, hashlib, json, os, re, shutil, subprocess, sys, time

ROOT = os.path.dirname(os.path.dirname(os.path.abspath(__file__)))
REPO = os.environ.get("VERIF_REPO", "/repo")
BUILD = os.path.join(ROOT, ".build")
COQ = os.path.join(ROOT, "coq")
HARNESS = os.path.join(ROOT, "harness")
APPENC = os.path.join(REPO, "go/appencryption")
SECMEM = os.path.join(REPO, "go/securememory")
SERVER = os.path.join(REPO, "server/go")

GOENV = dict(os.environ, GOFLAGS="-mod=mod", GOPROXY="off", GOSUMDB="off",
             GOTOOLCHAIN="local", GOWORK="off", CGO_ENABLED=os.environ.get("CGO_ENABLED", "0"))

os.makedirs(BUILD, exist_ok=True)


def log(*a):
    print(*a, file=sys.stderr, flush=True)


class Lock:
    def __init__(self, name):
        self.path = os.path.join(BUILD, name + ".lock")

    def __enter__(self):
        self.f = open(self.path, "w")
        fcntl.flock(self.f, fcntl.LOCK_EX)
        return self

    def __exit__(self, *a):
        fcntl.flock(self.f, fcntl.LOCK_UN)
        self.f.close()


def run(cmd, cwd=None, env=None, timeout=600, stdin=None):
    t0 = time.time()
    try:
        p = subprocess.run(cmd, cwd=cwd, env=env, timeout=timeout, input=stdin,
                           stdout=subprocess.PIPE, stderr=subprocess.PIPE, text=True)
        return p.returncode, p.stdout, p.stderr, time.time() - t0
    except subprocess.TimeoutExpired as e:
        out = e.stdout.decode() if isinstance(e.stdout, bytes) else (e.stdout or "")
        err = e.stderr.decode() if isinstance(e.stderr, bytes) else (e.stderr or "")
        return 124, out, err + "\nTIMEOUT", time.time() - t0


# ---------------------------------------------------------------------------- Coq

FORBIDDEN = re.compile(r"\b(Admitted|admit|Axiom|Axioms|Parameter|Parameters|Conjecture|Conjectures|"
                       r"Admit Obligations|Unset Guard Checking|Unset Positivity Checking|"
                       r"Unset Universe Checking|bypass_check|native_compute)\b")


def coq_hygiene():
    """No axioms, no admits, no disabled checks anywhere in the development."""
    bad = []
    for dp, _, fs in os.walk(COQ):
        for f in fs:
            if not f.endswith(".v"):
                continue
            p = os.path.join(dp, f)
            txt = open(p).read()
            # strip comments (non-nested good enough: we never nest)
            txt2 = re.sub(r"\(\*.*?\*\)", "", txt, flags=re.S)
            for m in FORBIDDEN.finditer(txt2):
                bad.append("%s: %s" % (os.path.relpath(p, ROOT), m.group(0)))
            for m in re.finditer(r"^\s*(Variable|Variables|Hypothesis|Hypotheses|Context)\b", txt2, flags=re.M):
                # allowed only inside a Section
                pre = txt2[:m.start()]
                if pre.count("Section ") <= len(re.findall(r"\bEnd\s+\w+\.", pre)) - pre.count("Module "):
                    bad.append("%s: %s outside section" % (os.path.relpath(p, ROOT), m.group(1)))
    return bad


def coq_build(timeout=3000):
    """Full .vo build of the development (no -vos)."""
    with Lock("coq"):
        if not os.path.exists(os.path.join(COQ, "Makefile")) or \
           os.path.getmtime(os.path.join(COQ, "Makefile")) < os.path.getmtime(os.path.join(COQ, "_CoqProject")):
            rc, out, err, _ = run(["coq_makefile", "-f", "_CoqProject", "-o", "Makefile"], cwd=COQ)
            if rc != 0:
                return False, out + err
        rc, out, err, dt = run(["make", "-j16"], cwd=COQ, timeout=timeout)
        return rc == 0, out + err


def print_assumptions(prop):
    """Recompile Properties/<prop>.v and return (theorem names, list of assumption reports, ok, raw)."""
    src = os.path.join(COQ, "Properties", prop + ".v")
    names = re.findall(r"^\s*Theorem\s+(\w+)", open(src).read(), flags=re.M)
    outdir = os.path.join(BUILD, "pa")
    os.makedirs(outdir, exist_ok=True)
    rc, out, err, _ = run(["coqc", "-Q", ".", "Asherah", "-o", os.path.join(outdir, prop + ".vo"), src],
                          cwd=COQ, timeout=900)
    reports = []
    cur = None
    for line in out.splitlines():
        if line.startswith("Closed under the global context"):
            reports.append("Closed under the global context")
            cur = None
        elif line.startswith("Axioms:"):
            cur = ["Axioms:"]
            reports.append(cur)
        elif cur is not None and line.strip():
            cur.append(line.rstrip())
    reports = [r if isinstance(r, str) else "\n".join(r) for r in reports]
    return names, reports, rc == 0, out + err


def coq_eval(name, text, timeout=900):
    """Compile a generated .v file (cases) against the development; return (rc, stdout+stderr)."""
    d = os.path.join(BUILD, "cases")
    os.makedirs(d, exist_ok=True)
    path = os.path.join(d, name + ".v")
    with open(path, "w") as f:
        f.write(text)
    rc, out, err, dt = run(["coqc", "-Q", COQ, "Asherah", "-w", "none", path], cwd=d, timeout=timeout)
    return rc, out + err, dt


# ---------------------------------------------------------------------------- overlay + Go

CLOCK_FILES = {
    "appencryption": ["envelope.go", "key_cache.go", "policy.go", "session.go", "session_cache.go"],
    "internal": ["internal/key.go"],
    "cache": ["pkg/cache/cache.go"],
}

HOOK_APPENC = '''//go:build verif

package appencryption

import (
	"time"

	"github.com/godaddy/asherah/go/appencryption/internal"
)

// VerifSetNow replaces the clock read by the SDK (verification builds only).
func VerifSetNow(f func() time.Time) { internal.VerifNowFn = f }

func verifNow() time.Time { return internal.VerifNow() }

// VerifKeyIDs returns the system-key and intermediate-key ids the SDK derives for a partition (suffix "" = no region suffix).
func VerifKeyIDs(partition, service, product, suffix string) (string, string) {
	if suffix != "" {
		p := newSuffixedPartition(partition, service, product, suffix)
		return p.SystemKeyID(), p.IntermediateKeyID()
	}
	p := newPartition(partition, service, product)
	return p.SystemKeyID(), p.IntermediateKeyID()
}
'''

HOOK_INTERNAL = '''//go:build verif

package internal

import "time"

// VerifNowFn is the clock used by verification builds.
var VerifNowFn func() time.Time = time.Now

// VerifNow returns the current (possibly virtual) time.
func VerifNow() time.Time { return VerifNowFn() }
'''

HOOK_PROTECTED = '''//go:build verif

package protectedmemory

import (
	"github.com/godaddy/asherah/go/securememory"
	"github.com/godaddy/asherah/go/securememory/internal/memcall"
)

// VerifMemcall mirrors the unexported memcall.Interface so a harness can interpose on it.
type VerifMemcall = memcall.Interface

// NewSecretFactoryWithMemcall returns a factory whose secrets use mc for every memory primitive.
func NewSecretFactoryWithMemcall(mc memcall.Interface) *SecretFactory { return &SecretFactory{mc: mc} }

// VerifCreateRandom runs createRandom with a caller-supplied random source.
func (f *SecretFactory) VerifCreateRandom(size int, fill func([]byte) (int, error)) (securememory.Secret, error) {
	return f.createRandom(size, fill)
}

// VerifDefaultMemcall returns the real memcall implementation.
func VerifDefaultMemcall() memcall.Interface { return memcall.Default }
'''

YIELD_FILES = {
    # package key -> (directory under REPO, files, hook expression)
    "appencryption": ("go/appencryption", ["key_cache.go", "session_cache.go"], "verifYield"),
    "cache": ("go/appencryption/pkg/cache", ["cache.go"], "verifYield"),
    "protectedmemory": ("go/securememory/protectedmemory", ["secret.go"], "verifYield"),
    "memguard": ("go/securememory/memguard", ["secret.go"], "verifYield"),
    "persistence": ("go/appencryption/pkg/persistence", ["memory.go"], "verifYield"),
}

YIELD_RE = re.compile(r"^(\s*)([\w.]+\.(?:Lock|RLock)\(\)|[\w.]+\.Wait\(\)|key\.increment\(\)|if c\.refs\.Add\(-1\) > 0 \{|c\.refs\.Add\(1\))\s*$")


# an explicit (non-deferred) Unlock statement ends a critical section early: yield right AFTER it, so that the window it opens
# is explored as well (the pinned code releases its locks with defer, so this adds no yield point there)
UNLOCK_RE = re.compile(r"^(\s*)([\w.]+\.(?:Unlock|RUnlock)\(\))\s*$")


def instrument_yields(src, name):
    out = []
    for i, line in enumerate(src.split("\n"), 1):
        m = YIELD_RE.match(line)
        if m and not line.lstrip().startswith("defer"):
            what = re.sub(r"[^A-Za-z.()]", "", m.group(2))[:24]
            out.append('%sverifYield("%s:%d %s")' % (m.group(1), name, i, what))
        out.append(line)
        u = UNLOCK_RE.match(line)
        if u:
            out.append('%sverifYield("%s:%d after %s")' % (u.group(1), name, i, re.sub(r"[^A-Za-z.()]", "", u.group(2))[:24]))
    return "\n".join(out)


HOOK_YIELD = '''//go:build verif

package %s

// verifYield is called at every synchronisation point inserted by the verification overlay.
var verifYield = func(string) {}

// VerifSetYield installs the schedule controller's hook (verification builds only).
func VerifSetYield(f func(string)) {
	if f == nil {
		f = func(string) {}
	}
	verifYield = f
}
'''

HOOK_KMSV1 = '''//go:build verif

package kms

import "github.com/godaddy/asherah/go/appencryption"

// VerifNewAWS builds an AWSKMS from explicit regional clients through the same ordering step as NewAWS.
func VerifNewAWS(crypto appencryption.AEAD, preferredRegion string, clients []AWSKMSClient) *AWSKMS {
	return &AWSKMS{Crypto: crypto, Clients: sortClients(preferredRegion, clients)}
}
'''

HOOK_MEMGUARD = '''//go:build verif

package memguard

import (
	"github.com/godaddy/asherah/go/securememory/internal/memcall"
)

// NewSecretFactoryWithMemcall returns a factory whose secrets use mc for Protect calls.
func NewSecretFactoryWithMemcall(mc memcall.Interface) *SecretFactory { return &SecretFactory{mc: mc} }
'''


def make_overlay(tag="ov"):
    """Build the -overlay file set from the CURRENT /repo working tree.  Mechanical edits only:
    time.Now() -> virtual clock; added files exporting test-only constructors."""
    d = os.path.join(BUILD, "%s-%d" % (tag, os.getpid()))
    shutil.rmtree(d, ignore_errors=True)
    os.makedirs(d)
    repl = {}
    n = 0
    done = set()

    def put(target, text):
        nonlocal n
        n += 1
        p = os.path.join(d, "%03d_%s" % (n, os.path.basename(target)))
        with open(p, "w") as f:
            f.write(text)
        repl[target] = p

    for kind, files in CLOCK_FILES.items():
        for rel in files:
            src = os.path.join(APPENC, rel)
            if not os.path.exists(src):
                continue
            txt = open(src).read()
            if "time.Now()" not in txt:
                continue
            if kind == "appencryption":
                txt = txt.replace("time.Now()", "verifNow()")
            elif kind == "internal":
                txt = txt.replace("time.Now()", "VerifNow()")
            else:
                txt = txt.replace("time.Now()", "verifinternal.VerifNow()")
                txt = re.sub(r'import \(\n', 'import (\n\tverifinternal "github.com/godaddy/asherah/go/appencryption/internal"\n',
                             txt, count=1)
            txt += "\nvar _ = time.Now\n"
            if os.path.basename(rel) in ("key_cache.go", "session_cache.go", "cache.go"):
                txt = instrument_yields(txt, os.path.basename(rel))
            put(src, txt)
            done.add(src)
    for pkg, (d0, files, _) in YIELD_FILES.items():
        base = os.path.join(REPO, d0)
        if not os.path.isdir(base):
            continue
        for f in files:
            src = os.path.join(base, f)
            if src in done or not os.path.exists(src):
                continue
            put(src, instrument_yields(open(src).read(), f))
        put(os.path.join(base, "verif_yield.go"), HOOK_YIELD % {"appencryption": "appencryption", "cache": "cache", "protectedmemory": "protectedmemory", "memguard": "memguard", "persistence": "persistence"}[pkg])
    put(os.path.join(APPENC, "verif_hooks.go"), HOOK_APPENC)
    put(os.path.join(APPENC, "internal/verif_clock.go"), HOOK_INTERNAL)
    if os.path.isdir(os.path.join(SECMEM, "protectedmemory")):
        put(os.path.join(SECMEM, "protectedmemory/verif_hooks.go"), HOOK_PROTECTED)
    if os.path.isdir(os.path.join(SECMEM, "memguard")):
        put(os.path.join(SECMEM, "memguard/verif_hooks.go"), HOOK_MEMGUARD)
    if os.path.isdir(os.path.join(APPENC, "plugins/aws-v1/kms")):
        put(os.path.join(APPENC, "plugins/aws-v1/kms/verif_hooks.go"), HOOK_KMSV1)
    ov = os.path.join(d, "overlay.json")
    with open(ov, "w") as f:
        json.dump({"Replace": repl}, f, indent=1)
    return d, ov


def go_build(cmd, extra_tags=(), race=False):
    """Build harness/cmd/<cmd> against /repo's current tree with the overlay.  Returns (binary, ok, log)."""
    d, ov = make_overlay("ov-" + cmd)
    try:
        out = os.path.join(BUILD, "bin", "%s-%d" % (cmd, os.getpid()))
        os.makedirs(os.path.dirname(out), exist_ok=True)
        tags = ",".join(("verif",) + tuple(extra_tags))
        args = ["go", "build", "-overlay", ov, "-tags", tags, "-o", out]
        scratch = None
        if os.environ.get("VERIF_COVER"):
            # tools/coverage.sh: coverage of the implementation under the generated cases (GOCOVERDIR is inherited by the runs).
            # `go build -cover` cannot read -overlay files, so the overlay is materialised in a scratch copy of the sources.
            scratch = "/tmp/verif-cover-src-%d" % os.getpid()
            shutil.rmtree(scratch, ignore_errors=True)
            os.makedirs(scratch)
            run(["rsync", "-a", "--exclude", ".git", os.path.join(REPO, "go"), os.path.join(REPO, "server"), scratch + "/"])
            for target, src in json.load(open(ov))["Replace"].items():
                dest = scratch + target[len(REPO):]
                os.makedirs(os.path.dirname(dest), exist_ok=True)
                shutil.copy(src, dest)
            mod = open(os.path.join(HARNESS, "go.mod")).read().replace("=> " + REPO + "/", "=> " + scratch + "/")
            open(os.path.join(scratch, "cover.mod"), "w").write(mod)
            shutil.copy(os.path.join(HARNESS, "go.sum"), os.path.join(scratch, "cover.sum"))
            rc0, so0, se0, _ = run(["go", "list", "-modfile", os.path.join(scratch, "cover.mod"), "-tags", tags, "-deps", "./cmd/" + cmd],
                                   cwd=HARNESS, env=dict(GOENV), timeout=300)
            pk = ",".join(["verif/harness/..."] + [l for l in so0.split() if "godaddy/asherah" in l])   # the main module must be listed too
            args = ["go", "build", "-modfile", os.path.join(scratch, "cover.mod"), "-cover", "-coverpkg=" + pk, "-tags", tags, "-o", out]
        env = dict(GOENV)
        if race:
            args.insert(2, "-race")
            env["CGO_ENABLED"] = "1"
        args.append("./cmd/" + cmd)
        rc, so, se, dt = run(args, cwd=HARNESS, env=env, timeout=900)
        if scratch:
            shutil.rmtree(scratch, ignore_errors=True)
        return out, rc == 0, so + se
    finally:
        shutil.rmtree(d, ignore_errors=True)


# ---------------------------------------------------------------------------- evidence / verdicts

TRUSTED_COMMON = [
    "Coq 8.16.1 kernel (coqc, full .vo build) incl. its VM (vm_compute used in reflexive steps); no native_compute",
    "hand-written Gallina model tied to /repo by differential execution in the Go harness (testing, not proof)",
    "Go harness, spies/fakes, canonicaliser and generators under /verif/harness",
]


def known_findings():
    p = os.path.join(ROOT, "known_findings.json")
    if not os.path.exists(p):
        return {"findings": [], "fixed": []}
    return json.load(open(p))


class Check:
    def __init__(self, prop, tier, seed):
        self.prop, self.tier, self.seed = prop, tier, seed
        self.t0 = time.time()
        self.violations = []     # (replay_path, suffix)
        self.known = []
        self.cov = {"samples": [], "trusted_base": list(TRUSTED_COMMON)}
        self.assumptions = []
        self.obligations = 0
        self.discharged = 0
        self.replay_dir = os.path.join(BUILD, "replay")
        os.makedirs(self.replay_dir, exist_ok=True)

    def replay_file(self, name, content):
        p = os.path.join(self.replay_dir, "%s_%s_%s.json" % (self.prop, name, self.seed))
        with open(p, "w") as f:
            json.dump(content, f, indent=1, default=str)
        return p

    def oblige(self, ok, name, detail=None):
        """Record one proof/correspondence obligation."""
        self.obligations += 1
        if ok:
            self.discharged += 1
        else:
            self.cov.setdefault("failed_obligations", []).append({"name": name, "detail": (detail or "")[:4000]})
        return ok

    def violation(self, replay, found_input=True):
        self.violations.append((replay, "" if found_input else " no-failing-input-found"))

    def known_finding(self, what):
        self.known.append(what)

    def coq_theorems(self):
        """Build the development, collect Print Assumptions for this property's theorems."""
        bad = coq_hygiene()
        self.oblige(not bad, "coq-hygiene", "; ".join(bad))
        ok, out = coq_build()
        self.oblige(ok, "coq-make", out[-3000:])
        if not ok:
            return False
        names, reports, ok2, raw = print_assumptions(self.prop)
        self.cov["theorems"] = names
        self.cov["print_assumptions"] = reports
        for i, nme in enumerate(names):
            good = ok2 and i < len(reports)
            self.oblige(good, "theorem " + nme, raw[-2000:] if not good else None)
        axioms = sorted(set(r for r in reports if r != "Closed under the global context"))
        self.cov["trusted_base"].append("Print Assumptions: " + ("Closed under the global context (all %d theorems)" % len(names)
                                        if not axioms and ok2 else "; ".join(axioms) or "unavailable"))
        return ok and ok2

    def finish(self, level=None, extra_assumptions=()):
        cov = self.cov
        if level is None:
            level = "proof" if cov.get("theorems") else "exploration"
        cov["obligations"] = self.obligations
        cov["discharged"] = self.discharged
        cov.setdefault("checker_cmd", "make -C coq (coqc 8.16.1, full .vo) && coqc Properties/%s.v && coqc generated cases" % self.prop)
        cov.setdefault("evaluations", 0)
        cov.setdefault("distinct_nontrivial", 0)
        ev = {"property_id": self.prop, "tier": self.tier, "seed": self.seed, "level": level,
              "coverage": cov, "assumptions": list(extra_assumptions) + self.assumptions,
              "wall_s": round(time.time() - self.t0, 2), "violations": len(self.violations),
              "known_findings_reported": self.known}
        os.makedirs(os.path.join(ROOT, "evidence"), exist_ok=True)
        with open(os.path.join(ROOT, "evidence", self.prop + ".json"), "w") as f:
            json.dump(ev, f, indent=1, default=str)
        for k in self.known:
            print("KNOWN-FINDING: property=%s %s" % (self.prop, k))
        for rp, suf in self.violations:
            print("VIOLATION property=%s replay=%s%s" % (self.prop, rp, suf))
        sys.stdout.flush()
        return 1 if self.violations else 0


def coq_str(sv):
    """Render a Python str/bytes as a Coq [str] term."""
    b = sv.encode("latin-1") if isinstance(sv, str) else bytes(sv)
    if all(32 <= c < 127 for c in b):
        return '(s "%s")' % b.decode("latin-1").replace('"', '""')
    return "[" + "; ".join("ascii_of_N %d" % c for c in b) + "]"


def coq_mismatches(name, prelude, elem_type, terms, mism_fn, shard=400, timeout=1200, workers=12):
    """Evaluate [mism_fn 0 cases] inside Coq over shards of [terms] in parallel.
    Returns (list of global indices that mismatch, list of error texts, seconds)."""
    from concurrent.futures import ThreadPoolExecutor
    jobs = []
    for i in range(0, len(terms), shard):
        part = terms[i:i + shard]
        txt = prelude + "\nDefinition cases : list (%s) := [\n%s].\n" % (elem_type, ";\n".join(part))
        txt += "Definition M := Eval vm_compute in %s 0%%nat cases.\nPrint M.\n" % mism_fn
        jobs.append((i, txt))
    t0 = time.time()
    bad, errs = [], []

    def one(job):
        i, txt = job
        rc, out, dt = coq_eval("%s_%d_%d" % (name, os.getpid(), i), txt, timeout=timeout)
        flat = " ".join(out.split())
        if rc != 0 or "M = " not in flat:
            return i, None, out[-3000:]
        body = flat.split("M = ", 1)[1].split(" : list nat")[0].strip().replace("%nat", "")
        if not re.fullmatch(r"\[\s*(\d+(\s*;\s*\d+)*)?\s*\]", body):
            return i, None, "unexpected shape of the evaluated mismatch list: " + out[-1500:]
        idx = [int(t) for t in re.findall(r"\d+", body)]
        return i, idx, None

    with ThreadPoolExecutor(max_workers=workers) as ex:
        for i, idx, e in ex.map(one, jobs):
            if e is not None:
                errs.append(e)
            else:
                bad += [i + k for k in idx]
    # clean generated files
    d = os.path.join(BUILD, "cases")
    for f in os.listdir(d):
        if f.startswith("%s_%d_" % (name, os.getpid())) or f.startswith(".%s_%d_" % (name, os.getpid())):
            try:
                os.remove(os.path.join(d, f))
            except OSError:
                pass
    return bad, errs, time.time() - t0
