"""Shared by C11 and C12: secure-memory harness cases vs the Secret.v model."""
import json
import vlib, envcheck


def b(x):
    return "true" if x else "false"


def op_term(o):
    plan = "[" + "; ".join("%d%%nat" % p for p in (o.get("plan") or [])) + "]"
    k = o["k"]
    if k == "new":
        t = "MNew (%d)" % o.get("size", 0)
    elif k == "random":
        t = "MRandom (%d)" % o.get("size", 0)
    elif k == "with":
        # a callback that panics leaves WithBytes like one that returns an error (the release is deferred): same model step
        t = "MWith %d %s" % (o.get("depth", 0), b(o.get("err", False) or o.get("panic", False)))
    elif k == "close":
        t = "MClose"
    else:
        t = "MIsClosed"
    return "(%s, %s)" % (t, plan)


def obs_term(o):
    ev = "[" + "; ".join("(%d%%nat, %s, %s)" % (e["c"], b(e["ok"]), b(e["dirty"])) for e in (o.get("ev") or [])) + "]"
    return "(%d%%nat, %s, %s, %s, %d%%nat, (%d))" % (o["r"], ev, b(o["mapped"]), b(o["locked"]), o["prot"], o.get("counter", 0))


def well_formed(c):
    """The model follows one secret per case: creation first, nothing but failures after a failed creation."""
    return c["impl"] == "protectedmemory" and c["ops"] and c["ops"][0]["k"] in ("new", "random") and c["obs"][0]["r"] == 0


def run(ck, prop, tier, seed, replay):
    if replay:
        runs = [["-replay", replay]]
    elif prop == "C11":
        runs = [["-seed", str(seed), "-n", "900" if tier == "quick" else "9000"]]
    else:
        runs = [["-seed", str(seed), "-n", "900" if tier == "quick" else "9000", "-x", "faults"], ["-x", "sweep"]]
    cases = envcheck.run_harness(ck, "mem", runs)
    if cases is None:
        return None
    if prop == "C11" and not replay:
        # "gone on Close" also after a Close that a failing primitive interrupted: the faulted histories of C12, judged here by that clause alone
        fcases = envcheck.run_harness(ck, "mem", [["-seed", str(seed + 3), "-n", "600" if tier == "quick" else "6000", "-x", "faults"]])
        if fcases is None:
            return None
        c11_clauses = ("still mapped", "did not see the original bytes")   # "gone on Close", "readers always see the original bytes"
        gone = [c for c in fcases if any(k in v for v in c.get("viol") or [] for k in c11_clauses)]
        ck.oblige(not gone, "a Close that reports success leaves nothing mapped and every reader that is let in sees the original bytes, whatever failed before (%d faulted histories)" % len(fcases), json.dumps(gone[:1])[:2000])
        ck.cov["faulted_histories_judged_for_gone_on_close"] = len(fcases)
        if gone:
            g = dict(gone[0])
            g["viol"] = [v for v in g["viol"] if any(k in v for k in c11_clauses)]
            ck.violation(ck.replay_file("impl", {"what": g["viol"], "Case": g}))
    viol = [c for c in cases if c.get("viol")]
    # the model tracks one live secret: compare protectedmemory cases (failed creations are compared on their first op only)
    cmp_cases = []
    for c in cases:
        if c["impl"] != "protectedmemory" or not c["ops"] or c["ops"][0]["k"] not in ("new", "random"):
            continue
        if any(o["k"] == "withclose" for o in c["ops"]):     # two goroutines: judged by the harness monitor, the sequential model does not apply
            continue
        n = len(c["ops"]) if c["obs"][0]["r"] == 0 else 1
        cmp_cases.append((c, n))
    terms = ["([%s], [%s])" % ("; ".join(op_term(o) for o in c["ops"][:n]), "; ".join(obs_term(o) for o in c["obs"][:n])) for c, n in cmp_cases]
    bad, errs, dt = vlib.coq_mismatches(prop.lower(), "From Coq Require Import List ZArith.\nImport ListNotations.\nFrom Asherah Require Import SecureMem.Secret Cases.C11Run.\nOpen Scope Z_scope.",
                                        "list (mop * fault_plan) * list obs", terms, "mismatches_from", shard=400)
    for e in errs:
        ck.oblige(False, "correspondence-eval", e)
    ck.oblige(not bad and not errs, "correspondence model=impl on %d protectedmemory op sequences (primitive-call traces, page state, results)" % len(cmp_cases),
              json.dumps([cmp_cases[i][0] for i in bad[:2]])[:4000])
    nt = set(json.dumps([c["impl"], c["ops"]]) for c in cases if any(o.get("plan") for o in c["ops"]) or sum(1 for o in c["obs"] if o["r"] == 0) >= 3)
    ck.cov.update({
        "evaluations": len(cases), "distinct_nontrivial": len(nt),
        "rule": "per case one secret: New/CreateRandom (sizes 0,1,2,8,16,31,32), then WithBytes nested 0-2 deep (callback ok / failing / panicking), Close, IsClosed, "
                "one case in 7.5 ends with a Close arriving while a reader is inside (with a fault on the reader's release / access / the close); "
                "final Close + access; both implementations over an interposed memcall that is a shadow page table"
                + ("; fault plans = 1-2 failing primitive indices per op (random) and ALL singles and pairs over creation x follow-up access x close (sweep)" if prop == "C12" else "")
                + "; non-trivial = distinct sequence with a fault plan or >= 3 successful operations",
        "close_while_reading_cases": sum(1 for c in cases if any(o["k"] == "withclose" for o in c["ops"])),
        "implementations": {k: sum(1 for c in cases if c["impl"] == k) for k in ("protectedmemory", "memguard")},
        "traces_validated_against_impl": len(cmp_cases) - len(bad), "samples": cases[:1] + cases[2:3],
    })
    ck.cov["trusted_base"] += ["kernel effects of mmap/mlock/madvise/mprotect/munmap and awnumar/memcall, awnumar/memguard internals are modelled by a page record; "
                               "the harness interposes on memcall with a shadow page table (for memguard only Protect goes through it)",
                               "add-only verif hooks expose NewSecretFactoryWithMemcall and createRandom with a caller-supplied random source"]
    if viol:
        ck.violation(ck.replay_file("impl", {"what": viol[0]["viol"], "Case": viol[0]}))
    elif bad:
        ck.violation(ck.replay_file("corr", {"obligation": "%s correspondence (Cases/C11Run)" % prop, "Case": cmp_cases[bad[0]][0]}), False)
    elif ck.discharged != ck.obligations and not ck.violations:
        ck.violation(ck.replay_file("oblig", {"obligation": ck.cov.get("failed_obligations")}), False)
    return cases
