// Package sched: a cooperative schedule controller.  Controlled goroutines ("threads") park at every yield point
// inserted by the verification overlay (before lock acquisitions, condition waits and reference-count updates) and at
// yield points of the harness itself; the controller releases exactly one parked thread at a time, chosen by a seeded
// PRNG, so an execution is determined by the seed.  A released thread that does not reach its next yield point within a
// short interval is blocked in a native primitive (a lock held by a parked thread, a condition wait): the controller then
// moves on and the thread continues on its own once unblocked.
package sched

import (
	"strings"
	"bytes"
	"runtime"
	"strconv"
	"sync"
	"time"

	"verif/harness/gen"
)

type thread struct {
	name    string
	goid    int64
	arrived chan string   // label of the yield point reached ("" = finished)
	resume  chan struct{} // released by the controller
	parked  bool
	done    bool
	blocked bool
	label   string
}

type Sched struct {
	// PCT mode (probabilistic concurrency testing): threads get random priorities, the highest-priority parked thread
	// runs, and at a few random steps the running thread's priority drops below all others
	PCT     bool
	prio    map[*thread]int
	changes map[int]bool
	mu      sync.Mutex
	byGoid  map[int64]*thread
	threads []*thread
	r       *gen.Rand
	Trace   []string // "name@label" in the order threads were released
	Stuck   bool
	active  bool
}

func New(r *gen.Rand) *Sched { return &Sched{byGoid: map[int64]*thread{}, r: r} }

func goid() int64 {
	var buf [64]byte
	n := runtime.Stack(buf[:], false)
	f := bytes.Fields(buf[:n])
	if len(f) < 2 {
		return -1
	}
	id, _ := strconv.ParseInt(string(f[1]), 10, 64)
	return id
}

// Go starts a controlled thread; it parks immediately (label "start").
func (s *Sched) Go(name string, f func()) {
	t := &thread{name: name, arrived: make(chan string, 1), resume: make(chan struct{})}
	s.mu.Lock()
	s.threads = append(s.threads, t)
	s.mu.Unlock()
	started := make(chan struct{})
	go func() {
		t.goid = goid()
		s.mu.Lock()
		s.byGoid[t.goid] = t
		s.mu.Unlock()
		close(started)
		t.arrived <- "start"
		<-t.resume
		defer func() {
			s.mu.Lock()
			delete(s.byGoid, t.goid)
			s.mu.Unlock()
			t.arrived <- ""
		}()
		f()
	}()
	<-started
}

// Yield is the hook called at every instrumented point (and by harness callbacks).
func (s *Sched) Yield(label string) {
	if s == nil || !s.active {
		return
	}
	id := goid()
	s.mu.Lock()
	t := s.byGoid[id]
	s.mu.Unlock()
	if t == nil {
		return // an uncontrolled goroutine (event loop, asynchronous Remove)
	}
	t.arrived <- label
	<-t.resume
}

// wait until t reaches a yield point, finishes, or is deemed blocked
func (s *Sched) await(t *thread, d time.Duration) {
	select {
	case l := <-t.arrived:
		s.note(t, l)
		return
	default:
	}
	for i := 0; i < 200; i++ {
		runtime.Gosched()
		select {
		case l := <-t.arrived:
			s.note(t, l)
			return
		default:
		}
	}
	select {
	case l := <-t.arrived:
		s.note(t, l)
	case <-time.After(d):
		t.blocked = true
		t.parked = false
	}
}

func (s *Sched) note(t *thread, l string) {
	t.blocked = false
	if l == "" {
		t.done, t.parked = true, false
	} else {
		t.parked, t.label = true, l
	}
}

// Run drives the threads until all have finished or maxSteps releases were made.  Returns false if the
// system got stuck (no thread can make progress).
func (s *Sched) Run(maxSteps int) bool {
	s.active = true
	defer func() { s.active = false }()
	for _, t := range s.threads {
		s.await(t, 50*time.Millisecond)
	}
	idle := 0
	for step := 0; step < maxSteps; step++ {
		var parked []*thread
		alive := 0
		for _, t := range s.threads {
			if t.blocked { // see whether it got unblocked meanwhile
				select {
				case l := <-t.arrived:
					s.note(t, l)
				default:
				}
			}
			if !t.done {
				alive++
			}
			if t.parked {
				parked = append(parked, t)
			}
		}
		if alive == 0 {
			return true
		}
		if len(parked) == 0 {
			idle++
			if idle > 200 {
				s.Stuck = true
				return false
			}
			time.Sleep(500 * time.Microsecond)
			continue
		}
		idle = 0
		var t *thread
		if s.PCT {
			if s.prio == nil {
				s.prio = map[*thread]int{}
				s.changes = map[int]bool{}
				for _, th := range s.threads {
					s.prio[th] = 1000 + s.r.Intn(1000)
				}
				for k := 0; k < 3; k++ {
					s.changes[s.r.Intn(150)] = true
				}
			}
			for _, th := range parked {
				if t == nil || s.prio[th] > s.prio[t] {
					t = th
				}
			}
			if s.changes[step] {
				s.prio[t] = 100 - step // below everything assigned so far
			}
		} else {
			// a thread parked right after an explicit Unlock sits in a window between two critical sections: mostly let
			// the others run first (delaying it is what exposes a check-then-act split across the two sections)
			var others []*thread
			for _, th := range parked {
				if !strings.Contains(th.label, " after ") {
					others = append(others, th)
				}
			}
			if len(others) > 0 && len(others) < len(parked) && s.r.Intn(4) != 0 {
				t = others[s.r.Intn(len(others))]
			} else {
				t = parked[s.r.Intn(len(parked))]
			}
		}
		s.Trace = append(s.Trace, t.name+"@"+t.label)
		t.parked = false
		t.resume <- struct{}{}
		s.await(t, 2*time.Millisecond)
	}
	// out of steps: let everything run free
	s.active = false
	for _, t := range s.threads {
		if t.parked {
			t.parked = false
			t.resume <- struct{}{}
		}
	}
	deadline := time.After(2 * time.Second)
	for _, t := range s.threads {
		for !t.done {
			select {
			case l := <-t.arrived:
				if l == "" {
					t.done = true
				} else {
					// a thread that parked after the switch-off: release it
					go func(t *thread) { t.resume <- struct{}{} }(t)
				}
			case <-deadline:
				s.Stuck = true
				return false
			}
		}
	}
	return true
}
