package fake

import (
	"errors"
	"fmt"
	"regexp"
	"sort"
	"strings"
	"sync"
)

// Dynamo is the semantic core shared by the v1 and v2 client fakes: a table keyed by (Id S, Created N) in which
// a read that does not ask for strong consistency is served from the state before the most recent write, and a put
// without a condition overwrites.
type Dynamo struct {
	mu    sync.Mutex
	Table string
	now   map[string]Item
	prev  map[string]Item
	Calls []string
	// FailNext makes the next request of that kind fail inside the service or on the way, with an SDK-typed error carrying the given
	// code, without touching the table: "put:<Code>", "get:<Code>", "query:<Code>"
	FailNext string
}

// APIError is a service/transport failure with an AWS error code (the clients turn it into the SDK's typed error).
type APIError struct{ Code string }

func (e *APIError) Error() string { return e.Code + ": injected failure" }

func (d *Dynamo) injected(kind string) error {
	if strings.HasPrefix(d.FailNext, kind+":") {
		code := d.FailNext[len(kind)+1:]
		d.FailNext = ""
		return &APIError{Code: code}
	}
	return nil
}

// Item: the key plus the opaque SDK-specific attribute map.
type Item struct {
	ID      string
	Created int64
	Attrs   any // map[string]*dynamodb.AttributeValue (v1) or map[string]types.AttributeValue (v2)
}

var ErrConditionalCheckFailed = errors.New("ConditionalCheckFailedException")
var ErrTableNotFound = errors.New("ResourceNotFoundException: table not found")

func NewDynamo(table string) *Dynamo {
	return &Dynamo{Table: table, now: map[string]Item{}, prev: map[string]Item{}}
}

func key(id string, created int64) string { return fmt.Sprintf("%d|%s", created, id) }

func (d *Dynamo) view(consistent bool) map[string]Item {
	if consistent {
		return d.now
	}
	return d.prev
}

func (d *Dynamo) Get(table, id string, created int64, consistent bool) (*Item, error) {
	d.mu.Lock()
	defer d.mu.Unlock()
	d.Calls = append(d.Calls, fmt.Sprintf("GetItem consistent=%v", consistent))
	if err := d.injected("get"); err != nil {
		return nil, err
	}
	if table != d.Table {
		return nil, ErrTableNotFound
	}
	if it, ok := d.view(consistent)[key(id, created)]; ok {
		return &it, nil
	}
	return nil, nil
}

var reNotExists = regexp.MustCompile(`^attribute_not_exists\s*\(\s*([#\w]+)\s*\)$`)

// Put: condition "" = unconditional.  names resolves expression attribute name placeholders.
func (d *Dynamo) Put(table string, it Item, condition string, names map[string]string) error {
	d.mu.Lock()
	defer d.mu.Unlock()
	d.Calls = append(d.Calls, "PutItem condition="+condition)
	if err := d.injected("put"); err != nil {
		return err
	}
	if table != d.Table {
		return ErrTableNotFound
	}
	k := key(it.ID, it.Created)
	if condition != "" {
		m := reNotExists.FindStringSubmatch(strings.TrimSpace(condition))
		if m == nil {
			return fmt.Errorf("ValidationException: unsupported condition %q", condition)
		}
		attr := m[1]
		if n, ok := names[attr]; ok {
			attr = n
		}
		if attr != "Id" && attr != "Created" && attr != "KeyRecord" {
			return fmt.Errorf("ValidationException: unknown attribute %q", attr)
		}
		if _, exists := d.now[k]; exists {
			return ErrConditionalCheckFailed
		}
	}
	d.prev = map[string]Item{}
	for kk, v := range d.now {
		d.prev[kk] = v
	}
	d.now[k] = it
	return nil
}

var reKeyCond = regexp.MustCompile(`^\(?\s*([#\w]+)\s*=\s*(:\w+)\s*\)?$`)

// Query: single partition-key equality condition.  value resolves the value placeholder to the partition id.
func (d *Dynamo) Query(table, keyCond string, names map[string]string, value func(string) (string, bool), forward bool, limit int64, consistent bool) ([]Item, error) {
	d.mu.Lock()
	defer d.mu.Unlock()
	d.Calls = append(d.Calls, fmt.Sprintf("Query consistent=%v forward=%v limit=%d", consistent, forward, limit))
	if err := d.injected("query"); err != nil {
		return nil, err
	}
	if table != d.Table {
		return nil, ErrTableNotFound
	}
	m := reKeyCond.FindStringSubmatch(strings.TrimSpace(keyCond))
	if m == nil {
		return nil, fmt.Errorf("ValidationException: unsupported key condition %q", keyCond)
	}
	attr := m[1]
	if n, ok := names[attr]; ok {
		attr = n
	}
	if attr != "Id" {
		return nil, fmt.Errorf("ValidationException: key condition on %q", attr)
	}
	id, ok := value(m[2])
	if !ok {
		return nil, fmt.Errorf("ValidationException: missing value %s", m[2])
	}
	var out []Item
	for _, it := range d.view(consistent) {
		if it.ID == id {
			out = append(out, it)
		}
	}
	sort.Slice(out, func(i, j int) bool {
		if forward {
			return out[i].Created < out[j].Created
		}
		return out[i].Created > out[j].Created
	})
	if limit > 0 && int64(len(out)) > limit {
		out = out[:limit]
	}
	return out, nil
}

// Peek returns the current item for (id, created) or nil.
func (d *Dynamo) Peek(id string, created int64) *Item {
	d.mu.Lock()
	defer d.mu.Unlock()
	if it, ok := d.now[key(id, created)]; ok {
		return &it
	}
	return nil
}

// Replace overwrites the attribute map of an existing item in place (in both the current and the eventually consistent view): the
// way a harness damages a stored row.
func (d *Dynamo) Replace(id string, created int64, attrs any) bool {
	d.mu.Lock()
	defer d.mu.Unlock()
	k := key(id, created)
	it, ok := d.now[k]
	if !ok {
		return false
	}
	it.Attrs = attrs
	d.now[k] = it
	if _, ok := d.prev[k]; ok {
		d.prev[k] = it
	}
	return true
}

// Update overwrites the attribute map of an existing item the way a write by another client does: the eventually consistent view keeps
// the state before this write until the next one (an operator flagging a key revoked).
func (d *Dynamo) Update(id string, created int64, attrs any) bool {
	d.mu.Lock()
	defer d.mu.Unlock()
	k := key(id, created)
	it, ok := d.now[k]
	if !ok {
		return false
	}
	d.prev = map[string]Item{}
	for kk, v := range d.now {
		d.prev[kk] = v
	}
	it.Attrs = attrs
	d.now[k] = it
	return true
}
