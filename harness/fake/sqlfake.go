// Package fake: semantic stand-ins for the external services behind the metastore plugins.
package fake

import (
	"context"
	"database/sql"
	"database/sql/driver"
	"errors"
	"fmt"
	"io"
	"regexp"
	"sort"
	"strconv"
	"strings"
	"sync"
	"time"
)

// SQLTable is a table with schema encryption_key(id, created, key_record, PRIMARY KEY(id, created)).
type SQLTable struct {
	mu      sync.Mutex
	Name    string
	Style   string // placeholder style the engine accepts: "?", "$", ":"
	Rows    []sqlRow
	Queries []string
	// FailNext injects one failure into the next statement: "query" (the statement is refused), "rows" (the statement is accepted and
	// the connection drops while the first row is fetched), "exec" (the insert is refused with a transport error, nothing is written)
	FailNext string
}

// ErrInjected is the transport failure injected through FailNext.
var ErrInjected = errors.New("injected: connection lost")

type sqlRow struct {
	id      string
	created time.Time
	rec     string
}

// OpenSQL returns a *sql.DB backed by the table.
func OpenSQL(t *SQLTable) *sql.DB { return sql.OpenDB(&sqlConnector{t}) }

type sqlConnector struct{ t *SQLTable }

func (c *sqlConnector) Connect(context.Context) (driver.Conn, error) { return &sqlConn{c.t}, nil }
func (c *sqlConnector) Driver() driver.Driver                        { return sqlDriver{} }

type sqlDriver struct{}

func (sqlDriver) Open(string) (driver.Conn, error) { return nil, errors.New("use OpenSQL") }

type sqlConn struct{ t *SQLTable }

func (c *sqlConn) Prepare(string) (driver.Stmt, error) { return nil, errors.New("prepare unsupported") }
func (c *sqlConn) Close() error                        { return nil }
func (c *sqlConn) Begin() (driver.Tx, error)           { return nil, errors.New("tx unsupported") }

var (
	reWS     = regexp.MustCompile(`\s+`)
	reInsert = regexp.MustCompile(`(?i)^insert into (\w+) \(([^)]*)\) values \(([^)]*)\)$`)
	reSelect = regexp.MustCompile(`(?i)^select (\w+) from (\w+) where (.*?)( order by (\w+)( asc| desc)?)?( limit (\d+))?$`)
)

// placeholder resolves one placeholder token to an argument index, checking the dialect's style.
func (c *sqlConn) placeholder(tok string, next *int, nargs int) (int, error) {
	tok = strings.TrimSpace(tok)
	switch {
	case tok == "?":
		if c.t.Style != "?" {
			return 0, fmt.Errorf("syntax error near %q", tok)
		}
		i := *next
		*next++
		return i, nil
	case strings.HasPrefix(tok, "$") || strings.HasPrefix(tok, ":"):
		if c.t.Style != tok[:1] {
			return 0, fmt.Errorf("syntax error near %q", tok)
		}
		n, err := strconv.Atoi(tok[1:])
		if err != nil || n < 1 || n > nargs {
			return 0, fmt.Errorf("bad placeholder %q", tok)
		}
		return n - 1, nil
	}
	return 0, fmt.Errorf("expected placeholder, found %q", tok)
}

func asTime(v driver.Value) (time.Time, error) {
	if t, ok := v.(time.Time); ok {
		return t, nil
	}
	return time.Time{}, fmt.Errorf("created must be a timestamp, got %T", v)
}

func asString(v driver.Value) (string, error) {
	switch s := v.(type) {
	case string:
		return s, nil
	case []byte:
		return string(s), nil
	}
	return "", fmt.Errorf("expected text, got %T", v)
}

func (c *sqlConn) ExecContext(_ context.Context, q string, args []driver.NamedValue) (driver.Result, error) {
	q = strings.TrimSpace(reWS.ReplaceAllString(q, " "))
	c.t.mu.Lock()
	defer c.t.mu.Unlock()
	c.t.Queries = append(c.t.Queries, q)
	if c.t.FailNext == "exec" {
		c.t.FailNext = ""
		return nil, ErrInjected
	}
	m := reInsert.FindStringSubmatch(q)
	if m == nil {
		return nil, fmt.Errorf("unsupported statement: %s", q)
	}
	if !strings.EqualFold(m[1], c.t.Name) {
		return nil, fmt.Errorf("table %q doesn't exist", m[1])
	}
	cols := strings.Split(m[2], ",")
	vals := strings.Split(m[3], ",")
	if len(cols) != len(vals) {
		return nil, errors.New("column count doesn't match value count")
	}
	var row sqlRow
	var have [3]bool
	next := 0
	for i := range cols {
		idx, err := c.placeholder(vals[i], &next, len(args))
		if err != nil {
			return nil, err
		}
		if idx >= len(args) {
			return nil, errors.New("not enough arguments")
		}
		v := args[idx].Value
		switch strings.ToLower(strings.TrimSpace(cols[i])) {
		case "id":
			row.id, err = asString(v)
			have[0] = true
		case "created":
			row.created, err = asTime(v)
			have[1] = true
		case "key_record":
			row.rec, err = asString(v)
			have[2] = true
		default:
			err = fmt.Errorf("unknown column %q", cols[i])
		}
		if err != nil {
			return nil, err
		}
	}
	if !have[0] || !have[1] || !have[2] {
		return nil, errors.New("NOT NULL constraint failed")
	}
	for _, r := range c.t.Rows {
		if r.id == row.id && r.created.Equal(row.created) {
			return nil, errors.New("Error 1062: Duplicate entry for key 'PRIMARY'")
		}
	}
	c.t.Rows = append(c.t.Rows, row)
	return driver.RowsAffected(1), nil
}

func (c *sqlConn) QueryContext(_ context.Context, q string, args []driver.NamedValue) (driver.Rows, error) {
	q = strings.TrimSpace(reWS.ReplaceAllString(q, " "))
	c.t.mu.Lock()
	defer c.t.mu.Unlock()
	c.t.Queries = append(c.t.Queries, q)
	fail := c.t.FailNext
	c.t.FailNext = ""
	if fail == "query" {
		return nil, ErrInjected
	}
	m := reSelect.FindStringSubmatch(q)
	if m == nil {
		return nil, fmt.Errorf("unsupported query: %s", q)
	}
	if !strings.EqualFold(m[2], c.t.Name) {
		return nil, fmt.Errorf("table %q doesn't exist", m[2])
	}
	if !strings.EqualFold(m[1], "key_record") {
		return nil, fmt.Errorf("unknown column %q", m[1])
	}
	var wantID *string
	var wantCreated *time.Time
	next := 0
	for _, cond := range regexp.MustCompile(`(?i) and `).Split(m[3], -1) {
		parts := strings.SplitN(cond, "=", 2)
		if len(parts) != 2 {
			return nil, fmt.Errorf("unsupported condition %q", cond)
		}
		idx, err := c.placeholder(parts[1], &next, len(args))
		if err != nil {
			return nil, err
		}
		if idx >= len(args) {
			return nil, errors.New("not enough arguments")
		}
		switch strings.ToLower(strings.TrimSpace(parts[0])) {
		case "id":
			s, err := asString(args[idx].Value)
			if err != nil {
				return nil, err
			}
			wantID = &s
		case "created":
			t, err := asTime(args[idx].Value)
			if err != nil {
				return nil, err
			}
			wantCreated = &t
		default:
			return nil, fmt.Errorf("unknown column in %q", cond)
		}
	}
	var hit []sqlRow
	for _, r := range c.t.Rows {
		if wantID != nil && r.id != *wantID {
			continue
		}
		if wantCreated != nil && !r.created.Equal(*wantCreated) {
			continue
		}
		hit = append(hit, r)
	}
	if m[4] != "" {
		if !strings.EqualFold(m[5], "created") {
			return nil, fmt.Errorf("cannot order by %q", m[5])
		}
		desc := strings.EqualFold(strings.TrimSpace(m[6]), "desc")
		sort.SliceStable(hit, func(i, j int) bool {
			if desc {
				return hit[i].created.After(hit[j].created)
			}
			return hit[i].created.Before(hit[j].created)
		})
	}
	if m[7] != "" {
		n, _ := strconv.Atoi(m[8])
		if len(hit) > n {
			hit = hit[:n]
		}
	}
	return &sqlRows{rows: hit, fail: fail == "rows"}, nil
}

type sqlRows struct {
	rows []sqlRow
	pos  int
	fail bool // the connection drops while the first row is fetched
}

func (r *sqlRows) Columns() []string { return []string{"key_record"} }
func (r *sqlRows) Close() error      { return nil }
func (r *sqlRows) Next(dest []driver.Value) error {
	if r.fail {
		return ErrInjected
	}
	if r.pos >= len(r.rows) {
		return io.EOF
	}
	dest[0] = r.rows[r.pos].rec
	r.pos++
	return nil
}

// Lookup returns the stored key_record for (id, created) or "".
func (t *SQLTable) Lookup(id string, created time.Time) string {
	t.mu.Lock()
	defer t.mu.Unlock()
	for _, r := range t.Rows {
		if r.id == id && r.created.Equal(created) {
			return r.rec
		}
	}
	return ""
}

// SetRec overwrites the stored key_record of an existing row: the way a harness damages a stored row.
func (t *SQLTable) SetRec(id string, created time.Time, rec string) bool {
	t.mu.Lock()
	defer t.mu.Unlock()
	for i, r := range t.Rows {
		if r.id == id && r.created.Equal(created) {
			t.Rows[i].rec = rec
			return true
		}
	}
	return false
}
