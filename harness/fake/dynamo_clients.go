package fake

import (
	"context"
	"errors"
	smithy "github.com/aws/smithy-go"
	"strconv"
	"strings"

	ddb2 "github.com/aws/aws-sdk-go-v2/service/dynamodb"
	types2 "github.com/aws/aws-sdk-go-v2/service/dynamodb/types"
	"github.com/aws/aws-sdk-go/aws"
	"github.com/aws/aws-sdk-go/aws/awserr"
	"github.com/aws/aws-sdk-go/aws/request"
	ddb1 "github.com/aws/aws-sdk-go/service/dynamodb"
)

// ---- SDK v1 client -------------------------------------------------------------------------------------------

type DynamoV1 struct{ D *Dynamo }

// typed1 / typed2 turn an injected service failure into the SDK's typed error (awserr.Error / smithy.APIError)
func typed1(err error) error {
	var ae *APIError
	if errors.As(err, &ae) {
		return awserr.New(ae.Code, "injected failure", nil)
	}
	return err
}

func typed2(err error) error {
	var ae *APIError
	if errors.As(err, &ae) {
		return &smithy.GenericAPIError{Code: ae.Code, Message: "injected failure"}
	}
	return err
}

func names1(m map[string]*string) map[string]string {
	out := map[string]string{}
	for k, v := range m {
		if v != nil {
			out[k] = *v
		}
	}
	return out
}

func project1(item map[string]*ddb1.AttributeValue, proj *string, names map[string]string) map[string]*ddb1.AttributeValue {
	if proj == nil || *proj == "" {
		return item
	}
	out := map[string]*ddb1.AttributeValue{}
	for _, p := range strings.Split(*proj, ",") {
		p = strings.TrimSpace(p)
		if n, ok := names[p]; ok {
			p = n
		}
		if v, ok := item[p]; ok {
			out[p] = v
		}
	}
	return out
}

func (c DynamoV1) GetItemWithContext(_ aws.Context, in *ddb1.GetItemInput, _ ...request.Option) (*ddb1.GetItemOutput, error) {
	id, cr, err := key1(in.Key)
	if err != nil {
		return nil, err
	}
	it, err := c.D.Get(aws.StringValue(in.TableName), id, cr, aws.BoolValue(in.ConsistentRead))
	if err != nil {
		return nil, typed1(err)
	}
	if it == nil {
		return &ddb1.GetItemOutput{}, nil
	}
	return &ddb1.GetItemOutput{Item: project1(it.Attrs.(map[string]*ddb1.AttributeValue), in.ProjectionExpression, names1(in.ExpressionAttributeNames))}, nil
}

func key1(k map[string]*ddb1.AttributeValue) (string, int64, error) {
	idv, ok1 := k["Id"]
	crv, ok2 := k["Created"]
	if !ok1 || !ok2 || idv.S == nil || crv.N == nil {
		return "", 0, errors.New("ValidationException: the provided key element does not match the schema")
	}
	n, err := strconv.ParseInt(*crv.N, 10, 64)
	if err != nil {
		return "", 0, errors.New("ValidationException: Created must be a number")
	}
	return *idv.S, n, nil
}

func (c DynamoV1) PutItemWithContext(_ aws.Context, in *ddb1.PutItemInput, _ ...request.Option) (*ddb1.PutItemOutput, error) {
	id, cr, err := key1(in.Item)
	if err != nil {
		return nil, err
	}
	err = c.D.Put(aws.StringValue(in.TableName), Item{ID: id, Created: cr, Attrs: in.Item}, aws.StringValue(in.ConditionExpression), names1(in.ExpressionAttributeNames))
	if errors.Is(err, ErrConditionalCheckFailed) {
		return nil, awserr.New(ddb1.ErrCodeConditionalCheckFailedException, "The conditional request failed", nil)
	}
	if err = typed1(err); err != nil {
		return nil, err
	}
	if err != nil {
		return nil, err
	}
	return &ddb1.PutItemOutput{}, nil
}

func (c DynamoV1) QueryWithContext(_ aws.Context, in *ddb1.QueryInput, _ ...request.Option) (*ddb1.QueryOutput, error) {
	names := names1(in.ExpressionAttributeNames)
	forward := true
	if in.ScanIndexForward != nil {
		forward = *in.ScanIndexForward
	}
	items, err := c.D.Query(aws.StringValue(in.TableName), aws.StringValue(in.KeyConditionExpression), names, func(p string) (string, bool) {
		v, ok := in.ExpressionAttributeValues[p]
		if !ok || v.S == nil {
			return "", false
		}
		return *v.S, true
	}, forward, aws.Int64Value(in.Limit), aws.BoolValue(in.ConsistentRead))
	if err != nil {
		return nil, typed1(err)
	}
	out := &ddb1.QueryOutput{}
	for _, it := range items {
		out.Items = append(out.Items, project1(it.Attrs.(map[string]*ddb1.AttributeValue), in.ProjectionExpression, names))
	}
	return out, nil
}

// ---- SDK v2 client -------------------------------------------------------------------------------------------

type DynamoV2 struct {
	D      *Dynamo
	Region string
}

func (c DynamoV2) Options() ddb2.Options { return ddb2.Options{Region: c.Region} }

func project2(item map[string]types2.AttributeValue, proj *string, names map[string]string) map[string]types2.AttributeValue {
	if proj == nil || *proj == "" {
		return item
	}
	out := map[string]types2.AttributeValue{}
	for _, p := range strings.Split(*proj, ",") {
		p = strings.TrimSpace(p)
		if n, ok := names[p]; ok {
			p = n
		}
		if v, ok := item[p]; ok {
			out[p] = v
		}
	}
	return out
}

func key2(k map[string]types2.AttributeValue) (string, int64, error) {
	idv, ok1 := k["Id"].(*types2.AttributeValueMemberS)
	crv, ok2 := k["Created"].(*types2.AttributeValueMemberN)
	if !ok1 || !ok2 {
		return "", 0, errors.New("ValidationException: the provided key element does not match the schema")
	}
	n, err := strconv.ParseInt(crv.Value, 10, 64)
	if err != nil {
		return "", 0, errors.New("ValidationException: Created must be a number")
	}
	return idv.Value, n, nil
}

func sv(p *string) string {
	if p == nil {
		return ""
	}
	return *p
}

func bv(p *bool) bool { return p != nil && *p }

func (c DynamoV2) GetItem(_ context.Context, in *ddb2.GetItemInput, _ ...func(*ddb2.Options)) (*ddb2.GetItemOutput, error) {
	id, cr, err := key2(in.Key)
	if err != nil {
		return nil, err
	}
	it, err := c.D.Get(sv(in.TableName), id, cr, bv(in.ConsistentRead))
	if err != nil {
		return nil, typed2(err)
	}
	if it == nil {
		return &ddb2.GetItemOutput{}, nil
	}
	return &ddb2.GetItemOutput{Item: project2(it.Attrs.(map[string]types2.AttributeValue), in.ProjectionExpression, in.ExpressionAttributeNames)}, nil
}

func (c DynamoV2) PutItem(_ context.Context, in *ddb2.PutItemInput, _ ...func(*ddb2.Options)) (*ddb2.PutItemOutput, error) {
	id, cr, err := key2(in.Item)
	if err != nil {
		return nil, err
	}
	err = c.D.Put(sv(in.TableName), Item{ID: id, Created: cr, Attrs: in.Item}, sv(in.ConditionExpression), in.ExpressionAttributeNames)
	if errors.Is(err, ErrConditionalCheckFailed) {
		return nil, &types2.ConditionalCheckFailedException{Message: aws.String("The conditional request failed")}
	}
	if err = typed2(err); err != nil {
		return nil, err
	}
	if err != nil {
		return nil, err
	}
	return &ddb2.PutItemOutput{}, nil
}

func (c DynamoV2) Query(_ context.Context, in *ddb2.QueryInput, _ ...func(*ddb2.Options)) (*ddb2.QueryOutput, error) {
	forward := true
	if in.ScanIndexForward != nil {
		forward = *in.ScanIndexForward
	}
	var limit int64
	if in.Limit != nil {
		limit = int64(*in.Limit)
	}
	items, err := c.D.Query(sv(in.TableName), sv(in.KeyConditionExpression), in.ExpressionAttributeNames, func(p string) (string, bool) {
		v, ok := in.ExpressionAttributeValues[p].(*types2.AttributeValueMemberS)
		if !ok {
			return "", false
		}
		return v.Value, true
	}, forward, limit, bv(in.ConsistentRead))
	if err != nil {
		return nil, typed2(err)
	}
	out := &ddb2.QueryOutput{}
	for _, it := range items {
		out.Items = append(out.Items, project2(it.Attrs.(map[string]types2.AttributeValue), in.ProjectionExpression, in.ExpressionAttributeNames))
	}
	return out, nil
}
