module verif/harness

go 1.23.0

require (
	github.com/awnumar/memcall v0.4.0
	github.com/aws/aws-sdk-go v1.55.6
	github.com/aws/aws-sdk-go-v2 v1.36.3
	github.com/aws/aws-sdk-go-v2/service/dynamodb v1.42.4
	github.com/aws/aws-sdk-go-v2/service/kms v1.38.3
	github.com/aws/smithy-go v1.22.2
	github.com/godaddy/asherah/go/appencryption v0.7.1
	github.com/godaddy/asherah/go/securememory v0.1.6
	github.com/godaddy/asherah/server/go v0.0.0
	google.golang.org/grpc v1.71.1
)

require (
	filippo.io/edwards25519 v1.1.0 // indirect
	github.com/awnumar/memguard v0.22.5 // indirect
	github.com/aws/aws-sdk-go-v2/config v1.29.14 // indirect
	github.com/aws/aws-sdk-go-v2/credentials v1.17.67 // indirect
	github.com/aws/aws-sdk-go-v2/feature/dynamodb/attributevalue v1.18.12 // indirect
	github.com/aws/aws-sdk-go-v2/feature/dynamodb/expression v1.7.79 // indirect
	github.com/aws/aws-sdk-go-v2/feature/ec2/imds v1.16.30 // indirect
	github.com/aws/aws-sdk-go-v2/internal/configsources v1.3.34 // indirect
	github.com/aws/aws-sdk-go-v2/internal/endpoints/v2 v2.6.34 // indirect
	github.com/aws/aws-sdk-go-v2/internal/ini v1.8.3 // indirect
	github.com/aws/aws-sdk-go-v2/service/dynamodbstreams v1.25.3 // indirect
	github.com/aws/aws-sdk-go-v2/service/internal/accept-encoding v1.12.3 // indirect
	github.com/aws/aws-sdk-go-v2/service/internal/endpoint-discovery v1.10.15 // indirect
	github.com/aws/aws-sdk-go-v2/service/internal/presigned-url v1.12.15 // indirect
	github.com/aws/aws-sdk-go-v2/service/sso v1.25.3 // indirect
	github.com/aws/aws-sdk-go-v2/service/ssooidc v1.30.1 // indirect
	github.com/aws/aws-sdk-go-v2/service/sts v1.33.19 // indirect
	github.com/go-sql-driver/mysql v1.9.2 // indirect
	github.com/golang/protobuf v1.5.4 // indirect
	github.com/jmespath/go-jmespath v0.4.0 // indirect
	github.com/pkg/errors v0.9.1 // indirect
	github.com/rcrowley/go-metrics v0.0.0-20201227073835-cf1acfcdf475 // indirect
	golang.org/x/crypto v0.35.0 // indirect
	golang.org/x/net v0.36.0 // indirect
	golang.org/x/sys v0.32.0 // indirect
	golang.org/x/text v0.22.0 // indirect
	google.golang.org/genproto v0.0.0-20230410155749-daa745c078e1 // indirect
	google.golang.org/protobuf v1.36.4 // indirect
)

replace github.com/godaddy/asherah/go/appencryption => /repo/go/appencryption

replace github.com/godaddy/asherah/go/securememory => /repo/go/securememory

replace github.com/godaddy/asherah/server/go => /repo/server/go
