// Package gen: one deterministic PRNG state per run (VERIF_SEED) and small helpers.
package gen

import (
	"encoding/hex"
	"encoding/json"
	"os"
)

// Rand is splitmix64; every random choice of a run derives from one instance.
type Rand struct{ s uint64 }

func New(seed uint64) *Rand { return &Rand{s: seed*0x9E3779B97F4A7C15 + 0x1234567} }

func (r *Rand) U64() uint64 {
	r.s += 0x9E3779B97F4A7C15
	z := r.s
	z = (z ^ (z >> 30)) * 0xBF58476D1CE4E5B9
	z = (z ^ (z >> 27)) * 0x94D049BB133111EB
	return z ^ (z >> 31)
}

// Intn returns a value in [0,n).
func (r *Rand) Intn(n int) int {
	if n <= 0 {
		return 0
	}
	return int(r.U64() % uint64(n))
}

func (r *Rand) Bool() bool { return r.U64()&1 == 1 }

// Chance returns true with probability num/den.
func (r *Rand) Chance(num, den int) bool { return r.Intn(den) < num }

func Pick[T any](r *Rand, xs []T) T { return xs[r.Intn(len(xs))] }

func (r *Rand) Bytes(n int) []byte {
	b := make([]byte, n)
	for i := range b {
		b[i] = byte(r.U64())
	}
	return b
}

// Fork derives an independent generator (for sub-streams) from the current state.
func (r *Rand) Fork() *Rand { return New(r.U64()) }

// H hex-encodes a string so arbitrary bytes survive JSON.
func H(s string) string { return hex.EncodeToString([]byte(s)) }

func HB(b []byte) string { return hex.EncodeToString(b) }

// WriteJSON writes v to path (or stdout when path is "-").
func WriteJSON(path string, v any) error {
	var f *os.File
	if path == "-" || path == "" {
		f = os.Stdout
	} else {
		var err error
		f, err = os.Create(path)
		if err != nil {
			return err
		}
		defer f.Close()
	}
	enc := json.NewEncoder(f)
	return enc.Encode(v)
}
