package spy

import (
	"context"
	"sync"

	ae "github.com/godaddy/asherah/go/appencryption"
)

// Classifier names byte strings symbolically: key material by the number of the secret that first held
// it, registered payloads by their number.
type Classifier struct {
	mu       sync.Mutex
	SF       *SecretFactory
	Payloads map[string]int
}

// Sym returns ("K", m) for key material m, ("P", p) for payload p, ("J", 0) otherwise.
func (c *Classifier) Sym(b []byte) (string, int) {
	if c == nil {
		return "J", 0
	}
	if c.SF != nil {
		if m := c.SF.Material(b); m >= 0 {
			return "K", m
		}
	}
	c.mu.Lock()
	defer c.mu.Unlock()
	if p, ok := c.Payloads[string(b)]; ok {
		return "P", p
	}
	return "J", 0
}

func (c *Classifier) AddPayload(b []byte, n int) {
	c.mu.Lock()
	if c.Payloads == nil {
		c.Payloads = map[string]int{}
	}
	c.Payloads[string(b)] = n
	c.mu.Unlock()
}

// Retained is a buffer handed to the SDK by a key-unwrapping call; the harness re-reads it after the
// public operation returns to see whether it was wiped.
type Retained struct {
	Where string
	Buf   []byte
	IsKey bool
}

// AEAD wraps a real AEAD: records key material, nonce and what was sealed; injects faults.
type AEAD struct {
	Inner ae.AEAD
	T     *Trace
	F     *Faults
	C     *Classifier
	mu    sync.Mutex
	NEnc  int
	// Seals lists every successful seal: key bytes+nonce (for reuse detection) and what was sealed.
	Seals    []Seal
	Retained []Retained
}

type Seal struct {
	Key   string
	Nonce string
	PK    string // "K","P","J"
	PN    int
	KK    string
	KN    int
	Out   []byte
}

func (a *AEAD) Encrypt(data, key []byte) ([]byte, error) {
	kk, kn := a.C.Sym(key)
	pk, pn := a.C.Sym(data)
	if _, f := a.F.Next(); f != "" {
		a.T.Add("AEnc", kk, kn, 0, pk, pn, false)
		return nil, ErrInjected
	}
	out, err := a.Inner.Encrypt(data, key)
	if err != nil {
		a.T.Add("AEnc", kk, kn, 0, pk, pn, false)
		return nil, err
	}
	a.mu.Lock()
	n := a.NEnc
	a.NEnc++
	nonce := ""
	if len(out) >= 12 {
		nonce = string(out[len(out)-12:])
	}
	a.Seals = append(a.Seals, Seal{Key: string(key), Nonce: nonce, PK: pk, PN: pn, KK: kk, KN: kn, Out: append([]byte(nil), out...)})
	a.mu.Unlock()
	a.T.Add("AEnc", kk, kn, n, pk, pn, true)
	return out, nil
}

func (a *AEAD) Decrypt(data, key []byte) ([]byte, error) {
	kk, kn := a.C.Sym(key)
	if _, f := a.F.Next(); f != "" {
		a.T.Add("ADec", kk, kn, false)
		return nil, ErrInjected
	}
	out, err := a.Inner.Decrypt(data, key)
	if err != nil {
		a.T.Add("ADec", kk, kn, false)
		return out, err
	}
	pk, _ := a.C.Sym(out)
	a.mu.Lock()
	a.Retained = append(a.Retained, Retained{Where: "aead.Decrypt", Buf: out, IsKey: pk == "K"})
	a.mu.Unlock()
	a.T.Add("ADec", kk, kn, true)
	return out, nil
}

// TakeRetained returns and clears the retained buffers.
func (a *AEAD) TakeRetained() []Retained {
	a.mu.Lock()
	defer a.mu.Unlock()
	r := a.Retained
	a.Retained = nil
	return r
}

// KMS wraps a real KeyManagementService.
type KMS struct {
	Inner    ae.KeyManagementService
	T        *Trace
	F        *Faults
	C        *Classifier
	mu       sync.Mutex
	Retained []Retained
	// EncInputs records a symbolic description of everything handed to EncryptKey.
	EncInputs [][2]any
	Outputs   [][]byte
	// AfterCall, when set, runs as a KMS round trip completes (before the result is handed back): a harness uses it to let time pass
	AfterCall func()
}

func (k *KMS) EncryptKey(ctx context.Context, b []byte) ([]byte, error) {
	pk, pn := k.C.Sym(b)
	k.mu.Lock()
	k.EncInputs = append(k.EncInputs, [2]any{pk, pn})
	k.mu.Unlock()
	if _, f := k.F.Next(); f != "" {
		k.T.Add("KEnc", false)
		return nil, ErrInjected
	}
	out, err := k.Inner.EncryptKey(ctx, b)
	if err != nil {
		k.T.Add("KEnc", false)
		return nil, err
	}
	k.mu.Lock()
	k.Outputs = append(k.Outputs, append([]byte(nil), out...))
	k.mu.Unlock()
	k.T.Add("KEnc", true)
	if k.AfterCall != nil {
		k.AfterCall()
	}
	return out, nil
}

func (k *KMS) DecryptKey(ctx context.Context, b []byte) ([]byte, error) {
	if _, f := k.F.Next(); f != "" {
		k.T.Add("KDec", false)
		return nil, ErrInjected
	}
	out, err := k.Inner.DecryptKey(ctx, b)
	if err != nil {
		k.T.Add("KDec", false)
		return nil, err
	}
	k.mu.Lock()
	k.Retained = append(k.Retained, Retained{Where: "kms.DecryptKey", Buf: out, IsKey: true})
	k.mu.Unlock()
	k.T.Add("KDec", true)
	if k.AfterCall != nil {
		k.AfterCall()
	}
	return out, nil
}

func (k *KMS) TakeRetained() []Retained {
	k.mu.Lock()
	defer k.mu.Unlock()
	r := k.Retained
	k.Retained = nil
	return r
}

// Logger captures debug lines.
type Logger struct {
	mu    sync.Mutex
	Lines []string
	Keep  bool
}

func (l *Logger) Debugf(format string, v ...interface{}) {
	if !l.Keep {
		return
	}
	s := sprintf(format, v...)
	l.mu.Lock()
	l.Lines = append(l.Lines, s)
	l.mu.Unlock()
}

func (l *Logger) Take() []string {
	l.mu.Lock()
	defer l.mu.Unlock()
	r := l.Lines
	l.Lines = nil
	return r
}
