package spy

import (
	"context"
	"sort"
	"sync"

	ae "github.com/godaddy/asherah/go/appencryption"
)

// Metastore is an authoritative in-memory key table (insert-only, read-your-writes) with call
// recording and fault injection.  Records handed to the SDK are copies.
type Metastore struct {
	mu     sync.Mutex
	T      *Trace
	F      *Faults
	Suffix string
	Rows   map[string]map[int64]*ae.EnvelopeKeyRecord
	// Hook, when set, is called (outside the lock) before every call with the call kind; used by the
	// schedule controller to park a process at metastore granularity.
	Hook func(kind, id string)
	// Writes records every accepted insert in order.
	Writes []RowKey
}

type RowKey struct {
	ID      string
	Created int64
}

func NewMetastore(t *Trace, f *Faults) *Metastore {
	return &Metastore{T: t, F: f, Rows: map[string]map[int64]*ae.EnvelopeKeyRecord{}}
}

// GetRegionSuffix makes the SDK use region-suffixed key ids when non-empty.
func (m *Metastore) GetRegionSuffix() string { return m.Suffix }

func cloneEKR(r *ae.EnvelopeKeyRecord) *ae.EnvelopeKeyRecord {
	if r == nil {
		return nil
	}
	c := *r
	c.EncryptedKey = append([]byte(nil), r.EncryptedKey...)
	if r.ParentKeyMeta != nil {
		p := *r.ParentKeyMeta
		c.ParentKeyMeta = &p
	}
	return &c
}

func summary(r *ae.EnvelopeKeyRecord) []any {
	if r == nil {
		return []any{"none"}
	}
	if r.ParentKeyMeta == nil {
		return []any{"some", r.Created, r.Revoked, nil, 0}
	}
	return []any{"some", r.Created, r.Revoked, hexs(r.ParentKeyMeta.ID), r.ParentKeyMeta.Created}
}

func hexs(s string) string {
	const d = "0123456789abcdef"
	b := make([]byte, 0, 2*len(s))
	for i := 0; i < len(s); i++ {
		b = append(b, d[s[i]>>4], d[s[i]&15])
	}
	return string(b)
}

func (m *Metastore) Load(_ context.Context, id string, created int64) (*ae.EnvelopeKeyRecord, error) {
	if m.Hook != nil {
		m.Hook("load", id)
	}
	if _, k := m.F.Next(); k != "" {
		m.T.Add("MLoad", hexs(id), created, "err")
		return nil, ErrInjected
	}
	m.mu.Lock()
	r := cloneEKR(m.Rows[id][created])
	m.mu.Unlock()
	m.T.Add("MLoad", append([]any{hexs(id), created}, summary(r)...)...)
	return r, nil
}

func (m *Metastore) latest(id string) *ae.EnvelopeKeyRecord {
	rows := m.Rows[id]
	if len(rows) == 0 {
		return nil
	}
	var ks []int64
	for c := range rows {
		ks = append(ks, c)
	}
	sort.Slice(ks, func(i, j int) bool { return ks[i] < ks[j] })
	return rows[ks[len(ks)-1]]
}

func (m *Metastore) LoadLatest(_ context.Context, id string) (*ae.EnvelopeKeyRecord, error) {
	if m.Hook != nil {
		m.Hook("loadlatest", id)
	}
	if _, k := m.F.Next(); k != "" {
		m.T.Add("MLoadLatest", hexs(id), "err")
		return nil, ErrInjected
	}
	m.mu.Lock()
	r := cloneEKR(m.latest(id))
	m.mu.Unlock()
	m.T.Add("MLoadLatest", append([]any{hexs(id)}, summary(r)...)...)
	return r, nil
}

func (m *Metastore) Store(_ context.Context, id string, created int64, rec *ae.EnvelopeKeyRecord) (bool, error) {
	if m.Hook != nil {
		m.Hook("store", id)
	}
	_, k := m.F.Next()
	var pid any
	var pc int64
	if rec != nil && rec.ParentKeyMeta != nil {
		pid, pc = hexs(rec.ParentKeyMeta.ID), rec.ParentKeyMeta.Created
	}
	switch k {
	case "err":
		m.T.Add("MStore", hexs(id), created, pid, pc, "err")
		return false, ErrInjected
	case "dup":
		m.T.Add("MStore", hexs(id), created, pid, pc, "dup")
		return false, nil
	}
	m.mu.Lock()
	_, exists := m.Rows[id][created]
	if !exists {
		if m.Rows[id] == nil {
			m.Rows[id] = map[int64]*ae.EnvelopeKeyRecord{}
		}
		c := cloneEKR(rec)
		c.ID = id
		m.Rows[id][created] = c
		m.Writes = append(m.Writes, RowKey{id, created})
	}
	m.mu.Unlock()
	if k == "errafter" {
		m.T.Add("MStore", hexs(id), created, pid, pc, "errafter", !exists)
		return false, ErrInjected
	}
	m.T.Add("MStore", hexs(id), created, pid, pc, !exists)
	return !exists, nil
}

// Get returns the authoritative row (not a copy) for out-of-band edits such as revocation.
func (m *Metastore) Get(id string, created int64) *ae.EnvelopeKeyRecord {
	m.mu.Lock()
	defer m.mu.Unlock()
	return m.Rows[id][created]
}

// Latest returns the authoritative latest row for id.
func (m *Metastore) Latest(id string) *ae.EnvelopeKeyRecord {
	m.mu.Lock()
	defer m.mu.Unlock()
	return m.latest(id)
}

// Revoke flips the Revoked flag of a stored row (an operator action); returns false if absent.
func (m *Metastore) Revoke(id string, created int64) bool {
	m.mu.Lock()
	defer m.mu.Unlock()
	r := m.Rows[id][created]
	if r == nil {
		return false
	}
	r.Revoked = true
	return true
}

// Insert adds a row directly (another process).  Returns false if present.
func (m *Metastore) Insert(rec *ae.EnvelopeKeyRecord) bool {
	m.mu.Lock()
	defer m.mu.Unlock()
	if _, ok := m.Rows[rec.ID][rec.Created]; ok {
		return false
	}
	if m.Rows[rec.ID] == nil {
		m.Rows[rec.ID] = map[int64]*ae.EnvelopeKeyRecord{}
	}
	m.Rows[rec.ID][rec.Created] = cloneEKR(rec)
	return true
}

// Snapshot returns a deep copy of the table.
func (m *Metastore) Snapshot() map[string]map[int64]*ae.EnvelopeKeyRecord {
	m.mu.Lock()
	defer m.mu.Unlock()
	out := map[string]map[int64]*ae.EnvelopeKeyRecord{}
	for id, rows := range m.Rows {
		out[id] = map[int64]*ae.EnvelopeKeyRecord{}
		for c, r := range rows {
			out[id][c] = cloneEKR(r)
		}
	}
	return out
}
