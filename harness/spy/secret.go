// Package spy: wrappers around the SDK's pluggable boundaries (SecretFactory, Metastore, KMS, AEAD,
// logger) that record every call and can inject faults by call index.
package spy

import (
	"crypto/rand"
	"errors"
	"fmt"
	"io"
	"sync"

	"github.com/godaddy/asherah/go/securememory"
)

// Event is one observation crossing an SDK boundary.
type Event struct {
	K string `json:"k"`           // kind
	A []any  `json:"a,omitempty"` // arguments / result summary
}

// Trace collects events from all spies of one run.
type Trace struct {
	mu sync.Mutex
	Ev []Event
}

func (t *Trace) Add(k string, a ...any) {
	if t == nil {
		return
	}
	t.mu.Lock()
	t.Ev = append(t.Ev, Event{K: k, A: a})
	t.mu.Unlock()
}

// Take returns and clears the recorded events.
func (t *Trace) Take() []Event {
	t.mu.Lock()
	defer t.mu.Unlock()
	e := t.Ev
	t.Ev = nil
	return e
}

func (t *Trace) Len() int {
	t.mu.Lock()
	defer t.mu.Unlock()
	return len(t.Ev)
}

// ---------------------------------------------------------------------------------------------

// Faults decides, per boundary call, whether to inject a failure.  Calls are numbered from 0 in the
// order they reach any spy sharing the plan.
type Faults struct {
	mu   sync.Mutex
	n    int
	Plan map[int]string // call index -> fault kind ("err", "dup", "errafter", "cancel")
	// Cancel, if set, is called when the plan says "cancel" for a call: the caller's context becomes done while that
	// boundary call is in flight; the call itself then proceeds and succeeds (the SDK's collaborators ignore ctx)
	Cancel func()
}

// Next returns the index of this call and the fault to inject ("" for none).
func (f *Faults) Next() (int, string) {
	if f == nil {
		return -1, ""
	}
	f.mu.Lock()
	defer f.mu.Unlock()
	i := f.n
	f.n++
	k := f.Plan[i]
	if k == "cancel" {
		if f.Cancel != nil {
			f.Cancel()
		}
		k = ""
	}
	return i, k
}

// Reset installs a new plan and restarts numbering.
func (f *Faults) Reset(plan map[int]string) {
	f.mu.Lock()
	f.n = 0
	f.Plan = plan
	f.mu.Unlock()
}

func (f *Faults) Count() int {
	f.mu.Lock()
	defer f.mu.Unlock()
	return f.n
}

var ErrInjected = errors.New("injected fault")

// ---------------------------------------------------------------------------------------------

// SecretFactory is a pure-Go securememory.SecretFactory that numbers its secrets and records
// creation, access and close events.  It honours the documented contract of New (copy, then wipe the
// argument).
type SecretFactory struct {
	mu      sync.Mutex
	T       *Trace
	F       *Faults
	Secrets []*Secret
	// KeyIndex maps plaintext key bytes to the index of the random secret that first held them
	KeyIndex map[string]int
	Quiet    bool // do not record SWith events
	C        *Classifier
	// FailedNew retains the buffers passed to a New call that was made to fail before copying
	FailedNew [][]byte
	// RelFailAt >= 0: the RelFailAt-th WithBytesFunc of the current operation behaves like the real secure-memory implementations when the
	// protection change after the callback fails: it returns the callback's result TOGETHER WITH an error
	RelFailAt int
	withN     int
}

var ErrRelease = errors.New("unable to mark memory as no-access: injected fault")

// ResetOp starts a new operation (numbering of WithBytesFunc calls, planned release failure).
func (f *SecretFactory) ResetOp(relFailAt int) {
	f.mu.Lock()
	f.withN, f.RelFailAt = 0, relFailAt
	f.mu.Unlock()
}

type Secret struct {
	f             *SecretFactory
	Random        bool // created by CreateRandom (a freshly generated key)
	ID            int
	b             []byte
	closed        bool
	Closes        int
	UseAfterClose int
}

var ErrSecretClosed = errors.New("secret has already been destroyed")

func NewSecretFactory(t *Trace, f *Faults) *SecretFactory {
	return &SecretFactory{T: t, F: f, KeyIndex: map[string]int{}, RelFailAt: -1}
}

func (f *SecretFactory) add(b []byte, random bool) *Secret {
	s := &Secret{f: f, ID: len(f.Secrets), b: b, Random: random}
	f.Secrets = append(f.Secrets, s)
	if random {
		if _, ok := f.KeyIndex[string(b)]; !ok {
			f.KeyIndex[string(b)] = s.ID
		}
	}
	return s
}

// Bytes returns the plaintext held by secret id (for leak scans).
func (f *SecretFactory) Bytes(id int) []byte {
	f.mu.Lock()
	defer f.mu.Unlock()
	return f.Secrets[id].b
}

func (f *SecretFactory) Count() int {
	f.mu.Lock()
	defer f.mu.Unlock()
	return len(f.Secrets)
}

// Material returns the canonical number of the key material held by secret id.
func (f *SecretFactory) Material(b []byte) int {
	f.mu.Lock()
	defer f.mu.Unlock()
	if i, ok := f.KeyIndex[string(b)]; ok {
		return i
	}
	return -1
}

func (f *SecretFactory) New(b []byte) (securememory.Secret, error) {
	var c2 *Classifier
	if f.C != nil {
		c2 = &Classifier{Payloads: f.C.Payloads}
	}
	kind, n := "J", 0
	f.mu.Lock()
	if i, ok := f.KeyIndex[string(b)]; ok {
		kind, n = "K", i
	}
	f.mu.Unlock()
	if kind == "J" && c2 != nil {
		kind, n = c2.Sym(b)
	}
	if _, k := f.F.Next(); k != "" {
		f.mu.Lock()
		id := len(f.Secrets)
		f.FailedNew = append(f.FailedNew, b)
		f.mu.Unlock()
		f.T.Add("SNew", id, kind, n, false)
		return nil, ErrInjected
	}
	f.mu.Lock()
	c := make([]byte, len(b))
	copy(c, b)
	s := f.add(c, false)
	f.mu.Unlock()
	for i := range b {
		b[i] = 0
	}
	f.T.Add("SNew", s.ID, kind, n, true)
	return s, nil
}

func (f *SecretFactory) CreateRandom(size int) (securememory.Secret, error) {
	if _, k := f.F.Next(); k != "" {
		f.mu.Lock()
		id := len(f.Secrets)
		f.mu.Unlock()
		f.T.Add("SRand", id, false)
		return nil, ErrInjected
	}
	c := make([]byte, size)
	if _, err := rand.Read(c); err != nil {
		return nil, err
	}
	f.mu.Lock()
	s := f.add(c, true)
	f.mu.Unlock()
	f.T.Add("SRand", s.ID, true)
	return s, nil
}

// LiveGenerated returns the ids of live secrets that were created by CreateRandom.
func (f *SecretFactory) LiveGenerated() []int {
	f.mu.Lock()
	defer f.mu.Unlock()
	var out []int
	for _, s := range f.Secrets {
		if !s.closed && s.Random {
			out = append(out, s.ID)
		}
	}
	return out
}

// Live returns the ids of secrets not yet closed.
func (f *SecretFactory) Live() []int {
	f.mu.Lock()
	defer f.mu.Unlock()
	var out []int
	for _, s := range f.Secrets {
		if !s.closed {
			out = append(out, s.ID)
		}
	}
	return out
}

func (s *Secret) WithBytes(action func([]byte) error) error {
	s.f.mu.Lock()
	if s.closed {
		s.UseAfterClose++
		s.f.mu.Unlock()
		s.f.T.Add("SUseClosed", s.ID)
		return ErrSecretClosed
	}
	b := s.b
	s.f.mu.Unlock()
	if !s.f.Quiet {
		s.f.T.Add("SWith", s.ID)
	}
	return action(b)
}

func (s *Secret) WithBytesFunc(action func([]byte) ([]byte, error)) ([]byte, error) {
	s.f.mu.Lock()
	if s.closed {
		s.UseAfterClose++
		s.f.mu.Unlock()
		s.f.T.Add("SUseClosed", s.ID)
		return nil, ErrSecretClosed
	}
	b := s.b
	fail := s.f.RelFailAt >= 0 && s.f.withN == s.f.RelFailAt
	s.f.withN++
	s.f.mu.Unlock()
	if !s.f.Quiet {
		s.f.T.Add("SWith", s.ID)
	}
	ret, err := action(b)
	if fail {
		if err == nil {
			err = ErrRelease
		} else {
			err = fmt.Errorf("%v: %w", err, ErrRelease)
		}
	}
	return ret, err
}

func (s *Secret) IsClosed() bool {
	s.f.mu.Lock()
	defer s.f.mu.Unlock()
	return s.closed
}

func (s *Secret) Close() error {
	s.f.mu.Lock()
	s.Closes++
	again := s.closed
	s.closed = true
	s.f.mu.Unlock()
	if again {
		s.f.T.Add("SCloseAgain", s.ID)
		return nil
	}
	s.f.T.Add("SClose", s.ID)
	return nil
}

func (s *Secret) NewReader() io.Reader { return nil }
