package spy

import "fmt"

func sprintf(format string, v ...interface{}) string { return fmt.Sprintf(format, v...) }
