// vstress: free-running goroutines on one session factory, built with the Go race detector.  The controlled schedules of vrun interleave
// at yield points (lock acquisitions, waits) and hand execution over through channels, which orders every access: an unsynchronised
// read-modify-write between two yield points can neither lose an update there nor be seen by the race detector.  Here nothing is
// controlled: the race detector reports conflicting accesses that no lock orders, and the monitors are C08's own - an operation on a
// session its holder has not closed must succeed with the right result.
package main

import (
	"bytes"
	"context"
	"encoding/json"
	"flag"
	"fmt"
	"os"
	"sync"
	"time"

	ae "github.com/godaddy/asherah/go/appencryption"
	"github.com/godaddy/asherah/go/appencryption/pkg/crypto/aead"
	"github.com/godaddy/asherah/go/appencryption/pkg/kms"
	"github.com/godaddy/asherah/go/appencryption/pkg/persistence"
)

type result struct {
	Scenario string   `json:"scenario"`
	Rounds   int      `json:"rounds"`
	Ops      int      `json:"ops"`
	Viol     []string `json:"viol,omitempty"`
}

type scenario struct {
	name string
	opts []ae.PolicyOption
	run  func(f *ae.SessionFactory, round int, viol func(string, ...any)) int
}

func holderAndChurn(parts []string) func(f *ae.SessionFactory, round int, viol func(string, ...any)) int {
	return func(f *ae.SessionFactory, round int, viol func(string, ...any)) int {
		ctx := context.Background()
		var ops int64
		var mu sync.Mutex
		add := func(n int) { mu.Lock(); ops += int64(n); mu.Unlock() }
		holder, err := f.GetSession(parts[0])
		if err != nil {
			viol("round %d: GetSession failed: %v", round, err)
			return 0
		}
		payload := []byte(fmt.Sprintf("payload of round %d", round))
		rec, err := holder.Encrypt(ctx, payload)
		if err != nil {
			viol("round %d: the holder's encrypt failed: %v", round, err)
			return 0
		}
		var wg sync.WaitGroup
		for g := 0; g < 6; g++ {
			wg.Add(1)
			go func(g int) {
				defer wg.Done()
				n := 0
				for i := 0; i < 150; i++ {
					p := parts[(g+i)%len(parts)]
					s, err := f.GetSession(p)
					if err != nil {
						viol("round %d: GetSession(%s) failed: %v", round, p, err)
						return
					}
					if i%5 == 0 {
						pt := []byte(fmt.Sprintf("g%d i%d", g, i))
						r, err := s.Encrypt(ctx, pt)
						if err != nil {
							viol("round %d: encrypt on a session nobody closed failed: %v", round, err)
						} else if want := "_IK_" + p + "_svc_prod"; r.Key == nil || r.Key.ParentKeyMeta == nil || r.Key.ParentKeyMeta.ID != want {
							// partition isolation (C06): the session GetSession(p) hands out is p's
							viol("round %d: the session handed out for partition %q wrote its record under key id %q: it is another partition's session", round, p, r.Key.ParentKeyMeta.ID)
						} else if got, err := s.Decrypt(ctx, *r); err != nil || !bytes.Equal(got, pt) {
							viol("round %d: decrypt on a session nobody closed failed: %v", round, err)
						}
						n += 2
					}
					s.Close()
					n++
				}
				add(n)
			}(g)
		}
		// meanwhile the holder keeps using its session
		for i := 0; i < 40; i++ {
			if got, err := holder.Decrypt(ctx, *rec); err != nil || !bytes.Equal(got, payload) {
				viol("round %d: the holder never closed its session, yet its decrypt failed: %v", round, err)
				break
			}
		}
		wg.Wait()
		// push the holder's partition out of the session cache, then use the held session again
		for _, p := range parts[1:] {
			if s, err := f.GetSession(p + "-x"); err == nil {
				s.Close()
			}
		}
		time.Sleep(2 * time.Millisecond)
		if got, err := holder.Decrypt(ctx, *rec); err != nil || !bytes.Equal(got, payload) {
			viol("round %d: after its partition left the session cache the holder's decrypt failed although it never closed its session: %v", round, err)
		}
		holder.Close()
		return int(ops) + 42
	}
}

func main() {
	rounds := flag.Int("rounds", 20, "rounds per scenario")
	out := flag.String("out", "-", "output JSON")
	only := flag.String("x", "", "run only this scenario")
	flag.Parse()
	crypto := aead.NewAES256GCM()
	k, err := kms.NewStatic("thisIsAStaticMasterKeyForTesting", crypto)
	if err != nil {
		fmt.Fprintln(os.Stderr, err)
		os.Exit(3)
	}
	scen := []scenario{
		{"session cache of 1, one partition churned", []ae.PolicyOption{ae.WithSessionCache(), ae.WithSessionCacheMaxSize(1)}, holderAndChurn([]string{"p"})},
		{"session cache of 2, three partitions", []ae.PolicyOption{ae.WithSessionCache(), ae.WithSessionCacheMaxSize(2)}, holderAndChurn([]string{"p", "q", "r"})},
		{"shared intermediate-key cache (LRU 2), four partitions", []ae.PolicyOption{ae.WithSharedIntermediateKeyCache(2)}, holderAndChurn([]string{"p", "q", "r", "s"})},
		{"per-session key caches, no session cache", nil, holderAndChurn([]string{"p", "q"})},
	}
	var res []*result
	for _, sc := range scen {
		if *only != "" && *only != sc.name {
			continue
		}
		r := &result{Scenario: sc.name, Rounds: *rounds}
		var vmu sync.Mutex
		viol := func(f string, a ...any) {
			vmu.Lock()
			if len(r.Viol) < 5 {
				r.Viol = append(r.Viol, fmt.Sprintf(f, a...))
			}
			vmu.Unlock()
		}
		for i := 0; i < *rounds; i++ {
			f := ae.NewSessionFactory(&ae.Config{Service: "svc", Product: "prod", Policy: ae.NewCryptoPolicy(sc.opts...)},
				persistence.NewMemoryMetastore(), k, crypto)
			r.Ops += sc.run(f, i, viol)
			f.Close()
		}
		res = append(res, r)
	}
	b, _ := json.MarshalIndent(map[string]any{"cases": res}, "", " ")
	if *out == "-" {
		os.Stdout.Write(b)
	} else {
		os.WriteFile(*out, b, 0o644)
	}
}
