package main

import (
	"encoding/json"
	"fmt"
	"os"

	"verif/harness/gen"
)

func init() {
	register("env", "envelope/key-cache/session histories on the real SDK (C01-C05,C07,C09,C10,C20)", runEnv)
}

const secNs = int64(1000000000)

// cache configuration cells
func envPolicies() map[string]PolicyCfg {
	base := PolicyCfg{Expire: 100 * secNs, RCI: 10 * secNs, Precision: 1 * secNs, CacheSK: true, CacheIK: true,
		SKPol: "simple", IKPol: "simple", SKCap: 1000, IKCap: 1000, SessCap: 1000, SessDur: 2 * 3600 * secNs, SessPol: "slru"}
	m := map[string]PolicyCfg{}
	m["default"] = base
	p := base
	p.Precision = 60 * secNs
	m["minute"] = p
	p = base
	p.CacheSK, p.CacheIK = false, false
	m["nocache"] = p
	p = base
	p.CacheIK = false
	m["skonly"] = p
	p = base
	p.SharedIK, p.IKPol, p.IKCap = true, "lru", 2
	m["shared-lru2"] = p
	p = base
	p.SKPol, p.SKCap = "lru", 1
	m["sk-lru1"] = p
	p = base
	p.IKPol, p.IKCap = "slru", 1
	m["ik-slru1"] = p
	p = base
	p.IKPol, p.IKCap = "lfu", 2
	m["ik-lfu2"] = p
	p = base
	p.IKPol, p.IKCap, p.SKPol, p.SKCap = "tinylfu", 3, "tinylfu", 2
	m["tinylfu"] = p
	p = base
	p.CacheSessions, p.SessCap = true, 2
	m["sesscache2"] = p
	p = base
	p.CacheSessions, p.SessCap, p.SessDur, p.SessPol = true, 1, 5*secNs, "lru"
	m["sesscache1-exp"] = p
	p = base
	p.CacheIK, p.SharedIK, p.CacheSK = false, true, false
	m["nocache+shared"] = p
	p = base
	p.SharedIK = true
	m["shared-simple"] = p
	p = base
	p.RCI = 0 // "check on every use": a cached key is re-validated whenever any time at all has passed since it was loaded
	m["rci-zero"] = p
	return m
}

var envCfgNames = []string{"default", "minute", "nocache", "skonly", "shared-lru2", "sk-lru1", "ik-slru1", "ik-lfu2", "tinylfu",
	"sesscache2", "sesscache1-exp", "nocache+shared", "shared-simple", "rci-zero"}

type envGen struct {
	r     *gen.Rand
	x     *envExec
	cs    *EnvCase
	pol   PolicyCfg
	parts []string
	// open session handles by factory
	open    []int // session ids currently open (by our bookkeeping)
	factory int
	nextPl  int
	keys    map[string][]int64 // key ids -> created stamps seen
	suffix  string             // region suffix every factory of the case uses ("" = none)
	idMuts  bool               // also mutate the parent key id of records
}

// envJournal, when set, receives every case header and operation BEFORE it runs: if the process dies (a Go panic on a goroutine of
// the SDK cannot be recovered by the harness) the journal's tail is the history that killed it.
var envJournal *os.File

func journal(v any) {
	if envJournal == nil {
		return
	}
	b, _ := json.Marshal(v)
	envJournal.Write(append(b, '\n'))
}

func (g *envGen) do(op EnvOp) EnvObs {
	journal(map[string]any{"op": op})
	ob := g.x.do(op)
	g.cs.Ops = append(g.cs.Ops, op)
	g.cs.Obs = append(g.cs.Obs, ob)
	return ob
}

func (g *envGen) newFactory() int {
	p := g.pol
	op := EnvOp{K: "newfactory", Policy: &p, Svc: gen.H("svc"), Prod: gen.H("prod")}
	if g.suffix != "" {
		sx := gen.H(g.suffix)
		op.Suffix = &sx
	}
	ob := g.do(op)
	return ob.N
}

func (g *envGen) session(f int, part string) int {
	ob := g.do(EnvOp{K: "getsession", F: f, ID: gen.H(part)})
	if ob.R != "session" {
		return -1
	}
	return ob.N
}

func (g *envGen) advances() []int64 {
	p := g.pol
	all := []int64{0, 1, secNs - 1, secNs, secNs + 1, p.RCI - 1, p.RCI, p.RCI + 1, 2*p.RCI + 1, p.Precision, p.Precision - 1,
		p.Expire - p.RCI, p.Expire - 1, p.Expire, p.Expire + 1, p.Expire + secNs, p.Expire + p.RCI + 1, p.SessDur + 1, 3 * secNs, 7 * secNs}
	out := all[:0]
	for _, d := range all {
		if d >= 0 {
			out = append(out, d)
		}
	}
	return out
}

func (g *envGen) faults(nmax int) [][2]any {
	if !g.r.Chance(1, 4) {
		return nil
	}
	var fs [][2]any
	n := 1 + g.r.Intn(2)
	for i := 0; i < n; i++ {
		fs = append(fs, [2]any{g.r.Intn(nmax), gen.Pick(g.r, []string{"err", "err", "dup", "errafter", "cancel"})})
	}
	return fs
}

func (g *envGen) randMuts() []Mut {
	nrec := len(g.x.recs)
	j := g.r.Intn(nrec)
	if g.idMuts && g.r.Chance(1, 2) {
		// parent key ids around the partition's own: empty, truncated anywhere, the un-suffixed id, another suffix, an extension
		own := ""
		if pm := g.x.recs[j].Key.ParentKeyMeta; pm != nil {
			own = pm.ID
		}
		base := own
		if g.suffix != "" && len(own) > len(g.suffix)+1 {
			base = own[:len(own)-len(g.suffix)-1]
		}
		var id string
		switch g.r.Intn(7) {
		case 0:
			id = ""
		case 1:
			id = own[:g.r.Intn(len(own)+1)]
		case 2:
			id = base
		case 3:
			id = base + "_eu-west-1"
		case 4:
			id = own + "x"
		case 5:
			if len(base) > 0 {
				id = base[:len(base)-1]
			}
		default:
			id = "_IK_"
		}
		return []Mut{{K: "parentid", ID: gen.H(id)}}
	}
	switch g.r.Intn(12) {
	case 0:
		return []Mut{{K: "mutdata", J: g.r.Intn(64)}}
	case 1:
		if g.r.Chance(1, 4) { // nothing left of the ciphertext
			return []Mut{{K: "mutdata", J: -100000}}
		}
		return []Mut{{K: "mutdata", J: -1 - g.r.Intn(30)}}
	case 2:
		return []Mut{{K: "mutkey", J: g.r.Intn(64)}}
	case 3:
		if g.r.Chance(1, 4) {
			return []Mut{{K: "mutkey", J: -100000}}
		}
		return []Mut{{K: "mutkey", J: -1 - g.r.Intn(30)}}
	case 4:
		return []Mut{{K: "datafrom", J: j}}
	case 5:
		return []Mut{{K: "keyfrom", J: j}}
	case 6:
		return []Mut{{K: "parentfrom", J: j}}
	case 7:
		return []Mut{{K: "parentcreated", C: g.x.recs[j].Key.ParentKeyMeta.Created + int64(g.r.Intn(3)-1)}}
	case 8:
		return []Mut{{K: "nilkey"}}
	case 9:
		return []Mut{{K: "nilparent"}}
	case 10:
		return []Mut{{K: "keycreated", C: int64(g.r.Intn(1000))}}
	default:
		return []Mut{{K: "keyfrom", J: j}, {K: "datafrom", J: j}}
	}
}

// latestKey returns (id, created) of the latest stored row with the given prefix ("_IK_" or "_SK_").
func (g *envGen) latestKey(prefix string, part string) (string, int64, bool) {
	id := "_SK_svc_prod"
	if prefix == "_IK_" {
		id = "_IK_" + part + "_svc_prod"
	}
	if g.suffix != "" {
		id += "_" + g.suffix
	}
	r := g.x.ms.Latest(id)
	if r == nil {
		return "", 0, false
	}
	return id, r.Created, true
}

func genEnvCase(r *gen.Rand, cfgName string, mode string) *EnvCase {
	t0 := int64(1790000000)*secNs + int64(r.Intn(120))*secNs + int64(r.Intn(3))*(secNs/2)
	cs := &EnvCase{T0: t0, Cfg: cfgName}
	journal(map[string]any{"start": map[string]any{"t0": t0, "cfg": cfgName, "tags": []string{fmt.Sprintf("random/%s/%s", cfgName, mode)}}})
	x := newEnvExec(t0)
	defer x.close()
	g := &envGen{r: r, x: x, cs: cs, pol: envPolicies()[cfgName], keys: map[string][]int64{}}
	if mode == "suffix" { // malformed records against factories whose metastore reports a region suffix
		mode = "malformed"
		g.idMuts = true
		if r.Chance(3, 4) {
			g.suffix = "us-west-2"
		}
	}
	if mode == "leak" {
		x.enableLeakScan()
	}
	g.parts = []string{"p1", "p2", "p3"}[:1+r.Intn(3)]
	nfact := 1 + r.Intn(2)
	var facts []int
	for i := 0; i < nfact; i++ {
		facts = append(facts, g.newFactory())
	}
	type sh struct {
		s, f int
		part string
	}
	var sess []sh
	openSession := func() {
		f := gen.Pick(r, facts)
		p := gen.Pick(r, g.parts)
		if s := g.session(f, p); s >= 0 {
			sess = append(sess, sh{s, f, p})
		}
	}
	if mode != "malformed" && r.Chance(1, 4) {
		// staggered generations: partition p2's intermediate key is younger than the system key it was created under, the system key
		// expires first, the next write rotates both, and one interval later the session reads a record of the old generation and
		// writes again (the old intermediate key is still within its own lifetime: it must not come back into use)
		f := facts[0]
		if sA := g.session(f, "p1"); sA >= 0 {
			sess = append(sess, sh{sA, f, "p1"})
			g.nextPl++
			g.do(EnvOp{K: "encrypt", S: sA, Payload: g.nextPl})
			g.do(EnvOp{K: "advance", D: g.pol.Expire / 2})
			if sB := g.session(f, "p2"); sB >= 0 {
				sess = append(sess, sh{sB, f, "p2"})
				g.nextPl++
				g.do(EnvOp{K: "encrypt", S: sB, Payload: g.nextPl})
				oldRec := len(x.recs) - 1
				g.do(EnvOp{K: "advance", D: g.pol.Expire/2 + 1})
				g.nextPl++
				g.do(EnvOp{K: "encrypt", S: sB, Payload: g.nextPl})
				g.do(EnvOp{K: "advance", D: g.pol.RCI + 1})
				g.do(EnvOp{K: "decrypt", S: sB, Rec: oldRec})
				g.nextPl++
				g.do(EnvOp{K: "encrypt", S: sB, Payload: g.nextPl})
			}
		}
	}
	openSession()
	nops := 12 + r.Intn(30)
	for i := 0; i < nops; i++ {
		if len(sess) == 0 {
			openSession()
			continue
		}
		h := gen.Pick(r, sess)
		switch c := r.Intn(100); {
		case c < 32:
			g.nextPl++
			var fs [][2]any
			if mode != "nofault" {
				fs = g.faults(14)
			}
			eop := EnvOp{K: "encrypt", S: h.s, Payload: g.nextPl, Faults: fs}
			if mode == "relfail" && r.Chance(1, 2) {
				n := r.Intn(5)
				eop.RelFail = &n
			}
			if mode == "slowkms" { // KMS round trips during which the clock crosses second / precision / interval boundaries
				eop.Faults = nil
				if r.Chance(2, 3) {
					eop.SlowKMS = gen.Pick(r, []int64{1, secNs - 1, secNs, g.pol.Precision, g.pol.Precision + 1, 61 * secNs, g.pol.RCI + 1})
				}
			}
			g.do(eop)
			if fs != nil && r.Chance(2, 3) { // once the faults stop the next operation succeeds
				g.nextPl++
				g.do(EnvOp{K: "encrypt", S: h.s, Payload: g.nextPl})
			}
		case c < 55:
			if len(x.recs) == 0 {
				continue
			}
			// mostly a genuine record of this partition
			var cand []int
			for j, ri := range x.recInfo {
				if ri.Part == gen.H(h.part) {
					cand = append(cand, j)
				}
			}
			rec := r.Intn(len(x.recs))
			if len(cand) > 0 && r.Chance(5, 6) {
				rec = gen.Pick(r, cand)
			}
			var muts []Mut
			if mode == "malformed" && r.Chance(2, 3) || r.Chance(1, 8) {
				muts = g.randMuts()
			}
			var fs [][2]any
			if mode != "nofault" && muts == nil {
				fs = g.faults(8)
			}
			dop := EnvOp{K: "decrypt", S: h.s, Rec: rec, Muts: muts, Faults: fs}
			if mode == "relfail" && r.Chance(1, 2) {
				n := r.Intn(4)
				dop.RelFail = &n
			}
			g.do(dop)
		case c < 73:
			g.do(EnvOp{K: "advance", D: gen.Pick(r, g.advances())})
		case c < 80:
			if mode == "norevoke" {
				continue
			}
			pre := gen.Pick(r, []string{"_IK_", "_IK_", "_SK_"})
			if id, created, ok := g.latestKey(pre, h.part); ok {
				if r.Chance(1, 5) { // an older key, if any
					created -= int64(1 + r.Intn(int(g.pol.Expire/secNs)))
					if x.ms.Get(id, created) == nil {
						continue
					}
				}
				g.do(EnvOp{K: "revoke", ID: gen.H(id), Created: created})
			}
		case c < 86:
			g.do(EnvOp{K: "closesession", S: h.s})
			for k := range sess {
				if sess[k] == h {
					sess = append(sess[:k], sess[k+1:]...)
					break
				}
			}
		case c < 93:
			openSession()
		case c < 96 && mode == "malformed":
			pre := gen.Pick(r, []string{"_IK_", "_SK_"})
			if id, created, ok := g.latestKey(pre, h.part); ok {
				g.do(EnvOp{K: gen.Pick(r, []string{"dropparent", "corruptkey"}), ID: gen.H(id), Created: created})
				if r.Chance(1, 2) { // read through COLD caches (a new process): every key has to come from the damaged table
					nf := g.newFactory()
					facts = append(facts, nf)
					if s := g.session(nf, h.part); s >= 0 {
						sess = append(sess, sh{s, nf, h.part})
						var cand []int
						for j, ri := range x.recInfo {
							if ri.Part == gen.H(h.part) {
								cand = append(cand, j)
							}
						}
						if len(cand) > 0 {
							rec := gen.Pick(r, cand)
							g.do(EnvOp{K: "decrypt", S: s, Rec: rec})
							g.do(EnvOp{K: "decrypt", S: s, Rec: rec})
						}
					}
				}
			}
		case c < 98:
			// factory restart: close its sessions, close it, open a new one
			f := gen.Pick(r, facts)
			var keep []sh
			for _, s := range sess {
				if s.f == f {
					g.do(EnvOp{K: "closesession", S: s.s})
				} else {
					keep = append(keep, s)
				}
			}
			sess = keep
			g.do(EnvOp{K: "closefactory", F: f})
			nf := g.newFactory()
			for k := range facts {
				if facts[k] == f {
					facts[k] = nf
				}
			}
		default:
			g.do(EnvOp{K: "advance", D: gen.Pick(r, g.advances())})
		}
	}
	// rotate-and-revisit: in one live session, let the partition's intermediate key rotate (expiry, or revocation), then go back
	// and forth between a record of the old generation and new encrypts without letting an interval pass
	if mode != "malformed" && len(sess) > 0 && r.Chance(1, 2) {
		h := gen.Pick(r, sess)
		old := -1
		for j, ri := range x.recInfo {
			if ri.Part == gen.H(h.part) {
				old = j
				break
			}
		}
		if old >= 0 {
			rotated := false
			if mode != "norevoke" && r.Chance(1, 2) {
				if id, created, ok := g.latestKey("_IK_", h.part); ok {
					g.do(EnvOp{K: "revoke", ID: gen.H(id), Created: created})
					g.do(EnvOp{K: "advance", D: g.pol.RCI + 1})
					rotated = true
				}
			}
			if !rotated {
				g.do(EnvOp{K: "advance", D: g.pol.Expire + 1})
			}
			hs := h.s
			if r.Chance(1, 3) { // a fresh session (fresh per-session cache, or the shared one)
				if s := g.session(h.f, h.part); s >= 0 {
					sess = append(sess, sh{s, h.f, h.part})
					hs = s
				}
			}
			readFirst := r.Chance(1, 2)
			if readFirst { // the first operation after the rotation is a read of an old-generation record
				g.do(EnvOp{K: "decrypt", S: hs, Rec: old})
			}
			g.nextPl++
			g.do(EnvOp{K: "encrypt", S: hs, Payload: g.nextPl})
			g.do(EnvOp{K: "decrypt", S: hs, Rec: old})
			g.nextPl++
			g.do(EnvOp{K: "encrypt", S: hs, Payload: g.nextPl})
			g.do(EnvOp{K: "decrypt", S: hs, Rec: len(x.recs) - 1})
			g.nextPl++
			g.do(EnvOp{K: "encrypt", S: hs, Payload: g.nextPl})
			if readFirst && r.Chance(1, 2) { // and again one interval later: read the old record, then write
				g.do(EnvOp{K: "advance", D: g.pol.RCI + 1})
				g.do(EnvOp{K: "decrypt", S: hs, Rec: old})
				g.nextPl++
				g.do(EnvOp{K: "encrypt", S: hs, Payload: g.nextPl})
			}
		}
	}
	// the re-read that is due after the revoke-check interval fails: the operation has to fail, not fall back on the stale cached key
	if mode != "malformed" && len(sess) > 0 && r.Chance(1, 3) {
		h := gen.Pick(r, sess)
		old := -1
		for j, ri := range x.recInfo {
			if ri.Part == gen.H(h.part) {
				old = j
			}
		}
		if old >= 0 {
			g.do(EnvOp{K: "decrypt", S: h.s, Rec: old})
			g.do(EnvOp{K: "advance", D: g.pol.RCI + 1})
			g.do(EnvOp{K: "decrypt", S: h.s, Rec: old, Faults: [][2]any{{r.Intn(2), "err"}}})
			g.do(EnvOp{K: "decrypt", S: h.s, Rec: old})
		}
	}
	// a system key revoked long ago, then a write that has to create an intermediate key (first write of a new partition, or the
	// partition's intermediate key is revoked as well): the new key must not be created under the revoked system key
	if mode != "malformed" && mode != "norevoke" && len(sess) > 0 && r.Chance(1, 3) {
		h := gen.Pick(r, sess)
		if id, created, ok := g.latestKey("_SK_", h.part); ok {
			g.do(EnvOp{K: "revoke", ID: gen.H(id), Created: created})
			g.do(EnvOp{K: "advance", D: 2*g.pol.RCI + 1 + int64(r.Intn(3))*g.pol.RCI})
			if r.Bool() {
				if s := g.session(h.f, "p9"); s >= 0 {
					sess = append(sess, sh{s, h.f, "p9"})
					g.nextPl++
					g.do(EnvOp{K: "encrypt", S: s, Payload: g.nextPl})
					// the new partition's write has put a newer system key into the factory's cache; the long-lived session's intermediate
					// key still hangs under the revoked one and has to notice within its own re-check
					g.do(EnvOp{K: "advance", D: 2*g.pol.RCI + 1})
					g.nextPl++
					g.do(EnvOp{K: "encrypt", S: h.s, Payload: g.nextPl})
					g.do(EnvOp{K: "advance", D: g.pol.RCI + 1})
					g.nextPl++
					g.do(EnvOp{K: "encrypt", S: h.s, Payload: g.nextPl})
				}
			} else {
				if iid, icreated, ok := g.latestKey("_IK_", h.part); ok {
					g.do(EnvOp{K: "revoke", ID: gen.H(iid), Created: icreated})
				}
				g.nextPl++
				g.do(EnvOp{K: "encrypt", S: h.s, Payload: g.nextPl})
			}
		}
	}
	// every genuine record must still decrypt, in a live session of its partition and (refDecrypt) a fresh process
	if mode != "malformed" {
		for j, ri := range x.recInfo {
			if r.Chance(1, 2) {
				continue
			}
			f := gen.Pick(r, facts)
			if s := g.session(f, unhex(ri.Part)); s >= 0 {
				g.do(EnvOp{K: "decrypt", S: s, Rec: j})
				sess = append(sess, sh{s, f, unhex(ri.Part)})
			}
		}
	}
	// tear everything down: every secret must be released exactly once
	for _, s := range sess {
		g.do(EnvOp{K: "closesession", S: s.s})
	}
	for _, f := range facts {
		g.do(EnvOp{K: "closefactory", F: f})
	}
	cs.TornDown = true
	x.finishCase(cs)
	return cs
}

// replayEnvCase re-executes a recorded history on the implementation.
func replayEnvCase(in *EnvCase) *EnvCase {
	cs := &EnvCase{T0: in.T0, Cfg: in.Cfg, Tags: in.Tags}
	x := newEnvExec(in.T0)
	defer x.close()
	for _, tg := range in.Tags {
		if len(tg) >= 5 && tg[len(tg)-5:] == "/leak" {
			x.enableLeakScan()
		}
	}
	journal(map[string]any{"start": map[string]any{"t0": in.T0, "cfg": in.Cfg, "tags": in.Tags}})
	for _, op := range in.Ops {
		journal(map[string]any{"op": op})
		cs.Ops = append(cs.Ops, op)
		cs.Obs = append(cs.Obs, x.do(op))
	}
	x.finishCase(cs)
	cs.TornDown = in.TornDown
	return cs
}

func runEnv(a *args) error {
	r := gen.New(a.seed)
	var out []*EnvCase
	if a.out != "" && a.out != "-" {
		if f, err := os.Create(a.out + ".journal"); err == nil {
			envJournal = f
			defer func() { f.Close(); os.Remove(a.out + ".journal") }()
		}
	}
	if a.replay != "" {
		var rp struct {
			Case  *EnvCase
			Cases []*EnvCase
		}
		if err := readJSON(a.replay, &rp); err != nil {
			return err
		}
		if rp.Case != nil {
			out = append(out, replayEnvCase(rp.Case))
		}
		for _, c := range rp.Cases {
			out = append(out, replayEnvCase(c))
		}
		return gen.WriteJSON(a.out, map[string]any{"cases": out})
	}
	mode := a.extra
	names := envCfgNames
	if mode == "sesscache" { // C16: only the cells with a session cache (capacity 2; capacity 1 with a 5 s expiry)
		names = []string{"sesscache2", "sesscache1-exp"}
	}
	for i := 0; i < a.n; i++ {
		cfg := names[i%len(names)]
		cr := r.Fork()
		cs := genEnvCase(cr, cfg, mode)
		cs.Tags = append(cs.Tags, fmt.Sprintf("random/%s/%s", cfg, mode))
		out = append(out, cs)
	}
	return gen.WriteJSON(a.out, map[string]any{"cases": out})
}
