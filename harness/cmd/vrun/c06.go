package main

import (
	"bytes"
	"fmt"
	"hash/fnv"
	"context"
	"encoding/json"
	"os"
	"strings"

	ae "github.com/godaddy/asherah/go/appencryption"
	"github.com/godaddy/asherah/go/appencryption/pkg/crypto/aead"
	"github.com/godaddy/asherah/go/appencryption/pkg/kms"

	"verif/harness/gen"
	"verif/harness/spy"
)

func init() { register("c06", "partition isolation: id pairs through real sessions", runC06) }

type c06Case struct {
	P, Q, Svc, Prod string  // hex
	Suffix          *string `json:"Suffix"` // hex or null (session P's metastore suffix)
	SuffixQ         *string `json:"SuffixQ"`
	IKQ, SKQ        string  // hex: ids the SDK used for partition Q (observed)
	IKP             string  // hex: id the SDK used for P
	EncOK           bool
	Foreign         string // outcome of decrypting Q's record in P's session: "plain" | "err" | "other"
	Own             string // outcome of decrypting Q's record in Q's session
	EmptyRefused    bool
	Refused         string `json:"Refused,omitempty"` // "P" / "Q": GetSession refused this non-empty id
	Pol             string `json:"Pol,omitempty"`     // "" default | shared (shared IK cache) | sesscache | nocache | shared+sesscache
	Same            bool   `json:"Same,omitempty"`    // both sessions come from ONE factory (its caches are warm with Q's keys)
}

func c06Policy(name string) *ae.CryptoPolicy {
	switch name {
	case "shared":
		return ae.NewCryptoPolicy(ae.WithSharedIntermediateKeyCache(8))
	case "sesscache":
		return ae.NewCryptoPolicy(ae.WithSessionCache())
	case "shared+sesscache":
		return ae.NewCryptoPolicy(ae.WithSharedIntermediateKeyCache(8), ae.WithSessionCache())
	case "nocache":
		return ae.NewCryptoPolicy(ae.WithNoCache())
	}
	return ae.NewCryptoPolicy()
}

// idPieces are the building blocks of adversarial partition ids.
func c06ID(r *gen.Rand, svc, prod string) string {
	pieces := []string{"a", "b", "p1", "_", "__", "_IK_", "_SK_", svc, prod, "_" + svc, "_" + svc + "_" + prod,
		"us-west-2", "_us-west-2", "0", "17", " ", "x_y", "", "é", "\x00", "a_" + svc + "_" + prod + "_x",
		"%", "%s", "%d", "%%", "%2F", "{0}", "\\", "'"}
	n := 1 + r.Intn(4)
	s := ""
	for i := 0; i < n; i++ {
		s += gen.Pick(r, pieces)
	}
	if s == "" {
		s = "z"
	}
	return s
}

func runC06(a *args) error {
	r := gen.New(a.seed)
	crypto := aead.NewAES256GCM()
	k, err := kms.NewStatic("thisIsAStaticMasterKeyForTesting", crypto)
	if err != nil {
		return err
	}
	defer k.Close()
	ctx := context.Background()
	var cases []c06Case
	if a.replay != "" {
		b, err := os.ReadFile(a.replay)
		if err != nil {
			return err
		}
		var rp struct{ Case c06Case }
		if err := json.Unmarshal(b, &rp); err != nil {
			return err
		}
		cases = append(cases, rp.Case)
	}
	if a.replay == "" && a.n > 0 {
		// id sweep: two million partition ids (four prefix lengths) must get pairwise different intermediate-key ids; a colliding
		// pair, if any, is then run through real sessions like every other pair
		for _, pair := range c06Sweep("svc", "prod", 500000) {
			cases = append(cases, c06Case{P: gen.H(pair[0]), Q: gen.H(pair[1]), Svc: gen.H("svc"), Prod: gen.H("prod")})
		}
		// ... and every pair of a small family of ids full of formatting verbs, escapes and templates, under each suffix mode
		for _, sfx := range []string{"", "us-west-2"} {
			for _, pair := range c06VerbSweep("svc", "prod", sfx) {
				c := c06Case{P: gen.H(pair[0]), Q: gen.H(pair[1]), Svc: gen.H("svc"), Prod: gen.H("prod")}
				if sfx != "" {
					h := gen.H(sfx)
					c.Suffix, c.SuffixQ = &h, &h
				}
				cases = append(cases, c)
			}
		}
	}
	svcs := []string{"svc", "s", "a_b", "_", "prod", ""}
	prods := []string{"prod", "p", "svc", "x_y", "_", ""}
	sufs := []string{"us-west-2", "x", "_", "prod", "eu"}
	out := make([]c06Case, 0, a.n)
	for i := 0; i < a.n || len(cases) > 0; i++ {
		var c c06Case
		var p, q, svc, prod string
		var sufP, sufQ string
		var pol string
		var same bool
		if len(cases) > 0 {
			c = cases[0]
			cases = cases[1:]
			p, q, svc, prod = unhex(c.P), unhex(c.Q), unhex(c.Svc), unhex(c.Prod)
			if c.Suffix != nil {
				sufP = unhex(*c.Suffix)
			}
			if c.SuffixQ != nil {
				sufQ = unhex(*c.SuffixQ)
			}
			pol, same = c.Pol, c.Same
			i--
		} else {
			svc, prod = gen.Pick(r, svcs), gen.Pick(r, prods)
			p = c06ID(r, svc, prod)
			switch r.Intn(8) {
			case 7: // ids that differ only in something a formatting / templating / unescaping step would identify or swallow
				v := gen.Pick(r, [][2]string{{"%2F", "%3F"}, {"%%", "%5%"}, {"%[8]s", "%[9]s"}, {"%s", "%v"}, {"%d", "%x"}, {"%", "%!"},
					{"%2f", "%2F"}, {"{0}", "{1}"}, {"\\n", "\n"}, {"%00", "\x00"}, {"+", " "}, {"&amp;", "&"}})
				pre, post := gen.Pick(r, []string{"", "acme", p}), gen.Pick(r, []string{"", "bob", "_" + svc})
				p, q = pre+v[0]+post, pre+v[1]+post
			case 6: // long ids that agree on a long prefix (a length limit or a truncating format would identify them)
				n := gen.Pick(r, []int{60, 120, 127, 128, 129, 200, 255, 256, 300})
				long := strings.Repeat(gen.Pick(r, []string{"tenant-0123456789/", "x", "ab_"}), n)[:n]
				p = long + gen.Pick(r, []string{"/user-1001", "1", "_a"})
				q = long + gen.Pick(r, []string{"/user-1002", "2", "_b"})
			case 0: // the documented collision family for suffixed sessions
				q = p + "_" + svc + "_" + prod + gen.Pick(r, []string{"", "_x", "x", "_" + p})
			case 1:
				q = p + gen.Pick(r, []string{"_", "a", "_" + svc, "0"})
			case 2: // q a prefix of p
				q = p[:r.Intn(len(p))]
				if q == "" {
					q = "q"
				}
			case 3: // ids that a normalising lookup would identify: surrounding white space, letter case, trailing NUL
				q = gen.Pick(r, []string{p + " ", " " + p, p + "\n", p + "\t", "\t" + p + " ", strings.ToUpper(p), strings.ToLower(p), p + "\x00", strings.TrimSpace(p)})
				if q == p || q == "" {
					q = p + " "
				}
			default:
				q = c06ID(r, svc, prod)
			}
			switch r.Intn(4) {
			case 0: // both suffixed, same region
				sufP = gen.Pick(r, sufs)
				sufQ = sufP
			case 1: // only the reading session is suffixed
				sufP = gen.Pick(r, sufs)
			case 2: // different regions
				sufP, sufQ = gen.Pick(r, sufs), gen.Pick(r, sufs)
			}
			if r.Chance(1, 2) {
				pol = gen.Pick(r, []string{"shared", "shared", "sesscache", "shared+sesscache", "nocache"})
			}
			same = sufP == sufQ && r.Chance(1, 2)
		}
		c = c06Case{P: gen.H(p), Q: gen.H(q), Svc: gen.H(svc), Prod: gen.H(prod), Pol: pol, Same: same}
		if sufP != "" {
			h := gen.H(sufP)
			c.Suffix = &h
		}
		if sufQ != "" {
			h := gen.H(sufQ)
			c.SuffixQ = &h
		}
		// one shared table; two views with their own suffix (two regions' metastore clients)
		tr := &spy.Trace{}
		base := spy.NewMetastore(tr, nil)
		viewP := &suffixView{Metastore: base, suffix: sufP}
		viewQ := &suffixView{Metastore: base, suffix: sufQ}
		sf := spy.NewSecretFactory(nil, nil)
		sf.Quiet = true
		mk := func(ms ae.Metastore) *ae.SessionFactory {
			return ae.NewSessionFactory(&ae.Config{Service: svc, Product: prod, Policy: c06Policy(pol)}, ms, k, crypto,
				ae.WithSecretFactory(sf))
		}
		fP := mk(viewP)
		fQ := fP
		if !same {
			fQ = mk(viewQ)
		}
		closeQ := func() {
			if !same {
				fQ.Close()
			}
		}
		if _, err := fP.GetSession(""); err != nil {
			c.EmptyRefused = true
		}
		sQ, err := fQ.GetSession(q)
		if err != nil { // a non-empty id the SDK refuses: nothing to isolate; recorded and skipped by the check
			c.Refused = "Q"
			fP.Close()
			closeQ()
			out = append(out, c)
			continue
		}
		sP, err := fP.GetSession(p)
		if err != nil {
			c.Refused = "P"
			sQ.Close()
			fP.Close()
			closeQ()
			out = append(out, c)
			continue
		}
		payload := []byte("payload-of-" + q)
		rec, err := sQ.Encrypt(ctx, payload)
		if err == nil {
			c.EncOK = true
			c.IKQ = gen.H(rec.Key.ParentKeyMeta.ID)
			if row := base.Get(rec.Key.ParentKeyMeta.ID, rec.Key.ParentKeyMeta.Created); row != nil && row.ParentKeyMeta != nil {
				c.SKQ = gen.H(row.ParentKeyMeta.ID)
			}
			// P's own id, observed from its own record
			if rp, err := sP.Encrypt(ctx, []byte("x")); err == nil {
				c.IKP = gen.H(rp.Key.ParentKeyMeta.ID)
			}
			c.Foreign = outcome(sP.Decrypt(ctx, *rec))(payload)
			c.Own = outcome(sQ.Decrypt(ctx, *rec))(payload)
		}
		sP.Close()
		sQ.Close()
		fP.Close()
		closeQ()
		out = append(out, c)
	}
	return gen.WriteJSON(a.out, map[string]any{"cases": out})
}

type suffixView struct {
	*spy.Metastore
	suffix string
}

func (v *suffixView) GetRegionSuffix() string { return v.suffix }

func outcome(pt []byte, err error) func(want []byte) string {
	return func(want []byte) string {
		if err != nil {
			return "err"
		}
		if bytes.Equal(pt, want) {
			return "plain"
		}
		return "other"
	}
}

func unhex(s string) string {
	b := make([]byte, len(s)/2)
	for i := range b {
		b[i] = hexv(s[2*i])<<4 | hexv(s[2*i+1])
	}
	return string(b)
}

func hexv(c byte) byte {
	switch {
	case c >= '0' && c <= '9':
		return c - '0'
	case c >= 'a' && c <= 'f':
		return c - 'a' + 10
	}
	return 0
}

// c06Sweep derives the intermediate-key id of `per` partition ids for each of four prefix lengths (through the SDK's own id
// construction, exposed by the verification overlay) and returns up to two pairs of different partitions with the same key id.
func c06Sweep(svc, prod string, per int) [][2]string {
	var out [][2]string
	for _, plen := range []int{40, 140, 200, 300} {
		prefix := strings.Repeat("tenant-0123456789abcdef/", 20)[:plen]
		seen := make(map[uint64]int32, per)
		mk := func(i int) string { return fmt.Sprintf("%s%010d", prefix, i) }
		for i := 0; i < per && len(out) < 2; i++ {
			_, ik := ae.VerifKeyIDs(mk(i), svc, prod, "")
			h := fnv.New64a()
			h.Write([]byte(ik))
			k := h.Sum64()
			if j, ok := seen[k]; ok {
				if _, ik2 := ae.VerifKeyIDs(mk(int(j)), svc, prod, ""); ik2 == ik {
					out = append(out, [2]string{mk(int(j)), mk(i)})
				}
				continue
			}
			seen[k] = int32(i)
		}
	}
	return out
}

// c06VerbSweep: partition ids built around formatting verbs, escapes and templates; returns up to two pairs of different ids whose
// intermediate-key or system-key... (only the intermediate-key id is partition-specific) ids coincide under the given region suffix.
func c06VerbSweep(svc, prod, suffix string) [][2]string {
	verbs := []string{"%s", "%d", "%v", "%x", "%q", "%2F", "%3F", "%2f", "%%", "%5%", "%[8]s", "%[9]s", "%[1]s", "%", "%!", "%!s(MISSING)",
		"{0}", "{1}", "{}", "${x}", "$1", "\\", "\\n", "\n", "+", " ", "&amp;", "&", "%00", "\x00", "%c", "%U", "%e", "%t", "%T", "%p", "%b", "%o", "%*d", "%.2f"}
	var ids []string
	for _, v := range verbs {
		ids = append(ids, "acme"+v+"bob", v, "t"+v, v+"z")
	}
	seen := map[string]string{}
	var out [][2]string
	for _, id := range ids {
		_, ik := ae.VerifKeyIDs(id, svc, prod, suffix)
		if other, ok := seen[ik]; ok && other != id {
			if len(out) < 2 {
				out = append(out, [2]string{other, id})
			}
			continue
		}
		seen[ik] = id
	}
	return out
}
