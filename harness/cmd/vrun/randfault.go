package main

import (
	"context"
	"crypto/rand"
	"encoding/hex"
	"errors"
	"fmt"
	"io"

	ae "github.com/godaddy/asherah/go/appencryption"
	"github.com/godaddy/asherah/go/appencryption/pkg/crypto/aead"
	"github.com/godaddy/asherah/go/appencryption/pkg/kms"
	"github.com/godaddy/asherah/go/appencryption/pkg/persistence"

	"verif/harness/gen"
)

func init() {
	register("randfault", "encrypts while the random source fails for nonce-sized reads (C03: no degenerate or repeated nonce)", runRandFault)
}

// nonceFailReader passes every read through except those of exactly n bytes, which fail.
type nonceFailReader struct {
	inner io.Reader
	n     int
	hits  int
}

func (r *nonceFailReader) Read(p []byte) (int, error) {
	if len(p) == r.n {
		r.hits++
		return 0, errors.New("injected: random source unavailable")
	}
	return r.inner.Read(p)
}

type randOutcome struct {
	R         string `json:"r"` // "panic" | "err" | "enc"
	DataNonce string `json:"data_nonce,omitempty"`
	KeyNonce  string `json:"key_nonce,omitempty"`
	IK        string `json:"ik,omitempty"`
	IKCreated int64  `json:"ikc,omitempty"`
}

type randCase struct {
	Policy   string        `json:"policy"`
	Outcomes []randOutcome `json:"outcomes"`
	Hits     int           `json:"hits"`
	After    string        `json:"after"` // encrypt + decrypt once the source works again: "ok" or the error
	Viol     []string      `json:"viol,omitempty"`
}

func tail12(b []byte) string {
	if len(b) < 12 {
		return ""
	}
	return hex.EncodeToString(b[len(b)-12:])
}

func runRandFaultCase(cached bool) *randCase {
	c := &randCase{Policy: map[bool]string{true: "default", false: "nocache"}[cached]}
	crypto := aead.NewAES256GCM()
	k, err := kms.NewStatic("thisIsAStaticMasterKeyForTesting", crypto)
	if err != nil {
		c.Viol = append(c.Viol, "setup: "+err.Error())
		return c
	}
	defer k.Close()
	opts := []ae.PolicyOption{}
	if !cached {
		opts = append(opts, ae.WithNoCache())
	}
	f := ae.NewSessionFactory(&ae.Config{Service: "svc", Product: "prod", Policy: ae.NewCryptoPolicy(opts...)}, persistence.NewMemoryMetastore(), k, crypto)
	defer f.Close()
	s, err := f.GetSession("p1")
	if err != nil {
		c.Viol = append(c.Viol, "setup: "+err.Error())
		return c
	}
	defer s.Close()
	ctx := context.Background()
	if _, err := s.Encrypt(ctx, []byte("warm")); err != nil {
		c.Viol = append(c.Viol, "warm-up encrypt: "+err.Error())
		return c
	}
	saved := rand.Reader
	fr := &nonceFailReader{inner: saved, n: 12}
	rand.Reader = fr
	for i := 0; i < 3; i++ {
		func() {
			defer func() {
				if p := recover(); p != nil {
					c.Outcomes = append(c.Outcomes, randOutcome{R: "panic"})
				}
			}()
			rec, err := s.Encrypt(ctx, []byte(fmt.Sprintf("payload-%d", i)))
			if err != nil {
				c.Outcomes = append(c.Outcomes, randOutcome{R: "err"})
				return
			}
			o := randOutcome{R: "enc", DataNonce: tail12(rec.Data)}
			if rec.Key != nil {
				o.KeyNonce = tail12(rec.Key.EncryptedKey)
				if rec.Key.ParentKeyMeta != nil {
					o.IK, o.IKCreated = rec.Key.ParentKeyMeta.ID, rec.Key.ParentKeyMeta.Created
				}
			}
			c.Outcomes = append(c.Outcomes, o)
		}()
	}
	rand.Reader = saved
	c.Hits = fr.hits
	c.After = "ok"
	if rec, err := s.Encrypt(ctx, []byte("after")); err != nil {
		c.After = "encrypt: " + err.Error()
	} else if pt, err := s.Decrypt(ctx, *rec); err != nil || string(pt) != "after" {
		c.After = fmt.Sprintf("decrypt: %v", err)
	}
	return c
}

func runRandFault(a *args) error {
	var out []*randCase
	for i := 0; i < a.n; i++ {
		out = append(out, runRandFaultCase(i%2 == 0))
	}
	return gen.WriteJSON(a.out, map[string]any{"cases": out})
}
