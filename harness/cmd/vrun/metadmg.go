package main

import (
	"bytes"
	"context"
	"encoding/base64"
	"encoding/json"
	"fmt"
	"time"

	types2 "github.com/aws/aws-sdk-go-v2/service/dynamodb/types"
	ddb1 "github.com/aws/aws-sdk-go/service/dynamodb"

	ae "github.com/godaddy/asherah/go/appencryption"
	"github.com/godaddy/asherah/go/appencryption/pkg/crypto/aead"
	"github.com/godaddy/asherah/go/appencryption/pkg/kms"

	"verif/harness/gen"
)

// metadmg: C07's "any corrupted key record in the metastore" against the REAL metastore implementations.  A session factory over the
// SQL / DynamoDB v1 / DynamoDB v2 metastore (semantic fakes underneath) writes a record; then the stored row of the intermediate or the
// system key is damaged in the engine's own representation (attribute removed, wrong attribute type, not JSON, not base64, flipped key
// bits, dangling parent, ...); then a cold process reads: Load, LoadLatest, Session.Decrypt of the genuine record, Session.Encrypt.
// Every one of them must return an error or (decrypt) exactly the original payload - never other bytes, never a panic.

func init() {
	register("metadmg", "real metastore implementations with damaged key rows under cold sessions (C07)", runMetaDmg)
}

type dmgCase struct {
	Impl    string `json:"impl"`
	Target  string `json:"target"` // "ik" | "sk"
	Damage  string `json:"damage"`
	Payload int    `json:"payload"`
	Seed    uint64 `json:"seed"`
	// observed
	Applied bool     `json:"applied"`
	Load    string   `json:"load,omitempty"`
	Latest  string   `json:"latest,omitempty"`
	Decrypt string   `json:"decrypt,omitempty"`
	Encrypt string   `json:"encrypt,omitempty"`
	Viol    []string `json:"viol,omitempty"`
}

// generic attribute tree (S, N, BOOL, NULL, M, L are all the SDK writes)
type gS string
type gN string
type gB bool
type gNull struct{}
type gM map[string]any
type gL []any

func fromV1(a *ddb1.AttributeValue) any {
	switch {
	case a == nil:
		return gNull{}
	case a.S != nil:
		return gS(*a.S)
	case a.N != nil:
		return gN(*a.N)
	case a.BOOL != nil:
		return gB(*a.BOOL)
	case a.M != nil:
		m := gM{}
		for k, v := range a.M {
			m[k] = fromV1(v)
		}
		return m
	case a.L != nil:
		l := gL{}
		for _, v := range a.L {
			l = append(l, fromV1(v))
		}
		return l
	}
	return gNull{}
}

func toV1(g any) *ddb1.AttributeValue {
	switch v := g.(type) {
	case gS:
		s := string(v)
		return &ddb1.AttributeValue{S: &s}
	case gN:
		s := string(v)
		return &ddb1.AttributeValue{N: &s}
	case gB:
		b := bool(v)
		return &ddb1.AttributeValue{BOOL: &b}
	case gM:
		m := map[string]*ddb1.AttributeValue{}
		for k, x := range v {
			m[k] = toV1(x)
		}
		return &ddb1.AttributeValue{M: m}
	case gL:
		l := []*ddb1.AttributeValue{}
		for _, x := range v {
			l = append(l, toV1(x))
		}
		return &ddb1.AttributeValue{L: l}
	}
	t := true
	return &ddb1.AttributeValue{NULL: &t}
}

func fromV2(a types2.AttributeValue) any {
	switch v := a.(type) {
	case *types2.AttributeValueMemberS:
		return gS(v.Value)
	case *types2.AttributeValueMemberN:
		return gN(v.Value)
	case *types2.AttributeValueMemberBOOL:
		return gB(v.Value)
	case *types2.AttributeValueMemberM:
		m := gM{}
		for k, x := range v.Value {
			m[k] = fromV2(x)
		}
		return m
	case *types2.AttributeValueMemberL:
		l := gL{}
		for _, x := range v.Value {
			l = append(l, fromV2(x))
		}
		return l
	}
	return gNull{}
}

func toV2(g any) types2.AttributeValue {
	switch v := g.(type) {
	case gS:
		return &types2.AttributeValueMemberS{Value: string(v)}
	case gN:
		return &types2.AttributeValueMemberN{Value: string(v)}
	case gB:
		return &types2.AttributeValueMemberBOOL{Value: bool(v)}
	case gM:
		m := map[string]types2.AttributeValue{}
		for k, x := range v {
			m[k] = toV2(x)
		}
		return &types2.AttributeValueMemberM{Value: m}
	case gL:
		l := []types2.AttributeValue{}
		for _, x := range v {
			l = append(l, toV2(x))
		}
		return &types2.AttributeValueMemberL{Value: l}
	}
	return &types2.AttributeValueMemberNULL{Value: true}
}

var dmgKinds = []string{"norecord", "record-string", "record-null", "record-empty", "record-list", "nokey", "key-number", "key-notb64",
	"key-short", "key-empty", "key-flip", "created-string", "created-other", "created-missing", "noparent", "parent-string", "parent-empty",
	"parent-null", "parent-other", "parent-id-number", "revoked-string", "revoked-true"}

func flipB64(s string) string {
	b, err := base64.StdEncoding.DecodeString(s)
	if err != nil || len(b) == 0 {
		return s
	}
	b[len(b)/2] ^= 0x10
	return base64.StdEncoding.EncodeToString(b)
}

// damageItem applies the damage to a DynamoDB item (generic form); the key attributes Id / Created stay, as the engine enforces
func damageItem(item gM, kind string) {
	rec, _ := item["KeyRecord"].(gM)
	switch kind {
	case "norecord":
		delete(item, "KeyRecord")
		return
	case "record-string":
		item["KeyRecord"] = gS("junk")
		return
	case "record-null":
		item["KeyRecord"] = gNull{}
		return
	case "record-empty":
		item["KeyRecord"] = gM{}
		return
	case "record-list":
		item["KeyRecord"] = gL{gS("a"), gN("1")}
		return
	}
	if rec == nil {
		return
	}
	switch kind {
	case "nokey":
		delete(rec, "Key")
	case "key-number":
		rec["Key"] = gN("5")
	case "key-notb64":
		rec["Key"] = gS("!!!not*base64!!!")
	case "key-short":
		rec["Key"] = gS(base64.StdEncoding.EncodeToString([]byte{1, 2, 3, 4, 5}))
	case "key-empty":
		rec["Key"] = gS("")
	case "key-flip":
		if s, ok := rec["Key"].(gS); ok {
			rec["Key"] = gS(flipB64(string(s)))
		}
	case "created-string":
		rec["Created"] = gS("yesterday")
	case "created-other":
		rec["Created"] = gN("12345")
	case "created-missing":
		delete(rec, "Created")
	case "noparent":
		delete(rec, "ParentKeyMeta")
	case "parent-string":
		rec["ParentKeyMeta"] = gS("_SK_svc_prod")
	case "parent-empty":
		rec["ParentKeyMeta"] = gM{}
	case "parent-null":
		rec["ParentKeyMeta"] = gNull{}
	case "parent-other":
		if p, ok := rec["ParentKeyMeta"].(gM); ok {
			p["Created"] = gN("12345")
		} else {
			rec["ParentKeyMeta"] = gM{"KeyId": gS("_SK_svc_prod"), "Created": gN("12345")}
		}
	case "parent-id-number":
		if p, ok := rec["ParentKeyMeta"].(gM); ok {
			p["KeyId"] = gN("7")
		} else {
			rec["ParentKeyMeta"] = gM{"KeyId": gN("7"), "Created": gN("12345")}
		}
	case "revoked-string":
		rec["Revoked"] = gS("yes")
	case "revoked-true":
		rec["Revoked"] = gB(true)
	}
}

// damageJSON: the same damage on the SQL metastore's key_record column (a JSON document)
func damageJSON(rec string, kind string) string {
	switch kind {
	case "norecord":
		return ""
	case "record-string":
		return `"junk"`
	case "record-null":
		return "null"
	case "record-empty":
		return "{}"
	case "record-list":
		return `["a",1]`
	}
	var m map[string]any
	if json.Unmarshal([]byte(rec), &m) != nil {
		return rec
	}
	switch kind {
	case "nokey":
		delete(m, "Key")
	case "key-number":
		m["Key"] = 5
	case "key-notb64":
		m["Key"] = "!!!not*base64!!!"
	case "key-short":
		m["Key"] = base64.StdEncoding.EncodeToString([]byte{1, 2, 3, 4, 5})
	case "key-empty":
		m["Key"] = ""
	case "key-flip":
		if s, ok := m["Key"].(string); ok {
			m["Key"] = flipB64(s)
		}
	case "created-string":
		m["Created"] = "yesterday"
	case "created-other":
		m["Created"] = 12345
	case "created-missing":
		delete(m, "Created")
	case "noparent":
		delete(m, "ParentKeyMeta")
	case "parent-string":
		m["ParentKeyMeta"] = "_SK_svc_prod"
	case "parent-empty":
		m["ParentKeyMeta"] = map[string]any{}
	case "parent-null":
		m["ParentKeyMeta"] = nil
	case "parent-other":
		m["ParentKeyMeta"] = map[string]any{"KeyId": "_SK_svc_prod", "Created": 12345}
	case "parent-id-number":
		m["ParentKeyMeta"] = map[string]any{"KeyId": 7, "Created": 12345}
	case "revoked-string":
		m["Revoked"] = "yes"
	case "revoked-true":
		m["Revoked"] = true
	}
	b, _ := json.Marshal(m)
	if kind == "truncated" && len(b) > 10 {
		return string(b[:len(b)/2])
	}
	return string(b)
}

func guarded(f func() string) (res string) {
	defer func() {
		if r := recover(); r != nil {
			res = fmt.Sprint("panic: ", r)
		}
	}()
	return f()
}

func runDmgCase(c *dmgCase) {
	viol := func(f string, a ...any) { c.Viol = append(c.Viol, fmt.Sprintf(f, a...)) }
	mc := &metaCase{Impl: c.Impl}
	ms, err := buildMetastore(mc)
	if err != nil {
		viol("cannot build metastore: %v", err)
		return
	}
	crypto := aead.NewAES256GCM()
	k, _ := kms.NewStatic(masterKey, crypto)
	defer k.Close()
	ctx := context.Background()
	r := gen.New(c.Seed)
	payload := r.Bytes(c.Payload)
	cfg := &ae.Config{Service: "svc", Product: "prod", Policy: ae.NewCryptoPolicy()}
	// writer process
	sf := ae.NewSessionFactory(cfg, ms, k, crypto)
	s, _ := sf.GetSession("p1")
	drr, err := s.Encrypt(ctx, payload)
	s.Close()
	sf.Close()
	if err != nil {
		viol("encrypt on the undamaged table failed: %v", err)
		return
	}
	ikID, ikC := drr.Key.ParentKeyMeta.ID, drr.Key.ParentKeyMeta.Created
	ikRec, err := ms.Load(ctx, ikID, ikC)
	if err != nil || ikRec == nil || ikRec.ParentKeyMeta == nil {
		viol("cannot read back the intermediate key row: %v", err)
		return
	}
	id, created := ikID, ikC
	if c.Target == "sk" {
		id, created = ikRec.ParentKeyMeta.ID, ikRec.ParentKeyMeta.Created
	}
	// cold reader before the damage: the record is genuine
	cold := func() (string, string) {
		sf2 := ae.NewSessionFactory(cfg, ms, k, crypto)
		defer func() {
			defer func() { recover() }()
			sf2.Close()
		}()
		dec := guarded(func() string {
			s2, err := sf2.GetSession("p1")
			if err != nil {
				return "err: " + err.Error()
			}
			defer s2.Close()
			got, err := s2.Decrypt(ctx, *drr)
			switch {
			case err != nil:
				return "err"
			case bytes.Equal(got, payload):
				return "payload"
			}
			return fmt.Sprintf("OTHER BYTES %x", got)
		})
		enc := guarded(func() string {
			s2, err := sf2.GetSession("p1")
			if err != nil {
				return "err: " + err.Error()
			}
			defer s2.Close()
			if _, err := s2.Encrypt(ctx, []byte("again")); err != nil {
				return "err"
			}
			return "record"
		})
		return dec, enc
	}
	if d, _ := cold(); d != "payload" {
		viol("a cold process cannot decrypt the genuine record on the undamaged table: %s", d)
		return
	}
	// the damage, in the engine's own representation
	switch {
	case mc.dyn != nil:
		it := mc.dyn.Peek(id, created)
		if it == nil {
			viol("key row (%s, %d) is not in the table", id, created)
			return
		}
		switch attrs := it.Attrs.(type) {
		case map[string]*ddb1.AttributeValue:
			g := gM{}
			for kk, v := range attrs {
				g[kk] = fromV1(v)
			}
			damageItem(g, c.Damage)
			out := map[string]*ddb1.AttributeValue{}
			for kk, v := range g {
				out[kk] = toV1(v)
			}
			mc.dyn.Replace(id, created, out)
		case map[string]types2.AttributeValue:
			g := gM{}
			for kk, v := range attrs {
				g[kk] = fromV2(v)
			}
			damageItem(g, c.Damage)
			out := map[string]types2.AttributeValue{}
			for kk, v := range g {
				out[kk] = toV2(v)
			}
			mc.dyn.Replace(id, created, out)
		}
		c.Applied = true
	case mc.sqlT != nil:
		t := time.Unix(created, 0)
		old := mc.sqlT.Lookup(id, t)
		if old == "" {
			viol("key row (%s, %d) is not in the table", id, created)
			return
		}
		c.Applied = mc.sqlT.SetRec(id, t, damageJSON(old, c.Damage))
	}
	if !c.Applied {
		viol("damage could not be applied")
		return
	}
	c.Load = guarded(func() string {
		e, err := ms.Load(ctx, id, created)
		switch {
		case err != nil:
			return "err"
		case e == nil:
			return "none"
		}
		return "some"
	})
	c.Latest = guarded(func() string {
		e, err := ms.LoadLatest(ctx, id)
		switch {
		case err != nil:
			return "err"
		case e == nil:
			return "none"
		}
		return "some"
	})
	c.Decrypt, c.Encrypt = cold()
	for what, res := range map[string]string{"Metastore.Load": c.Load, "Metastore.LoadLatest": c.Latest, "Session.Decrypt": c.Decrypt, "Session.Encrypt": c.Encrypt} {
		if len(res) >= 6 && res[:6] == "panic:" {
			viol("%s of a key row damaged by %q (%s row, %s) panicked: %s", what, c.Damage, c.Target, c.Impl, res)
		}
	}
	if len(c.Decrypt) > 5 && c.Decrypt[:5] == "OTHER" {
		viol("Session.Decrypt returned bytes that are not the original payload after %q damage of the %s row (%s): %s", c.Damage, c.Target, c.Impl, c.Decrypt)
	}
}

var dmgImpls = []string{"dynamo-v1", "dynamo-v2", "sql-mysql", "sql-postgres", "sql-oracle"}

func runMetaDmg(a *args) error {
	if a.replay != "" {
		var rp struct{ Case *dmgCase }
		if err := readJSON(a.replay, &rp); err != nil {
			return err
		}
		c := rp.Case
		c.Viol = nil
		runDmgCase(c)
		return gen.WriteJSON(a.out, map[string]any{"cases": []*dmgCase{c}})
	}
	r := gen.New(a.seed)
	var out []*dmgCase
	// the grid impl x target x damage is small: walk it in order, wrapping, so that n >= its size covers all of it
	kinds := append(append([]string{}, dmgKinds...), "truncated")
	i := 0
	for len(out) < a.n {
		impl := dmgImpls[i%len(dmgImpls)]
		tgt := []string{"ik", "sk"}[(i/len(dmgImpls))%2]
		kind := kinds[(i/(2*len(dmgImpls)))%len(kinds)]
		i++
		c := &dmgCase{Impl: impl, Target: tgt, Damage: kind, Payload: gen.Pick(r, []int{0, 1, 16, 33, 200}), Seed: r.U64() >> 1}
		runDmgCase(c)
		out = append(out, c)
	}
	return gen.WriteJSON(a.out, map[string]any{"cases": out})
}
