package main

import (
	"context"
	"fmt"
	"sync"

	ae "github.com/godaddy/asherah/go/appencryption"
	"github.com/godaddy/asherah/go/appencryption/pkg/persistence"

	"verif/harness/gen"
	"verif/harness/sched"
)

func init() {
	register("metaconc", "concurrent Store/Load on the in-memory metastore under controlled schedules (C13: insert-only under concurrency)", runMetaConc)
}

type metaConcCase struct {
	Seed    uint64   `json:"seed"`
	Threads int      `json:"threads"`
	Keys    int      `json:"keys"`
	Trace   []string `json:"trace,omitempty"`
	Wins    []int    `json:"wins"` // per key: number of Store calls that reported true
	Viol    []string `json:"viol,omitempty"`
}

// Each thread stores its own record under one of a few (id, created) keys, then reads it back.  Whatever the
// interleaving: exactly one Store per key reports true, every read made after a Store returned sees the winner's
// record (never another thread's), and the record present at the end is the winner's.
func runMetaConcCase(c *metaConcCase) {
	r := gen.New(c.Seed)
	ms := persistence.NewMemoryMetastore()
	s := sched.New(r.Fork())
	s.PCT = c.Seed%3 == 1
	persistence.VerifSetYield(func(l string) { s.Yield(l) })
	defer persistence.VerifSetYield(nil)
	ctx := context.Background()
	var vs violations
	type outcome struct {
		key  int
		ok   bool
		seen string // EncryptedKey read back right after the Store returned
	}
	outs := make([]outcome, c.Threads)
	var mu sync.Mutex
	for i := 0; i < c.Threads; i++ {
		i := i
		key := r.Intn(c.Keys)
		s.Go(fmt.Sprintf("t%d", i), func() {
			id, created := "_SK_svc_prod", int64(1000+key)
			rec := &ae.EnvelopeKeyRecord{Created: created, EncryptedKey: []byte(fmt.Sprintf("key-of-thread-%d", i))}
			ok, err := ms.Store(ctx, id, created, rec)
			if err != nil {
				vs.add("thread %d: Store returned an error: %v", i, err)
			}
			got, err := ms.Load(ctx, id, created)
			seen := ""
			if err != nil || got == nil {
				vs.add("thread %d: Load right after Store returned found nothing (err=%v)", i, err)
			} else {
				seen = string(got.EncryptedKey)
			}
			if l, err := ms.LoadLatest(ctx, id); err != nil || l == nil {
				vs.add("thread %d: LoadLatest after a completed Store found nothing (err=%v)", i, err)
			}
			mu.Lock()
			outs[i] = outcome{key, ok, seen}
			mu.Unlock()
		})
	}
	if !s.Run(400) {
		vs.add("threads deadlocked")
	}
	c.Trace = s.Trace
	c.Wins = make([]int, c.Keys)
	winner := make([]int, c.Keys)
	users := make([]int, c.Keys)
	for k := range winner {
		winner[k] = -1
	}
	for i, o := range outs {
		users[o.key]++
		if o.ok {
			c.Wins[o.key]++
			winner[o.key] = i
		}
	}
	for k := 0; k < c.Keys; k++ {
		if users[k] == 0 {
			continue
		}
		if c.Wins[k] != 1 {
			vs.add("key %d: %d concurrent Store calls for one (id, created) reported true (want exactly 1 of %d)", k, c.Wins[k], users[k])
			continue
		}
		want := fmt.Sprintf("key-of-thread-%d", winner[k])
		final, _ := ms.Load(ctx, "_SK_svc_prod", int64(1000+k))
		if final == nil || string(final.EncryptedKey) != want {
			vs.add("key %d: the record in the metastore at the end is not the one whose Store reported true", k)
		}
		for i, o := range outs {
			if o.key == k && o.seen != "" && o.seen != want {
				vs.add("key %d: thread %d read back %q after its Store returned, but the stored record is %q (an existing record was changed)", k, i, o.seen, want)
			}
		}
	}
	c.Viol = vs.v
}

func runMetaConc(a *args) error {
	var cases []*metaConcCase
	if a.replay != "" {
		var rp struct{ Case metaConcCase }
		if err := readJSON(a.replay, &rp); err != nil {
			return err
		}
		c := rp.Case
		c.Trace, c.Viol = nil, nil
		cases = append(cases, &c)
	} else {
		r := gen.New(a.seed ^ 0x13c0c)
		for i := 0; i < a.n; i++ {
			cases = append(cases, &metaConcCase{Seed: r.U64(), Threads: 2 + r.Intn(3), Keys: 1 + r.Intn(2)})
		}
	}
	for _, c := range cases {
		runMetaConcCase(c)
	}
	return gen.WriteJSON(a.out, map[string]any{"cases": cases})
}
