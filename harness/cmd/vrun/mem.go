package main

import (
	"bytes"
	"errors"
	"fmt"
	"runtime/debug"
	"time"
	"unsafe"

	mcall "github.com/awnumar/memcall"

	"github.com/godaddy/asherah/go/securememory"
	"github.com/godaddy/asherah/go/securememory/memguard"
	"github.com/godaddy/asherah/go/securememory/protectedmemory"

	"verif/harness/gen"
)

func init() {
	register("mem", "secure memory implementations over an interposed memcall (C11, C12)", runMem)
}

// shadowMC is a memcall that IS a shadow page table: regions are ordinary Go slices, every primitive is recorded with
// its outcome and with whether the region still held non-zero bytes, faults are injected by call index.
type shadowMC struct {
	pattern []byte // when set (memguard: the inner region also holds a random canary) "dirty" means "contains these bytes"
	calls   int
	plan    map[int]bool
	events  []memEvent
	regions map[uintptr]*region
	last    *region
}

type region struct {
	buf            []byte
	mapped, locked bool
	prot           int // 0 none, 1 ro, 2 rw
}

type memEvent struct {
	C     int  `json:"c"` // 0 alloc 1 lock 2 unlock 3 free 4 rand 10+prot protect
	OK    bool `json:"ok"`
	Dirty bool `json:"dirty"`
}

func dirty(b []byte) bool {
	for _, c := range b {
		if c != 0 {
			return true
		}
	}
	return false
}

func (m *shadowMC) dirty(b []byte) bool {
	if m.pattern != nil {
		return bytes.Contains(b, m.pattern)
	}
	return dirty(b)
}

func (m *shadowMC) next() bool {
	i := m.calls
	m.calls++
	return !m.plan[i]
}

func (m *shadowMC) reg(b []byte) *region {
	if len(b) == 0 {
		return m.last
	}
	if r, ok := m.regions[uintptr(unsafe.Pointer(&b[0]))]; ok {
		return r
	}
	return m.last
}

// adopt registers a region the implementation allocated and locked by itself (memguard's buffers do not come from the interposed
// memcall: only their protection changes and the clean-up after a failed creation go through it).
func (m *shadowMC) adopt(b []byte) {
	if m.pattern == nil || len(b) == 0 {
		return
	}
	if _, ok := m.regions[uintptr(unsafe.Pointer(&b[0]))]; !ok {
		r := &region{buf: b, mapped: true, locked: true, prot: 2}
		m.regions[uintptr(unsafe.Pointer(&b[0]))] = r
		m.last = r
	}
}

var errInjected = errors.New("injected memcall fault")

func (m *shadowMC) Alloc(size int) ([]byte, error) {
	ok := m.next()
	m.events = append(m.events, memEvent{0, ok, false})
	if !ok {
		return nil, errInjected
	}
	b := make([]byte, size)
	r := &region{buf: b, mapped: true, prot: 2}
	m.regions[uintptr(unsafe.Pointer(&b[0]))] = r
	m.last = r
	return b, nil
}

func (m *shadowMC) Lock(b []byte) error {
	ok := m.next()
	m.events = append(m.events, memEvent{1, ok, m.dirty(b)})
	if !ok {
		return errInjected
	}
	if r := m.reg(b); r == nil || !r.mapped {
		return errors.New("ENOMEM")
	}
	m.reg(b).locked = true
	return nil
}

func (m *shadowMC) Unlock(b []byte) error {
	ok := m.next()
	m.events = append(m.events, memEvent{2, ok, m.dirty(b)})
	if !ok {
		return errInjected
	}
	if r := m.reg(b); r == nil || !r.mapped {
		return errors.New("ENOMEM: region is not mapped")
	}
	m.reg(b).locked = false
	return nil
}

func (m *shadowMC) Free(b []byte) error {
	ok := m.next()
	m.events = append(m.events, memEvent{3, ok, m.dirty(b)})
	if !ok {
		return errInjected
	}
	if r := m.reg(b); r == nil || !r.mapped {
		return errors.New("EINVAL: region is not mapped")
	}
	r := m.reg(b)
	r.mapped, r.locked, r.prot = false, false, 0
	return nil
}

func protCode(f mcall.MemoryProtectionFlag) int {
	switch f {
	case mcall.NoAccess():
		return 0
	case mcall.ReadOnly():
		return 1
	}
	return 2
}

func (m *shadowMC) Protect(b []byte, f mcall.MemoryProtectionFlag) error {
	m.adopt(b)
	ok := m.next()
	m.events = append(m.events, memEvent{10 + protCode(f), ok, m.dirty(b)})
	if !ok {
		return errInjected
	}
	if r := m.reg(b); r == nil || !r.mapped {
		return errors.New("ENOMEM: region is not mapped")
	}
	m.reg(b).prot = protCode(f)
	return nil
}

// rand is the random source handed to createRandom; it counts as a primitive call (code 4)
func (m *shadowMC) rand(b []byte) (int, error) {
	ok := m.next()
	m.events = append(m.events, memEvent{4, ok, false})
	for i := range b {
		b[i] = byte(0xA0 + i%7 + 1)
	}
	if !ok {
		return 0, errInjected
	}
	return len(b), nil
}

type memOp struct {
	K     string `json:"k"` // new, random, with, close, isclosed, withclose (Close arrives while a reader is inside)
	Size  int    `json:"size,omitempty"`
	Depth int    `json:"depth,omitempty"`
	Err   bool   `json:"err,omitempty"`
	Panic bool   `json:"panic,omitempty"` // the innermost reader callback panics (recovered by the caller of WithBytes)
	Plan  []int  `json:"plan,omitempty"`
}

type memObs struct {
	R        int        `json:"r"` // 0 ok 1 err 2 closed 3 invalid
	Ev       []memEvent `json:"ev"`
	Mapped   bool       `json:"mapped"`
	Locked   bool       `json:"locked"`
	Prot     int        `json:"prot"`
	Counter  int        `json:"counter"` // readers inside after the op (always 0 between sequential ops)
	Seen     bool       `json:"seen"`    // every callback saw the original bytes
	InUse    int64      `json:"inuse"`
	ClosedOK bool       `json:"closed_ok,omitempty"` // withclose: the concurrent Close returned nil
	Msg      string     `json:"msg,omitempty"`       // error text of a failed access
}

type memCase struct {
	Impl string   `json:"impl"` // protectedmemory | memguard
	Ops  []memOp  `json:"ops"`
	Obs  []memObs `json:"obs"`
	Viol []string `json:"viol,omitempty"`
}

var secretBytes = []byte("0123456789abcdef0123456789abcdef")

func runMemCase(c *memCase) {
	mc := &shadowMC{regions: map[uintptr]*region{}}
	var sec securememory.Secret
	viol := func(f string, a ...any) { c.Viol = append(c.Viol, fmt.Sprintf(f, a...)) }
	if c.Impl == "memguard" {
		mc.pattern = secretBytes[:8]
	}
	pf := protectedmemory.NewSecretFactoryWithMemcall(mc)
	mgf := memguard.NewSecretFactoryWithMemcall(mc)
	base := securememory.InUseCounter.Count()
	created, closedOK := int64(0), int64(0)
	faulted := false // some primitive has been made to fail in this case
	for i, op := range c.Ops {
		mc.calls, mc.events, mc.plan = 0, nil, map[int]bool{}
		for _, p := range op.Plan {
			mc.plan[p] = true
		}
		var ob memObs
		ob.Seen = true
		done := make(chan struct{})
		go func() {
			defer close(done)
			defer func() {
				if r := recover(); r != nil {
					ob.R = 1
					viol("op %d (%s) panicked: %v", i, op.K, r)
				}
			}()
			switch op.K {
			case "new", "random":
				var s securememory.Secret
				var err error
				if op.K == "new" {
					src := append([]byte(nil), secretBytes[:max1(op.Size)]...)
					if op.Size < 1 {
						src = nil
					}
					if c.Impl == "memguard" {
						s, err = mgf.New(src)
					} else {
						s, err = pf.New(src)
					}
					if err == nil && dirty(src) {
						viol("op %d: New did not wipe its argument", i)
					}
				} else {
					s, err = pf.VerifCreateRandom(op.Size, mc.rand)
				}
				switch {
				case err == nil:
					sec = s
					created++
				case op.Size < 1:
					ob.R = 3
				default:
					ob.R = 1
				}
			case "with":
				if sec == nil {
					ob.R = 1
					return
				}
				var nest func(d int) error
				nest = func(d int) error {
					body := func(b []byte) error {
						if r := mc.reg(b); r == nil || !r.mapped || r.prot == 0 {
							ob.Seen = false
						}
						if !dirty(b) {
							ob.Seen = false
						}
						if d > 0 {
							return nest(d - 1)
						}
						if op.Panic {
							panic("reader callback panics")
						}
						if op.Err {
							return errors.New("action failed")
						}
						return nil
					}
					if (op.Depth+d)%2 == 1 { // every other level goes through WithBytesFunc (same access discipline, returns bytes too)
						_, err := sec.WithBytesFunc(func(b []byte) ([]byte, error) { return nil, body(b) })
						return err
					}
					return sec.WithBytes(body)
				}
				err := func() (err error) {
					defer func() {
						if r := recover(); r != nil {
							if !op.Panic {
								panic(r)
							}
							err = errors.New("reader callback panicked")
						}
					}()
					return nest(op.Depth)
				}()
				if err != nil {
					ob.Msg = err.Error()
				}
				switch {
				case err == nil:
				case isClosedErr(err):
					ob.R = 2
				default:
					ob.R = 1
				}
			case "close":
				if sec == nil {
					return
				}
				if err := sec.Close(); err != nil {
					ob.R = 1
					if len(op.Plan) == 0 && c.Impl == "protectedmemory" {
						viol("op %d: Close without any injected fault failed (a failed Close cannot be retried): %v", i, err)
					}
				} else if !wasClosed(c, i) {
					closedOK++
				}
			case "withclose":
				// Close is called while a reader is inside and parks until the reader leaves; the reader's release (or its access, or
				// the Close itself) may hit an injected fault.  Whatever fails, Close has to return once the reader has left.
				if sec == nil {
					ob.R = 1
					return
				}
				closeDone := make(chan error, 1)
				entered := false
				rerr := sec.WithBytes(func(b []byte) error {
					entered = true
					if !dirty(b) {
						ob.Seen = false
					}
					go func() { closeDone <- sec.Close() }()
					time.Sleep(15 * time.Millisecond) // let Close take the lock, mark the secret closing and wait for this reader
					return nil
				})
				if !entered {
					go func() { closeDone <- sec.Close() }()
				}
				select {
				case cerr := <-closeDone:
					switch {
					case cerr != nil:
						ob.R = 1
					case !wasClosed(c, i):
						ob.ClosedOK = true
						closedOK++
					}
				case <-time.After(2 * time.Second):
					viol("op %d: a Close that was waiting for the last reader never returned although the reader has left (reader's result: %v)", i, rerr)
					ob.R = 1
				}
				if entered && len(op.Plan) == 0 {
					// the last reader has left while a Close was pending: its release must still have put the pages back to
					// no-access before anything else happened to them (no reader is running between the two)
					sawNone, sawRO := false, false
					for _, e := range mc.events {
						if e.C == 11 {
							sawRO = true
						} else if sawRO && (e.C == 10 || e.C == 12) { // the first protection change after the pages were opened for reading
							sawNone = e.C == 10 && e.OK
							break
						}
					}
					if sawRO && !sawNone {
						viol("op %d: the last reader left while a Close was waiting and the pages were not set back to no-access (they stay readable until the closer gets to run)", i)
					}
				}
				if rerr != nil && ob.R == 0 {
					ob.R = 1
					if isClosedErr(rerr) {
						ob.R = 2
					}
				}
			case "isclosed":
				if sec != nil && sec.IsClosed() {
					ob.R = 2
				}
			}
		}()
		select {
		case <-done:
		case <-time.After(4 * time.Second):
			// the operation is stuck (e.g. Close waiting for a reader count that can never reach zero): report it and
			// abandon the case; its goroutine stays parked
			memStuck++
			viol("op %d (%s) did not return within 4 s: deadlock (reader count can no longer reach zero?)", i, op.K)
			ob.R = 1
			c.Obs = append(c.Obs, ob)
			return
		}
		ob.Ev = mc.events
		if mc.last != nil {
			ob.Mapped, ob.Locked, ob.Prot = mc.last.mapped, mc.last.locked, mc.last.prot
		}
		ob.InUse = securememory.InUseCounter.Count() - base
		if ob.InUse != created-closedOK {
			viol("op %d: InUse counter is %d but %d secrets were created and %d closed", i, ob.InUse, created, closedOK)
		}
		for _, e := range mc.events {
			if (e.C == 2 || e.C == 3) && e.Dirty {
				viol("op %d: pages holding secret bytes were unlocked/freed before being wiped", i)
			}
		}
		if !ob.Seen {
			viol("op %d: a reader callback did not see the original bytes in readable pages", i)
		}
		if len(op.Plan) > 0 {
			faulted = true
		}
		if !faulted && mc.last != nil && mc.last.mapped && mc.last.prot != 0 {
			viol("op %d (%s): no reader callback is running and no primitive has failed, but the secret's pages are left accessible (protection %d)", i, op.K, mc.last.prot)
		}
		c.Obs = append(c.Obs, ob)
	}
	// "gone on Close": every case ends with an unfaulted Close; if that Close reports success - whatever failed before, including
	// earlier Closes that an injected fault made fail - nothing of the secret may remain mapped or locked
	for j := len(c.Ops) - 1; j >= 0 && j < len(c.Obs); j-- {
		if c.Ops[j].K != "close" {
			continue
		}
		// (protectedmemory only: memguard's core unmaps through its own memcall, which the shadow does not see)
		if c.Obs[j].R == 0 && len(c.Ops[j].Plan) == 0 && sec != nil && c.Impl == "protectedmemory" {
			for _, rg := range mc.regions {
				if rg.mapped {
					viol("op %d: Close returned nil, yet pages of the secret are still mapped (locked=%v, protection %d): an earlier failed Close cannot be made good",
						j, rg.locked, rg.prot)
					break
				}
			}
		}
		break
	}
}

// memStuck counts operations that never returned; after a few the run stops early (every further case would wait as well)
var memStuck int

func wasClosed(c *memCase, upto int) bool {
	for j := 0; j < upto && j < len(c.Obs); j++ {
		if c.Ops[j].K == "close" && c.Obs[j].R == 0 || c.Obs[j].ClosedOK {
			return true
		}
	}
	return false
}

func isClosedErr(err error) bool {
	return err != nil && containsStr(err.Error(), "secret has already been destroyed")
}

func containsStr(s, sub string) bool {
	for i := 0; i+len(sub) <= len(s); i++ {
		if s[i:i+len(sub)] == sub {
			return true
		}
	}
	return false
}

func max1(n int) int {
	if n < 1 {
		return 0
	}
	if n > len(secretBytes) {
		return len(secretBytes)
	}
	return n
}

func genMemCase(r *gen.Rand, impl string, faulty bool, conc bool) *memCase {
	c := &memCase{Impl: impl}
	plan := func(n int) []int {
		if !faulty || !r.Chance(1, 2) {
			return nil
		}
		var p []int
		k := 1 + r.Intn(2)
		for i := 0; i < k; i++ {
			p = append(p, r.Intn(n))
		}
		return p
	}
	size := gen.Pick(r, []int{1, 2, 16, 31, 32})
	if impl == "memguard" {
		size = gen.Pick(r, []int{8, 16, 31, 32})
	}
	if r.Chance(1, 12) {
		size = 0
	}
	if impl == "protectedmemory" && r.Bool() {
		c.Ops = append(c.Ops, memOp{K: "random", Size: size, Plan: plan(6)})
	} else {
		c.Ops = append(c.Ops, memOp{K: "new", Size: size, Plan: plan(6)})
	}
	n := 2 + r.Intn(8)
	for i := 0; i < n; i++ {
		switch r.Intn(10) {
		case 0, 1, 2, 3, 4:
			c.Ops = append(c.Ops, memOp{K: "with", Depth: r.Intn(3), Err: r.Chance(1, 4), Panic: r.Chance(1, 8), Plan: plan(3)})
		case 5, 6:
			c.Ops = append(c.Ops, memOp{K: "close", Plan: plan(3)})
		default:
			c.Ops = append(c.Ops, memOp{K: "isclosed"})
		}
	}
	if conc {
		var p []int
		if faulty {
			p = gen.Pick(r, [][]int{{1}, {1}, {1}, {0}, {2}, {1, 2}, nil})
		}
		c.Ops = append(c.Ops, memOp{K: "withclose", Plan: p})
	}
	c.Ops = append(c.Ops, memOp{K: "close"}, memOp{K: "with"}, memOp{K: "isclosed"})
	return c
}

func runMem(a *args) error {
	// finalizers of abandoned secrets would touch the global in-use counter at arbitrary times: keep the collector off
	debug.SetGCPercent(-1)
	r := gen.New(a.seed)
	var out []*memCase
	if a.replay != "" {
		var rp struct{ Case *memCase }
		if err := readJSON(a.replay, &rp); err != nil {
			return err
		}
		c := rp.Case
		c.Obs, c.Viol = nil, nil
		runMemCase(c)
		return gen.WriteJSON(a.out, map[string]any{"cases": []*memCase{c}})
	}
	faulty := a.extra == "faults"
	if a.extra == "sweep" {
		// exhaustive: every single fault index and every pair, for each creation op, access and close
		for _, k := range []string{"new", "random"} {
			for i := -1; i < 6; i++ {
				for j := i; j < 6; j++ {
					var p []int
					if i >= 0 {
						p = append(p, i)
					}
					if j > i {
						p = append(p, j)
					}
					for _, follow := range [][]int{nil, {0}, {1}} {
						for _, cl := range [][]int{nil, {0}, {1}, {2}, {0, 1}, {1, 2}} {
							c := &memCase{Impl: "protectedmemory", Ops: []memOp{{K: k, Size: 16, Plan: p}, {K: "with", Depth: 1, Plan: follow}, {K: "with"},
								{K: "close", Plan: cl}, {K: "close"}, {K: "with"}, {K: "isclosed"}}}
							if memStuck >= 3 {
								continue
							}
							runMemCase(c)
							out = append(out, c)
						}
					}
				}
			}
		}
		return gen.WriteJSON(a.out, map[string]any{"cases": out})
	}
	for i := 0; i < a.n; i++ {
		impl := "protectedmemory"
		if i%3 == 2 {
			impl = "memguard"
		}
		// one case in fifteen ends with a Close that arrives while a reader is inside
		c := genMemCase(r, impl, faulty, i%15 == 7 || i%15 == 8)
		if memStuck >= 3 {
			break
		}
		runMemCase(c)
		out = append(out, c)
	}
	return gen.WriteJSON(a.out, map[string]any{"cases": out})
}
