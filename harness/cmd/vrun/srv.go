package main

import (
	"context"
	"fmt"
	"io"
	"log"
	"time"

	"google.golang.org/grpc/metadata"

	ae "github.com/godaddy/asherah/go/appencryption"
	pb "github.com/godaddy/asherah/server/go/api"
	"github.com/godaddy/asherah/server/go/pkg/server"

	"verif/harness/gen"
)

func init() { register("srv", "gRPC sidecar handler through an in-memory stream (C19)", runSrv) }

// request symbols: gs:<id> | enc:<payload> | dec:<part>:<payload>:<variant g|bad|none> | empty
type srvCase struct {
	Reqs []string `json:"reqs"`
	Obs  []int    `json:"obs"` // 0 session-ok, 1 enc, 100+p dec, 3 error, 4 panic / nil response
	Note string   `json:"note,omitempty"`
	Sent int      `json:"sent"`
	Viol []string `json:"viol,omitempty"`
	// Multi marks a scenario with several concurrent streams on one server with session caching (judged by the harness alone)
	Multi string `json:"multi,omitempty"`
}

// chanStream is an interactive in-memory stream: the test sends one request at a time and reads the response.
type chanStream struct {
	ctx  context.Context
	in   chan *pb.SessionRequest
	out  chan *pb.SessionResponse
	done chan error
}

func (m *chanStream) Send(r *pb.SessionResponse) error { m.out <- r; return nil }
func (m *chanStream) Recv() (*pb.SessionRequest, error) {
	r, ok := <-m.in
	if !ok {
		return nil, io.EOF
	}
	return r, nil
}
func (m *chanStream) SetHeader(metadata.MD) error  { return nil }
func (m *chanStream) SendHeader(metadata.MD) error { return nil }
func (m *chanStream) SetTrailer(metadata.MD)       {}
func (m *chanStream) Context() context.Context     { return m.ctx }
func (m *chanStream) SendMsg(interface{}) error    { return nil }
func (m *chanStream) RecvMsg(interface{}) error    { return nil }

func openStream(app *server.AppEncryption) *chanStream {
	st := &chanStream{ctx: context.Background(), in: make(chan *pb.SessionRequest), out: make(chan *pb.SessionResponse, 4), done: make(chan error, 1)}
	go func() {
		defer func() {
			if r := recover(); r != nil {
				st.done <- fmt.Errorf("handler panicked: %v", r)
			}
		}()
		st.done <- app.Session(st)
	}()
	return st
}

// call sends one request and waits for its response (nil = none within 3 s)
func (m *chanStream) call(r *pb.SessionRequest) *pb.SessionResponse {
	select {
	case m.in <- r:
	case <-time.After(3 * time.Second):
		return nil
	}
	select {
	case resp := <-m.out:
		return resp
	case <-time.After(3 * time.Second):
		return nil
	}
}

func (m *chanStream) eof() error {
	close(m.in)
	select {
	case err := <-m.done:
		return err
	case <-time.After(3 * time.Second):
		return fmt.Errorf("stream did not end within 3 s of end-of-stream")
	}
}

// runSrvMulti: several streams of one server with session caching (cache size 1).  Stream A stays open on partition "a" while sibling
// streams on the same partition come and go and another partition pushes "a" out of the session cache; A must keep working.
func runSrvMulti(variant int) *srvCase {
	cs := &srvCase{Multi: fmt.Sprintf("siblings=%d evictions=%d", 1+variant%2, 1+variant/2%2)}
	viol := func(f string, a ...any) { cs.Viol = append(cs.Viol, fmt.Sprintf(f, a...)) }
	app := server.NewAppEncryption(&server.Options{ServiceName: "svc", ProductID: "prod", Metastore: "memory", KMS: "static",
		ExpireAfter: 90 * 24 * time.Hour, CheckInterval: time.Hour, EnableSessionCaching: true, SessionCacheMaxSize: 1, SessionCacheDuration: 2 * time.Hour})
	gs := func(id string) *pb.SessionRequest {
		return &pb.SessionRequest{Request: &pb.SessionRequest_GetSession{GetSession: &pb.GetSession{PartitionId: id}}}
	}
	enc := func(p int) *pb.SessionRequest {
		return &pb.SessionRequest{Request: &pb.SessionRequest_Encrypt{Encrypt: &pb.Encrypt{Data: srvPayload(p)}}}
	}
	okEnc := func(who string, r *pb.SessionResponse) *pb.DataRowRecord {
		if r == nil || r.GetEncryptResponse() == nil {
			viol("%s: encrypt on an established session was answered with %v", who, r)
			return nil
		}
		return r.GetEncryptResponse().GetDataRowRecord()
	}
	a := openStream(app)
	if r := a.call(gs("a")); r == nil || r.GetErrorResponse() != nil {
		viol("stream A: get-session failed: %v", r)
		return cs
	}
	rec1 := okEnc("stream A", a.call(enc(1)))
	for i := 0; i <= variant%2; i++ { // sibling streams on the same partition end cleanly
		b := openStream(app)
		if r := b.call(gs("a")); r == nil || r.GetErrorResponse() != nil {
			viol("sibling stream: get-session failed: %v", r)
		}
		okEnc("sibling stream", b.call(enc(2)))
		if err := b.eof(); err != nil {
			viol("sibling stream ended with %v", err)
		}
	}
	for i := 0; i <= variant/2%2; i++ { // other partitions push "a" out of the session cache
		c := openStream(app)
		if r := c.call(gs(fmt.Sprintf("other-%d", i))); r == nil || r.GetErrorResponse() != nil {
			viol("other stream: get-session failed: %v", r)
		}
		okEnc("other stream", c.call(enc(1)))
		if err := c.eof(); err != nil {
			viol("other stream ended with %v", err)
		}
	}
	time.Sleep(150 * time.Millisecond) // let the session cache's background clean-up run
	okEnc("stream A (still open, after sibling streams ended and its partition left the session cache)", a.call(enc(2)))
	if rec1 != nil {
		r := a.call(&pb.SessionRequest{Request: &pb.SessionRequest_Decrypt{Decrypt: &pb.Decrypt{DataRowRecord: rec1}}})
		if r == nil || r.GetDecryptResponse() == nil || string(r.GetDecryptResponse().GetData()) != string(srvPayload(1)) {
			viol("stream A (still open): decrypt of its own record was answered with %v", r)
		}
	}
	if err := a.eof(); err != nil {
		viol("stream A ended with %v", err)
	}
	return cs
}

// runSrvRotate: one stream stays open while the partition's intermediate key expires and is rotated (virtual clock).  Every record the
// stream hands out - before and after the rotation - must decrypt on that stream and on a later one.
func runSrvRotate() *srvCase {
	cs := &srvCase{Multi: "key rotation during an open stream"}
	viol := func(f string, a ...any) { cs.Viol = append(cs.Viol, fmt.Sprintf(f, a...)) }
	now := int64(1790000000) * int64(time.Second)
	ae.VerifSetNow(func() time.Time { return time.Unix(0, now) })
	defer ae.VerifSetNow(time.Now)
	app := server.NewAppEncryption(&server.Options{ServiceName: "svc", ProductID: "prod", Metastore: "memory", KMS: "static",
		ExpireAfter: 100 * time.Second, CheckInterval: 10 * time.Second})
	gs := func(id string) *pb.SessionRequest {
		return &pb.SessionRequest{Request: &pb.SessionRequest_GetSession{GetSession: &pb.GetSession{PartitionId: id}}}
	}
	enc := func(p int) *pb.SessionRequest {
		return &pb.SessionRequest{Request: &pb.SessionRequest_Encrypt{Encrypt: &pb.Encrypt{Data: srvPayload(p)}}}
	}
	dec := func(r *pb.DataRowRecord) *pb.SessionRequest {
		return &pb.SessionRequest{Request: &pb.SessionRequest_Decrypt{Decrypt: &pb.Decrypt{DataRowRecord: r}}}
	}
	a := openStream(app)
	if r := a.call(gs("a")); r == nil || r.GetErrorResponse() != nil {
		viol("get-session failed: %v", r)
		return cs
	}
	var recs []*pb.DataRowRecord
	for p := 1; p <= 3; p++ {
		r := a.call(enc(p))
		if r == nil || r.GetEncryptResponse() == nil {
			viol("encrypt %d on an established session was answered with %v", p, r)
			return cs
		}
		recs = append(recs, r.GetEncryptResponse().GetDataRowRecord())
		now += int64(130 * time.Second) // past the key's lifetime: the next encrypt rotates the intermediate key
	}
	if recs[0].GetKey().GetParentKeyMeta().GetCreated() == recs[2].GetKey().GetParentKeyMeta().GetCreated() {
		cs.Note = "no rotation happened (scenario ineffective)"
	}
	check := func(who string, st *chanStream) {
		for p, rec := range recs {
			r := st.call(dec(rec))
			if r == nil || r.GetDecryptResponse() == nil || string(r.GetDecryptResponse().GetData()) != string(srvPayload(p+1)) {
				viol("%s: the record returned by encrypt %d (parent key created %d) was answered with %v", who, p+1, rec.GetKey().GetParentKeyMeta().GetCreated(), r)
			}
		}
	}
	check("same stream", a)
	if err := a.eof(); err != nil {
		viol("stream ended with %v", err)
	}
	b := openStream(app)
	if r := b.call(gs("a")); r == nil || r.GetErrorResponse() != nil {
		viol("second stream: get-session failed: %v", r)
		return cs
	}
	check("a later stream", b)
	b.eof()
	return cs
}

// runSrvWire (C18): what the sidecar puts on the wire while keys rotate under open streams.  Two streams (partitions a and bb) stay open
// across three key generations; every record they emit must have the documented shape (60-byte wrapped key, payload + 28 bytes of data,
// key id _IK_<partition>_svc_prod), must name an intermediate key that is not older than the key lifetime at the moment of the encrypt,
// and must be decryptable by a reader that only has the record and the key table (a later stream of the same server).
func runSrvWire() *srvCase {
	cs := &srvCase{Multi: "wire records across key rotation on open streams"}
	viol := func(f string, a ...any) { cs.Viol = append(cs.Viol, fmt.Sprintf(f, a...)) }
	now := int64(1790000000) * int64(time.Second)
	ae.VerifSetNow(func() time.Time { return time.Unix(0, now) })
	defer ae.VerifSetNow(time.Now)
	const life = 100
	app := server.NewAppEncryption(&server.Options{ServiceName: "svc", ProductID: "prod", Metastore: "memory", KMS: "static",
		ExpireAfter: life * time.Second, CheckInterval: 10 * time.Second})
	gs := func(id string) *pb.SessionRequest {
		return &pb.SessionRequest{Request: &pb.SessionRequest_GetSession{GetSession: &pb.GetSession{PartitionId: id}}}
	}
	enc := func(p int) *pb.SessionRequest {
		return &pb.SessionRequest{Request: &pb.SessionRequest_Encrypt{Encrypt: &pb.Encrypt{Data: srvPayload(p)}}}
	}
	dec := func(r *pb.DataRowRecord) *pb.SessionRequest {
		return &pb.SessionRequest{Request: &pb.SessionRequest_Decrypt{Decrypt: &pb.Decrypt{DataRowRecord: r}}}
	}
	type emitted struct {
		part string
		p    int
		rec  *pb.DataRowRecord
	}
	var recs []emitted
	streams := map[string]*chanStream{}
	for _, part := range []string{"a", "bb"} {
		st := openStream(app)
		if r := st.call(gs(part)); r == nil || r.GetErrorResponse() != nil {
			viol("get-session %s failed: %v", part, r)
			return cs
		}
		streams[part] = st
	}
	p := 0
	for gen := 0; gen < 3; gen++ {
		for _, part := range []string{"a", "bb", "a"} {
			p++
			r := streams[part].call(enc(p))
			if r == nil || r.GetEncryptResponse() == nil {
				viol("encrypt %d on the open stream of partition %s was answered with %v", p, part, r)
				return cs
			}
			rec := r.GetEncryptResponse().GetDataRowRecord()
			recs = append(recs, emitted{part, p, rec})
			k := rec.GetKey()
			if k == nil || k.GetParentKeyMeta() == nil {
				viol("record %d has no key / parent key meta", p)
				continue
			}
			if len(k.GetKey()) != 32+16+12 {
				viol("record %d: wrapped data key is %d bytes, documented 60 (32-byte key, 16-byte tag, 12-byte nonce)", p, len(k.GetKey()))
			}
			if len(rec.GetData()) != len(srvPayload(p))+28 {
				viol("record %d: data is %d bytes for a %d-byte payload, documented payload+28", p, len(rec.GetData()), len(srvPayload(p)))
			}
			if want := "_IK_" + part + "_svc_prod"; k.GetParentKeyMeta().GetKeyId() != want {
				viol("record %d names key id %q, documented %q", p, k.GetParentKeyMeta().GetKeyId(), want)
			}
			age := now/int64(time.Second) - k.GetParentKeyMeta().GetCreated()
			if age < 0 || age > life {
				viol("record %d, emitted at %d on a stream open since generation 0, names an intermediate key created at %d: %d s old with a key lifetime of %d s (a reader looking up (KeyId, Created) finds another key than the one that wrapped the data key)",
					p, now/int64(time.Second), k.GetParentKeyMeta().GetCreated(), age, life)
			}
			if d := now/int64(time.Second) - k.GetCreated(); d < 0 || d > 60 {
				viol("record %d: data key Created %d is not the time of the encrypt (%d)", p, k.GetCreated(), now/int64(time.Second))
			}
		}
		now += int64(130 * time.Second)
	}
	for part, st := range streams {
		if err := st.eof(); err != nil {
			viol("stream %s ended with %v", part, err)
		}
	}
	// the reader: a later stream per partition, which has nothing but the records and the key table
	for _, part := range []string{"a", "bb"} {
		st := openStream(app)
		if r := st.call(gs(part)); r == nil || r.GetErrorResponse() != nil {
			viol("reader: get-session %s failed: %v", part, r)
			continue
		}
		for _, e := range recs {
			if e.part != part {
				continue
			}
			r := st.call(dec(e.rec))
			if r == nil || r.GetDecryptResponse() == nil || string(r.GetDecryptResponse().GetData()) != string(srvPayload(e.p)) {
				viol("reader: record %d of partition %s (names key created %d) does not decrypt to its payload: %v", e.p, part,
					e.rec.GetKey().GetParentKeyMeta().GetCreated(), r)
			}
		}
		st.eof()
	}
	return cs
}

type memStream struct {
	ctx   context.Context
	in    []*pb.SessionRequest
	pos   int
	out   []*pb.SessionResponse
	nilTx int
}

func (m *memStream) Send(r *pb.SessionResponse) error {
	if r == nil {
		m.nilTx++
	}
	m.out = append(m.out, r)
	return nil
}
func (m *memStream) Recv() (*pb.SessionRequest, error) {
	if m.pos >= len(m.in) {
		return nil, io.EOF
	}
	r := m.in[m.pos]
	m.pos++
	return r, nil
}
func (m *memStream) SetHeader(metadata.MD) error  { return nil }
func (m *memStream) SendHeader(metadata.MD) error { return nil }
func (m *memStream) SetTrailer(metadata.MD)       {}
func (m *memStream) Context() context.Context     { return m.ctx }
func (m *memStream) SendMsg(interface{}) error    { return nil }
func (m *memStream) RecvMsg(interface{}) error    { return nil }

func srvPayload(n int) []byte { return []byte(fmt.Sprintf("srv-payload-%d", n)) }

type srvEnv struct {
	app  *server.AppEncryption
	recs map[[2]int]*pb.DataRowRecord
}

func newSrvEnv() *srvEnv {
	app := server.NewAppEncryption(&server.Options{ServiceName: "svc", ProductID: "prod", Metastore: "memory", KMS: "static",
		ExpireAfter: 90 * 24 * time.Hour, CheckInterval: time.Hour})
	e := &srvEnv{app: app, recs: map[[2]int]*pb.DataRowRecord{}}
	// genuine records for partitions "a" (1) and "bb" (2), payloads 1..2, produced through the server itself
	for part, id := range map[int]string{1: "a", 2: "bb"} {
		var in []*pb.SessionRequest
		in = append(in, &pb.SessionRequest{Request: &pb.SessionRequest_GetSession{GetSession: &pb.GetSession{PartitionId: id}}})
		for p := 1; p <= 2; p++ {
			in = append(in, &pb.SessionRequest{Request: &pb.SessionRequest_Encrypt{Encrypt: &pb.Encrypt{Data: srvPayload(p)}}})
		}
		st := &memStream{ctx: context.Background(), in: in}
		if err := app.Session(st); err != nil {
			panic(err)
		}
		for p := 1; p <= 2; p++ {
			e.recs[[2]int{part, p}] = st.out[p].GetEncryptResponse().GetDataRowRecord()
		}
	}
	return e
}

func (e *srvEnv) request(sym string) *pb.SessionRequest {
	var a, b int
	var v string
	switch {
	case sym == "empty":
		return &pb.SessionRequest{}
	case len(sym) >= 3 && sym[:3] == "gs:":
		return &pb.SessionRequest{Request: &pb.SessionRequest_GetSession{GetSession: &pb.GetSession{PartitionId: sym[3:]}}}
	case len(sym) >= 4 && sym[:4] == "enc:":
		fmt.Sscanf(sym, "enc:%d", &a)
		return &pb.SessionRequest{Request: &pb.SessionRequest_Encrypt{Encrypt: &pb.Encrypt{Data: srvPayload(a)}}}
	default:
		fmt.Sscanf(sym, "dec:%d:%d:%s", &a, &b, &v)
		var rec *pb.DataRowRecord
		switch v {
		case "g":
			rec = e.recs[[2]int{a, b}]
		case "bad":
			g := e.recs[[2]int{a, b}]
			d := append([]byte(nil), g.Data...)
			d[len(d)/2] ^= 0x10
			rec = &pb.DataRowRecord{Data: d, Key: g.Key}
		case "noparent": // a key record without parent key meta
			g := e.recs[[2]int{a, b}]
			rec = &pb.DataRowRecord{Data: g.Data, Key: &pb.EnvelopeKeyRecord{Key: g.Key.Key, Created: g.Key.Created}}
		case "emptykey":
			rec = &pb.DataRowRecord{Data: e.recs[[2]int{a, b}].Data, Key: &pb.EnvelopeKeyRecord{}}
		case "nokey":
			rec = &pb.DataRowRecord{Data: e.recs[[2]int{a, b}].Data}
		case "nodata":
			rec = &pb.DataRowRecord{Key: e.recs[[2]int{a, b}].Key}
		case "none":
			rec = nil
		}
		return &pb.SessionRequest{Request: &pb.SessionRequest_Decrypt{Decrypt: &pb.Decrypt{DataRowRecord: rec}}}
	}
}

func (e *srvEnv) run(cs *srvCase) {
	var in []*pb.SessionRequest
	for _, s := range cs.Reqs {
		in = append(in, e.request(s))
	}
	st := &memStream{ctx: context.Background(), in: in}
	panicked := false
	var perr error
	func() {
		defer func() {
			if r := recover(); r != nil {
				panicked = true
				cs.Note = fmt.Sprint(r)
			}
		}()
		perr = e.app.Session(st)
	}()
	for _, r := range st.out {
		switch {
		case r == nil:
			cs.Obs = append(cs.Obs, 4)
		case r.GetErrorResponse() != nil:
			cs.Obs = append(cs.Obs, 3)
		case r.GetEncryptResponse() != nil:
			cs.Obs = append(cs.Obs, 1)
		case r.GetDecryptResponse() != nil:
			code := 4
			for p := 1; p <= 2; p++ {
				if string(r.GetDecryptResponse().GetData()) == string(srvPayload(p)) {
					code = 100 + p
				}
			}
			cs.Obs = append(cs.Obs, code)
		default:
			cs.Obs = append(cs.Obs, 0)
		}
	}
	cs.Sent = len(st.out)
	if panicked {
		cs.Obs = append(cs.Obs, 4)
		cs.Viol = append(cs.Viol, "handler panicked: "+cs.Note)
	}
	if perr != nil {
		cs.Viol = append(cs.Viol, "stream ended with error: "+perr.Error())
	}
	if !panicked && len(st.out) != len(in) {
		cs.Viol = append(cs.Viol, fmt.Sprintf("%d requests received %d responses", len(in), len(st.out)))
	}
	if st.nilTx > 0 {
		cs.Viol = append(cs.Viol, "a nil response was sent")
	}
}

var srvAlphabet = []string{"gs:a", "gs:", "gs:bb", "enc:1", "dec:1:1:g", "dec:2:1:g", "dec:1:2:bad", "dec:1:1:none", "empty", "dec:1:1:noparent", "dec:1:2:nokey"}

// record shapes used only by the random sequences
var srvRare = []string{"dec:1:1:emptykey", "dec:1:1:nodata", "dec:2:2:noparent", "dec:2:1:nokey", "dec:1:2:g", "dec:2:2:g", "enc:2"}

func runSrv(a *args) error {
	log.SetOutput(io.Discard)
	r := gen.New(a.seed)
	e := newSrvEnv()
	var out []*srvCase
	if a.replay != "" {
		var rp struct{ Case *srvCase }
		if err := readJSON(a.replay, &rp); err != nil {
			return err
		}
		if len(rp.Case.Multi) >= 4 && rp.Case.Multi[:4] == "wire" {
			return gen.WriteJSON(a.out, map[string]any{"cases": []*srvCase{runSrvWire()}})
		}
		if rp.Case.Multi != "" {
			for v := 0; v < 4; v++ {
				out = append(out, runSrvMulti(v))
			}
			out = append(out, runSrvRotate())
			return gen.WriteJSON(a.out, map[string]any{"cases": out})
		}
		cs := &srvCase{Reqs: rp.Case.Reqs}
		e.run(cs)
		return gen.WriteJSON(a.out, map[string]any{"cases": []*srvCase{cs}})
	}
	if a.extra == "wire" {
		return gen.WriteJSON(a.out, map[string]any{"cases": []*srvCase{runSrvWire()}})
	}
	// exhaustive over the 9-symbol alphabet up to length L, then random longer ones
	L := 3
	if a.tier == "thorough" {
		L = 5
	}
	var rec func(prefix []string)
	rec = func(prefix []string) {
		if len(prefix) > 0 {
			cs := &srvCase{Reqs: append([]string(nil), prefix...)}
			e.run(cs)
			out = append(out, cs)
		}
		if len(prefix) == L {
			return
		}
		for _, s := range srvAlphabet {
			rec(append(prefix, s))
		}
	}
	rec(nil)
	for v := 0; v < 4; v++ {
		out = append(out, runSrvMulti(v))
	}
	out = append(out, runSrvRotate())
	for i := 0; i < a.n; i++ {
		n := 4 + r.Intn(12)
		cs := &srvCase{}
		for j := 0; j < n; j++ {
			if r.Chance(1, 5) {
				cs.Reqs = append(cs.Reqs, gen.Pick(r, srvRare))
			} else {
				cs.Reqs = append(cs.Reqs, gen.Pick(r, srvAlphabet))
			}
		}
		e.run(cs)
		out = append(out, cs)
	}
	return gen.WriteJSON(a.out, map[string]any{"cases": out})
}
