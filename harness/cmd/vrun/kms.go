package main

import (
	"bytes"
	"context"
	"crypto/rand"
	"encoding/base64"
	"encoding/hex"
	"encoding/json"
	"errors"
	"fmt"
	"sort"
	"sync"

	awsv2 "github.com/aws/aws-sdk-go-v2/aws"
	kms2sdk "github.com/aws/aws-sdk-go-v2/service/kms"
	"github.com/aws/aws-sdk-go/aws"
	"github.com/aws/aws-sdk-go/aws/request"
	kms1sdk "github.com/aws/aws-sdk-go/service/kms"

	"github.com/godaddy/asherah/go/appencryption/pkg/crypto/aead"
	aelog "github.com/godaddy/asherah/go/appencryption/pkg/log"
	kmsv1 "github.com/godaddy/asherah/go/appencryption/plugins/aws-v1/kms"
	kmsv2 "github.com/godaddy/asherah/go/appencryption/plugins/aws-v2/kms"

	"verif/harness/gen"
	"verif/harness/spy"
)

func init() { register("kms", "AWS KMS plugins v1/v2 over fake regional KMS (C17, C10)", runKms) }

// fakeRegion is a regional KMS with its own master key: blobs it produced can only be opened by it.
type fakeRegion struct {
	mu       sync.Mutex
	id       int
	name     string
	arn      string
	genOK    bool
	encOK    bool
	decOK    bool
	partial  bool      // GenerateDataKey answers without error but with an empty CiphertextBlob (the plaintext is there)
	errKind  int       // flavour of the error a failing call returns (0 plain, 1 wraps context.DeadlineExceeded, 2 wraps context.Canceled, 3 SDK operation error)
	keyLen   int       // length of the data keys GenerateDataKey hands out (0 = 32)
	wrong    bool      // Decrypt answers without error but with a data key that is not the one the envelope was sealed under (a stale or foreign regional entry)
	log      *[]string // shared, ordered call log "gen:<id>", "enc:<id>", "dec:<id>"
	logMu    *sync.Mutex
	retained [][]byte // plaintext slices handed to the plugin (must be wiped by it)
	handed   [][]byte // copies of those plaintexts (leak scan)
	cancel   *kmsCancel
}

// kmsCancel makes the caller's context done at the moment the n-th successful call of one kind returns (a caller that gave up
// while the response was in flight): the call itself still succeeds.
type kmsCancel struct {
	mu   sync.Mutex
	kind string
	left int
	fn   func()
}

func (f *fakeRegion) maybeCancel(kind string) {
	k := f.cancel
	if k == nil {
		return
	}
	k.mu.Lock()
	defer k.mu.Unlock()
	if k.kind != kind || k.fn == nil {
		return
	}
	if k.left == 0 {
		k.fn()
		k.fn = nil
		return
	}
	k.left--
}

// down is the error a failing regional call returns: a region that is unreachable surfaces as a client/attempt time-out (which wraps
// context.DeadlineExceeded although the CALLER's context is alive), a cancelled attempt, or a plain service error
func (f *fakeRegion) down() error {
	switch f.errKind {
	case 1:
		return fmt.Errorf("operation error KMS: Post https://kms.%s: %w (Client.Timeout exceeded while awaiting headers)", f.name, context.DeadlineExceeded)
	case 2:
		return fmt.Errorf("operation error KMS: request attempt cancelled: %w", context.Canceled)
	case 3:
		return errors.New("KMSInternalException: internal failure")
	}
	return errors.New("region down")
}

func (f *fakeRegion) note(s string) {
	f.logMu.Lock()
	*f.log = append(*f.log, fmt.Sprintf("%s:%d", s, f.id))
	f.logMu.Unlock()
}

func (f *fakeRegion) seal(pt []byte) []byte {
	out := []byte(fmt.Sprintf("blob[%s]", f.name))
	for _, b := range pt {
		out = append(out, b^0x5a)
	}
	return out
}

func (f *fakeRegion) open(blob []byte) ([]byte, error) {
	pre := []byte(fmt.Sprintf("blob[%s]", f.name))
	if !bytes.HasPrefix(blob, pre) {
		return nil, errors.New("InvalidCiphertextException")
	}
	var pt []byte
	for _, b := range blob[len(pre):] {
		pt = append(pt, b^0x5a)
	}
	return pt, nil
}

func (f *fakeRegion) generate() ([]byte, []byte, error) {
	f.note("gen")
	if !f.genOK {
		return nil, nil, f.down()
	}
	n := 32
	if f.keyLen > 0 {
		n = f.keyLen
	}
	pt := make([]byte, n)
	rand.Read(pt)
	f.mu.Lock()
	f.retained = append(f.retained, pt)
	f.handed = append(f.handed, append([]byte(nil), pt...))
	f.mu.Unlock()
	f.maybeCancel("gen")
	if f.partial {
		return pt, []byte{}, nil
	}
	return pt, f.seal(pt), nil
}

func (f *fakeRegion) encrypt(pt []byte) ([]byte, error) {
	f.note("enc")
	if !f.encOK {
		return nil, f.down()
	}
	f.maybeCancel("enc")
	f.mu.Lock()
	f.retained = append(f.retained, pt) // the buffer handed to Encrypt holds the data key's plaintext: it must be wiped as well
	f.handed = append(f.handed, append([]byte(nil), pt...))
	f.mu.Unlock()
	return f.seal(pt), nil
}

func (f *fakeRegion) decrypt(blob []byte) ([]byte, error) {
	f.note("dec")
	if !f.decOK {
		return nil, f.down()
	}
	pt, err := f.open(blob)
	if err != nil {
		return nil, err
	}
	if f.wrong {
		pt = append([]byte(nil), pt...)
		for i := range pt {
			pt[i] ^= 0xa5
		}
	}
	f.mu.Lock()
	f.retained = append(f.retained, pt)
	f.handed = append(f.handed, append([]byte(nil), pt...))
	f.mu.Unlock()
	f.maybeCancel("dec")
	return pt, nil
}

// v1 client interface
type fakeV1 struct{ r *fakeRegion }

func (c fakeV1) EncryptWithContext(_ aws.Context, in *kms1sdk.EncryptInput, _ ...request.Option) (*kms1sdk.EncryptOutput, error) {
	b, err := c.r.encrypt(in.Plaintext)
	if err != nil {
		return nil, err
	}
	return &kms1sdk.EncryptOutput{CiphertextBlob: b, KeyId: in.KeyId}, nil
}
func (c fakeV1) GenerateDataKeyWithContext(_ aws.Context, in *kms1sdk.GenerateDataKeyInput, _ ...request.Option) (*kms1sdk.GenerateDataKeyOutput, error) {
	pt, b, err := c.r.generate()
	if err != nil {
		return nil, err
	}
	return &kms1sdk.GenerateDataKeyOutput{Plaintext: pt, CiphertextBlob: b, KeyId: in.KeyId}, nil
}
func (c fakeV1) DecryptWithContext(_ aws.Context, in *kms1sdk.DecryptInput, _ ...request.Option) (*kms1sdk.DecryptOutput, error) {
	pt, err := c.r.decrypt(in.CiphertextBlob)
	if err != nil {
		return nil, err
	}
	return &kms1sdk.DecryptOutput{Plaintext: pt}, nil
}

// v2 client interface
type fakeV2 struct{ r *fakeRegion }

func (c fakeV2) Encrypt(_ context.Context, in *kms2sdk.EncryptInput, _ ...func(*kms2sdk.Options)) (*kms2sdk.EncryptOutput, error) {
	b, err := c.r.encrypt(in.Plaintext)
	if err != nil {
		return nil, err
	}
	return &kms2sdk.EncryptOutput{CiphertextBlob: b, KeyId: in.KeyId}, nil
}
func (c fakeV2) Decrypt(_ context.Context, in *kms2sdk.DecryptInput, _ ...func(*kms2sdk.Options)) (*kms2sdk.DecryptOutput, error) {
	pt, err := c.r.decrypt(in.CiphertextBlob)
	if err != nil {
		return nil, err
	}
	return &kms2sdk.DecryptOutput{Plaintext: pt}, nil
}
func (c fakeV2) GenerateDataKey(_ context.Context, in *kms2sdk.GenerateDataKeyInput, _ ...func(*kms2sdk.Options)) (*kms2sdk.GenerateDataKeyOutput, error) {
	pt, b, err := c.r.generate()
	if err != nil {
		return nil, err
	}
	return &kms2sdk.GenerateDataKeyOutput{Plaintext: pt, CiphertextBlob: b, KeyId: in.KeyId}, nil
}

type kmsCase struct {
	N         int      `json:"n"`
	Pref      int      `json:"pref"`
	Gen       []bool   `json:"gen"`
	Enc       []bool   `json:"enc"`
	Dec       []bool   `json:"dec"`
	WrapV     int      `json:"wrapv"`   // plugin version used to wrap
	UnwrapV   int      `json:"unwrapv"` // plugin version used to unwrap
	DecN      int      `json:"decn"`    // number of regions configured at the unwrapping side (prefix of the regions, plus preferred)
	WOrder    []int    `json:"worder"`  // observed client order at the wrapping side
	DOrder    []int    `json:"dorder"`
	WrapOK    bool     `json:"wrapok"`
	GenRegion int      `json:"genregion"`
	Entries   []int    `json:"entries"`
	UnwrapOK  bool     `json:"unwrapok"`
	Same      bool     `json:"same"` // unwrapped bytes equal the original key
	Attempts  []int    `json:"attempts"`
	Partial   []bool   `json:"partial,omitempty"` // regions whose GenerateDataKey response is incomplete (wipe monitor only, C10)
	Cancel    string   `json:"cancel,omitempty"`  // "gen" | "enc" | "dec": the caller's context ends as the CancelAt-th successful call of that kind returns (wipe monitor only, C10)
	CancelAt  int      `json:"cancelat,omitempty"`
	Leak      bool     `json:"leak,omitempty"`    // debug logging is on and every line is scanned for plaintext keys (C03)
	Wrong     []bool   `json:"wrong,omitempty"`   // unwrap side: regions whose KMS Decrypt succeeds but returns a data key that does not open the envelope
	ErrKind   []int    `json:"errkind,omitempty"` // per region: flavour of the error its failing calls return
	KeyLen    int      `json:"keylen,omitempty"`  // the regional KMS hands out / unwraps data keys of this many bytes instead of 32 (wipe monitor only, C10)
	Viol      []string `json:"viol,omitempty"`
}

type kmsPlugin interface {
	EncryptKey(context.Context, []byte) ([]byte, error)
	DecryptKey(context.Context, []byte) ([]byte, error)
}

func buildPlugin(v int, regs []*fakeRegion, pref string, order []int) (kmsPlugin, error) {
	crypto := aead.NewAES256GCM()
	if v == 1 {
		var cl []kmsv1.AWSKMSClient
		for _, i := range order {
			r := regs[i]
			cl = append(cl, kmsv1.AWSKMSClient{KMS: fakeV1{r}, Region: r.name, ARN: r.arn})
		}
		return kmsv1.VerifNewAWS(crypto, pref, cl), nil
	}
	arn := map[string]string{}
	byName := map[string]*fakeRegion{}
	for _, i := range order {
		arn[regs[i].name] = regs[i].arn
		byName[regs[i].name] = regs[i]
	}
	return kmsv2.NewBuilder(crypto, arn).WithPreferredRegion(pref).WithAWSConfig(awsv2.Config{}).
		WithKMSFactory(func(cfg awsv2.Config, _ ...func(*kms2sdk.Options)) kmsv2.AWSClient { return fakeV2{byName[cfg.Region]} }).Build()
}

// probeOrder discovers the plugin's client order: with every region unable to generate, EncryptKey tries them all.
func probeOrder(p kmsPlugin, regs []*fakeRegion, log *[]string) []int {
	saved := make([]bool, len(regs))
	for i, r := range regs {
		saved[i] = r.genOK
		r.genOK = false
	}
	*log = nil
	p.EncryptKey(context.Background(), bytes.Repeat([]byte{7}, 32))
	var order []int
	for _, l := range *log {
		var id int
		fmt.Sscanf(l, "gen:%d", &id)
		order = append(order, id)
	}
	for i, r := range regs {
		r.genOK = saved[i]
	}
	*log = nil
	return order
}

// kmsLeaks reports debug log lines that contain a plaintext key in any usual rendering (raw, hex, base64, Go's %v of a byte slice).
func kmsLeaks(lines []string, names []string, needles [][]byte) []string {
	var out []string
	for _, l := range lines {
		for i, nd := range needles {
			if len(nd) < 16 {
				continue
			}
			if bytes.Contains([]byte(l), nd) || bytes.Contains([]byte(l), []byte(hex.EncodeToString(nd))) ||
				bytes.Contains([]byte(l), []byte(base64.StdEncoding.EncodeToString(nd))) ||
				bytes.Contains([]byte(l), []byte(fmt.Sprintf("%v", nd))) {
				out = append(out, fmt.Sprintf("%s appears in a debug log line (%d characters long)", names[i], len(l)))
			}
		}
	}
	return out
}

func runKmsCase(c *kmsCase, r *gen.Rand) {
	var logger *spy.Logger
	if c.Leak {
		logger = &spy.Logger{Keep: true}
		aelog.SetLogger(logger)
		defer aelog.SetLogger(nil)
	}
	var log []string
	var logMu sync.Mutex
	var regs []*fakeRegion
	for i := 0; i < c.N; i++ {
		regs = append(regs, &fakeRegion{id: i, name: fmt.Sprintf("region-%d", i), arn: fmt.Sprintf("arn:aws:kms:region-%d:key/%d", i, i),
			genOK: c.Gen[i], encOK: c.Enc[i], decOK: true, log: &log, logMu: &logMu})
		if i < len(c.ErrKind) {
			regs[i].errKind = c.ErrKind[i]
		}
	}
	anyPartial := false
	for i, p := range c.Partial {
		if i < len(regs) && p {
			anyPartial = true
		}
	}
	viol := func(f string, a ...any) { c.Viol = append(c.Viol, fmt.Sprintf(f, a...)) }
	all := make([]int, c.N)
	for i := range all {
		all[i] = i
	}
	// a shuffled configuration order (the plugins must put the preferred region first themselves)
	worder := append([]int(nil), all...)
	for i := len(worder) - 1; i > 0; i-- {
		j := r.Intn(i + 1)
		worder[i], worder[j] = worder[j], worder[i]
	}
	wp, err := buildPlugin(c.WrapV, regs, regs[c.Pref].name, worder)
	if err != nil {
		viol("build wrap plugin: %v", err)
		return
	}
	c.WOrder = probeOrder(wp, regs, &log)
	if len(c.WOrder) > 0 && c.WOrder[0] != c.Pref {
		viol("wrapping plugin does not try the preferred region first: order %v", c.WOrder)
	}
	key := make([]byte, 32)
	rand.Read(key)
	orig := append([]byte(nil), key...)
	for i, rg := range regs {
		rg.retained = nil
		rg.partial = i < len(c.Partial) && c.Partial[i]
		rg.keyLen = c.KeyLen
	}
	wctx, wcancel := context.WithCancel(context.Background())
	defer wcancel()
	if c.Cancel == "gen" || c.Cancel == "enc" {
		kc := &kmsCancel{kind: c.Cancel, left: c.CancelAt, fn: wcancel}
		for _, rg := range regs {
			rg.cancel = kc
		}
	}
	env, err := wp.EncryptKey(wctx, key)
	c.WrapOK = err == nil
	scan := func(when string) {
		if logger == nil {
			return
		}
		names, needles := []string{"the system key"}, [][]byte{orig}
		for _, rg := range regs {
			for _, h := range rg.handed {
				names, needles = append(names, fmt.Sprintf("the plaintext data key generated/unwrapped by region %d", rg.id)), append(needles, h)
			}
		}
		for _, l := range kmsLeaks(logger.Take(), names, needles) {
			viol("%s: %s", when, l)
		}
	}
	scan("EncryptKey")
	for _, rg := range regs {
		rg.cancel = nil
	}
	if !bytes.Equal(key, orig) {
		viol("EncryptKey modified the caller's key")
	}
	for _, rg := range regs {
		for _, b := range rg.retained {
			if !allZero(b) {
				viol("data key plaintext from region %d not wiped after EncryptKey", rg.id)
			}
		}
		rg.retained = nil
	}
	if c.KeyLen != 0 {
		// unwrap side: an envelope whose regional entries open to a data key of that length (the AEAD refuses it; the bytes must go all the same)
		if up, err := buildPlugin(c.UnwrapV, regs, regs[c.Pref].name, worder); err == nil {
			type kek struct {
				Region string `json:"region"`
				ARN    string `json:"arn"`
				Kek    []byte `json:"encryptedKek"`
			}
			var keks []kek
			for _, rg := range regs {
				pt := make([]byte, c.KeyLen)
				rand.Read(pt)
				keks = append(keks, kek{rg.name, rg.arn, rg.seal(pt)})
				rg.decOK, rg.retained = true, nil
			}
			envb, _ := json.Marshal(map[string]any{"encryptedKey": bytes.Repeat([]byte{7}, 60), "kmsKeks": keks})
			_, _ = up.DecryptKey(context.Background(), envb)
			for _, rg := range regs {
				for _, b := range rg.retained {
					if !allZero(b) {
						viol("data key plaintext (%d bytes) unwrapped by region %d not wiped after DecryptKey", len(b), rg.id)
					}
				}
				rg.retained = nil
			}
		}
		return
	}
	if err != nil || anyPartial || c.Cancel == "gen" || c.Cancel == "enc" {
		return
	}
	var parsed struct {
		EncryptedKey []byte `json:"encryptedKey"`
		KEKs         []struct {
			Region string `json:"region"`
			ARN    string `json:"arn"`
			Kek    []byte `json:"encryptedKek"`
		} `json:"kmsKeks"`
	}
	if err := json.Unmarshal(env, &parsed); err != nil {
		viol("envelope is not the documented JSON: %v", err)
		return
	}
	c.GenRegion = -1
	for _, l := range log {
		var id int
		if n, _ := fmt.Sscanf(l, "gen:%d", &id); n == 1 && regs[id].genOK && c.GenRegion < 0 {
			c.GenRegion = id
		}
	}
	seen := map[int]bool{}
	for _, k := range parsed.KEKs {
		var id int
		fmt.Sscanf(k.Region, "region-%d", &id)
		if seen[id] {
			viol("two envelope entries for region %d", id)
		}
		seen[id] = true
		if k.ARN != regs[id].arn {
			viol("entry for region %d carries arn %q", id, k.ARN)
		}
		c.Entries = append(c.Entries, id)
	}
	sort.Ints(c.Entries)
	if bytes.Contains(env, orig) {
		viol("the envelope contains the plaintext key")
	}
	// unwrap side: possibly a different plugin version, a subset of regions, different availability
	for i, rg := range regs {
		rg.decOK = c.Dec[i]
		rg.wrong = i < len(c.Wrong) && c.Wrong[i]
	}
	dset := []int{}
	for i := 0; i < c.N; i++ {
		if i < c.DecN || i == c.Pref {
			dset = append(dset, i)
		}
	}
	for i := len(dset) - 1; i > 0; i-- {
		j := r.Intn(i + 1)
		dset[i], dset[j] = dset[j], dset[i]
	}
	dregs := regs
	dp, err := buildPlugin(c.UnwrapV, dregs, regs[c.Pref].name, dset)
	if err != nil {
		viol("build unwrap plugin: %v", err)
		return
	}
	c.DOrder = probeOrder(dp, regs, &log)
	if len(c.DOrder) > 0 && c.DOrder[0] != c.Pref {
		viol("unwrapping plugin does not try the preferred region first: order %v", c.DOrder)
	}
	for _, rg := range regs {
		rg.retained = nil
	}
	log = nil
	dctx, dcancel := context.WithCancel(context.Background())
	defer dcancel()
	if c.Cancel == "dec" {
		kc := &kmsCancel{kind: "dec", left: c.CancelAt, fn: dcancel}
		for _, rg := range regs {
			rg.cancel = kc
		}
	}
	out, err := dp.DecryptKey(dctx, env)
	c.UnwrapOK = err == nil
	scan("DecryptKey")
	c.Same = err == nil && bytes.Equal(out, orig)
	if err == nil && !c.Same {
		viol("DecryptKey returned bytes different from the wrapped key")
	}
	for _, l := range log {
		var id int
		if n, _ := fmt.Sscanf(l, "dec:%d", &id); n == 1 {
			c.Attempts = append(c.Attempts, id)
		}
	}
	// the property itself: unwrapping succeeds exactly when a configured region that has an entry can decrypt
	able := false
	for _, i := range c.DOrder {
		for _, e := range c.Entries {
			if e == i && c.Dec[i] && !(i < len(c.Wrong) && c.Wrong[i]) {
				able = true
			}
		}
	}
	if c.Cancel == "dec" {
		able = c.UnwrapOK // a caller that gave up may be answered either way: only the wipe is judged
	}
	if able && !c.UnwrapOK {
		viol("unwrap failed although a configured region with an envelope entry can decrypt")
	}
	if !able && c.UnwrapOK {
		viol("unwrap succeeded although no configured region with an entry can decrypt")
	}
	for _, rg := range regs {
		for _, b := range rg.retained {
			if !allZero(b) {
				viol("data key plaintext from region %d not wiped after DecryptKey", rg.id)
			}
		}
	}
}

func runKms(a *args) error {
	r := gen.New(a.seed)
	var out []*kmsCase
	if a.replay != "" {
		var rp struct{ Case *kmsCase }
		if err := readJSON(a.replay, &rp); err != nil {
			return err
		}
		c := rp.Case
		c.Viol, c.Entries, c.Attempts = nil, nil, nil
		runKmsCase(c, r)
		return gen.WriteJSON(a.out, map[string]any{"cases": []*kmsCase{c}})
	}
	emit := func(c *kmsCase) {
		runKmsCase(c, r)
		out = append(out, c)
	}
	bits := func(mask, n int) []bool {
		b := make([]bool, n)
		for i := range b {
			b[i] = mask>>uint(i)&1 == 1
		}
		return b
	}
	if a.tier == "thorough" {
		// exhaustive: 1..3 regions x preferred x gen subset x enc subset x dec subset x version pairs
		for n := 1; n <= 3; n++ {
			for pref := 0; pref < n; pref++ {
				for g := 0; g < 1<<uint(n); g++ {
					for e := 0; e < 1<<uint(n); e++ {
						for d := 0; d < 1<<uint(n); d++ {
							for _, vp := range [][2]int{{1, 1}, {2, 2}, {1, 2}, {2, 1}} {
								emit(&kmsCase{N: n, Pref: pref, Gen: bits(g, n), Enc: bits(e, n), Dec: bits(d, n), WrapV: vp[0], UnwrapV: vp[1], DecN: n})
							}
						}
					}
				}
			}
		}
	}
	if a.extra == "oversize" {
		// the regional KMS hands out / unwraps data keys that are not 32 bytes long: only the wipe of every plaintext it handed out is judged
		for i := 0; i < a.n; i++ {
			n := 1 + r.Intn(3)
			emit(&kmsCase{N: n, Pref: r.Intn(n), Gen: bits((1<<uint(n))-1, n), Enc: bits(r.Intn(1<<uint(n)), n), Dec: bits((1<<uint(n))-1, n),
				WrapV: 1 + r.Intn(2), UnwrapV: 1 + r.Intn(2), DecN: n, KeyLen: gen.Pick(r, []int{16, 24, 33, 40, 48, 64, 100, 1000})})
		}
		return gen.WriteJSON(a.out, map[string]any{"cases": out})
	}
	if a.extra == "partial" {
		// incomplete GenerateDataKey answers: only the wipe of every plaintext the KMS handed out is judged
		for i := 0; i < a.n; i++ {
			n := 1 + r.Intn(4)
			c := &kmsCase{N: n, Pref: r.Intn(n), Gen: bits(r.Intn(1<<uint(n)), n), Enc: bits(r.Intn(1<<uint(n)), n), Dec: bits((1<<uint(n))-1, n),
				WrapV: 1 + r.Intn(2), UnwrapV: 1, DecN: n, Partial: bits(1+r.Intn((1<<uint(n))-1), n)}
			for j := range c.Gen {
				c.Gen[j] = c.Gen[j] || r.Chance(2, 3)
			}
			emit(c)
		}
		return gen.WriteJSON(a.out, map[string]any{"cases": out})
	}
	for i := 0; i < a.n; i++ {
		n := 1 + r.Intn(4)
		c := &kmsCase{N: n, Pref: r.Intn(n), Gen: bits(r.Intn(1<<uint(n)), n), Enc: bits(r.Intn(1<<uint(n)), n), Dec: bits(r.Intn(1<<uint(n)), n),
			WrapV: 1 + r.Intn(2), UnwrapV: 1 + r.Intn(2), DecN: 1 + r.Intn(n)}
		c.Leak = a.extra == "leak"
		for j := 0; j < n; j++ {
			c.ErrKind = append(c.ErrKind, gen.Pick(r, []int{0, 0, 1, 2, 3}))
		}
		if n >= 2 && r.Chance(1, 4) { // some regions hand back a data key that does not open the envelope
			c.Wrong = bits(r.Intn(1<<uint(n)), n)
		}
		if a.extra == "cancel" { // the caller's context ends while a successful response is on its way back
			c.Cancel = gen.Pick(r, []string{"gen", "gen", "enc", "dec"})
			c.CancelAt = r.Intn(2)
			if c.Cancel == "gen" {
				c.CancelAt = 0
			}
		}
		if r.Chance(1, 2) || a.extra == "cancel" { // mostly-healthy cells
			for j := range c.Gen {
				c.Gen[j] = c.Gen[j] || r.Chance(2, 3)
				c.Enc[j] = c.Enc[j] || r.Chance(2, 3)
				c.Dec[j] = c.Dec[j] || r.Chance(1, 2)
			}
		}
		emit(c)
	}
	return gen.WriteJSON(a.out, map[string]any{"cases": out})
}
