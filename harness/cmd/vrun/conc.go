package main

import (
	"runtime/debug"
	"bytes"
	"context"
	"fmt"
	"sync"
	"sync/atomic"
	"time"

	ae "github.com/godaddy/asherah/go/appencryption"
	"github.com/godaddy/asherah/go/appencryption/pkg/cache"
	"github.com/godaddy/asherah/go/securememory"
	"github.com/godaddy/asherah/go/securememory/memguard"
	"github.com/godaddy/asherah/go/securememory/protectedmemory"

	"verif/harness/gen"
	"verif/harness/sched"
)

func init() { register("conc", "controlled schedules of real goroutines: key caches (C08), session cache (C16), secrets (C11)", runConc) }

type concCase struct {
	Family   string   `json:"family"` // keycache | sesscache | secret
	Cfg      string   `json:"cfg"`
	Seed     uint64   `json:"seed"`
	Threads  int      `json:"threads"`
	Steps    int      `json:"steps"`
	Trace    []string `json:"trace,omitempty"`
	Ops      int      `json:"ops"`
	Viol     []string `json:"viol,omitempty"`
	Evictions int     `json:"evictions"`
}

func setYield(f func(string)) {
	ae.VerifSetYield(f)
	cache.VerifSetYield(f)
	protectedmemory.VerifSetYield(f)
	memguard.VerifSetYield(f)
}

type violations struct {
	mu sync.Mutex
	v  []string
}

func (v *violations) add(f string, a ...any) {
	v.mu.Lock()
	v.v = append(v.v, fmt.Sprintf(f, a...))
	v.mu.Unlock()
}

// ---- C08 / C16: goroutines encrypting, decrypting, opening and closing sessions against one factory -----------

func concPolicy(cfg string) PolicyCfg {
	p := envPolicies()["default"]
	switch cfg {
	case "shared-lru1":
		p.SharedIK, p.IKPol, p.IKCap = true, "lru", 1
	case "shared-slru2":
		p.SharedIK, p.IKPol, p.IKCap = true, "slru", 2
	case "shared-simple":
		p.SharedIK = true
	case "sk-lru1":
		p.SKPol, p.SKCap = "lru", 1
	case "session-lru1":
		p.IKPol, p.IKCap = "lru", 1
	case "sesscache1":
		p.CacheSessions, p.SessCap, p.SessPol = true, 1, "lru"
	case "sesscache2":
		p.CacheSessions, p.SessCap, p.SessPol = true, 2, "slru"
	case "sesscache1-shared":
		p.CacheSessions, p.SessCap, p.SessPol = true, 1, "lfu"
		p.SharedIK, p.IKPol, p.IKCap = true, "lru", 1
	}
	return p
}

func runConcFactory(c *concCase) {
	r := gen.New(c.Seed)
	x := newEnvExec(int64(1790000000) * secNs)
	defer x.close()
	pol := concPolicy(c.Cfg)
	fob := x.do(EnvOp{K: "newfactory", Policy: &pol, Svc: gen.H("svc"), Prod: gen.H("prod")})
	f := x.facts[fob.N]
	ctx := context.Background()
	parts := []string{"pa", "pb", "pc"}
	// warm up sequentially: one record per partition (keys exist in the metastore; caches partly filled)
	recs := map[string]*ae.DataRowRecord{}
	for _, p := range parts {
		s, _ := f.GetSession(p)
		rec, err := s.Encrypt(ctx, []byte("warm-"+p))
		if err != nil {
			c.Viol = append(c.Viol, "warm-up encrypt failed: "+err.Error())
			return
		}
		recs[p] = rec
		s.Close()
	}
	// one schedule in three starts from a rotated hierarchy: the system key every warm-up intermediate key hangs under is revoked,
	// so the first Encrypt of each partition takes the "latest IK valid, parent SK invalid" path while others still decrypt old
	// records through that system key
	if c.Seed%3 == 0 {
		if rsk := x.ms.Latest("_SK_svc_prod"); rsk != nil {
			x.ms.Revoke("_SK_svc_prod", rsk.Created)
			x.do(EnvOp{K: "advance", D: pol.RCI + 1}) // cached copies are stale now: the next use re-reads the flag
		}
	}
	x.tr.Take()
	var vs violations
	var ops int64
	s := sched.New(r.Fork())
	s.PCT = c.Seed%2 == 1
	setYield(s.Yield)
	defer setYield(nil)
	type producedRec struct {
		part    string
		rec     *ae.DataRowRecord
		payload []byte
	}
	var produced []producedRec
	var prodMu sync.Mutex
	shareSession := c.Family == "keycache" && r.Bool() // several goroutines on ONE session (its IK cache is shared by them)
	var common *ae.Session
	if shareSession {
		common, _ = f.GetSession(parts[0])
	}
	for t := 0; t < c.Threads; t++ {
		t := t
		tr := r.Fork()
		s.Go(fmt.Sprintf("t%d", t), func() {
			for it := 0; it < 2; it++ {
				p := gen.Pick(tr, parts)
				var sess *ae.Session
				if common != nil {
					sess, p = common, parts[0]
				} else {
					var err error
					sess, err = f.GetSession(p)
					if err != nil {
						vs.add("thread %d: GetSession(%s) failed: %v", t, p, err)
						return
					}
				}
				payload := []byte(fmt.Sprintf("payload-%d-%d-%s", t, it, p))
				rec, err := sess.Encrypt(ctx, payload)
				atomic.AddInt64(&ops, 1)
				if err != nil {
					vs.add("thread %d: Encrypt on its own open session failed: %v", t, err)
				} else {
					prodMu.Lock()
					produced = append(produced, producedRec{p, rec, payload})
					prodMu.Unlock()
					pt, err := sess.Decrypt(ctx, *rec)
					atomic.AddInt64(&ops, 1)
					if err != nil || !bytes.Equal(pt, payload) {
						vs.add("thread %d: Decrypt of its own record failed: %v", t, err)
					}
				}
				pt, err := sess.Decrypt(ctx, *recs[p])
				atomic.AddInt64(&ops, 1)
				if err != nil || !bytes.Equal(pt, []byte("warm-"+p)) {
					vs.add("thread %d: Decrypt of an earlier record of its partition failed: %v", t, err)
				}
				if tr.Chance(1, 3) { // an operation that FAILS while the session is held: it must leave the sharing bookkeeping as it was
					bad := *recs[p]
					bad.Data = append([]byte(nil), bad.Data...)
					bad.Data[len(bad.Data)/2] ^= 0x40
					if _, err := sess.Decrypt(ctx, bad); err == nil {
						vs.add("thread %d: Decrypt of a tampered record did not fail", t)
					}
					atomic.AddInt64(&ops, 1)
				}
				if common == nil {
					sess.Close()
				}
			}
		})
	}
	ok := s.Run(c.Steps)
	setYield(nil)
	c.Trace = s.Trace
	if len(c.Trace) > 400 {
		c.Trace = c.Trace[:400]
	}
	if !ok {
		vs.add("schedule got stuck: no goroutine can make progress (deadlock)")
	}
	// key hierarchy of everything produced under the schedule: the record names its own partition's intermediate key, that
	// key is in the metastore, and a fresh process (metastore + KMS only) opens data key and payload through exactly that chain
	for _, pr := range produced {
		want := "_IK_" + pr.part + "_svc_prod"
		if pr.rec.Key == nil || pr.rec.Key.ParentKeyMeta == nil {
			vs.add("[hierarchy] partition %s: malformed record", pr.part)
			continue
		}
		if pr.rec.Key.ParentKeyMeta.ID != want {
			vs.add("[hierarchy] partition %s: record names intermediate key %s", pr.part, pr.rec.Key.ParentKeyMeta.ID)
			continue
		}
		pt, err := x.refDecrypt(pr.rec)
		if err != nil || !bytes.Equal(pt, pr.payload) {
			vs.add("[hierarchy] partition %s: the data key of a record produced under this schedule is not wrapped under the stored intermediate key it names (%s created %d): %v",
				pr.part, pr.rec.Key.ParentKeyMeta.ID, pr.rec.Key.ParentKeyMeta.Created, err)
		}
	}
	if common != nil {
		common.Close()
	}
	f.Close()
	x.needWait = true
	x.quiesce()
	time.Sleep(2 * time.Millisecond)
	evs := x.tr.Take()
	closes := map[int]int{}
	for _, e := range evs {
		switch e.K {
		case "SUseClosed":
			vs.add("a key was used after it had been destroyed (secret %v)", e.A)
		case "SCloseAgain":
			vs.add("a secret was released twice (%v)", e.A)
		case "SClose":
			closes[int(toF(e.A[0]))]++
		}
	}
	if live := x.sf.Live(); len(live) > 0 && c.Family == "sesscache" {
		vs.add("after the factory was closed and every holder closed its session, secrets %v are still live", live)
	}
	c.Ops = int(ops)
	c.Viol = vs.v
}

// ---- C20: a stale key is re-read ONCE however many goroutines find it stale together -----------------------------

func runConcReload(c *concCase) {
	r := gen.New(c.Seed)
	x := newEnvExec(int64(1790000000) * secNs)
	defer x.close()
	pol := envPolicies()["default"]
	if c.Cfg == "shared-ik" {
		pol.SharedIK = true
	}
	fob := x.do(EnvOp{K: "newfactory", Policy: &pol, Svc: gen.H("svc"), Prod: gen.H("prod")})
	f := x.facts[fob.N]
	ctx := context.Background()
	oneSession := c.Cfg == "one-session" // all goroutines use ONE session: its intermediate key must be re-read once as well
	var sessions []*ae.Session
	var recs []*ae.DataRowRecord
	var vs violations
	for t := 0; t < c.Threads; t++ {
		p := fmt.Sprintf("part%d", t)
		if oneSession {
			p = "part0"
		}
		if oneSession && t > 0 {
			sessions, recs = append(sessions, sessions[0]), append(recs, recs[0])
			continue
		}
		sess, err := f.GetSession(p)
		if err != nil {
			c.Viol = append(c.Viol, "GetSession failed: "+err.Error())
			return
		}
		rec, err := sess.Encrypt(ctx, []byte("warm-"+p))
		if err != nil {
			c.Viol = append(c.Viol, "warm-up encrypt failed: "+err.Error())
			return
		}
		sessions, recs = append(sessions, sess), append(recs, rec)
	}
	// within the interval: nothing is re-read
	x.tr.Take()
	for t := range sessions {
		if _, err := sessions[t].Decrypt(ctx, *recs[t]); err != nil {
			vs.add("decrypt within the interval failed: %v", err)
		}
	}
	for _, e := range x.tr.Take() {
		if e.K == "KDec" || e.K == "MLoad" || e.K == "MLoadLatest" {
			vs.add("a repeated decrypt within the revoke-check interval made an external call (%s)", e.K)
		}
	}
	x.now += pol.RCI + secNs // every cached key is stale now
	s := sched.New(r.Fork())
	s.PCT = c.Seed%2 == 1
	setYield(s.Yield)
	defer setYield(nil)
	for t := 0; t < c.Threads; t++ {
		t := t
		s.Go(fmt.Sprintf("t%d", t), func() {
			pt, err := sessions[t].Decrypt(ctx, *recs[t])
			if err != nil || !bytes.HasPrefix(pt, []byte("warm-")) {
				vs.add("thread %d: decrypt after the interval failed: %v", t, err)
			}
		})
	}
	if !s.Run(c.Steps) {
		vs.add("schedule got stuck")
	}
	setYield(nil)
	c.Trace = s.Trace
	kdec, skLoads, ikLoads := 0, 0, map[string]int{}
	skID := gen.H("_SK_svc_prod")
	for _, e := range x.tr.Take() {
		switch e.K {
		case "KDec":
			kdec++
		case "MLoad":
			if id, _ := e.A[0].(string); id == skID {
				skLoads++
			} else {
				ikLoads[id]++
			}
		}
	}
	if kdec > 1 {
		vs.add("the system key was unwrapped by the KMS %d times in one revoke-check interval by %d goroutines of one factory (at most once allowed)", kdec, c.Threads)
	}
	if skLoads > 1 {
		vs.add("the system key record was re-read %d times in one interval (once allowed)", skLoads)
	}
	if oneSession || c.Cfg == "shared-ik" {
		for id, n := range ikLoads {
			if n > 1 {
				vs.add("intermediate key record %s was re-read %d times in one interval through one cache (once allowed)", id, n)
			}
		}
	}
	for t := range sessions {
		if !oneSession || t == 0 {
			sessions[t].Close()
		}
	}
	f.Close()
	c.Ops = c.Threads
	c.Viol = vs.v
}

func toF(v any) float64 {
	switch x := v.(type) {
	case int:
		return float64(x)
	case float64:
		return x
	}
	return 0
}

// ---- C11: readers and closers on one secret ----------------------------------------------------------------------

func runConcSecret(c *concCase) {
	r := gen.New(c.Seed)
	var sf securememory.SecretFactory
	if c.Cfg == "memguard" {
		sf = new(memguard.SecretFactory)
	} else {
		// over the shadow page table: pages are ordinary Go memory, so a premature Close shows up as wiped bytes, not SIGSEGV
		sf = protectedmemory.NewSecretFactoryWithMemcall(&shadowMC{regions: map[uintptr]*region{}, plan: map[int]bool{}})
	}
	orig := []byte("the-original-secret-bytes-012345")
	sec, err := sf.New(append([]byte(nil), orig...))
	if err != nil {
		c.Viol = append(c.Viol, "cannot create secret: "+err.Error())
		return
	}
	var vs violations
	s := sched.New(r.Fork())
	s.PCT = c.Seed%2 == 1
	setYield(s.Yield)
	defer setYield(nil)
	var inside, closeReturned int64
	readers := 1 + r.Intn(3)
	closers := r.Intn(3) // 0: readers only (windows between overlapping readers are not cut short by a Close)
	if closers == 0 {
		readers = 2 + r.Intn(3)
	}
	c.Threads = readers + closers
	for i := 0; i < readers; i++ {
		i := i
		nested := r.Chance(1, 3)
		s.Go(fmt.Sprintf("r%d", i), func() {
			// a read of pages that are no longer (or not yet) readable becomes a recoverable panic instead of killing the run
			debug.SetPanicOnFault(true)
			defer func() {
				if r := recover(); r != nil {
					vs.add("reader %d faulted inside its callback (pages not readable while a reader is running): %v", i, r)
				}
			}()
			err := sec.WithBytes(func(b []byte) error {
				atomic.AddInt64(&inside, 1)
				defer atomic.AddInt64(&inside, -1)
				s.Yield("callback-entered")
				if atomic.LoadInt64(&closeReturned) > 0 {
					vs.add("reader %d is inside its callback although Close has already returned", i)
					return nil // do not touch freed pages
				}
				if sec.IsClosed() {
					vs.add("reader %d is inside its callback but the secret reports closed", i)
					return nil
				}
				if !bytes.Equal(b, orig) {
					vs.add("reader %d saw bytes different from the original", i)
				}
				if nested {
					return sec.WithBytes(func(b2 []byte) error {
						s.Yield("nested-callback")
						if atomic.LoadInt64(&closeReturned) == 0 && !bytes.Equal(b2, orig) {
							vs.add("nested reader %d saw different bytes", i)
						}
						return nil
					})
				}
				s.Yield("callback-leaving")
				if atomic.LoadInt64(&closeReturned) == 0 && !bytes.Equal(b, orig) {
					vs.add("reader %d saw the bytes change while inside its callback", i)
				}
				return nil
			})
			_ = err // a reader that lost the race with Close gets the closed error: allowed
		})
	}
	for i := 0; i < closers; i++ {
		i := i
		s.Go(fmt.Sprintf("c%d", i), func() {
			s.Yield("before-close")
			if err := sec.Close(); err != nil {
				vs.add("closer %d: Close failed: %v", i, err)
			}
			if n := atomic.LoadInt64(&inside); n > 0 {
				vs.add("closer %d: Close returned while %d reader callback(s) were still running", i, n)
			}
			atomic.AddInt64(&closeReturned, 1)
		})
	}
	if !s.Run(c.Steps) {
		vs.add("schedule got stuck: readers and closers deadlocked")
	}
	setYield(nil)
	c.Trace = s.Trace
	if !sec.IsClosed() {
		if closers > 0 {
			vs.add("after every closer returned the secret is not closed")
		}
		if err := sec.Close(); err != nil {
			vs.add("Close after all readers finished failed: %v", err)
		}
	}
	if err := sec.WithBytes(func([]byte) error { return nil }); err == nil {
		vs.add("access after Close did not return an error")
	}
	c.Viol = vs.v
}

func runConc(a *args) error {
	r := gen.New(a.seed)
	var out []*concCase
	if a.replay != "" {
		var rp struct{ Case *concCase }
		if err := readJSON(a.replay, &rp); err != nil {
			return err
		}
		c := rp.Case
		c.Viol, c.Trace = nil, nil
		runConcOne(c)
		return gen.WriteJSON(a.out, map[string]any{"cases": []*concCase{c}})
	}
	fams := map[string][]string{
		"keycache":  {"shared-lru1", "shared-slru2", "sk-lru1", "session-lru1", "shared-simple"},
		"sesscache": {"sesscache1", "sesscache2", "sesscache1-shared"},
		"secret":    {"protectedmemory", "memguard"},
		"reload":    {"default", "shared-ik", "one-session"},
	}
	for i := 0; i < a.n; i++ {
		cfgs := fams[a.extra]
		if cfgs == nil {
			return fmt.Errorf("unknown family %q", a.extra)
		}
		c := &concCase{Family: a.extra, Cfg: cfgs[i%len(cfgs)], Seed: r.U64(), Threads: 2 + r.Intn(3), Steps: 3000}
		runConcOne(c)
		out = append(out, c)
	}
	return gen.WriteJSON(a.out, map[string]any{"cases": out})
}

func runConcOne(c *concCase) {
	switch c.Family {
	case "secret":
		runConcSecret(c)
	case "reload":
		runConcReload(c)
	default:
		runConcFactory(c)
	}
}
