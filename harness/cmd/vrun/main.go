// vrun: the implementation side of every correspondence check.  `vrun <sub> -seed N -n N -out FILE`.
package main

import (
	"encoding/json"
	"flag"
	"fmt"
	"os"
	"strconv"
)

type sub struct {
	run  func(a *args) error
	help string
}

type args struct {
	seed   uint64
	n      int
	out    string
	tier   string
	replay string
	extra  string
}

var subs = map[string]sub{}

func register(name, help string, f func(a *args) error) { subs[name] = sub{f, help} }

func main() {
	if len(os.Args) < 2 {
		fmt.Fprintln(os.Stderr, "usage: vrun <sub> [flags]")
		for k, s := range subs {
			fmt.Fprintf(os.Stderr, "  %-8s %s\n", k, s.help)
		}
		os.Exit(2)
	}
	s, ok := subs[os.Args[1]]
	if !ok {
		fmt.Fprintln(os.Stderr, "unknown subcommand", os.Args[1])
		os.Exit(2)
	}
	fs := flag.NewFlagSet(os.Args[1], flag.ExitOnError)
	a := &args{}
	var seed string
	fs.StringVar(&seed, "seed", "1", "PRNG seed")
	fs.IntVar(&a.n, "n", 100, "number of cases")
	fs.StringVar(&a.out, "out", "-", "output JSON file")
	fs.StringVar(&a.tier, "tier", "quick", "quick|thorough")
	fs.StringVar(&a.replay, "replay", "", "replay file")
	fs.StringVar(&a.extra, "x", "", "subcommand-specific option")
	_ = fs.Parse(os.Args[2:])
	v, err := strconv.ParseUint(seed, 10, 64)
	if err != nil {
		v = 1
	}
	a.seed = v
	if err := s.run(a); err != nil {
		fmt.Fprintln(os.Stderr, "vrun:", err)
		os.Exit(3)
	}
}

func readJSON(path string, v any) error {
	b, err := os.ReadFile(path)
	if err != nil {
		return err
	}
	return json.Unmarshal(b, v)
}
