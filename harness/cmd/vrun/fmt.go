package main

import (
	"bytes"
	"context"
	"crypto/aes"
	"crypto/cipher"
	"crypto/rand"
	"encoding/base64"
	"encoding/json"
	"fmt"
	"time"

	types2 "github.com/aws/aws-sdk-go-v2/service/dynamodb/types"
	"github.com/aws/aws-sdk-go/aws"
	"github.com/aws/aws-sdk-go/aws/session"
	ddb1 "github.com/aws/aws-sdk-go/service/dynamodb"

	ae "github.com/godaddy/asherah/go/appencryption"
	"github.com/godaddy/asherah/go/appencryption/pkg/crypto/aead"
	"github.com/godaddy/asherah/go/appencryption/pkg/kms"
	"github.com/godaddy/asherah/go/appencryption/pkg/persistence"
	dyn1 "github.com/godaddy/asherah/go/appencryption/plugins/aws-v1/persistence"
	dyn2 "github.com/godaddy/asherah/go/appencryption/plugins/aws-v2/dynamodb/metastore"

	"verif/harness/fake"
	"verif/harness/gen"
)

func init() {
	register("fmt", "stored/wire formats vs the documented layout, both directions (C18)", runFmt)
}

type fmtMeta struct {
	ID      string `json:"id"` // hex
	Created int64  `json:"created"`
}

type fmtEkr struct {
	Revoked bool     `json:"revoked"`
	Created int64    `json:"created"`
	Key     string   `json:"key"` // hex
	Parent  *fmtMeta `json:"parent,omitempty"`
}

type fmtCase struct {
	Kind  string   `json:"kind"` // ekr | drr | e2e
	Ekr   *fmtEkr  `json:"ekr,omitempty"`
	Data  *string  `json:"data,omitempty"` // hex, nil = Go nil
	NoKey bool     `json:"nokey,omitempty"`
	Out   string   `json:"out,omitempty"` // hex of the SDK's JSON
	Viol  []string `json:"viol,omitempty"`
}

func (e *fmtEkr) toSDK() *ae.EnvelopeKeyRecord {
	r := &ae.EnvelopeKeyRecord{Revoked: e.Revoked, Created: e.Created, EncryptedKey: []byte(unhex(e.Key)), ID: "ignored-id"}
	if e.Parent != nil {
		r.ParentKeyMeta = &ae.KeyMeta{ID: unhex(e.Parent.ID), Created: e.Parent.Created}
	}
	return r
}

func genFmtEkr(r *gen.Rand) *fmtEkr {
	keys := [][]byte{{}, {0}, {0xff}, {1, 2}, {1, 2, 3}, {0, 0, 0, 0}, r.Bytes(31), r.Bytes(32), r.Bytes(60), []byte("<>&\"\\")}
	ids := []string{"_SK_svc_prod", "_IK_p_svc_prod", "_IK_a<b>&\"q\\_s_p", "_IK_tab\there\n_s_p", "_IK_\x01\x1f\x7f_s_p", "_IK_p_svc_prod_us-west-2", "/slash'quote"}
	e := &fmtEkr{Revoked: r.Chance(1, 3), Created: gen.Pick(r, []int64{0, 1, -5, 1790000000, 9007199254740993}), Key: gen.HB(gen.Pick(r, keys))}
	if r.Chance(2, 3) {
		e.Parent = &fmtMeta{ID: gen.H(gen.Pick(r, ids)), Created: gen.Pick(r, []int64{0, 7, 1790000060})}
	}
	return e
}

// ---- the documentation-side codec: written from docs/DesignAndArchitecture.md and docs/Metastore.md only ----------

// refSeal: AES-256-GCM, output = ciphertext || 16-byte tag || 12-byte nonce
func refSeal(pt, key []byte) []byte {
	blk, _ := aes.NewCipher(key)
	g, _ := cipher.NewGCM(blk)
	nonce := make([]byte, 12)
	rand.Read(nonce)
	return append(g.Seal(nil, nonce, pt, nil), nonce...)
}

func refOpen(blob, key []byte) ([]byte, error) {
	if len(blob) < 28 {
		return nil, fmt.Errorf("blob of %d bytes is shorter than tag+nonce", len(blob))
	}
	blk, err := aes.NewCipher(key)
	if err != nil {
		return nil, err
	}
	g, _ := cipher.NewGCM(blk)
	n := len(blob) - 12
	return g.Open(nil, blob[n:], blob[:n], nil)
}

// refParseDRR reads the documented JSON: {"Key":{"Created":n,"Key":"b64","ParentKeyMeta":{"KeyId":s,"Created":n}},"Data":"b64"}
func refParseDRR(js []byte) (data, encKey []byte, parentID string, parentCreated int64, err error) {
	var m struct {
		Key *struct {
			Created       *int64
			Key           *string
			ParentKeyMeta *struct {
				KeyId   *string
				Created *int64
			}
		}
		Data *string
	}
	dec := json.NewDecoder(bytes.NewReader(js))
	dec.DisallowUnknownFields()
	if err = dec.Decode(&m); err != nil {
		return
	}
	if m.Key == nil || m.Key.Key == nil || m.Key.Created == nil || m.Key.ParentKeyMeta == nil || m.Key.ParentKeyMeta.KeyId == nil ||
		m.Key.ParentKeyMeta.Created == nil || m.Data == nil {
		err = fmt.Errorf("record lacks a documented field: %s", js)
		return
	}
	if data, err = base64.StdEncoding.DecodeString(*m.Data); err != nil {
		return
	}
	if encKey, err = base64.StdEncoding.DecodeString(*m.Key.Key); err != nil {
		return
	}
	return data, encKey, *m.Key.ParentKeyMeta.KeyId, *m.Key.ParentKeyMeta.Created, nil
}

func runFmtE2E(c *fmtCase, r *gen.Rand) {
	viol := func(f string, a ...any) { c.Viol = append(c.Viol, fmt.Sprintf(f, a...)) }
	crypto := aead.NewAES256GCM()
	k, _ := kms.NewStatic(masterKey, crypto)
	defer k.Close()
	// the SDK writes through the SQL metastore (fake engine) so the stored row format is exercised too
	tbl := &fake.SQLTable{Name: "encryption_key", Style: "?"}
	var ms ae.Metastore = persistence.NewSQLMetastore(fake.OpenSQL(tbl))
	// half of the cases run in region-suffix mode (a metastore reporting a region suffix, as the DynamoDB global-table set-up does)
	sfx := ""
	if r.Bool() {
		sfx = gen.Pick(r, []string{"us-west-2", "eu-central-1"})
		ms = suffixedMetastore{ms, sfx}
		sfx = "_" + sfx
	}
	svc, prod := gen.Pick(r, []string{"svc", "svc", "my_svc"}), gen.Pick(r, []string{"prod", "prod", "prod_2"})
	sf := ae.NewSessionFactory(&ae.Config{Service: svc, Product: prod, Policy: ae.NewCryptoPolicy()}, ms, k, crypto)
	defer sf.Close()
	part := gen.Pick(r, []string{"p1", "partition_with_underscores", "x", "user_42"})
	s, _ := sf.GetSession(part)
	defer s.Close()
	ctx := context.Background()
	if sfx != "" {
		// the global-table set-up: a writer in ANOTHER region (its ids end in that region), or one that does not use suffixes, shares the
		// key table; the documented id layout says a region-suffixed reader accepts both
		var ms2 ae.Metastore = persistence.NewSQLMetastore(fake.OpenSQL(tbl))
		other := gen.Pick(r, []string{"", "ap-south-1", "us-east-1"})
		if other != "" {
			ms2 = suffixedMetastore{ms2, other}
		}
		sf2 := ae.NewSessionFactory(&ae.Config{Service: svc, Product: prod, Policy: ae.NewCryptoPolicy()}, ms2, k, crypto)
		s2, _ := sf2.GetSession(part)
		pt := r.Bytes(24)
		if rec2, err := s2.Encrypt(ctx, pt); err != nil {
			viol("SDK encrypt (other region) failed: %v", err)
		} else {
			js, _ := json.Marshal(rec2)
			var back ae.DataRowRecord
			if err := json.Unmarshal(js, &back); err != nil {
				viol("SDK cannot parse its own JSON: %v", err)
			} else if got, err := s.Decrypt(ctx, back); err != nil || !bytes.Equal(got, pt) {
				viol("a reader with region suffix %q cannot decrypt a record of its own partition %q written under key id %q (other region / no suffix): %v",
					sfx[1:], part, rec2.Key.ParentKeyMeta.ID, err)
			}
		}
		s2.Close()
		sf2.Close()
	}
	for _, size := range []int{0, 1, 15, 16, 17, 1000} {
		pt := r.Bytes(size)
		rec, err := s.Encrypt(ctx, pt)
		if err != nil {
			viol("SDK encrypt failed: %v", err)
			return
		}
		js, _ := json.Marshal(rec)
		// SDK writes, reference reads: JSON -> documented fields -> key rows from the SQL table -> AES-GCM by hand
		data, encKey, pid, pc, err := refParseDRR(js)
		if err != nil {
			viol("reference cannot parse SDK JSON: %v", err)
			continue
		}
		if want := "_IK_" + part + "_" + svc + "_" + prod + sfx; pid != want {
			viol("intermediate key id %q, documented %q", pid, want)
		}
		ikRow, skRow := refRow(tbl, pid, pc), ""
		var ikm struct {
			Created       int64
			Key           string
			ParentKeyMeta struct {
				KeyId   string
				Created int64
			}
		}
		if err := json.Unmarshal([]byte(ikRow), &ikm); err != nil || ikRow == "" {
			viol("reference cannot read the IK row %q: %v", ikRow, err)
			continue
		}
		if ikm.ParentKeyMeta.KeyId != "_SK_"+svc+"_"+prod+sfx {
			viol("system key id %q named by the intermediate key record, documented _SK_%s_%s%s", ikm.ParentKeyMeta.KeyId, svc, prod, sfx)
		}
		skRow = refRow(tbl, ikm.ParentKeyMeta.KeyId, ikm.ParentKeyMeta.Created)
		var skm struct{ Key string }
		json.Unmarshal([]byte(skRow), &skm)
		skBlob, _ := base64.StdEncoding.DecodeString(skm.Key)
		skBytes, err := refOpen(skBlob, []byte(masterKey)) // static KMS = AES-GCM under the master key, same layout
		if err != nil {
			viol("reference cannot unwrap the SK: %v", err)
			continue
		}
		ikBlob, _ := base64.StdEncoding.DecodeString(ikm.Key)
		ikBytes, err := refOpen(ikBlob, skBytes)
		if err != nil {
			viol("reference cannot unwrap the IK: %v", err)
			continue
		}
		drk, err := refOpen(encKey, ikBytes)
		if err != nil {
			viol("reference cannot unwrap the DRK: %v", err)
			continue
		}
		got, err := refOpen(data, drk)
		if err != nil || !bytes.Equal(got, pt) {
			viol("reference decrypt of a %d-byte payload failed: %v", size, err)
		}
		// reference writes (under the same IK), SDK reads
		drk2 := r.Bytes(32)
		doc := fmt.Sprintf(`{"Key":{"Created":%d,"Key":"%s","ParentKeyMeta":{"KeyId":"%s","Created":%d}},"Data":"%s"}`,
			time.Now().Unix(), base64.StdEncoding.EncodeToString(refSeal(drk2, ikBytes)), pid, pc, base64.StdEncoding.EncodeToString(refSeal(pt, drk2)))
		var back ae.DataRowRecord
		if err := json.Unmarshal([]byte(doc), &back); err != nil {
			viol("SDK cannot parse the documented JSON: %v", err)
			continue
		}
		got2, err := s.Decrypt(ctx, back)
		if err != nil || !bytes.Equal(got2, pt) {
			viol("SDK cannot decrypt a %d-byte record written by the reference: %v", size, err)
		}
	}
}

// suffixedMetastore reports a region suffix (key ids then end in _<region>)
type suffixedMetastore struct {
	ae.Metastore
	suffix string
}

func (m suffixedMetastore) GetRegionSuffix() string { return m.suffix }

func refRow(t *fake.SQLTable, id string, created int64) string {
	return t.Lookup(id, time.Unix(created, 0))
}

func runFmtDynamo(c *fmtCase) {
	viol := func(f string, a ...any) { c.Viol = append(c.Viol, fmt.Sprintf(f, a...)) }
	e := c.Ekr.toSDK()
	ctx := context.Background()
	// v1 item
	d1 := fake.NewDynamo("EncryptionKey")
	sess, _ := session.NewSession(&aws.Config{Region: aws.String("us-west-2")})
	m1 := dyn1.NewDynamoDBMetastore(sess, dyn1.WithClient(fake.DynamoV1{D: d1}))
	if ok, err := m1.Store(ctx, "_IK_p_svc_prod", e.Created, e); !ok {
		viol("v1 store failed: %v", err)
	} else if it := d1.Peek("_IK_p_svc_prod", e.Created); it == nil {
		viol("v1 item not keyed by Id (S) and Created (N)")
	} else {
		kr := it.Attrs.(map[string]*ddb1.AttributeValue)["KeyRecord"]
		if kr == nil || kr.M == nil {
			viol("v1 item has no KeyRecord map")
		} else {
			checkItem(viol, "v1", e, func(n string) (string, bool, *bool, map[string][2]string) {
				a := kr.M[n]
				if a == nil {
					return "", false, nil, nil
				}
				switch {
				case a.S != nil:
					return "S:" + *a.S, true, nil, nil
				case a.N != nil:
					return "N:" + *a.N, true, nil, nil
				case a.BOOL != nil:
					return "BOOL", true, a.BOOL, nil
				case a.M != nil:
					mm := map[string][2]string{}
					for k, v := range a.M {
						switch {
						case v.S != nil:
							mm[k] = [2]string{"S", *v.S}
						case v.N != nil:
							mm[k] = [2]string{"N", *v.N}
						}
					}
					return "M", true, nil, mm
				}
				return "?", true, nil, nil
			}, len(kr.M))
		}
	}
	// v2 item
	d2 := fake.NewDynamo("EncryptionKey")
	m2, _ := dyn2.NewDynamoDB(dyn2.WithDynamoDBClient(fake.DynamoV2{D: d2, Region: "us-west-2"}))
	if ok, err := m2.Store(ctx, "_IK_p_svc_prod", e.Created, e); !ok {
		viol("v2 store failed: %v", err)
	} else if it := d2.Peek("_IK_p_svc_prod", e.Created); it == nil {
		viol("v2 item not keyed by Id (S) and Created (N)")
	} else {
		kr, _ := it.Attrs.(map[string]types2.AttributeValue)["KeyRecord"].(*types2.AttributeValueMemberM)
		if kr == nil {
			viol("v2 item has no KeyRecord map")
		} else {
			checkItem(viol, "v2", e, func(n string) (string, bool, *bool, map[string][2]string) {
				switch a := kr.Value[n].(type) {
				case nil:
					return "", false, nil, nil
				case *types2.AttributeValueMemberS:
					return "S:" + a.Value, true, nil, nil
				case *types2.AttributeValueMemberN:
					return "N:" + a.Value, true, nil, nil
				case *types2.AttributeValueMemberBOOL:
					return "BOOL", true, &a.Value, nil
				case *types2.AttributeValueMemberM:
					mm := map[string][2]string{}
					for k, v := range a.Value {
						switch vv := v.(type) {
						case *types2.AttributeValueMemberS:
							mm[k] = [2]string{"S", vv.Value}
						case *types2.AttributeValueMemberN:
							mm[k] = [2]string{"N", vv.Value}
						}
					}
					return "M", true, nil, mm
				}
				return "?", true, nil, nil
			}, len(kr.Value))
		}
	}
	// cross reads: what one plugin stored the other loads
	if r, err := m2.Load(ctx, "_IK_p_svc_prod", e.Created); err != nil || r == nil || !bytes.Equal(r.EncryptedKey, e.EncryptedKey) || r.Revoked != e.Revoked {
		viol("v2 cannot load its own item intact: %v", err)
	}
}

// checkItem: documented KeyRecord layout {Revoked BOOL (only when true), Created N, Key S base64, ParentKeyMeta M{KeyId S, Created N}}
func checkItem(viol func(string, ...any), who string, e *ae.EnvelopeKeyRecord, get func(string) (string, bool, *bool, map[string][2]string), n int) {
	want := 2
	if v, ok, _, _ := get("Created"); !ok || v != fmt.Sprintf("N:%d", e.Created) {
		viol("%s item Created = %q", who, v)
	}
	if v, ok, _, _ := get("Key"); !ok || v != "S:"+base64.StdEncoding.EncodeToString(e.EncryptedKey) {
		viol("%s item Key = %q", who, v)
	}
	_, ok, b, _ := get("Revoked")
	if e.Revoked {
		want++
		if !ok || b == nil || !*b {
			viol("%s item lacks Revoked=true", who)
		}
	} else if ok {
		viol("%s item carries Revoked although false", who)
	}
	_, ok, _, mm := get("ParentKeyMeta")
	if e.ParentKeyMeta != nil {
		want++
		if !ok || mm == nil || mm["KeyId"] != [2]string{"S", e.ParentKeyMeta.ID} || mm["Created"] != [2]string{"N", fmt.Sprint(e.ParentKeyMeta.Created)} || len(mm) != 2 {
			viol("%s item ParentKeyMeta = %v", who, mm)
		}
	} else if ok {
		viol("%s item carries ParentKeyMeta although nil", who)
	}
	if n != want {
		viol("%s KeyRecord has %d attributes, documented %d", who, n, want)
	}
}

func runFmt(a *args) error {
	r := gen.New(a.seed)
	var out []*fmtCase
	if a.replay != "" {
		var rp struct{ Case *fmtCase }
		if err := readJSON(a.replay, &rp); err != nil {
			return err
		}
		out = append(out, rp.Case)
	}
	for i := 0; i < a.n || len(out) > 0 && a.replay != "" && i < 1; i++ {
		var c *fmtCase
		if a.replay != "" {
			c = out[0]
			out = nil
			c.Viol, c.Out = nil, ""
		} else {
			switch i % 8 {
			case 0:
				c = &fmtCase{Kind: "e2e"}
			case 1, 2, 3:
				c = &fmtCase{Kind: "ekr", Ekr: genFmtEkr(r)}
			default:
				c = &fmtCase{Kind: "drr", Ekr: genFmtEkr(r)}
				if r.Chance(1, 10) {
					c.NoKey = true
				}
				if !r.Chance(1, 10) {
					h := gen.HB(gen.Pick(r, [][]byte{{}, {9}, r.Bytes(28), r.Bytes(45)}))
					c.Data = &h
				}
			}
		}
		switch c.Kind {
		case "e2e":
			runFmtE2E(c, r)
		case "ekr":
			b, err := json.Marshal(c.Ekr.toSDK())
			if err != nil {
				c.Viol = append(c.Viol, err.Error())
			}
			c.Out = gen.HB(b)
			// the SQL metastore must store exactly this JSON
			tbl := &fake.SQLTable{Name: "encryption_key", Style: "?"}
			ms := persistence.NewSQLMetastore(fake.OpenSQL(tbl))
			if ok, err := ms.Store(context.Background(), "_IK_p_svc_prod", c.Ekr.Created, c.Ekr.toSDK()); !ok {
				c.Viol = append(c.Viol, fmt.Sprintf("sql store failed: %v", err))
			} else if row := tbl.Lookup("_IK_p_svc_prod", time.Unix(c.Ekr.Created, 0)); row != string(b) {
				c.Viol = append(c.Viol, fmt.Sprintf("sql key_record %q differs from the record's JSON %q", row, b))
			}
			// and it must parse back into the same record
			var back ae.EnvelopeKeyRecord
			if err := json.Unmarshal(b, &back); err != nil || back.Created != c.Ekr.Created || !bytes.Equal(back.EncryptedKey, []byte(unhex(c.Ekr.Key))) || back.Revoked != c.Ekr.Revoked {
				c.Viol = append(c.Viol, "record JSON does not parse back intact")
			}
			if c.Ekr.Key != "" { // dynamodbattribute encodes empty strings as NULL; encrypted keys are never empty
				runFmtDynamo(c)
			}
		case "drr":
			d := ae.DataRowRecord{}
			if !c.NoKey {
				d.Key = c.Ekr.toSDK()
			}
			if c.Data != nil {
				d.Data = []byte(unhex(*c.Data))
				if d.Data == nil {
					d.Data = []byte{}
				}
			}
			b, err := json.Marshal(d)
			if err != nil {
				c.Viol = append(c.Viol, err.Error())
			}
			c.Out = gen.HB(b)
		}
		out = append(out, c)
		if a.replay != "" {
			break
		}
	}
	return gen.WriteJSON(a.out, map[string]any{"cases": out})
}
