package main

import (
	"bytes"
	"context"
	"encoding/hex"
	"fmt"
	"runtime"
	"sort"
	"time"

	ae "github.com/godaddy/asherah/go/appencryption"
	"github.com/godaddy/asherah/go/appencryption/pkg/persistence"
	"github.com/godaddy/asherah/go/appencryption/pkg/crypto/aead"
	"github.com/godaddy/asherah/go/appencryption/pkg/kms"
	aelog "github.com/godaddy/asherah/go/appencryption/pkg/log"

	"verif/harness/gen"
	"verif/harness/spy"
)

// ---- history representation (shared with the Coq side through lib/envterms.py) -------------------

type PolicyCfg struct {
	Expire, RCI, Precision int64
	CacheSK, CacheIK       bool
	SharedIK               bool
	SKPol, IKPol           string // "simple","lru","lfu","slru","tinylfu"
	SKCap, IKCap           int
	CacheSessions          bool
	SessCap                int
	SessDur                int64
	SessPol                string
}

type Mut struct {
	K  string `json:"k"` // mutdata,mutkey,datafrom,keyfrom,parentfrom,parentcreated,parentid,keycreated,nilkey,nilparent
	J  int    `json:"j,omitempty"`
	C  int64  `json:"c,omitempty"`
	ID string `json:"id,omitempty"` // hex
}

type EnvOp struct {
	K       string     `json:"k"`
	F       int        `json:"f,omitempty"`
	S       int        `json:"s,omitempty"`
	ID      string     `json:"id,omitempty"` // hex
	Payload int        `json:"payload,omitempty"`
	Rec     int        `json:"rec,omitempty"`
	Muts    []Mut      `json:"muts,omitempty"`
	Faults  [][2]any   `json:"faults,omitempty"` // [index, kind]
	D       int64      `json:"d,omitempty"`
	Created int64      `json:"created,omitempty"`
	Policy  *PolicyCfg `json:"policy,omitempty"`
	Svc     string     `json:"svc,omitempty"`
	Prod    string     `json:"prod,omitempty"`
	Suffix  *string    `json:"suffix,omitempty"`
	SlowKMS int64      `json:"slowkms,omitempty"` // every KMS round trip of this operation takes this long (the virtual clock moves while the call is in flight)
	RelFail *int       `json:"relfail,omitempty"` // the n-th WithBytesFunc of this operation returns its result together with a release error
}

type EnvObs struct {
	R   string      `json:"r"` // unit,factory,session,refused,enc,dec,err,panic
	N   int         `json:"n"`
	PID string      `json:"pid,omitempty"`
	PC  int64       `json:"pc,omitempty"`
	C   int64       `json:"c,omitempty"`
	Ev  []spy.Event `json:"ev,omitempty"`
	Now int64       `json:"now"`
	// facts for the implementation-only monitors
	Durable  *bool    `json:"durable,omitempty"`  // encrypt ok: IK row and its SK row are in the metastore at return
	RefDec   string   `json:"refdec,omitempty"`   // encrypt ok: fresh-process reference decrypt: "ok","wrong","err:..."
	Frame    string   `json:"frame,omitempty"`    // "" or description of a modified caller buffer
	Live     []int    `json:"live"`               // live secrets after the op (quiescent)
	Unwiped  []string `json:"unwiped,omitempty"`  // key-plaintext heap buffers not zero at return
	Leaks    []string `json:"leaks,omitempty"`    // plaintext key/payload bytes seen where they must not be
	Part     string   `json:"part,omitempty"`     // partition (hex) of the session used
	PanicMsg string   `json:"panicmsg,omitempty"`
	IKParent *[2]any  `json:"ikparent,omitempty"` // encrypt ok: parent (id hex, created) of the IK row named by the record
	IKRev    *bool    `json:"ikrev,omitempty"`
}

type EnvCase struct {
	T0   int64     `json:"t0"`
	Ops  []EnvOp   `json:"ops"`
	Obs  []EnvObs  `json:"obs"`
	Tags []string  `json:"tags,omitempty"`
	Cfg  string    `json:"cfg,omitempty"`
	Recs []RecInfo `json:"recs,omitempty"`
	Revs []RevInfo `json:"revs,omitempty"`
	// case-level facts for the monitors
	SealDup  string   `json:"sealdup,omitempty"` // a (key, nonce) pair that was used twice
	WeakNonce string  `json:"weaknonce,omitempty"`
	KmsBad   []string `json:"kmsbad,omitempty"`  // EncryptKey inputs that are not key material
	TornDown bool     `json:"torn_down"`
	NSeals   int      `json:"nseals"`
}

// finishCase records the case-level facts.
func (x *envExec) finishCase(cs *EnvCase) {
	cs.Recs = x.recInfo
	cs.Revs = x.revs
	seen := map[string]int{}
	for i, s := range x.crypto.Seals {
		k := s.Key + "|" + s.Nonce
		if j, ok := seen[k]; ok && cs.SealDup == "" {
			cs.SealDup = fmt.Sprintf("AEAD encrypt calls #%d and #%d used the same key and nonce", j, i)
		}
		seen[k] = i
	}
	cs.NSeals = len(x.crypto.Seals)
	for i, s := range x.crypto.Seals {
		z := 0
		for j := 0; j < len(s.Nonce); j++ {
			if s.Nonce[j] == 0 {
				z++
			}
		}
		if (len(s.Nonce) != 12 || z >= 6) && cs.WeakNonce == "" {
			cs.WeakNonce = fmt.Sprintf("AEAD encrypt call #%d used nonce %x (not 12 fresh random bytes)", i, s.Nonce)
		}
	}
	for _, in := range x.kmsSpy.EncInputs {
		if in[0] != "K" {
			cs.KmsBad = append(cs.KmsBad, fmt.Sprint(in))
		}
	}
}

type RecInfo struct {
	Part    string `json:"part"`
	Payload int    `json:"payload"`
	PID     string `json:"pid"`
	PC      int64  `json:"pc"`
	At      int64  `json:"at"`
}

type RevInfo struct {
	ID      string `json:"id"`
	Created int64  `json:"created"`
	At      int64  `json:"at"`
}

// ---- executor ---------------------------------------------------------------------------------------

type envExec struct {
	now      int64
	tr       *spy.Trace
	faults   *spy.Faults
	ms       *spy.Metastore
	sf       *spy.SecretFactory
	cl       *spy.Classifier
	crypto   *spy.AEAD
	kmsSpy   *spy.KMS
	static   *kms.StaticKMS
	logger   *spy.Logger
	facts    []*ae.SessionFactory
	fpol     []*PolicyCfg
	sessions []*ae.Session
	sessIdx  map[*ae.Session]int
	sessPart []string
	sessFact []int
	recs     []*ae.DataRowRecord
	recInfo  []RecInfo
	corrupted map[string]int
	payloads map[int][]byte
	revs     []RevInfo
	needWait bool
	scanLeak bool
	dead     bool // an operation got stuck: nothing further is run in this case
	kmsOutN  int
	sealN    int
}

var masterKey = "thisIsAStaticMasterKeyForTesting"

func newEnvExec(t0 int64) *envExec {
	x := &envExec{now: t0, tr: &spy.Trace{}, faults: &spy.Faults{}, sessIdx: map[*ae.Session]int{}, payloads: map[int][]byte{}}
	x.ms = spy.NewMetastore(x.tr, x.faults)
	x.sf = spy.NewSecretFactory(x.tr, x.faults)
	x.sf.Quiet = true
	x.cl = &spy.Classifier{SF: x.sf}
	x.sf.C = x.cl
	inner := aead.NewAES256GCM()
	x.crypto = &spy.AEAD{Inner: inner, T: x.tr, F: x.faults, C: x.cl}
	st, err := kms.NewStatic(masterKey, inner)
	if err != nil {
		panic(err)
	}
	x.static = st
	x.kmsSpy = &spy.KMS{Inner: st, T: x.tr, F: x.faults, C: x.cl}
	x.logger = &spy.Logger{}
	ae.VerifSetNow(func() time.Time { return time.Unix(0, x.now) })
	return x
}

// enableLeakScan turns on debug-log capture and the plaintext scan of everything leaving the SDK.
func (x *envExec) enableLeakScan() {
	x.scanLeak = true
	x.logger.Keep = true
	aelog.SetLogger(x.logger)
}

func (x *envExec) close() {
	x.static.Close()
	ae.VerifSetNow(time.Now)
	aelog.SetLogger(nil)
}

func mkPolicy(p *PolicyCfg) *ae.CryptoPolicy {
	cp := ae.NewCryptoPolicy()
	cp.ExpireKeyAfter = time.Duration(p.Expire)
	cp.RevokeCheckInterval = time.Duration(p.RCI)
	cp.CreateDatePrecision = time.Duration(p.Precision)
	cp.CacheSystemKeys = p.CacheSK
	cp.CacheIntermediateKeys = p.CacheIK
	cp.SharedIntermediateKeyCache = p.SharedIK
	cp.SystemKeyCacheEvictionPolicy = p.SKPol
	cp.IntermediateKeyCacheEvictionPolicy = p.IKPol
	cp.SystemKeyCacheMaxSize = p.SKCap
	cp.IntermediateKeyCacheMaxSize = p.IKCap
	cp.CacheSessions = p.CacheSessions
	cp.SessionCacheMaxSize = p.SessCap
	cp.SessionCacheDuration = time.Duration(p.SessDur)
	cp.SessionCacheEvictionPolicy = p.SessPol
	return cp
}

func (x *envExec) payload(n int) []byte {
	if b, ok := x.payloads[n]; ok {
		return b
	}
	sizes := []int{0, 1, 4068, 15, 16, 17, 9000, 33, 64, 257} // 4068 and 9000: ciphertexts of a page and more
	sz := sizes[n%len(sizes)]
	b := make([]byte, 0, sz+12)
	if n != 5 { // payload 5 is the empty payload
		b = append(b, []byte(fmt.Sprintf("pl#%06d:", n))...)
		for i := 0; i < sz; i++ {
			b = append(b, byte(n*31+i*7+1))
		}
	}
	x.payloads[n] = b
	x.cl.AddPayload(b, n)
	return b
}

func faultPlan(fs [][2]any) map[int]string {
	m := map[int]string{}
	for _, f := range fs {
		var i int
		switch v := f[0].(type) {
		case float64:
			i = int(v)
		case int:
			i = v
		}
		m[i] = fmt.Sprint(f[1])
	}
	return m
}

func (x *envExec) quiesce() {
	// asynchronous teardown (session-cache Remove goroutines, asynchronous eviction callbacks) involves no
	// timers: yield until the trace stops growing
	stable := 0
	last := x.tr.Len()
	for i := 0; i < 4000 && stable < 40; i++ {
		runtime.Gosched()
		if n := x.tr.Len(); n == last {
			stable++
		} else {
			stable, last = 0, n
		}
	}
	if x.needWait {
		time.Sleep(300 * time.Microsecond)
		for i := 0; i < 50; i++ {
			runtime.Gosched()
		}
	}
}

func (x *envExec) applyMuts(r *ae.DataRowRecord, muts []Mut) ae.DataRowRecord {
	c := ae.DataRowRecord{Data: append([]byte(nil), r.Data...)}
	if r.Key != nil {
		k := *r.Key
		k.EncryptedKey = append([]byte(nil), r.Key.EncryptedKey...)
		if r.Key.ParentKeyMeta != nil {
			pm := *r.Key.ParentKeyMeta
			k.ParentKeyMeta = &pm
		}
		c.Key = &k
	}
	mutate := func(b []byte, j int) []byte {
		if len(b) == 0 {
			return []byte{1}
		}
		if j < 0 { // truncate by -j bytes (at least one)
			n := len(b) + j
			if n < 0 {
				n = 0
			}
			return b[:n]
		}
		o := append([]byte(nil), b...)
		o[(j/8)%len(o)] ^= 1 << uint(j%8)
		return o
	}
	other := func(j int) *ae.DataRowRecord {
		if j >= 0 && j < len(x.recs) {
			return x.recs[j]
		}
		return r
	}
	for _, m := range muts {
		if c.Key == nil && m.K != "mutdata" && m.K != "datafrom" {
			c.Key = &ae.EnvelopeKeyRecord{}
		}
		switch m.K {
		case "mutdata":
			c.Data = mutate(c.Data, m.J)
		case "mutkey":
			c.Key.EncryptedKey = mutate(c.Key.EncryptedKey, m.J)
		case "datafrom":
			c.Data = append([]byte(nil), other(m.J).Data...)
		case "keyfrom":
			c.Key.EncryptedKey = append([]byte(nil), other(m.J).Key.EncryptedKey...)
		case "parentfrom":
			pm := *other(m.J).Key.ParentKeyMeta
			c.Key.ParentKeyMeta = &pm
		case "parentcreated":
			if c.Key.ParentKeyMeta != nil {
				c.Key.ParentKeyMeta.Created = m.C
			}
		case "parentid":
			if c.Key.ParentKeyMeta != nil {
				c.Key.ParentKeyMeta.ID = unhex(m.ID)
			}
		case "keycreated":
			c.Key.Created = m.C
		case "nilkey":
			c.Key = nil
		case "nilparent":
			c.Key.ParentKeyMeta = nil
		}
	}
	return c
}

// refDecrypt is the "fresh process": only the metastore contents, the KMS and the documented layout.
func (x *envExec) refDecrypt(rec *ae.DataRowRecord) ([]byte, error) {
	inner := aead.NewAES256GCM()
	if rec.Key == nil || rec.Key.ParentKeyMeta == nil {
		return nil, fmt.Errorf("malformed record")
	}
	ik := x.ms.Get(rec.Key.ParentKeyMeta.ID, rec.Key.ParentKeyMeta.Created)
	if ik == nil {
		return nil, fmt.Errorf("IK row missing")
	}
	if ik.ParentKeyMeta == nil {
		return nil, fmt.Errorf("IK row has no parent")
	}
	sk := x.ms.Get(ik.ParentKeyMeta.ID, ik.ParentKeyMeta.Created)
	if sk == nil {
		return nil, fmt.Errorf("SK row missing")
	}
	skb, err := x.static.DecryptKey(context.Background(), sk.EncryptedKey)
	if err != nil {
		return nil, fmt.Errorf("SK unwrap: %w", err)
	}
	ikb, err := inner.Decrypt(ik.EncryptedKey, skb)
	if err != nil {
		return nil, fmt.Errorf("IK unwrap: %w", err)
	}
	drk, err := inner.Decrypt(rec.Key.EncryptedKey, ikb)
	if err != nil {
		return nil, fmt.Errorf("DRK unwrap: %w", err)
	}
	return inner.Decrypt(rec.Data, drk)
}

func (x *envExec) leakScan(ob *EnvObs, rec *ae.DataRowRecord, logs []string) {
	// every plaintext key the secret factory ever held, every payload: must not occur in rows, records,
	// log lines or KMS traffic (other than the system key given to the KMS for wrapping)
	var needles [][]byte
	var names []string
	for i := 0; i < x.sf.Count(); i++ {
		b := x.sf.Bytes(i)
		if len(b) >= 16 {
			needles = append(needles, b)
			names = append(names, fmt.Sprintf("secret#%d", i))
		}
	}
	for n, p := range x.payloads {
		if len(p) >= 16 {
			needles = append(needles, p)
			names = append(names, fmt.Sprintf("payload#%d", n))
		}
	}
	check := func(where string, hay []byte) {
		for i, nd := range needles {
			if bytes.Contains(hay, nd) || bytes.Contains(hay, []byte(hex.EncodeToString(nd))) ||
				bytes.Contains(hay, []byte(b64(nd))) || bytes.Contains(hay, []byte(fmt.Sprintf("%v", nd))) {
				ob.Leaks = append(ob.Leaks, names[i]+" in "+where)
			}
		}
	}
	if rec != nil {
		check("record.Data", rec.Data)
		check("record.Key", rec.Key.EncryptedKey)
	}
	for _, w := range x.ms.Writes[len(x.ms.Writes)-min(len(x.ms.Writes), 2):] {
		if r := x.ms.Get(w.ID, w.Created); r != nil {
			check("metastore row "+w.ID, r.EncryptedKey)
			check("metastore row id "+w.ID, []byte(w.ID))
		}
	}
	for _, l := range logs {
		check("log line", []byte(l))
	}
	for ; x.kmsOutN < len(x.kmsSpy.Outputs); x.kmsOutN++ {
		check("kms output", x.kmsSpy.Outputs[x.kmsOutN])
	}
}

// do runs one operation under a watchdog: an operation that does not return within 20 s (e.g. a lock left held by a panic that was
// recovered further up) is reported as "stuck" and the rest of the case is skipped; its goroutine stays parked.
func (x *envExec) do(op EnvOp) EnvObs {
	if x.dead {
		return EnvObs{R: "skipped", Now: x.now}
	}
	done := make(chan EnvObs, 1)
	go func() { done <- x.doInner(op) }()
	select {
	case ob := <-done:
		return ob
	case <-time.After(20 * time.Second):
		x.dead = true
		return EnvObs{R: "stuck", Now: x.now}
	}
}

func (x *envExec) doInner(op EnvOp) (ob EnvObs) {
	ob.Now = x.now
	x.faults.Reset(faultPlan(op.Faults))
	x.tr.Take()
	x.crypto.TakeRetained()
	x.kmsSpy.TakeRetained()
	x.sf.FailedNew = nil
	x.kmsSpy.AfterCall = nil
	if op.SlowKMS > 0 {
		d := op.SlowKMS
		x.kmsSpy.AfterCall = func() { x.now += d }
	}
	if op.RelFail != nil {
		x.sf.ResetOp(*op.RelFail)
	} else {
		x.sf.ResetOp(-1)
	}
	ctx, cancel := context.WithCancel(context.Background())
	defer cancel()
	x.faults.Cancel = cancel
	var encRec *ae.DataRowRecord
	var decRec *ae.DataRowRecord // the caller's record as it is AFTER a decrypt (leak scan: it must still hold ciphertext only)
	func() {
		defer func() {
			if r := recover(); r != nil {
				ob.R = "panic"
				ob.PanicMsg = fmt.Sprint(r)
			}
		}()
		switch op.K {
		case "newfactory":
			x.ms.Suffix = ""
			var store ae.Metastore = x.ms
			if op.Suffix != nil {
				store = &suffixView{Metastore: x.ms, suffix: unhex(*op.Suffix)}
			} else {
				store = &suffixView{Metastore: x.ms, suffix: ""}
			}
			f := ae.NewSessionFactory(&ae.Config{Service: unhex(op.Svc), Product: unhex(op.Prod), Policy: mkPolicy(op.Policy)},
				store, x.kmsSpy, x.crypto, ae.WithSecretFactory(x.sf))
			x.facts = append(x.facts, f)
			x.fpol = append(x.fpol, op.Policy)
			if op.Policy.CacheSessions || op.Policy.SKCap >= 100 && op.Policy.SKPol != "simple" && op.Policy.SKPol != "" ||
				op.Policy.IKCap >= 100 && op.Policy.IKPol != "simple" && op.Policy.IKPol != "" {
				x.needWait = true
			}
			ob.R, ob.N = "factory", len(x.facts)-1
		case "getsession":
			s, err := x.facts[op.F].GetSession(unhex(op.ID))
			if err != nil {
				ob.R = "refused"
				return
			}
			idx, ok := x.sessIdx[s]
			if !ok {
				idx = len(x.sessions)
				x.sessions = append(x.sessions, s)
				x.sessIdx[s] = idx
				x.sessPart = append(x.sessPart, unhex(op.ID))
				x.sessFact = append(x.sessFact, op.F)
			}
			ob.R, ob.N = "session", idx
		case "encrypt":
			pl := x.payload(op.Payload)
			// the caller's buffer: every other payload is a slice of a larger arena (spare capacity behind it, like a
			// reusable read buffer); the whole arena must be untouched, and the caller reuses it after Encrypt returned
			spare := 0
			if op.Payload%2 == 1 {
				spare = 64
			}
			arena := make([]byte, len(pl)+spare)
			copy(arena, pl)
			for i := len(pl); i < len(arena); i++ {
				arena[i] = 0xA5
			}
			before := append([]byte(nil), arena...)
			cp := arena[:len(pl):len(arena)]
			ob.Part = gen.H(x.sessPart[op.S])
			var rec *ae.DataRowRecord
			var err error
			if op.Payload%3 == 0 {
				// through Session.Store with a Storer that keeps the record: same observables as Encrypt
				var kept ae.DataRowRecord
				var key interface{}
				key, err = x.sessions[op.S].Store(ctx, cp, persistence.StorerFunc(func(_ context.Context, d ae.DataRowRecord) (interface{}, error) {
					kept = d
					return "k", nil
				}))
				if err == nil {
					if key != "k" {
						ob.Frame = "Store did not return the storer's key"
					}
					rec = &kept
				}
			} else {
				rec, err = x.sessions[op.S].Encrypt(ctx, cp)
			}
			if !bytes.Equal(arena, before) {
				ob.Frame = "encrypt modified the caller's payload"
				if bytes.Equal(arena[:len(pl)], pl) {
					ob.Frame = "encrypt wrote into the caller's buffer beyond the payload"
				}
			}
			for i := range arena { // the caller reuses its buffer
				arena[i] = 0xEE
			}
			if err != nil {
				ob.R = "err"
				return
			}
			if rec == nil || rec.Key == nil || rec.Key.ParentKeyMeta == nil {
				ob.R = "panic"
				ob.PanicMsg = "malformed record returned"
				return
			}
			ob.R = "enc"
			ob.PID, ob.PC, ob.C = gen.H(rec.Key.ParentKeyMeta.ID), rec.Key.ParentKeyMeta.Created, rec.Key.Created
			encRec = rec
			x.recs = append(x.recs, rec)
			x.recInfo = append(x.recInfo, RecInfo{Part: gen.H(x.sessPart[op.S]), Payload: op.Payload, PID: ob.PID, PC: ob.PC, At: x.now})
		case "decrypt":
			ob.Part = gen.H(x.sessPart[op.S])
			if op.Rec < 0 || op.Rec >= len(x.recs) {
				ob.R = "err"
				return
			}
			r := x.applyMuts(x.recs[op.Rec], op.Muts)
			snap := x.applyMuts(&r, nil)
			var pt []byte
			var err error
			if op.Rec%3 == 1 {
				// through Session.Load with a Loader that hands the record out
				pt, err = x.sessions[op.S].Load(ctx, "k", persistence.LoaderFunc(func(_ context.Context, _ interface{}) (*ae.DataRowRecord, error) {
					return &r, nil
				}))
			} else {
				pt, err = x.sessions[op.S].Decrypt(ctx, r)
			}
			after := x.applyMuts(&r, nil)
			if !recEqual(&snap, &after) {
				ob.Frame = "decrypt modified the caller's record"
			}
			if r.Key != nil {
				decRec = &r
			}
			if err != nil {
				ob.R = "err"
				return
			}
			ob.R, ob.N = "dec", -1
			for n, p := range x.payloads {
				if bytes.Equal(p, pt) {
					ob.N = n
				}
			}
		case "closesession":
			x.sessions[op.S].Close()
			ob.R = "unit"
		case "closefactory":
			x.facts[op.F].Close()
			ob.R = "unit"
		case "advance":
			x.now += op.D
			ob.R = "unit"
		case "revoke":
			x.ms.Revoke(unhex(op.ID), op.Created)
			x.revs = append(x.revs, RevInfo{ID: op.ID, Created: op.Created, At: x.now})
			ob.R = "unit"
		case "dropparent":
			if r := x.ms.Get(unhex(op.ID), op.Created); r != nil {
				r.ParentKeyMeta = nil
			}
			ob.R = "unit"
		case "corruptkey":
			if r := x.ms.Get(unhex(op.ID), op.Created); r != nil && len(r.EncryptedKey) > 0 {
				// a different byte every time: corrupting a row twice must not restore it
				k := fmt.Sprintf("%s/%d", op.ID, op.Created)
				if x.corrupted == nil {
					x.corrupted = map[string]int{}
				}
				r.EncryptedKey[x.corrupted[k]%len(r.EncryptedKey)] ^= 2
				x.corrupted[k]++
			}
			ob.R = "unit"
		default:
			ob.R = "err"
		}
	}()
	x.quiesce()
	ob.Ev = x.tr.Take()
	ob.Live = x.sf.Live()
	// transient plaintext key copies must be zero by now
	for _, r := range append(x.crypto.TakeRetained(), x.kmsSpy.TakeRetained()...) {
		if r.IsKey && !allZero(r.Buf) {
			ob.Unwiped = append(ob.Unwiped, r.Where)
		}
	}
	for _, b := range x.sf.FailedNew {
		if !allZero(b) {
			ob.Unwiped = append(ob.Unwiped, "buffer passed to SecretFactory.New (which failed)")
		}
	}
	if encRec != nil {
		ik := x.ms.Get(encRec.Key.ParentKeyMeta.ID, encRec.Key.ParentKeyMeta.Created)
		d := false
		if ik != nil && ik.ParentKeyMeta != nil {
			ob.IKParent = &[2]any{gen.H(ik.ParentKeyMeta.ID), ik.ParentKeyMeta.Created}
			rv := ik.Revoked
			ob.IKRev = &rv
			if x.ms.Get(ik.ParentKeyMeta.ID, ik.ParentKeyMeta.Created) != nil {
				d = true
			}
		}
		ob.Durable = &d
		pt, err := x.refDecrypt(encRec)
		switch {
		case err != nil:
			ob.RefDec = "err:" + err.Error()
		case !bytes.Equal(pt, x.payload(op.Payload)):
			ob.RefDec = "wrong"
		default:
			ob.RefDec = "ok"
		}
	}
	if x.scanLeak && (op.K == "encrypt" || op.K == "decrypt") {
		scanRec := encRec
		if scanRec == nil {
			scanRec = decRec
		}
		x.leakScan(&ob, scanRec, x.logger.Take())
	}
	return ob
}

func recEqual(a, b *ae.DataRowRecord) bool {
	if !bytes.Equal(a.Data, b.Data) || (a.Key == nil) != (b.Key == nil) {
		return false
	}
	if a.Key == nil {
		return true
	}
	if a.Key.Created != b.Key.Created || !bytes.Equal(a.Key.EncryptedKey, b.Key.EncryptedKey) ||
		(a.Key.ParentKeyMeta == nil) != (b.Key.ParentKeyMeta == nil) {
		return false
	}
	return a.Key.ParentKeyMeta == nil || *a.Key.ParentKeyMeta == *b.Key.ParentKeyMeta
}

func allZero(b []byte) bool {
	for _, c := range b {
		if c != 0 {
			return false
		}
	}
	return true
}

func b64(b []byte) string {
	const t = "ABCDEFGHIJKLMNOPQRSTUVWXYZabcdefghijklmnopqrstuvwxyz0123456789+/"
	var o []byte
	for i := 0; i+2 < len(b); i += 3 {
		v := uint(b[i])<<16 | uint(b[i+1])<<8 | uint(b[i+2])
		o = append(o, t[v>>18&63], t[v>>12&63], t[v>>6&63], t[v&63])
	}
	return string(o)
}

func min(a, b int) int {
	if a < b {
		return a
	}
	return b
}

func sortedInts(a []int) []int { sort.Ints(a); return a }
