package main

import (
	"bytes"
	"context"
	"fmt"
	"sync"

	ae "github.com/godaddy/asherah/go/appencryption"

	"verif/harness/gen"
	"verif/harness/sched"
)

func init() {
	register("race", "2-3 processes racing key creation, interleaved at metastore-call granularity (C14)", runRace)
}

type raceCase struct {
	State   string   `json:"state"` // cold, warm, ik-expired, sk-expired, ik-revoked, sk-revoked, sk-revoked-mixed, sk-expired-mixed
	Cfg     string   `json:"cfg"`
	Procs   int      `json:"procs"`
	Seed    uint64   `json:"seed"`
	Trace   []string `json:"trace,omitempty"`
	Viol    []string `json:"viol,omitempty"`
	Rows    int      `json:"rows"`
	Stores  int      `json:"stores"`
	Refused int      `json:"refused"`
}

func runRaceCase(c *raceCase) {
	r := gen.New(c.Seed)
	x := newEnvExec(int64(1790000000) * secNs)
	defer x.close()
	pol := envPolicies()[c.Cfg]
	ctx := context.Background()
	var vs violations
	// reach the starting state with a throw-away process
	prep := func() {
		ob := x.do(EnvOp{K: "newfactory", Policy: &pol, Svc: gen.H("svc"), Prod: gen.H("prod")})
		f := x.facts[ob.N]
		s, _ := f.GetSession("p")
		if _, err := s.Encrypt(ctx, []byte("prep")); err != nil {
			vs.add("preparation encrypt failed: %v", err)
		}
		s.Close()
		f.Close()
	}
	switch c.State {
	case "warm":
		prep()
	case "ik-expired", "sk-expired":
		prep()
		x.now += pol.Expire + 2*secNs
		if c.State == "ik-expired" { // a valid SK exists, the IK is expired: create a fresh SK via another partition
			ob := x.do(EnvOp{K: "newfactory", Policy: &pol, Svc: gen.H("svc"), Prod: gen.H("prod")})
			f := x.facts[ob.N]
			s, _ := f.GetSession("other")
			s.Encrypt(ctx, []byte("prep2"))
			s.Close()
			f.Close()
		}
	case "ik-revoked":
		prep()
		x.now += 3 * secNs
		if row := x.ms.Latest("_IK_p_svc_prod"); row != nil {
			x.ms.Revoke("_IK_p_svc_prod", row.Created)
		}
	case "sk-revoked":
		prep()
		x.now += 3 * secNs
		if row := x.ms.Latest("_SK_svc_prod"); row != nil {
			x.ms.Revoke("_SK_svc_prod", row.Created)
		}
	}
	var warmed *ae.SessionFactory
	if c.State == "sk-revoked-mixed" || c.State == "sk-expired-mixed" {
		// process 0 has been running for a while (it holds the system key in its cache and is not due to re-check it); then the
		// system key is revoked / reaches its expiry, and the other processes start cold: the racers disagree about the system key
		ob := x.do(EnvOp{K: "newfactory", Policy: &pol, Svc: gen.H("svc"), Prod: gen.H("prod")})
		warmed = x.facts[ob.N]
		if c.State == "sk-expired-mixed" {
			// created long ago by someone else, so that it expires 2 s after process 0 cached it
			prepAt := x.now
			prep()
			x.now = prepAt + pol.Expire - 2*secNs
		}
		s0, _ := warmed.GetSession("other")
		if _, err := s0.Encrypt(ctx, []byte("warm-up")); err != nil {
			vs.add("warm-up encrypt failed: %v", err)
		}
		s0.Close()
		x.now += 3 * secNs
		if c.State == "sk-revoked-mixed" {
			if row := x.ms.Latest("_SK_svc_prod"); row != nil {
				x.ms.Revoke("_SK_svc_prod", row.Created)
			}
		}
	}
	before := x.ms.Snapshot()
	x.tr.Take()
	s := sched.New(r.Fork())
	s.PCT = c.Seed%3 == 1
	x.ms.Hook = func(kind, id string) { s.Yield("meta-" + kind + " " + id) }
	type result struct {
		rec     *ae.DataRowRecord
		payload []byte
		sess    *ae.Session
		f       *ae.SessionFactory
	}
	results := make([]*result, c.Procs)
	var mu sync.Mutex
	for i := 0; i < c.Procs; i++ {
		i := i
		f := warmed
		if i > 0 || f == nil {
			ob := x.do(EnvOp{K: "newfactory", Policy: &pol, Svc: gen.H("svc"), Prod: gen.H("prod")})
			f = x.facts[ob.N]
		}
		s.Go(fmt.Sprintf("proc%d", i), func() {
			sess, err := f.GetSession("p")
			if err != nil {
				vs.add("process %d: GetSession failed: %v", i, err)
				return
			}
			payload := []byte(fmt.Sprintf("payload-of-process-%d", i))
			rec, err := sess.Encrypt(ctx, payload)
			if err != nil {
				vs.add("process %d: Encrypt failed although no fault was injected: %v", i, err)
				sess.Close()
				return
			}
			mu.Lock()
			results[i] = &result{rec, payload, sess, f}
			mu.Unlock()
			// at the moment Encrypt returned: the whole key chain must already be stored
			ik := x.ms.Get(rec.Key.ParentKeyMeta.ID, rec.Key.ParentKeyMeta.Created)
			if ik == nil {
				vs.add("process %d: Encrypt returned a record naming an intermediate key that is not in the metastore", i)
			} else if ik.ParentKeyMeta == nil || x.ms.Get(ik.ParentKeyMeta.ID, ik.ParentKeyMeta.Created) == nil {
				vs.add("process %d: the intermediate key names a system key that is not in the metastore", i)
			}
		})
	}
	if !s.Run(2000) {
		vs.add("processes deadlocked")
	}
	x.ms.Hook = nil
	c.Trace = s.Trace
	// everyone can load what everyone wrote
	for i, res := range results {
		if res == nil {
			continue
		}
		if pt, err := x.refDecrypt(res.rec); err != nil || !bytes.Equal(pt, res.payload) {
			vs.add("a fresh process cannot decrypt the record of process %d: %v", i, err)
		}
		for j, other := range results {
			if other == nil || j == i {
				continue
			}
			if pt, err := other.sess.Decrypt(ctx, *res.rec); err != nil || !bytes.Equal(pt, res.payload) {
				vs.add("process %d cannot decrypt the record of process %d: %v", j, i, err)
			}
		}
	}
	// no row that existed before was modified or removed
	after := x.ms.Snapshot()
	for id, rows := range before {
		for cr, old := range rows {
			now := after[id][cr]
			if now == nil {
				vs.add("row %s/%d disappeared", id, cr)
			} else if !bytes.Equal(now.EncryptedKey, old.EncryptedKey) || now.Revoked != old.Revoked || now.Created != old.Created {
				vs.add("row %s/%d was modified", id, cr)
			}
		}
	}
	for _, rows := range after {
		c.Rows += len(rows)
	}
	for _, e := range x.tr.Take() {
		if e.K == "MStore" {
			c.Stores++
			if len(e.A) >= 5 && e.A[4] != true {
				c.Refused++
			}
		}
	}
	// losers discard their unsaved keys: once every session and factory is closed nothing may stay live
	for _, res := range results {
		if res != nil {
			res.sess.Close()
		}
	}
	for _, f := range x.facts {
		f.Close()
	}
	x.quiesce()
	if live := x.sf.LiveGenerated(); len(live) > 0 {
		vs.add("a generated key (secrets %v) is still live after every session and factory was closed: an unsaved or superseded key was not discarded", live)
	}
	c.Viol = vs.v
}

func runRace(a *args) error {
	r := gen.New(a.seed)
	var out []*raceCase
	if a.replay != "" {
		var rp struct{ Case *raceCase }
		if err := readJSON(a.replay, &rp); err != nil {
			return err
		}
		c := rp.Case
		c.Viol, c.Trace = nil, nil
		runRaceCase(c)
		return gen.WriteJSON(a.out, map[string]any{"cases": []*raceCase{c}})
	}
	states := []string{"cold", "warm", "ik-expired", "sk-expired", "ik-revoked", "sk-revoked", "sk-revoked-mixed", "sk-expired-mixed"}
	cfgs := []string{"default", "minute", "nocache", "shared-lru2"}
	for i := 0; i < a.n; i++ {
		c := &raceCase{State: states[i%len(states)], Cfg: cfgs[(i/len(states))%len(cfgs)], Procs: 2 + r.Intn(2), Seed: r.U64()}
		runRaceCase(c)
		out = append(out, c)
	}
	return gen.WriteJSON(a.out, map[string]any{"cases": out})
}
