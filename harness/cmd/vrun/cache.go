package main

import (
	"fmt"
	"runtime"
	"sync"
	"time"

	"github.com/godaddy/asherah/go/appencryption/pkg/cache"

	"verif/harness/gen"
)

func init() { register("cache", "generic cache: op sequences on every policy (C15)", runCache) }

// cacheOp: kind "set","get","del","len","cap","close","adv"
type cacheOp struct {
	K string `json:"k"`
	A int64  `json:"a,omitempty"` // key, or advance in ns
	V int64  `json:"v,omitempty"`
}

type cacheObs struct {
	R  string     `json:"r"`            // "unit","hit","miss","true","false","int","panic","stuck"
	V  int64      `json:"v,omitempty"`  // value for hit / int
	Ev [][2]int64 `json:"ev,omitempty"` // callbacks attributed to this op, in order
}

type cacheCase struct {
	Policy string     `json:"policy"`
	Cap    int        `json:"cap"`
	Expiry int64      `json:"expiry"`
	Sync   bool       `json:"sync"`
	Ops    []cacheOp  `json:"ops"`
	Obs    []cacheObs `json:"obs"`
	Viol   []string   `json:"viol,omitempty"` // property-monitor findings on the implementation alone
	LenMax int        `json:"lenmax"`
	Conc   string     `json:"conc,omitempty"` // a two-goroutine scenario (judged by the harness alone)
}

type fakeClock struct {
	mu sync.Mutex
	t  time.Time
}

func (c *fakeClock) Now() time.Time { c.mu.Lock(); defer c.mu.Unlock(); return c.t }
func (c *fakeClock) Add(d time.Duration) {
	c.mu.Lock()
	c.t = c.t.Add(d)
	c.mu.Unlock()
}

func runCacheCase(cs *cacheCase) {
	clk := &fakeClock{t: time.Unix(1000000, 0)}
	var mu sync.Mutex
	var pending [][2]int64
	b := cache.New[int64, int64](cs.Cap).WithPolicy(cache.CachePolicy(cs.Policy)).WithClock(clk).
		WithEvictFunc(func(k, v int64) {
			mu.Lock()
			pending = append(pending, [2]int64{k, v})
			mu.Unlock()
		})
	if cs.Expiry > 0 {
		b = b.WithExpiry(time.Duration(cs.Expiry))
	}
	if cs.Sync {
		b = b.Synchronous()
	}
	c := b.Build()
	shadow := map[int64]int64{} // what a lookup is entitled to return
	setAt := map[int64]int64{}  // virtual time of the last Set of each key
	var vnow int64
	closed := false
	take := func(expect int) [][2]int64 {
		if !cs.Sync {
			// callbacks run on the cache's goroutine; the event hand-off already happened inside the
			// operation (unbuffered channel), so yielding lets the callback finish.  No timers.
			for i := 0; i < 20000; i++ {
				mu.Lock()
				n := len(pending)
				mu.Unlock()
				if n >= expect && i >= 8 {
					break
				}
				runtime.Gosched()
			}
		}
		mu.Lock()
		defer mu.Unlock()
		p := pending
		pending = nil
		return p
	}
	viol := func(f string, a ...any) { cs.Viol = append(cs.Viol, fmt.Sprintf(f, a...)) }
	for i, op := range cs.Ops {
		var ob cacheObs
		lenBefore := 0
		if !cs.Sync && !closed {
			lenBefore = c.Len()
		}
		done := make(chan struct{})
		go func() {
			defer close(done)
			defer func() {
				if r := recover(); r != nil {
					ob.R = "panic"
				}
			}()
			switch op.K {
			case "set":
				c.Set(op.A, op.V)
				ob.R = "unit"
			case "get":
				v, ok := c.Get(op.A)
				if ok {
					ob.R, ob.V = "hit", v
				} else {
					ob.R = "miss"
				}
			case "del":
				if c.Delete(op.A) {
					ob.R = "true"
				} else {
					ob.R = "false"
				}
			case "len":
				ob.R, ob.V = "int", int64(c.Len())
			case "cap":
				ob.R, ob.V = "int", int64(c.Capacity())
			case "close":
				c.Close()
				ob.R = "unit"
			case "adv":
				clk.Add(time.Duration(op.A))
				ob.R = "unit"
			}
		}()
		select {
		case <-done:
		case <-time.After(5 * time.Second):
			ob.R = "stuck"
			cs.Obs = append(cs.Obs, ob)
			viol("op %d (%s) did not return within 5s (deadlock)", i, op.K)
			return
		}
		expect := 0
		if !cs.Sync && !closed && ob.R != "panic" {
			switch op.K {
			case "set":
				if _, had := shadow[op.A]; !had {
					expect = lenBefore + 1 - c.Len()
				}
			case "get":
				expect = lenBefore - c.Len()
			case "close":
				expect = lenBefore
			}
		}
		ev := take(expect)
		ob.Ev = ev
		cs.Obs = append(cs.Obs, ob)
		if ob.R == "panic" {
			viol("op %d (%s %d) panicked", i, op.K, op.A)
			return
		}
		// ---- property monitor (independent of the Coq model)
		for _, e := range ev {
			if _, ok := shadow[e[0]]; ok && op.K == "get" && cs.Sync && cs.Expiry > 0 && vnow-setAt[e[0]] < cs.Expiry {
				// a lookup evicts nothing for capacity: a callback during Get can only be an expiry, and this entry has not expired
				viol("op %d: eviction callback for key %d during Get although it was last set %d ns ago (expiry %d ns): the entry was still retrievable", i, e[0], vnow-setAt[e[0]], cs.Expiry)
			}
			if v, ok := shadow[e[0]]; !ok {
				viol("op %d: callback for key %d which is not (or no longer) in the cache", i, e[0])
			} else if v != e[1] {
				viol("op %d: callback for key %d with value %d, cache held %d", i, e[0], e[1], v)
			}
			delete(shadow, e[0])
		}
		switch op.K {
		case "adv":
			vnow += op.A
		case "set":
			if !closed {
				shadow[op.A] = op.V
				setAt[op.A] = vnow
			}
		case "get":
			want, ok := shadow[op.A]
			if ob.R == "hit" && (!ok || want != ob.V) {
				viol("op %d: Get(%d) returned %d but entitled value is %v (present=%v)", i, op.A, ob.V, want, ok)
			}
			if ob.R == "miss" && ok && !(cs.Expiry > 0) {
				viol("op %d: Get(%d) missed although the key was set and never reported evicted/deleted", i, op.A)
			}
			if ob.R == "miss" && ok && cs.Expiry > 0 && vnow-setAt[op.A] < cs.Expiry {
				viol("op %d: Get(%d) missed although the key was last set %d ns ago (expiry %d ns) and never reported evicted/deleted", i, op.A, vnow-setAt[op.A], cs.Expiry)
			}
		case "del":
			delete(shadow, op.A)
		case "close":
			closed = true
		}
		if !closed {
			n := c.Len()
			if n > cs.LenMax {
				cs.LenMax = n
			}
			if cs.Cap >= 1 && n > cs.Cap {
				viol("op %d: Len()=%d exceeds capacity %d", i, n, cs.Cap)
			}
			if n != len(shadow) && !(cs.Expiry > 0) {
				viol("op %d: Len()=%d but %d keys are entitled to be present", i, n, len(shadow))
			}
		}
	}
	if !closed {
		c.Close()
		for _, e := range take(len(shadow)) {
			if v, ok := shadow[e[0]]; !ok || v != e[1] {
				viol("final close: unexpected callback (%d,%d)", e[0], e[1])
			}
			delete(shadow, e[0])
		}
	}
	if len(shadow) != 0 {
		viol("after Close %d entries never got their eviction callback", len(shadow))
	}
}

func genCacheCase(r *gen.Rand, tier string) *cacheCase {
	pols := []string{"lru", "lfu", "slru", "tinylfu"}
	cs := &cacheCase{Policy: gen.Pick(r, pols), Sync: r.Chance(3, 4)}
	// capacities on both sides of every internal threshold: slru 0.8 rounding, tinylfu window at 100
	caps := []int{1, 1, 2, 2, 3, 4, 5, 6, 9, 10, 11}
	if r.Chance(1, 8) {
		caps = []int{99, 100, 101, 199, 200, 201}
	}
	cs.Cap = gen.Pick(r, caps)
	if r.Chance(1, 3) {
		cs.Expiry = gen.Pick(r, []int64{1, 10, 1000})
	}
	nkeys := cs.Cap + 1 + r.Intn(3)
	if cs.Cap >= 99 {
		nkeys = cs.Cap + 5 + r.Intn(20)
	}
	nops := 5 + r.Intn(40)
	if cs.Cap >= 99 {
		nops = 2*cs.Cap + r.Intn(150)
	}
	var val int64 = 100
	for i := 0; i < nops; i++ {
		k := int64(r.Intn(nkeys))
		if cs.Cap >= 99 && i < cs.Cap+3 {
			k = int64(i) // fill up first
		}
		switch x := r.Intn(100); {
		case x < 40 || (cs.Cap >= 99 && i < cs.Cap+3):
			val++
			cs.Ops = append(cs.Ops, cacheOp{K: "set", A: k, V: val})
		case x < 70:
			cs.Ops = append(cs.Ops, cacheOp{K: "get", A: k})
		case x < 78:
			cs.Ops = append(cs.Ops, cacheOp{K: "del", A: k})
		case x < 83:
			cs.Ops = append(cs.Ops, cacheOp{K: "len"})
		case x < 86:
			cs.Ops = append(cs.Ops, cacheOp{K: "cap"})
		case x < 96:
			if cs.Expiry > 0 {
				cs.Ops = append(cs.Ops, cacheOp{K: "adv", A: gen.Pick(r, []int64{0, 1, cs.Expiry - 1, cs.Expiry, cs.Expiry + 1})})
			} else {
				cs.Ops = append(cs.Ops, cacheOp{K: "get", A: k})
			}
		case x < 98 && i > nops/2:
			cs.Ops = append(cs.Ops, cacheOp{K: "close"})
		default:
			val++
			cs.Ops = append(cs.Ops, cacheOp{K: "set", A: k, V: val})
		}
	}
	cs.Ops = append(cs.Ops, cacheOp{K: "close"})
	return cs
}

// exhaustive small-scope enumeration: all sequences of length L over a small alphabet
func enumCacheCases(policy string, cap int, L int, expiry int64, emit func(*cacheCase)) {
	alpha := []cacheOp{{K: "set", A: 0}, {K: "set", A: 1}, {K: "set", A: 2}, {K: "get", A: 0}, {K: "get", A: 1}, {K: "get", A: 2}, {K: "del", A: 0}, {K: "del", A: 1}}
	if expiry > 0 {
		alpha = append(alpha, cacheOp{K: "adv", A: expiry + 1})
	}
	idx := make([]int, L)
	for {
		cs := &cacheCase{Policy: policy, Cap: cap, Sync: true, Expiry: expiry}
		var val int64 = 100
		for _, j := range idx {
			op := alpha[j]
			if op.K == "set" {
				val++
				op.V = val
			}
			cs.Ops = append(cs.Ops, op)
		}
		cs.Ops = append(cs.Ops, cacheOp{K: "close"})
		emit(cs)
		i := L - 1
		for i >= 0 {
			idx[i]++
			if idx[i] < len(alpha) {
				break
			}
			idx[i] = 0
			i--
		}
		if i < 0 {
			return
		}
	}
}

// runCacheConc: a full synchronous cache; writer A's Set evicts and its eviction callback is still running when writer B sets another
// new key.  The capacity bound and exactly-once callbacks must survive (the callback runs under the cache's lock, so B waits).
func runCacheConc(policy string, capN int) *cacheCase {
	cs := &cacheCase{Policy: policy, Cap: capN, Sync: true, Conc: "set-during-eviction-callback"}
	viol := func(f string, a ...any) { cs.Viol = append(cs.Viol, fmt.Sprintf(f, a...)) }
	var mu sync.Mutex
	evicted := map[int64]int{}
	inCallback := make(chan struct{}, 16)
	release := make(chan struct{})
	c := cache.New[int64, int64](capN).WithPolicy(cache.CachePolicy(policy)).Synchronous().
		WithEvictFunc(func(k, v int64) {
			mu.Lock()
			evicted[k]++
			mu.Unlock()
			select {
			case inCallback <- struct{}{}:
			default:
			}
			select {
			case <-release:
			case <-time.After(150 * time.Millisecond):
			}
		}).Build()
	for k := int64(1); k <= int64(capN); k++ {
		c.Set(k, k*10)
	}
	doneA, doneB := make(chan struct{}), make(chan struct{})
	go func() { defer close(doneA); c.Set(int64(capN)+1, 1) }()
	select {
	case <-inCallback:
	case <-time.After(2 * time.Second):
		viol("the first eviction callback never ran")
	}
	go func() { defer close(doneB); c.Set(int64(capN)+2, 2) }()
	select {
	case <-doneB: // B got through while A's callback was still running (only possible if the lock was dropped), or A's callback timed out
	case <-time.After(100 * time.Millisecond):
	}
	close(release)
	for _, d := range []chan struct{}{doneA, doneB} {
		select {
		case <-d:
		case <-time.After(3 * time.Second):
			viol("a Set did not return within 3 s")
			return cs
		}
	}
	if n := c.Len(); n > capN {
		viol("Len()=%d exceeds capacity %d after two concurrent Sets on a full synchronous cache", n, capN)
	}
	for k := int64(capN) + 3; k < int64(capN)+12; k++ {
		c.Set(k, k)
		if n := c.Len(); n > capN {
			viol("Len()=%d exceeds capacity %d after a further Set", n, capN)
			break
		}
	}
	c.Close()
	mu.Lock()
	for k, n := range evicted {
		if n != 1 {
			viol("eviction callback ran %d times for key %d", n, k)
		}
	}
	if len(evicted) != capN+11 {
		viol("%d keys were set and the cache closed, but %d eviction callbacks were seen", capN+11, len(evicted))
	}
	mu.Unlock()
	cs.LenMax = capN
	return cs
}

func runCache(a *args) error {
	r := gen.New(a.seed)
	var out []*cacheCase
	if a.replay != "" {
		var rp struct{ Case *cacheCase }
		if err := readJSON(a.replay, &rp); err != nil {
			return err
		}
		rp.Case.Obs, rp.Case.Viol = nil, nil
		runCacheCase(rp.Case)
		out = append(out, rp.Case)
		return gen.WriteJSON(a.out, map[string]any{"cases": out})
	}
	if a.extra == "" {
		for _, pol := range []string{"lru", "lfu", "slru", "tinylfu"} {
			out = append(out, runCacheConc(pol, 2))
		}
	}
	if a.extra == "enum" {
		// exhaustive: every policy, capacities 1..3, all sequences of length n over 8-9 symbols
		for _, pol := range []string{"lru", "lfu", "slru", "tinylfu"} {
			for cap := 1; cap <= 3; cap++ {
				for _, ex := range []int64{0, 5} {
					enumCacheCases(pol, cap, a.n, ex, func(cs *cacheCase) {
						runCacheCase(cs)
						out = append(out, cs)
					})
				}
			}
		}
		return gen.WriteJSON(a.out, map[string]any{"cases": out})
	}
	for i := 0; i < a.n; i++ {
		cs := genCacheCase(r, a.tier)
		runCacheCase(cs)
		out = append(out, cs)
	}
	return gen.WriteJSON(a.out, map[string]any{"cases": out})
}
