package main

import (
	"bytes"
	"context"
	"encoding/json"
	"fmt"
	"time"

	types2 "github.com/aws/aws-sdk-go-v2/service/dynamodb/types"
	ddb1 "github.com/aws/aws-sdk-go/service/dynamodb"

	"github.com/aws/aws-sdk-go/aws"
	"github.com/aws/aws-sdk-go/aws/session"

	ae "github.com/godaddy/asherah/go/appencryption"
	"github.com/godaddy/asherah/go/appencryption/pkg/persistence"
	dyn1 "github.com/godaddy/asherah/go/appencryption/plugins/aws-v1/persistence"
	dyn2 "github.com/godaddy/asherah/go/appencryption/plugins/aws-v2/dynamodb/metastore"

	"verif/harness/fake"
	"verif/harness/gen"
)

func init() {
	register("meta", "metastore implementations over semantic fakes vs the key-table spec (C13)", runMeta)
}

type metaRec struct {
	Revoked bool  `json:"revoked"`
	Created int64 `json:"created"`
	Key     int   `json:"key"` // index into the key-bytes table
	PID     int   `json:"pid"` // parent id index, -1 = no parent meta
	PC      int64 `json:"pc"`
}

type metaOp struct {
	K   string   `json:"k"` // store, load, latest
	ID  int      `json:"id"`
	C   int64    `json:"c"`
	Rec *metaRec `json:"rec,omitempty"`
	// Fault (SQL only) makes the engine fail this one statement: "query", "rows" (accepted, then the connection drops while the row is
	// fetched) for reads, "exec" for Store
	Fault string `json:"fault,omitempty"`
}

type metaObs struct {
	R   string   `json:"r"` // "true","false","none","some","err"
	Rec *metaRec `json:"rec,omitempty"`
	Err string   `json:"err,omitempty"`
}

type metaCase struct {
	Impl   string    `json:"impl"`
	Table  string    `json:"table"`
	Suffix bool      `json:"suffix"`
	Ops    []metaOp  `json:"ops"`
	Obs    []metaObs `json:"obs"`
	Viol   []string  `json:"viol,omitempty"`
	sqlT   *fake.SQLTable
	dyn    *fake.Dynamo
}

var metaIDs = []string{"_SK_svc_prod", "_IK_p1_svc_prod", "_IK_p2_svc_prod"}

// key bytes table: binary content incl. NUL, 0xff, quotes, empty
var metaKeys = [][]byte{{}, {0}, {0xff, 0xfe, 0x00, 0x01}, []byte(`"quoted\"`), bytes.Repeat([]byte{0xab}, 48), []byte("plain-ascii-key-bytes"), {'<', '>', '&', 0x7f}}

func (r *metaRec) toEKR() *ae.EnvelopeKeyRecord {
	e := &ae.EnvelopeKeyRecord{Revoked: r.Revoked, Created: r.Created, EncryptedKey: append([]byte(nil), metaKeys[r.Key]...)}
	if r.PID >= 0 {
		e.ParentKeyMeta = &ae.KeyMeta{ID: metaIDs[r.PID], Created: r.PC}
	}
	return e
}

func fromEKR(e *ae.EnvelopeKeyRecord) (*metaRec, string) {
	r := &metaRec{Revoked: e.Revoked, Created: e.Created, Key: -1, PID: -1}
	for i, k := range metaKeys {
		if bytes.Equal(k, e.EncryptedKey) {
			r.Key = i
		}
	}
	if r.Key < 0 {
		return r, fmt.Sprintf("EncryptedKey came back as %x", e.EncryptedKey)
	}
	if e.ParentKeyMeta != nil {
		for i, id := range metaIDs {
			if id == e.ParentKeyMeta.ID {
				r.PID = i
			}
		}
		if r.PID < 0 {
			return r, fmt.Sprintf("ParentKeyMeta.ID came back as %q", e.ParentKeyMeta.ID)
		}
		r.PC = e.ParentKeyMeta.Created
	}
	return r, ""
}

func buildMetastore(c *metaCase) (ae.Metastore, error) {
	switch c.Impl {
	case "memory":
		return persistence.NewMemoryMetastore(), nil
	case "sql-mysql", "sql-postgres", "sql-oracle":
		style, typ := "?", persistence.MySQL
		switch c.Impl {
		case "sql-postgres":
			style, typ = "$", persistence.Postgres
		case "sql-oracle":
			style, typ = ":", persistence.Oracle
		}
		t := &fake.SQLTable{Name: "encryption_key", Style: style}
		c.sqlT = t
		if c.Impl == "sql-mysql" {
			return persistence.NewSQLMetastore(fake.OpenSQL(t)), nil
		}
		return persistence.NewSQLMetastore(fake.OpenSQL(t), persistence.WithSQLMetastoreDBType(typ)), nil
	case "dynamo-v1":
		table := c.Table
		if table == "" {
			table = "EncryptionKey"
		}
		sess, err := session.NewSession(&aws.Config{Region: aws.String("us-west-2")})
		if err != nil {
			return nil, err
		}
		c.dyn = fake.NewDynamo(table)
		return dyn1.NewDynamoDBMetastore(sess, dyn1.WithClient(fake.DynamoV1{D: c.dyn}), dyn1.WithTableName(c.Table),
			dyn1.WithDynamoDBRegionSuffix(c.Suffix)), nil
	case "dynamo-v2":
		table := c.Table
		if table == "" {
			table = "EncryptionKey"
		}
		c.dyn = fake.NewDynamo(table)
		return dyn2.NewDynamoDB(dyn2.WithDynamoDBClient(fake.DynamoV2{D: c.dyn, Region: "us-west-2"}), dyn2.WithTableName(c.Table),
			dyn2.WithRegionSuffix(c.Suffix))
	}
	return nil, fmt.Errorf("unknown implementation %q", c.Impl)
}

func runMetaCase(c *metaCase) {
	ms, err := buildMetastore(c)
	if err != nil {
		c.Viol = append(c.Viol, "cannot build metastore: "+err.Error())
		return
	}
	ctx := context.Background()
	if s, ok := ms.(interface{ GetRegionSuffix() string }); ok {
		if c.Suffix && s.GetRegionSuffix() != "us-west-2" {
			c.Viol = append(c.Viol, "region suffix enabled but GetRegionSuffix() = "+s.GetRegionSuffix())
		}
		if !c.Suffix && s.GetRegionSuffix() != "" {
			c.Viol = append(c.Viol, "region suffix disabled but GetRegionSuffix() = "+s.GetRegionSuffix())
		}
	}
	stored := map[[2]int64]bool{} // (id, created) of every Store that reported success
	flagged := map[[2]int64]bool{} // (id, created) of every stored key an operator has flagged revoked since (op "revoke")
	for i, op := range c.Ops {
		var ob metaObs
		faultable := c.sqlT != nil || c.dyn != nil
		if op.Fault != "" && c.sqlT != nil {
			c.sqlT.FailNext = op.Fault
		}
		if op.Fault != "" && c.dyn != nil {
			c.dyn.FailNext = op.Fault
		}
		func() {
			defer func() {
				if r := recover(); r != nil {
					ob.R, ob.Err = "err", fmt.Sprint("panic: ", r)
					c.Viol = append(c.Viol, fmt.Sprintf("op %d panicked: %v", i, r))
				}
			}()
			switch op.K {
			case "store":
				ok, err := ms.Store(ctx, metaIDs[op.ID], op.C, op.Rec.toEKR())
				if op.Fault != "" && faultable && ok {
					c.Viol = append(c.Viol, fmt.Sprintf("op %d: Store reported success although the write failed (%s) and nothing was written", i, op.Fault))
				}
				if op.Fault != "" && faultable && !ok && err != nil {
					ob.R = "err" // refused by the engine, nothing written: not part of the table's history
					break
				}
				if ok {
					ob.R = "true"
					stored[[2]int64{int64(op.ID), op.C}] = true
					if err != nil {
						c.Viol = append(c.Viol, fmt.Sprintf("op %d: Store returned true with an error", i))
					}
				} else {
					ob.R = "false"
				}
			case "revoke":
				// an operator flags the stored key revoked, directly in the table (the SDK has no API for it)
				ob.R = "skip"
				if !stored[[2]int64{int64(op.ID), op.C}] {
					break
				}
				switch {
				case c.dyn != nil:
					it := c.dyn.Peek(metaIDs[op.ID], op.C)
					if it == nil {
						break
					}
					switch attrs := it.Attrs.(type) {
					case map[string]*ddb1.AttributeValue:
						g := gM{}
						for kk, v := range attrs {
							g[kk] = fromV1(v)
						}
						if rec, ok := g["KeyRecord"].(gM); ok {
							rec["Revoked"] = gB(true)
						}
						out := map[string]*ddb1.AttributeValue{}
						for kk, v := range g {
							out[kk] = toV1(v)
						}
						c.dyn.Update(metaIDs[op.ID], op.C, out)
					case map[string]types2.AttributeValue:
						g := gM{}
						for kk, v := range attrs {
							g[kk] = fromV2(v)
						}
						if rec, ok := g["KeyRecord"].(gM); ok {
							rec["Revoked"] = gB(true)
						}
						out := map[string]types2.AttributeValue{}
						for kk, v := range g {
							out[kk] = toV2(v)
						}
						c.dyn.Update(metaIDs[op.ID], op.C, out)
					}
					ob.R = "true"
				case c.sqlT != nil:
					t := time.Unix(op.C, 0)
					if old := c.sqlT.Lookup(metaIDs[op.ID], t); old != "" {
						var m map[string]any
						if json.Unmarshal([]byte(old), &m) == nil {
							m["Revoked"] = true
							b, _ := json.Marshal(m)
							if c.sqlT.SetRec(metaIDs[op.ID], t, string(b)) {
								ob.R = "true"
							}
						}
					}
				}
				if ob.R == "true" {
					flagged[[2]int64{int64(op.ID), op.C}] = true
				}
			case "load", "latest":
				var e *ae.EnvelopeKeyRecord
				var err error
				if op.K == "load" {
					e, err = ms.Load(ctx, metaIDs[op.ID], op.C)
				} else {
					e, err = ms.LoadLatest(ctx, metaIDs[op.ID])
				}
				switch {
				case err != nil && op.Fault != "" && faultable:
					ob.R, ob.Err = "err", err.Error() // the read could not be completed and said so
				case err != nil:
					ob.R, ob.Err = "err", err.Error()
					c.Viol = append(c.Viol, fmt.Sprintf("op %d: %s failed: %v", i, op.K, err))
				case e == nil:
					ob.R = "none"
					if op.Fault != "" && op.K == "load" && stored[[2]int64{int64(op.ID), op.C}] {
						c.Viol = append(c.Viol, fmt.Sprintf("op %d: a Load that the engine could not complete (%s failure) answered 'no such record' for a key a completed Store had written", i, op.Fault))
					}
					if op.Fault != "" && op.K == "latest" {
						for k := range stored {
							if k[0] == int64(op.ID) {
								c.Viol = append(c.Viol, fmt.Sprintf("op %d: a LoadLatest that the engine could not complete (%s failure) answered 'no record' for an id with stored keys", i, op.Fault))
								break
							}
						}
					}
				default:
					ob.R = "some"
					if kc := op.C; op.K == "load" && flagged[[2]int64{int64(op.ID), kc}] && !e.Revoked {
						c.Viol = append(c.Viol, fmt.Sprintf("op %d: the Revoked flag set in the table is not visible to a later Load of that key (a stale read: the session's revoke check would miss it)", i))
					}
					newest := int64(-1 << 62) // the key LoadLatest has to return: the greatest creation time stored under this id
					for k := range stored {
						if k[0] == int64(op.ID) && k[1] > newest {
							newest = k[1]
						}
					}
					if op.K == "latest" && flagged[[2]int64{int64(op.ID), newest}] && !e.Revoked {
						c.Viol = append(c.Viol, fmt.Sprintf("op %d: the Revoked flag set in the table is not visible to a later LoadLatest returning that key (a stale read: the session's revoke check would miss it)", i))
					}
					var bad string
					ob.Rec, bad = fromEKR(e)
					if bad != "" {
						c.Viol = append(c.Viol, fmt.Sprintf("op %d: %s", i, bad))
					}
				}
			}
		}()
		c.Obs = append(c.Obs, ob)
	}
}

var metaImpls = []string{"memory", "sql-mysql", "sql-postgres", "sql-oracle", "dynamo-v1", "dynamo-v2"}

// metaRevokes: also generate "revoke" operations (C05's dependency on the metastores: the flag must be visible to the next read)
var metaRevokes bool

func genMetaCase(r *gen.Rand, impl string) *metaCase {
	c := &metaCase{Impl: impl}
	if impl == "dynamo-v1" || impl == "dynamo-v2" {
		c.Table = gen.Pick(r, []string{"", "CustomTable", "EncryptionKey"})
		c.Suffix = r.Bool()
	}
	n := 4 + r.Intn(16)
	sql := len(impl) > 4 && impl[:4] == "sql-"
	dynamo := len(impl) > 7 && impl[:7] == "dynamo-"
	stamps := []int64{1, 2, 3, 10, 1790000000, 1790000060}
	for i := 0; i < n; i++ {
		id := r.Intn(len(metaIDs))
		cr := gen.Pick(r, stamps)
		switch r.Intn(10) {
		case 0, 1, 2, 3:
			rec := &metaRec{Revoked: r.Chance(1, 3), Created: cr, Key: r.Intn(len(metaKeys)), PID: -1}
			if r.Chance(1, 5) { // the record's own Created field need not repeat the creation time it is stored under
				rec.Created = gen.Pick(r, stamps)
			}
			if r.Chance(2, 3) {
				rec.PID, rec.PC = r.Intn(len(metaIDs)), gen.Pick(r, stamps)
			}
			c.Ops = append(c.Ops, metaOp{K: "store", ID: id, C: cr, Rec: rec})
			if r.Chance(1, 3) { // read-your-writes immediately
				c.Ops = append(c.Ops, metaOp{K: gen.Pick(r, []string{"load", "latest"}), ID: id, C: cr})
			}
		case 4, 5, 6:
			if metaRevokes && r.Chance(1, 2) {
				var st []metaOp
				for _, o := range c.Ops {
					if o.K == "store" && o.Fault == "" {
						st = append(st, o)
					}
				}
				if len(st) > 0 {
					o := gen.Pick(r, st)
					id, cr = o.ID, o.C
				}
				c.Ops = append(c.Ops, metaOp{K: "revoke", ID: id, C: cr}, metaOp{K: gen.Pick(r, []string{"load", "latest"}), ID: id, C: cr})
				continue
			}
			c.Ops = append(c.Ops, metaOp{K: "load", ID: id, C: cr})
		default:
			c.Ops = append(c.Ops, metaOp{K: "latest", ID: id})
		}
		if sql && r.Chance(1, 6) { // the engine fails this one statement
			last := &c.Ops[len(c.Ops)-1]
			if last.K == "store" {
				last.Fault = "exec"
			} else {
				last.Fault = gen.Pick(r, []string{"query", "rows", "rows"})
			}
		}
		if dynamo && r.Chance(1, 6) { // the service (or the way to it) fails this one request with an SDK-typed error
			last := &c.Ops[len(c.Ops)-1]
			code := gen.Pick(r, []string{"InternalServerError", "RequestError", "RequestCanceled", "ProvisionedThroughputExceededException",
				"ResourceNotFoundException", "ThrottlingException", "ServiceUnavailable", "RequestLimitExceeded"})
			switch last.K {
			case "store":
				last.Fault = "put:" + code
			case "load":
				last.Fault = "get:" + code
			default:
				last.Fault = "query:" + code
			}
		}
	}
	return c
}

func runMeta(a *args) error {
	r := gen.New(a.seed)
	var out []*metaCase
	if a.replay != "" {
		var rp struct{ Case *metaCase }
		if err := readJSON(a.replay, &rp); err != nil {
			return err
		}
		c := rp.Case
		c.Obs, c.Viol = nil, nil
		runMetaCase(c)
		return gen.WriteJSON(a.out, map[string]any{"cases": []*metaCase{c}})
	}
	metaRevokes = a.extra == "revoke"
	for i := 0; i < a.n; i++ {
		c := genMetaCase(r, metaImpls[i%len(metaImpls)])
		runMetaCase(c)
		out = append(out, c)
	}
	return gen.WriteJSON(a.out, map[string]any{"cases": out})
}
