(* Model of server/go/pkg/server/server.go: streamer.Stream / handleRequest / defaultHandler.
   The SDK session behind a handler is abstract here (its behaviour is the envelope model's, C01/C06/C07):
   [sdk_encrypt] and [sdk_decrypt] are arbitrary functions, so every theorem holds whatever the SDK answers. *)
From Asherah Require Export Base.Str.
From Coq Require Import List.
Import ListNotations.

Section Server.
Variables (Rec Payload : Type).
(* GetSession of the factory: None = refused (empty partition id) *)
Variable sdk_get_session : str -> option nat.
Variable sdk_encrypt : nat -> Payload -> option Rec.          (* session, payload -> record or error *)
Variable sdk_decrypt : nat -> Rec -> option Payload.

Inductive req := QGetSession (id : str) | QEncrypt (p : Payload) | QDecrypt (r : Rec) | QEmpty.

Inductive resp :=
| RSessionOk                 (* the empty SessionResponse *)
| REnc (r : Rec)
| RDec (p : Payload)
| RErr                       (* an ErrorResponse *)
| RPanic.                    (* a nil dereference in the handler: takes the process down *)

(* streamer: handler == nil | handler with session == nil | handler with a session *)
Inductive hstate := NoHandler | NoSession | Session (s : nat).

Definition handle (st : hstate) (q : req) : resp * hstate :=
  match q with
  | QDecrypt r =>
      match st with
      | NoHandler => (RErr, st)                            (* UninitializedSessionResponse *)
      | NoSession => (RErr, st)                            (* guarded nil session *)
      | Session s => (match sdk_decrypt s r with Some p => RDec p | None => RErr end, st)
      end
  | QEncrypt p =>
      match st with
      | NoHandler => (RErr, st)
      | NoSession => (RErr, st)
      | Session s => (match sdk_encrypt s p with Some r => REnc r | None => RErr end, st)
      end
  | QGetSession id =>
      match st with
      | NoHandler =>
          match sdk_get_session id with
          | Some s => (RSessionOk, Session s)
          | None => (RErr, NoSession)                      (* handler stays, session nil *)
          end
      | _ => (RErr, st)                                    (* SessionAlreadyInitializedResponse *)
      end
  | QEmpty => (RErr, st)                                   (* unsupported or empty request *)
  end.

(* Stream: one Send per Recv until EOF, then the deferred handler.Close() *)
Fixpoint stream (st : hstate) (qs : list req) : list resp * hstate :=
  match qs with
  | [] => ([], st)
  | q :: r => let '(a, st') := handle st q in
              let '(rest, stf) := stream st' r in (a :: rest, stf)
  end.

(* the deferred Close at end of stream: true = returned normally (no nil dereference) *)
Definition close_ok (st : hstate) : bool := true.

End Server.

Arguments QGetSession {Rec Payload} id.
Arguments QEncrypt {Rec Payload} p.
Arguments QDecrypt {Rec Payload} r.
Arguments QEmpty {Rec Payload}.
Arguments RSessionOk {Rec Payload}.
Arguments REnc {Rec Payload} r.
Arguments RDec {Rec Payload} p.
Arguments RErr {Rec Payload}.
Arguments RPanic {Rec Payload}.
