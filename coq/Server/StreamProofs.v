(* C19: theorems about the stream handler, for every request sequence and every SDK behaviour. *)
From Asherah Require Import Server.Stream.
From Coq Require Import List.
Import ListNotations.

Section P.
Variables (Rec Payload : Type).
Variable sdk_get_session : str -> option nat.
Variable sdk_encrypt : nat -> Payload -> option Rec.
Variable sdk_decrypt : nat -> Rec -> option Payload.

Notation handle := (handle Rec Payload sdk_get_session sdk_encrypt sdk_decrypt).
Notation stream := (stream Rec Payload sdk_get_session sdk_encrypt sdk_decrypt).

Lemma handle_no_panic st q : fst (handle st q) <> RPanic.
Proof.
  destruct q, st; cbn; try discriminate.
  - destruct (sdk_get_session id); cbn; discriminate.
  - destruct (sdk_encrypt s p); discriminate.
  - destruct (sdk_decrypt s r); discriminate.
Qed.

Theorem stream_one_response_each st qs : length (fst (stream st qs)) = length qs.
Proof.
  revert st; induction qs as [|q r IH]; intro st; [reflexivity|].
  cbn [Stream.stream]. destruct (handle st q) as [a st']. specialize (IH st').
  destruct (stream st' r) as [rest stf]. cbn [fst length] in *. f_equal. exact IH.
Qed.

Theorem stream_never_panics st qs : ~ In RPanic (fst (stream st qs)) /\ close_ok (snd (stream st qs)) = true.
Proof.
  split; [|reflexivity]. revert st; induction qs as [|q r IH]; intro st; [intros []|].
  cbn [Stream.stream]. pose proof (handle_no_panic st q) as NP. destruct (handle st q) as [a st']. specialize (IH st').
  destruct (stream st' r) as [rest stf]. cbn [fst] in *. intros [E|I]; [congruence | exact (IH I)].
Qed.

(* protocol: no SDK call, and an error response, before a successful get-session *)
Theorem before_session_error st q :
  (st = NoHandler \/ st = NoSession) -> (forall id, q <> QGetSession id) -> handle st q = (RErr, st).
Proof.
  intros [->| ->] NG; destruct q; try reflexivity; exfalso; eapply NG; reflexivity.
Qed.

(* a second get-session (also after a rejected one) is an error and changes nothing *)
Theorem second_get_session_error st id : st <> NoHandler -> handle st (QGetSession id) = (RErr, st).
Proof. intro H. destruct st; [contradiction | reflexivity | reflexivity]. Qed.

(* a rejected get-session leaves the stream in a state where everything is answered with an error *)
Theorem rejected_get_session id : sdk_get_session id = None -> handle NoHandler (QGetSession id) = (RErr, NoSession).
Proof. intro H. cbn. rewrite H. reflexivity. Qed.

Theorem after_rejection_all_errors qs : Forall (fun a => a = RErr) (fst (stream NoSession qs)) /\ snd (stream NoSession qs) = NoSession.
Proof.
  induction qs as [|q r [IH1 IH2]]; [split; [constructor | reflexivity]|].
  cbn [Stream.stream].
  assert (H : handle NoSession q = (RErr, NoSession)) by (destruct q; reflexivity).
  rewrite H. destruct (stream NoSession r) as [rest stf]. cbn [fst snd] in *. split; [constructor; [reflexivity | exact IH1] | exact IH2].
Qed.

(* after a successful get-session the responses are exactly the SDK's answers for that session *)
Theorem with_session_encrypt s p :
  handle (Session s) (QEncrypt p) = (match sdk_encrypt s p with Some r => REnc r | None => RErr end, Session s).
Proof. reflexivity. Qed.

Theorem with_session_decrypt s r :
  handle (Session s) (QDecrypt r) = (match sdk_decrypt s r with Some p => RDec p | None => RErr end, Session s).
Proof. reflexivity. Qed.

Theorem accepted_get_session id s : sdk_get_session id = Some s -> handle NoHandler (QGetSession id) = (RSessionOk, Session s).
Proof. intro H. cbn. rewrite H. reflexivity. Qed.

End P.
