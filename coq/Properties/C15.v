(* C15 — generic cache: bounded map with exact eviction notifications, for every policy.
   Statements only.  [run (new_cache cf) l] ranges over every state reachable by any sequence of
   Set/Get/Delete/Len/Capacity/Close at any virtual times with any TinyLFU sketch decisions (hints);
   [cf] ranges over the four policies, every capacity >= 1 and every expiry setting; keys and values
   are arbitrary types with a decidable key equality. *)
From Coq Require Import List ZArith Bool Permutation.
From Asherah Require Import Cache.Generic Cache.ListLemmas Cache.PolicyProofs Cache.CacheProofs Cache.Victims.
Import ListNotations.
Open Scope Z_scope.

Section Statements.
Variables (K V : Type) (keqb : K -> K -> bool).
Hypothesis keqb_spec : forall a b, keqb a b = true <-> a = b.
Notation run := (run K V keqb).
Notation step := (@step K V keqb).
Notation abs := (abs K V keqb).
Notation keys := (keys K V).

(* never more entries than the capacity; the lookup table and the policy structure hold the same
   duplicate-free key set *)
Theorem C15_bounded : forall cf l, 1 <= c_cap cf ->
  let c := run (new_cache cf) l in
  size c <= c_cap cf /\ NoDup (keys c) /\ Permutation (pkeys K (cc c) (pst c)) (keys c).
Proof. exact (c15_bounded K V keqb keqb_spec). Qed.

(* no operation on a reachable state hits the nil-victim dereference (the model's RPanic) *)
Theorem C15_total : forall cf l now h o, 1 <= c_cap cf ->
  snd (fst (step (run (new_cache cf) l) now h o)) <> RPanic.
Proof. exact (c15_total K V keqb keqb_spec). Qed.

(* refinement to the abstract map: the retrievable entries change only by Set (bind), Delete (unbind),
   Close (empty) and by being reported to the eviction callback; Get returns the entry retrievable
   after the call (a hit returns the latest Set value; an expired entry is reported and missed) *)
Theorem C15_lookup : forall cf l now h o, 1 <= c_cap cf ->
  let c := run (new_cache cf) l in
  match step c now h o with
  | (c', r, ev) =>
      (forall x, abs c' x = spec_after K V keqb (abs c) (closing c) o ev x) /\ result_ok K V keqb c c' o r
  end.
Proof. exact (c15_lookup K V keqb keqb_spec). Qed.

(* callbacks: each reported (key, value) was retrievable with exactly that value before the operation
   and is not retrievable after it; no key is reported twice by one operation; and an entry stops being
   retrievable ONLY by being reported, deleted by this very operation, or Close *)
Theorem C15_callbacks : forall cf l now h o, 1 <= c_cap cf ->
  let c := run (new_cache cf) l in
  match step c now h o with
  | (c', r, ev) =>
      (forall k v, In (k, v) ev -> abs c k = Some v /\ abs c' k = None) /\
      NoDup (map fst ev) /\
      (forall x, abs c x <> None -> abs c' x = None -> In x (map fst ev) \/ o = ODelete x \/ o = OClose)
  end.
Proof. exact (c15_callbacks K V keqb keqb_spec). Qed.

(* Close (on an open cache) reports every entry *)
Theorem C15_close_reports_all : forall cf l now h, 1 <= c_cap cf ->
  let c := run (new_cache cf) l in
  closing c = false ->
  match step c now h OClose with (c', r, ev) => Permutation (map fst ev) (keys c) end.
Proof. exact (c15_close_reports_all K V keqb keqb_spec). Qed.

(* victims by definition.  [runi] / [runc] run an operation sequence while keeping, beside the cache, a ghost record of the
   DEFINING quantity: the time of each key's last use (a Set of the key or a Get that hits), resp. the number of uses since the
   key was inserted.  Whenever a Set has to make room, every entry it evicts is a least recently used / a least frequently
   used one among the entries present. *)
Theorem C15_lru_victim_is_least_recently_used : forall cf l now h k v,
  c_kind cf = Lru -> 1 <= c_cap cf ->
  match runi K V keqb (new_cache cf) (fun _ => 0) 1 l with
  | (c, lu, t) =>
      match step c now h (OSet k v) with
      | (_, _, ev) => forall x y, In (x, y) ev -> forall z, In z (map fst (items c)) -> lu x <= lu z
      end
  end.
Proof. exact (lru_victim_is_least_recently_used K V keqb keqb_spec). Qed.

Theorem C15_lfu_victim_is_least_frequently_used : forall cf l now h k v,
  c_kind cf = Lfu -> 1 <= c_cap cf ->
  match runc K V keqb (new_cache cf) (fun _ => 0) l with
  | (c, cnt) =>
      match step c now h (OSet k v) with
      | (_, _, ev) => forall x y, In (x, y) ev -> forall z, In z (map fst (items c)) -> cnt x <= cnt z
      end
  end.
Proof. exact (lfu_victim_is_least_frequently_used K V keqb keqb_spec). Qed.

End Statements.

Print Assumptions C15_bounded.
Print Assumptions C15_total.
Print Assumptions C15_lookup.
Print Assumptions C15_callbacks.
Print Assumptions C15_close_reports_all.
Print Assumptions C15_lru_victim_is_least_recently_used.
Print Assumptions C15_lfu_victim_is_least_frequently_used.

(* non-vacuity: a concrete reachable state of an SLRU cache of capacity 2 with an eviction behind it *)
Example C15_nonvacuous :
  let cf := {| c_kind := Slru; c_cap := 2; c_expiry := 0 |} in
  let l := [(0, [], OSet 1 10); (0, [], OGet 1); (0, [], OSet 2 20); (0, [], OSet 3 30)] in
  map fst (items (run Z Z Z.eqb (new_cache cf) l)) = [1; 3] /\ 1 <= c_cap cf.
Proof. vm_compute. split; [reflexivity | discriminate]. Qed.

(* non-vacuity of the victim theorems: an LFU cache of capacity 2 that has to evict; the ghost counts are 2 and 3 *)
Example C15_lfu_nonvacuous :
  let cf := {| c_kind := Lfu; c_cap := 2; c_expiry := 0 |} in
  let l := [(0, [], OSet 1 10); (0, [], OSet 2 20); (0, [], OGet 1); (0, [], OGet 2); (0, [], OGet 2)] in
  match runc Z Z Z.eqb (new_cache cf) (fun _ => 0) l with
  | (c, cnt) => (cnt 1, cnt 2) = (2, 3) /\ snd (step Z.eqb c 0 [] (OSet 3 30)) = [(1, 10)]
  end.
Proof. vm_compute. split; reflexivity. Qed.
