(* C19 - gRPC sidecar stream.  For EVERY request sequence and EVERY behaviour of the SDK session behind the handler
   (so C01/C06/C07 transfer: genuine records round-trip, foreign and corrupt ones are the SDK's errors). *)
From Asherah Require Import Server.Stream Server.StreamProofs.
From Coq Require Import List.
Import ListNotations.

Section S.
Variables (Rec Payload : Type).
Variable sdk_get_session : str -> option nat.
Variable sdk_encrypt : nat -> Payload -> option Rec.
Variable sdk_decrypt : nat -> Rec -> option Payload.
Notation handle := (handle Rec Payload sdk_get_session sdk_encrypt sdk_decrypt).
Notation stream := (stream Rec Payload sdk_get_session sdk_encrypt sdk_decrypt).

Theorem C19_one_response_per_request : forall st qs, length (fst (stream st qs)) = length qs.
Proof. exact (stream_one_response_each Rec Payload sdk_get_session sdk_encrypt sdk_decrypt). Qed.

Theorem C19_no_sequence_panics : forall st qs,
  ~ In RPanic (fst (stream st qs)) /\ close_ok (snd (stream st qs)) = true.
Proof. exact (stream_never_panics Rec Payload sdk_get_session sdk_encrypt sdk_decrypt). Qed.

Theorem C19_error_before_session : forall st q,
  (st = NoHandler \/ st = NoSession) -> (forall id, q <> QGetSession id) -> handle st q = (RErr, st).
Proof. exact (before_session_error Rec Payload sdk_get_session sdk_encrypt sdk_decrypt). Qed.

Theorem C19_second_get_session_error : forall st id, st <> NoHandler -> handle st (QGetSession id) = (RErr, st).
Proof. exact (second_get_session_error Rec Payload sdk_get_session sdk_encrypt sdk_decrypt). Qed.

Theorem C19_rejected_get_session_then_errors : forall id qs,
  sdk_get_session id = None ->
  handle NoHandler (QGetSession id) = (RErr, NoSession) /\
  Forall (fun a => a = RErr) (fst (stream NoSession qs)) /\ snd (stream NoSession qs) = NoSession.
Proof.
  intros id qs H. split; [exact (rejected_get_session Rec Payload sdk_get_session sdk_encrypt sdk_decrypt id H) |
                          exact (after_rejection_all_errors Rec Payload sdk_get_session sdk_encrypt sdk_decrypt qs)].
Qed.

Theorem C19_session_behaves_like_sdk : forall s p r,
  handle (Session s) (QEncrypt p) = (match sdk_encrypt s p with Some x => REnc x | None => RErr end, Session s) /\
  handle (Session s) (QDecrypt r) = (match sdk_decrypt s r with Some x => RDec x | None => RErr end, Session s).
Proof.
  intros s p r. split; [exact (with_session_encrypt Rec Payload sdk_get_session sdk_encrypt sdk_decrypt s p) |
                        exact (with_session_decrypt Rec Payload sdk_get_session sdk_encrypt sdk_decrypt s r)].
Qed.
End S.

Print Assumptions C19_one_response_per_request.
Print Assumptions C19_no_sequence_panics.
Print Assumptions C19_error_before_session.
Print Assumptions C19_second_get_session_error.
Print Assumptions C19_rejected_get_session_then_errors.
Print Assumptions C19_session_behaves_like_sdk.
