(* C20 - key caching avoids external calls, for one revoke-check interval.  For EVERY cache state, key meta and
   loader: a fresh cached key (cached flag revoked, or loaded at most one interval ago) is handed out without any
   boundary call - the loader is never consulted, the metastore, KMS, AEAD and allocator are not touched - on the
   decrypt path (C20_fresh_hit_decrypt) and, when the key is valid, on the encrypt path (C20_fresh_hit_encrypt);
   a stale or missing entry makes the cache run its load path exactly once (C20_stale_loads).
   What "fresh" means is C20_fresh_means. *)
From Asherah Require Import Envelope.Session Envelope.CacheCalls.

Theorem C20_fresh_hit_decrypt : forall cid rci meta loader w k w1 o,
  kc_get_fresh cid rci meta w = (inr (Some (k, true)), w1) -> nth_error (w_kobjs w1) k = Some o ->
  let r := get_or_load (Some cid) rci meta loader w in
  fst r = inr k /\ w_calls (snd r) = w_calls w /\ w_trace (snd r) = w_trace w /\ w_store (snd r) = w_store w.
Proof. exact get_or_load_fresh_hit. Qed.
Print Assumptions C20_fresh_hit_decrypt.

Theorem C20_fresh_hit_encrypt : forall cid rci ex id loader w k w1 w2,
  kc_get_fresh cid rci {| km_id := id; km_created := 0 |} w = (inr (Some (k, true)), w1) ->
  is_key_invalid k ex w1 = (inr false, w2) ->
  let r := get_or_load_latest (Some cid) rci ex id loader w in
  fst r = inr k /\ w_calls (snd r) = w_calls w /\ w_trace (snd r) = w_trace w /\ w_store (snd r) = w_store w.
Proof. exact get_or_load_latest_fresh_hit. Qed.
Print Assumptions C20_fresh_hit_encrypt.

Theorem C20_stale_loads : forall cid rci meta loader w r1 w1 r2 w2,
  kc_get_fresh cid rci meta w = (inr r1, w1) -> (forall k, r1 <> Some (k, true)) ->
  kc_get_fresh cid rci meta w1 = (inr r2, w2) -> (forall k, r2 <> Some (k, true)) ->
  get_or_load (Some cid) rci meta loader w = (k <- kc_load cid meta loader ;; cck_increment k ;;; ret k) w2.
Proof. exact get_or_load_stale_loads. Qed.
Print Assumptions C20_stale_loads.

Theorem C20_fresh_means : forall e rci w b w',
  reload_required e rci w = (inr b, w') ->
  exists o, nth_error (w_kobjs w) (ce_key e) = Some o /\ b = (if ko_revoked o then false else ce_loaded e + rci <? w_now w).
Proof. exact reload_required_spec. Qed.
Print Assumptions C20_fresh_means.

(* "With caching disabled by policy nothing is retained between calls": over all histories, in a session without key caches a Decrypt
   leaves every secret it allocated closed (and touches nothing older), under any fault plan; an Encrypt likewise, except at most one
   secret - the system key leaked by known finding C09-J on the duplicate-fallback path.  (Envelope/Release.v; there are no cache
   entries either, because there is no cache.) *)
From Asherah Require Import Envelope.Session Envelope.Coherent Envelope.Release.

Theorem C20_nothing_retained_without_caching_decrypt : forall svc prod t0 ops s rec muts faults,
  Forall (benign svc prod) ops ->
  let h := snd (hrun (hinit t0) ops) in
  (forall x fa, nth_error (w_sessions (h_world h)) s = Some x -> nth_error (w_factories (h_world h)) (ss_factory x) = Some fa ->
                fa_sk fa = None /\ ss_ik x = None) ->
  let w := h_world h in
  let w' := h_world (snd (hstep h (HDecrypt s rec muts faults))) in
  (forall sid, (sid < List.length (w_secrets w))%nat -> nth_error (w_secrets w') sid = nth_error (w_secrets w) sid) /\
  (forall sid sc, (List.length (w_secrets w) <= sid)%nat -> nth_error (w_secrets w') sid = Some sc -> s_closed sc = true) /\
  (forall k, (k < List.length (w_kobjs w))%nat -> nth_error (w_kobjs w') k = nth_error (w_kobjs w) k).
Proof. exact nocache_decrypt_releases_everything. Qed.
Print Assumptions C20_nothing_retained_without_caching_decrypt.

Theorem C20_nothing_retained_without_caching_encrypt : forall svc prod t0 ops s payload faults,
  Forall (benign svc prod) ops ->
  let h := snd (hrun (hinit t0) ops) in
  (forall x fa, nth_error (w_sessions (h_world h)) s = Some x -> nth_error (w_factories (h_world h)) (ss_factory x) = Some fa ->
                fa_sk fa = None /\ ss_ik x = None) ->
  let w := h_world h in
  let w' := h_world (snd (hstep h (HEncrypt s payload faults))) in
  (forall sid, (sid < List.length (w_secrets w))%nat -> nth_error (w_secrets w') sid = nth_error (w_secrets w) sid) /\
  (exists leak : list nat, (List.length leak <= 1)%nat /\
     forall sid sc, (List.length (w_secrets w) <= sid)%nat -> nth_error (w_secrets w') sid = Some sc -> s_closed sc = true \/ In sid leak) /\
  (forall k, (k < List.length (w_kobjs w))%nat -> nth_error (w_kobjs w') k = nth_error (w_kobjs w) k).
Proof. exact nocache_encrypt_releases_all_but_one. Qed.
Print Assumptions C20_nothing_retained_without_caching_encrypt.

(* The same at the level of a session (Envelope/Repeat.v).  `ext` keeps the metastore and KMS events of a trace.
   - a Decrypt / an Encrypt that finds the key it needs FRESH in the session's key cache makes no metastore and no KMS call and leaves
     the key table alone, whatever the cache's policy and whatever else is in the world;
   - "repeating a decrypt that already succeeded": with the default (simple, never evicting) key cache, in EVERY world in which a
     Decrypt succeeded, the same Decrypt run again makes no metastore and no KMS call - whichever of GetOrLoad's paths the first one
     took (fresh hit, hit after the second look, load through the metastore and the KMS).  For how long the entry stays fresh is
     C20_fresh_means: one interval from its load.  (The encrypt-side repeat over the `latest` alias and the evicting policies
     are covered by the correspondence, not by a theorem.) *)
From Asherah Require Import Envelope.Repeat.

Theorem C20_decrypt_with_fresh_key_makes_no_metastore_or_kms_call : forall e r key pm cid w k w1,
  en_ik e = Some cid -> d_key r = Some key -> e_parent key = Some pm ->
  kc_get_fresh cid (p_rci (en_pol e)) pm w = (inr (Some (k, true)), w1) ->
  let w' := snd (decrypt_data_row_record e r w) in
  w_store w' = w_store w /\ ext (w_trace w') = ext (w_trace w).
Proof. exact decrypt_with_fresh_key_makes_no_external_call. Qed.
Print Assumptions C20_decrypt_with_fresh_key_makes_no_metastore_or_kms_call.

Theorem C20_encrypt_with_fresh_valid_key_makes_no_metastore_or_kms_call : forall e payload cid w k w1 w2,
  en_ik e = Some cid ->
  kc_get_fresh cid (p_rci (en_pol e)) {| km_id := ik_id e; km_created := 0 |} w = (inr (Some (k, true)), w1) ->
  is_key_invalid k (p_expire (en_pol e)) w1 = (inr false, w2) ->
  let w' := snd (encrypt_payload e payload w) in
  w_store w' = w_store w /\ ext (w_trace w') = ext (w_trace w).
Proof. exact encrypt_with_fresh_valid_key_makes_no_external_call. Qed.
Print Assumptions C20_encrypt_with_fresh_valid_key_makes_no_metastore_or_kms_call.

Theorem C20_repeated_decrypt_makes_no_metastore_or_kms_call : forall e r key pm cid p w w' kc m,
  en_ik e = Some cid -> d_key r = Some key -> e_parent key = Some pm -> km_created pm <> 0%Z -> (0 <= p_rci (en_pol e))%Z ->
  decrypt_data_row_record e r w = (inr p, w') ->
  nth_error (w_caches w') cid = Some kc -> kc_backing kc = BSimple m ->
  let w'' := snd (decrypt_data_row_record e r w') in
  w_store w'' = w_store w' /\ ext (w_trace w'') = ext (w_trace w').
Proof. exact repeated_decrypt_makes_no_external_call. Qed.
Print Assumptions C20_repeated_decrypt_makes_no_metastore_or_kms_call.

(* the premises are met in a reachable world: a cold second factory decrypts a record (metastore and KMS are consulted, the key ends
   up in a simple cache), then decrypts it again *)
Theorem C20_repeated_decrypt_premises_met : rep_check = true.
Proof. exact repeated_decrypt_premises_met. Qed.
Print Assumptions C20_repeated_decrypt_premises_met.

(* ... and as a statement about history steps (Envelope/RepeatH.v): from EVERY history state - whatever operations, fault plans, clock
   changes and revocations led to it - if a Decrypt step of a genuine record succeeds on a session whose key cache is the default simple
   one, the same step taken again reports no metastore and no KMS event (the trace the correspondence compares with the
   implementation's) and leaves the key table alone. *)
From Asherah Require Import Envelope.RepeatH.

Theorem C20_repeated_decrypt_step_reports_no_metastore_or_kms_event : forall h s rec x fa cid r0 key pm po,
  nth_error (w_sessions (h_world h)) s = Some x -> nth_error (w_factories (h_world h)) (ss_factory x) = Some fa -> ss_ik x = Some cid ->
  nth_error (h_recs h) rec = Some r0 -> d_key r0 = Some key -> e_parent key = Some pm -> km_created pm <> 0%Z -> (0 <= p_rci (fa_policy fa))%Z ->
  fst (fst (hstep h (HDecrypt s rec [] []))) = ODec po ->
  let h1 := snd (hstep h (HDecrypt s rec [] [])) in
  (exists kc m, nth_error (w_caches (h_world h1)) cid = Some kc /\ kc_backing kc = BSimple m) ->
  let st := hstep h1 (HDecrypt s rec [] []) in
  filter is_ext (snd (fst st)) = [] /\ w_store (h_world (snd st)) = w_store (h_world h1).
Proof. exact repeated_decrypt_step_makes_no_external_call. Qed.
Print Assumptions C20_repeated_decrypt_step_reports_no_metastore_or_kms_event.

Theorem C20_repeated_decrypt_step_met : rep_check_h = true.
Proof. exact repeated_decrypt_step_met. Qed.
Print Assumptions C20_repeated_decrypt_step_met.

(* "... until the revoke-check interval has elapsed": after the successful step the clock moves on by any d that keeps the cached entry
   (the one the session's simple key cache holds for the record's key) within one interval of its load; the same Decrypt step still reports
   no metastore and no KMS event.  Past the interval an entry not flagged revoked is stale (C20_fresh_means) and the cache runs its load
   path once (C20_stale_loads). *)
Theorem C20_repeated_decrypt_step_within_the_interval : forall h s rec x fa cid r0 key pm po d kc m e,
  nth_error (w_sessions (h_world h)) s = Some x -> nth_error (w_factories (h_world h)) (ss_factory x) = Some fa -> ss_ik x = Some cid ->
  nth_error (h_recs h) rec = Some r0 -> d_key r0 = Some key -> e_parent key = Some pm -> km_created pm <> 0%Z -> (0 <= p_rci (fa_policy fa))%Z ->
  fst (fst (hstep h (HDecrypt s rec [] []))) = ODec po ->
  let h1 := snd (hstep h (HDecrypt s rec [] [])) in
  nth_error (w_caches (h_world h1)) cid = Some kc -> kc_backing kc = BSimple m ->
  assoc_get (cache_key (km_id pm) (km_created pm)) m = Some e ->
  (w_now (h_world h1) + d <= ce_loaded e + p_rci (fa_policy fa))%Z ->
  let h2 := snd (hstep h1 (HAdvance d)) in
  let st := hstep h2 (HDecrypt s rec [] []) in
  filter is_ext (snd (fst st)) = [] /\ w_store (h_world (snd st)) = w_store (h_world h1).
Proof. exact repeated_decrypt_step_within_the_interval. Qed.
Print Assumptions C20_repeated_decrypt_step_within_the_interval.

Theorem C20_repeated_decrypt_interval_boundary : rep_check_interval = true.
Proof. exact repeated_decrypt_interval_boundary. Qed.
Print Assumptions C20_repeated_decrypt_interval_boundary.

(* "a system key is unwrapped by the KMS at most once per factory per interval however many sessions and partitions use it", decrypt side
   (Envelope/SkOnce.v; `kms` keeps the KMS events of a trace).  Once any session env e of a factory obtained system key pm through the
   factory's (simple) system-key cache - whether that unwrapped it with the KMS or found it cached - then in every world that kept the caches,
   the clock and the key objects' flags (sameK), every load of an intermediate key whose row names pm as its parent, by ANY session env e2
   of that factory (another partition, a new session), makes no KMS call.  The fault plan is arbitrary.  Freshness is the cache's own
   (C20_fresh_means): it lasts one interval from the load. *)
From Asherah Require Import Envelope.SkOnce.

Theorem C20_system_key_unwrapped_at_most_once : forall e pm sc k w w1,
  en_sk e = Some sc -> km_created pm <> 0%Z -> (0 <= p_rci (en_pol e))%Z ->
  get_or_load_system_key e pm w = (inr k, w1) ->
  forall w2 kc m, sameK w1 w2 -> nth_error (w_caches w2) sc = Some kc -> kc_backing kc = BSimple m ->
  forall e2 meta, en_sk e2 = Some sc -> p_rci (en_pol e2) = p_rci (en_pol e) ->
    (forall r, store_find (km_id meta) (km_created meta) (w_store w2) = Some r -> e_parent r = Some pm) ->
    kms (w_trace (snd (load_intermediate_key e2 meta w2))) = kms (w_trace w2).
Proof. exact system_key_unwrapped_at_most_once. Qed.
Print Assumptions C20_system_key_unwrapped_at_most_once.

(* in a reachable history: a cold reader factory decrypts partition p's record (one KMS decrypt), then, in a new session for partition q,
   q's record: the intermediate key row is read from the metastore, the KMS is not called *)
Theorem C20_system_key_unwrapped_once_met : sk_once_check = true.
Proof. exact system_key_unwrapped_once_met. Qed.
Print Assumptions C20_system_key_unwrapped_once_met.

(* ... encrypt side: a session that has to find or CREATE an intermediate key (a new partition, an expired or missing key) while the
   factory's simple system-key cache holds the latest system key l as key object k - alias pointing at it, not revoked, not expired,
   loaded at most one interval ago (JL) - and every stored intermediate key of the partition names l (HR): loadLatestOrCreateIntermediateKey,
   whole - reading the latest row, validating it, creating and storing a new key, the duplicate fallback - makes no KMS call, under
   any fault plan. *)
Theorem C20_find_or_create_intermediate_key_needs_no_kms : forall sc k e l,
  en_sk e = Some sc -> km_created l <> 0%Z -> km_id l = sk_id e ->
  forall w, JL sc k e l w -> HR e l w ->
  kms (w_trace (snd (load_latest_or_create_intermediate_key e (ik_id e) w))) = kms (w_trace w).
Proof. exact find_or_create_intermediate_key_needs_no_kms. Qed.
Print Assumptions C20_find_or_create_intermediate_key_needs_no_kms.

(* JL and HR are decidable (JLb_ok, HRb_ok) and hold in a reachable world: after partition p's first encrypt (which wrapped the new system
   key: one KMS encrypt), a new session of the same factory for the new partition q; its first encrypt then creates q's intermediate key,
   reads and writes rows, and does not call the KMS *)
Theorem C20_find_or_create_premises_met : enc_once_premises = true.
Proof. exact find_or_create_premises_met. Qed.
Print Assumptions C20_find_or_create_premises_met.
Theorem C20_find_or_create_needs_no_kms_met : enc_once_check = true.
Proof. exact find_or_create_needs_no_kms_met. Qed.
Print Assumptions C20_find_or_create_needs_no_kms_met.
Theorem C20_JLb_decides : forall sc k e l w, JLb sc k e l w = true -> JL sc k e l w.
Proof. exact JLb_ok. Qed.
Print Assumptions C20_JLb_decides.
Theorem C20_HRb_decides : forall e l w, HRb e l w = true -> HR e l w.
Proof. exact HRb_ok. Qed.
Print Assumptions C20_HRb_decides.
