(* C20 - key caching avoids external calls, for one revoke-check interval.  For EVERY cache state, key meta and
   loader: a fresh cached key (cached flag revoked, or loaded at most one interval ago) is handed out without any
   boundary call - the loader is never consulted, the metastore, KMS, AEAD and allocator are not touched - on the
   decrypt path (C20_fresh_hit_decrypt) and, when the key is valid, on the encrypt path (C20_fresh_hit_encrypt);
   a stale or missing entry makes the cache run its load path exactly once (C20_stale_loads).
   What "fresh" means is C20_fresh_means. *)
From Asherah Require Import Envelope.Session Envelope.CacheCalls.

Theorem C20_fresh_hit_decrypt : forall cid rci meta loader w k w1 o,
  kc_get_fresh cid rci meta w = (inr (Some (k, true)), w1) -> nth_error (w_kobjs w1) k = Some o ->
  let r := get_or_load (Some cid) rci meta loader w in
  fst r = inr k /\ w_calls (snd r) = w_calls w /\ w_trace (snd r) = w_trace w /\ w_store (snd r) = w_store w.
Proof. exact get_or_load_fresh_hit. Qed.
Print Assumptions C20_fresh_hit_decrypt.

Theorem C20_fresh_hit_encrypt : forall cid rci ex id loader w k w1 w2,
  kc_get_fresh cid rci {| km_id := id; km_created := 0 |} w = (inr (Some (k, true)), w1) ->
  is_key_invalid k ex w1 = (inr false, w2) ->
  let r := get_or_load_latest (Some cid) rci ex id loader w in
  fst r = inr k /\ w_calls (snd r) = w_calls w /\ w_trace (snd r) = w_trace w /\ w_store (snd r) = w_store w.
Proof. exact get_or_load_latest_fresh_hit. Qed.
Print Assumptions C20_fresh_hit_encrypt.

Theorem C20_stale_loads : forall cid rci meta loader w r1 w1 r2 w2,
  kc_get_fresh cid rci meta w = (inr r1, w1) -> (forall k, r1 <> Some (k, true)) ->
  kc_get_fresh cid rci meta w1 = (inr r2, w2) -> (forall k, r2 <> Some (k, true)) ->
  get_or_load (Some cid) rci meta loader w = (k <- kc_load cid meta loader ;; cck_increment k ;;; ret k) w2.
Proof. exact get_or_load_stale_loads. Qed.
Print Assumptions C20_stale_loads.

Theorem C20_fresh_means : forall e rci w b w',
  reload_required e rci w = (inr b, w') ->
  exists o, nth_error (w_kobjs w) (ce_key e) = Some o /\ b = (if ko_revoked o then false else ce_loaded e + rci <? w_now w).
Proof. exact reload_required_spec. Qed.
Print Assumptions C20_fresh_means.

(* "With caching disabled by policy nothing is retained between calls": over all histories, in a session without key caches a Decrypt
   leaves every secret it allocated closed (and touches nothing older), under any fault plan; an Encrypt likewise, except at most one
   secret - the system key leaked by known finding C09-J on the duplicate-fallback path.  (Envelope/Release.v; there are no cache
   entries either, because there is no cache.) *)
From Asherah Require Import Envelope.Session Envelope.Coherent Envelope.Release.

Theorem C20_nothing_retained_without_caching_decrypt : forall svc prod t0 ops s rec muts faults,
  Forall (benign svc prod) ops ->
  let h := snd (hrun (hinit t0) ops) in
  (forall x fa, nth_error (w_sessions (h_world h)) s = Some x -> nth_error (w_factories (h_world h)) (ss_factory x) = Some fa ->
                fa_sk fa = None /\ ss_ik x = None) ->
  let w := h_world h in
  let w' := h_world (snd (hstep h (HDecrypt s rec muts faults))) in
  (forall sid, (sid < List.length (w_secrets w))%nat -> nth_error (w_secrets w') sid = nth_error (w_secrets w) sid) /\
  (forall sid sc, (List.length (w_secrets w) <= sid)%nat -> nth_error (w_secrets w') sid = Some sc -> s_closed sc = true) /\
  (forall k, (k < List.length (w_kobjs w))%nat -> nth_error (w_kobjs w') k = nth_error (w_kobjs w) k).
Proof. exact nocache_decrypt_releases_everything. Qed.
Print Assumptions C20_nothing_retained_without_caching_decrypt.

Theorem C20_nothing_retained_without_caching_encrypt : forall svc prod t0 ops s payload faults,
  Forall (benign svc prod) ops ->
  let h := snd (hrun (hinit t0) ops) in
  (forall x fa, nth_error (w_sessions (h_world h)) s = Some x -> nth_error (w_factories (h_world h)) (ss_factory x) = Some fa ->
                fa_sk fa = None /\ ss_ik x = None) ->
  let w := h_world h in
  let w' := h_world (snd (hstep h (HEncrypt s payload faults))) in
  (forall sid, (sid < List.length (w_secrets w))%nat -> nth_error (w_secrets w') sid = nth_error (w_secrets w) sid) /\
  (exists leak : list nat, (List.length leak <= 1)%nat /\
     forall sid sc, (List.length (w_secrets w) <= sid)%nat -> nth_error (w_secrets w') sid = Some sc -> s_closed sc = true \/ In sid leak) /\
  (forall k, (k < List.length (w_kobjs w))%nat -> nth_error (w_kobjs w') k = nth_error (w_kobjs w) k).
Proof. exact nocache_encrypt_releases_all_but_one. Qed.
Print Assumptions C20_nothing_retained_without_caching_encrypt.
