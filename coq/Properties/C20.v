(* C20 - key caching avoids external calls, for one revoke-check interval.  For EVERY cache state, key meta and
   loader: a fresh cached key (cached flag revoked, or loaded at most one interval ago) is handed out without any
   boundary call - the loader is never consulted, the metastore, KMS, AEAD and allocator are not touched - on the
   decrypt path (C20_fresh_hit_decrypt) and, when the key is valid, on the encrypt path (C20_fresh_hit_encrypt);
   a stale or missing entry makes the cache run its load path exactly once (C20_stale_loads).
   What "fresh" means is C20_fresh_means. *)
From Asherah Require Import Envelope.Session Envelope.CacheCalls.

Theorem C20_fresh_hit_decrypt : forall cid rci meta loader w k w1 o,
  kc_get_fresh cid rci meta w = (inr (Some (k, true)), w1) -> nth_error (w_kobjs w1) k = Some o ->
  let r := get_or_load (Some cid) rci meta loader w in
  fst r = inr k /\ w_calls (snd r) = w_calls w /\ w_trace (snd r) = w_trace w /\ w_store (snd r) = w_store w.
Proof. exact get_or_load_fresh_hit. Qed.
Print Assumptions C20_fresh_hit_decrypt.

Theorem C20_fresh_hit_encrypt : forall cid rci ex id loader w k w1 w2,
  kc_get_fresh cid rci {| km_id := id; km_created := 0 |} w = (inr (Some (k, true)), w1) ->
  is_key_invalid k ex w1 = (inr false, w2) ->
  let r := get_or_load_latest (Some cid) rci ex id loader w in
  fst r = inr k /\ w_calls (snd r) = w_calls w /\ w_trace (snd r) = w_trace w /\ w_store (snd r) = w_store w.
Proof. exact get_or_load_latest_fresh_hit. Qed.
Print Assumptions C20_fresh_hit_encrypt.

Theorem C20_stale_loads : forall cid rci meta loader w r1 w1 r2 w2,
  kc_get_fresh cid rci meta w = (inr r1, w1) -> (forall k, r1 <> Some (k, true)) ->
  kc_get_fresh cid rci meta w1 = (inr r2, w2) -> (forall k, r2 <> Some (k, true)) ->
  get_or_load (Some cid) rci meta loader w = (k <- kc_load cid meta loader ;; cck_increment k ;;; ret k) w2.
Proof. exact get_or_load_stale_loads. Qed.
Print Assumptions C20_stale_loads.

Theorem C20_fresh_means : forall e rci w b w',
  reload_required e rci w = (inr b, w') ->
  exists o, nth_error (w_kobjs w) (ce_key e) = Some o /\ b = (if ko_revoked o then false else ce_loaded e + rci <? w_now w).
Proof. exact reload_required_spec. Qed.
Print Assumptions C20_fresh_means.
