(* C10 - transient plaintext key copies on the heap are wiped before the call returns.  Model: Envelope/Wipe.v - the
   key-unwrapping sites as straight-line programs over a table of heap buffers, every later step allowed to fail.
   For EVERY choice of failing steps (and, for the AWS plugins, every list of regions with arbitrary KMS / AEAD outcomes):
   every buffer that held key plaintext is zero at return, except the system-key buffer DecryptKey hands to its caller, which
   the caller passes to NewCryptoKey (wiped there on success and on failure).
   Partial: the model is statement-level, not executable against the code; it is tied to the code by the monitor that re-reads
   every such buffer after the public call returns, under the same failure choices (env and kms harnesses). *)
From Asherah Require Import Envelope.Wipe.
From Coq Require Import List.
Import ListNotations.

Theorem C10_decrypt_row_wipes_data_key : forall key_fails data_fails t,
  all_clean t -> all_clean (snd (decrypt_row key_fails data_fails t)).
Proof. exact decrypt_row_wipes. Qed.
Print Assumptions C10_decrypt_row_wipes_data_key.

Theorem C10_key_from_record_wipes_plaintext : forall unwrap_fails factory_fails t,
  all_clean t -> all_clean (snd (key_from_ekr unwrap_fails factory_fails t)).
Proof. exact key_from_ekr_wipes. Qed.
Print Assumptions C10_key_from_record_wipes_plaintext.

Theorem C10_aws_encrypt_key_wipes_data_key : forall generate_fails aead_fails marshal_fails t,
  all_clean t -> all_clean (snd (aws_encrypt_key generate_fails aead_fails marshal_fails t)).
Proof. exact aws_encrypt_key_wipes. Qed.
Print Assumptions C10_aws_encrypt_key_wipes_data_key.

Theorem C10_aws_decrypt_key_wipes_data_keys : forall regions t, all_clean t ->
  match aws_decrypt_key regions t with
  | (None, t') => all_clean t'
  | (Some sk, t') => forall i, i <> sk -> nth i t' false = false
  end.
Proof. exact aws_decrypt_key_wipes. Qed.
Print Assumptions C10_aws_decrypt_key_wipes_data_keys.

(* fix M: the decrypted intermediate key is wiped on the path where the system key's secret reports an error after the callback ran *)
Theorem C10_intermediate_key_from_record_wipes_plaintext_when_the_release_fails : forall unwrap_fails release_fails factory_fails t,
  all_clean t -> all_clean (snd (ik_from_ekr unwrap_fails release_fails factory_fails t)).
Proof. exact ik_from_ekr_wipes. Qed.
Print Assumptions C10_intermediate_key_from_record_wipes_plaintext_when_the_release_fails.

Theorem C10_before_fix_M_refuted : exists u r f t, all_clean t /\ ~ all_clean (snd (ik_from_ekr_before_fix u r f t)).
Proof. exact ik_from_ekr_before_fix_refuted. Qed.
Print Assumptions C10_before_fix_M_refuted.
