(* C17 - AWS KMS plugins.  For every list of regional clients (any length), every choice of which regions can
   generate / wrap at wrap time and which can decrypt at unwrap time. *)
From Asherah Require Import Kms.AwsKms Kms.AwsKmsProofs.
From Coq Require Import List.
Import ListNotations.

Theorem C17_unwrap_succeeds_iff_a_surviving_region : forall clients entries,
  fst (unwrap clients entries) <> None <-> exists r, In (r, true) clients /\ In r entries.
Proof. exact unwrap_succeeds_iff. Qed.
Print Assumptions C17_unwrap_succeeds_iff_a_surviving_region.

Theorem C17_attempt_order : forall clients entries,
  snd (unwrap clients entries) = until_success (with_entry entries clients).
Proof. exact unwrap_attempts. Qed.
Print Assumptions C17_attempt_order.

Theorem C17_preferred_region_first : forall p okp rest entries,
  In p entries -> hd_error (snd (unwrap ((p, okp) :: rest) entries)) = Some p.
Proof. exact unwrap_preferred_first. Qed.
Print Assumptions C17_preferred_region_first.

Theorem C17_wrap_succeeds_iff_a_region_generates : forall clients,
  wrap clients <> None <-> exists c, In c clients /\ w_gen c = true.
Proof. exact wrap_succeeds_iff. Qed.
Print Assumptions C17_wrap_succeeds_iff_a_region_generates.

Theorem C17_envelope_has_every_succeeding_region : forall clients g es,
  wrap clients = Some (g, es) ->
  (exists c, In c clients /\ w_id c = g /\ w_gen c = true) /\
  (forall r, In r es <-> exists c, In c clients /\ w_id c = r /\ (r = g \/ w_enc c = true)).
Proof. exact wrap_entries. Qed.
Print Assumptions C17_envelope_has_every_succeeding_region.

Theorem C17_wrap_then_unwrap : forall clients g es dclients,
  wrap clients = Some (g, es) ->
  (fst (unwrap dclients es) <> None <->
   exists r, In (r, true) dclients /\ exists c, In c clients /\ w_id c = r /\ (r = g \/ w_enc c = true)).
Proof. exact wrap_unwrap. Qed.
Print Assumptions C17_wrap_then_unwrap.
