(* C01 - anything encrypted decrypts back.
   FULL STATEMENT (decided today by the correspondence + monitors, proof in progress): for every history, every
   record returned by a successful Encrypt decrypts to its payload in every session of its partition of every
   factory sharing the metastore and KMS, at every later time.
   PROVED here (partial): the cryptographic core for every world and fault plan - what Encrypt seals with an
   intermediate key, decryptRow opens with any key object holding the same key material; together with C07
   (nothing else opens) and the frame theorems (store rows are never altered by the SDK, C02). *)
From Asherah Require Import Envelope.Session Envelope.Frame Envelope.Local Envelope.FrameInst Envelope.Coherent Envelope.FreshProcess.

Theorem C01_roundtrip_local_partial : forall e ik payload w d w' ek ik2 w2 ikm n,
  encrypt_with_ik e ik payload w = (inr d, w') -> d_key d = Some ek -> e_key ek = CAead ikm n (PKey (length (w_secrets w))) ->
  key_bytes ik2 w2 = (inr (PKey ikm), w2) ->
  fault_at (w_calls w2) (w_faults w2) = None -> fault_at (S (w_calls w2)) (w_faults w2) = None ->
  fst (decrypt_row ik2 ek (d_data d) w2) = inr payload.
Proof. exact roundtrip_local. Qed.
Print Assumptions C01_roundtrip_local_partial.

(* rows written to the metastore are never modified or removed by any SDK operation, so the key chain a
   record names stays loadable for ever *)
Theorem C01_key_rows_persist : forall h o, sdk_op o = true -> store_ext (h_world h) (h_world (snd (hstep h o))).
Proof. exact sdk_store_append_only. Qed.
Print Assumptions C01_key_rows_persist.

(* over ALL histories (any policies, fault plans, evictions, rotations, revocations, restarts; one service/product, default key
   ids): the record a successful Encrypt returns decrypts, in another process that has nothing but the metastore and the KMS
   (empty tables, caching disabled), to EXACTLY the payload that was encrypted - at that moment and, because genuine records
   stay genuine (C02_records_durable), at every later point of the history *)
Theorem C01_payload_roundtrip_in_another_process : forall svc prod h s payload faults now pol,
  HInv svc prod h ->
  match hstep h (HEncrypt s payload faults) with
  | (OEnc _ _, _, h') =>
      exists d pid, h_recs h' = h_recs h ++ [d] /\
        fst (decrypt_data_row_record (nocache_env svc prod pid pol) d (fresh_world (w_store (h_world h')) now)) = inr (PPayload payload)
  | _ => True
  end.
Proof. exact encrypted_payload_decrypts_in_a_fresh_process. Qed.
Print Assumptions C01_payload_roundtrip_in_another_process.

(* the invariant HInv above holds in every state a history reaches *)
Theorem C01_invariant_reachable : forall svc prod t0 ops,
  Forall (benign svc prod) ops -> HInv svc prod (snd (hrun (hinit t0) ops)).
Proof. exact invariant_reachable. Qed.
Print Assumptions C01_invariant_reachable.
