(* C01 - anything encrypted decrypts back.
   FULL STATEMENT (decided today by the correspondence + monitors, proof in progress): for every history, every
   record returned by a successful Encrypt decrypts to its payload in every session of its partition of every
   factory sharing the metastore and KMS, at every later time.
   PROVED here (partial): the cryptographic core for every world and fault plan - what Encrypt seals with an
   intermediate key, decryptRow opens with any key object holding the same key material; together with C07
   (nothing else opens) and the frame theorems (store rows are never altered by the SDK, C02). *)
From Asherah Require Import Envelope.Session Envelope.Frame Envelope.Local Envelope.FrameInst Envelope.Coherent Envelope.FreshProcess.

Theorem C01_roundtrip_local_partial : forall e ik payload w d w' ek ik2 w2 ikm n,
  encrypt_with_ik e ik payload w = (inr d, w') -> d_key d = Some ek -> e_key ek = CAead ikm n (PKey (length (w_secrets w))) ->
  key_bytes ik2 w2 = (inr (PKey ikm), w2) ->
  fault_at (w_calls w2) (w_faults w2) = None -> fault_at (S (w_calls w2)) (w_faults w2) = None ->
  fst (decrypt_row ik2 ek (d_data d) w2) = inr payload.
Proof. exact roundtrip_local. Qed.
Print Assumptions C01_roundtrip_local_partial.

(* rows written to the metastore are never modified or removed by any SDK operation, so the key chain a
   record names stays loadable for ever *)
Theorem C01_key_rows_persist : forall h o, sdk_op o = true -> store_ext (h_world h) (h_world (snd (hstep h o))).
Proof. exact sdk_store_append_only. Qed.
Print Assumptions C01_key_rows_persist.

(* over ALL histories (any policies, fault plans, evictions, rotations, revocations, restarts; one service/product, default key
   ids): the record a successful Encrypt returns decrypts, in another process that has nothing but the metastore and the KMS
   (empty tables, caching disabled), to EXACTLY the payload that was encrypted - at that moment and, because genuine records
   stay genuine (C02_records_durable), at every later point of the history *)
Theorem C01_payload_roundtrip_in_another_process : forall svc prod h s payload faults now pol,
  HInv svc prod h ->
  match hstep h (HEncrypt s payload faults) with
  | (OEnc _ _, _, h') =>
      exists d pid, h_recs h' = h_recs h ++ [d] /\
        fst (decrypt_data_row_record (nocache_env svc prod pid pol) d (fresh_world (w_store (h_world h')) now)) = inr (PPayload payload)
  | _ => True
  end.
Proof. exact encrypted_payload_decrypts_in_a_fresh_process. Qed.
Print Assumptions C01_payload_roundtrip_in_another_process.

(* the invariant HInv above holds in every state a history reaches *)
Theorem C01_invariant_reachable : forall svc prod t0 ops,
  Forall (benign svc prod) ops -> HInv svc prod (snd (hrun (hinit t0) ops)).
Proof. exact invariant_reachable. Qed.
Print Assumptions C01_invariant_reachable.

(* ---- the round trip inside ONE long-lived process, key caches of any kind and capacity included ----------------
   Histories: new factories (any cache policy - simple, LRU, LFU, SLRU, TinyLFU, any capacity >= 1, shared or per-session
   intermediate-key caches; session caching off), new sessions, encrypts and decrypts under ANY fault plans, clock changes,
   revocations; no session or factory is closed (long-lived sessions).  After ANY such history following a successful Encrypt,
   a fault-free Decrypt in ANY live session whose partition id equals the encrypting session's returns exactly the payload:
   no step of it fails - cache hit, stale entry, eviction victim, reload or metastore load - because every key a cache hands
   out is still open (Envelope/Live.v: reference counts against a ghost map of holds) and names the right stored row
   (Envelope/Coherent.v).  Side condition nz_store: no stored row has creation stamp 0, which the key cache reserves for
   "latest" (true of any clock after 1970-01-01T00:00:59Z). *)
From Asherah Require Import Envelope.Live Envelope.Rotation.

Theorem C01_roundtrip_on_live_cached_sessions : forall svc prod h s1 x1 payload faults,
  HInv svc prod h -> HIL svc prod (h_world h) -> nth_error (w_sessions (h_world h)) s1 = Some x1 ->
  match hstep h (HEncrypt s1 payload faults) with
  | (OEnc _ _, _, h1) =>
      forall ops s2 x2, Forall (benignL svc prod) ops ->
        let h2 := snd (hrun h1 ops) in
        nz_store (w_store (h_world h2)) -> nth_error (w_sessions (h_world h2)) s2 = Some x2 -> p_id (ss_part x2) = p_id (ss_part x1) ->
        fst (fst (hstep h2 (HDecrypt s2 (List.length (h_recs h)) [] []))) = ODec (Some payload)
  | _ => True
  end.
Proof. exact encrypt_then_decrypt_live. Qed.
Print Assumptions C01_roundtrip_on_live_cached_sessions.

(* both invariants hold in every state such a history reaches from the empty process *)
Theorem C01_live_invariants_reachable : forall svc prod t0 ops,
  Forall (benignL svc prod) ops -> HInv svc prod (snd (hrun (hinit t0) ops)) /\ HIL svc prod (h_world (snd (hrun (hinit t0) ops))).
Proof. exact live_invariants_reachable. Qed.
Print Assumptions C01_live_invariants_reachable.

(* the premises are met by a history with two partitions, a rotation and an expired system key, and the conclusion is about
   something: in it, session 3 (partition "p") decrypts record 1, written 70 s and one rotation earlier by session 1 *)
Example C01_live_nonvacuous :
  Forall (benignL (s "svc") (s "prod")) Rotation.witness_expiry /\
  nz_storeb (w_store (h_world (snd (hrun (hinit Rotation.t0) Rotation.witness_expiry)))) = true /\
  fst (fst (hstep (snd (hrun (hinit Rotation.t0) Rotation.witness_expiry)) (HDecrypt 3 1 [] []))) = ODec (Some 2%nat).
Proof.
  split; [repeat constructor; cbn; try exact I|]. split; vm_compute; reflexivity.
Qed.

(* ---- the same with Session.Close in the history, for factories whose sessions own no key cache (shared intermediate-key cache, or
   intermediate-key caching off): then Session.Close touches no cache, and any session of the partition - even a closed one -
   decrypts what was encrypted before.  (Per-session key caches that are closed, the session cache and SessionFactory.Close remain
   outside the theorems: C08/C16 models, correspondence, monitors.) *)
From Asherah Require Import Envelope.LiveClose.

Theorem C01_roundtrip_with_session_closes : forall svc prod h s1 x1 payload faults,
  HInv svc prod h -> HILC svc prod (h_world h) -> nth_error (w_sessions (h_world h)) s1 = Some x1 ->
  match hstep h (HEncrypt s1 payload faults) with
  | (OEnc _ _, _, h1) =>
      forall ops s2 x2, Forall (benignC svc prod) ops ->
        let h2 := snd (hrun h1 ops) in
        nz_store (w_store (h_world h2)) -> nth_error (w_sessions (h_world h2)) s2 = Some x2 -> p_id (ss_part x2) = p_id (ss_part x1) ->
        fst (fst (hstep h2 (HDecrypt s2 (List.length (h_recs h)) [] []))) = ODec (Some payload)
  | _ => True
  end.
Proof. exact encrypt_then_decrypt_live_closing. Qed.
Print Assumptions C01_roundtrip_with_session_closes.

Theorem C01_closing_invariants_reachable : forall svc prod t0 ops,
  Forall (benignC svc prod) ops -> HInv svc prod (snd (hrun (hinit t0) ops)) /\ HILC svc prod (h_world (snd (hrun (hinit t0) ops))).
Proof. exact live_invariants_reachable_closing. Qed.
Print Assumptions C01_closing_invariants_reachable.

Example C01_closing_nonvacuous :
  let h := snd (hrun (hinit Rotation.t0) closing_ops) in
  Forall (benignC (s "svc") (s "prod")) closing_ops /\ nz_storeb (w_store (h_world h)) = true /\
  fst (fst (hstep h (HDecrypt 1 0 [] []))) = ODec (Some 5%nat) /\ fst (fst (hstep h (HDecrypt 0 0 [] []))) = ODec (Some 5%nat).
Proof. exact closing_nonvacuous. Qed.

(* ---- the Encrypt half: it cannot fail when no fault is injected.  After ANY history of new factories (any cache policy and capacity),
   sessions, encrypts and decrypts under any fault plans, clock changes and revocations (no closes, no session cache), an unfaulted
   Encrypt in any live session returns a record - whatever the caches hold, whether the keys are found, stale, expired, revoked,
   must be created, or the insert is refused and the duplicate fallback runs (Envelope/Total.v: a no-failure chain through
   key_cache.go and envelope.go on top of the coherence and liveness invariants).  With C01_roundtrip_on_live_cached_sessions that
   record then decrypts to the payload.  Side conditions: no stored row has stamp 0, the operation's own key stamp is not 0. *)
From Asherah Require Import Envelope.Total.

Theorem C01_unfaulted_encrypt_succeeds : forall svc prod t0 ops s x fa payload,
  Forall (benignL svc prod) ops ->
  let h := snd (hrun (hinit t0) ops) in
  let w := h_world h in
  nth_error (w_sessions w) s = Some x -> nth_error (w_factories w) (ss_factory x) = Some fa ->
  nz_store (w_store w) -> new_key_timestamp (w_now w) (p_precision (fa_policy fa)) <> 0 ->
  exists pm c, fst (fst (hstep h (HEncrypt s payload []))) = OEnc pm c.
Proof. exact unfaulted_encrypt_succeeds. Qed.
Print Assumptions C01_unfaulted_encrypt_succeeds.

Example C01_unfaulted_encrypt_nonvacuous :
  let h := snd (hrun (hinit Rotation.t0) Rotation.witness_expiry) in
  Forall (benignL (s "svc") (s "prod")) Rotation.witness_expiry /\ nz_storeb (w_store (h_world h)) = true /\
  (new_key_timestamp (w_now (h_world h)) (p_precision Rotation.pol100) =? 0) = false /\
  match fst (fst (hstep h (HEncrypt 3 9 []))) with OEnc _ _ => True | _ => False end.
Proof. exact unfaulted_encrypt_nonvacuous. Qed.

Theorem C01_unfaulted_encrypt_succeeds_with_session_closes : forall svc prod t0 ops s x fa payload,
  Forall (benignC svc prod) ops ->
  let h := snd (hrun (hinit t0) ops) in
  let w := h_world h in
  nth_error (w_sessions w) s = Some x -> nth_error (w_factories w) (ss_factory x) = Some fa ->
  nz_store (w_store w) -> new_key_timestamp (w_now w) (p_precision (fa_policy fa)) <> 0 ->
  exists pm c, fst (fst (hstep h (HEncrypt s payload []))) = OEnc pm c.
Proof. exact unfaulted_encrypt_succeeds_closing. Qed.
Print Assumptions C01_unfaulted_encrypt_succeeds_with_session_closes.

(* ---- every policy (per-session, shared or no key caches; with or without the session cache): Session.Close destroys the cache the session
   owns - for a session of the session cache once it has been evicted and its last holder has released it; SessionFactory.Close destroys the
   factory's system-key cache and shared intermediate-key cache and empties its session cache (Envelope/LiveD.v: the liveness invariant relative to the set of destroyed
   caches; Envelope/LiveCloseD.v: the closes add caches to that set; cf = factories closed so far) ---- *)
From Asherah Require Envelope.LiveD Envelope.LiveCloseD.

Theorem C01_roundtrip_with_closes_of_sessions_and_factories : forall svc prod cf h s1 x1 payload faults,
  HInv svc prod h -> LiveCloseD.HILD svc prod cf (h_world h) -> nth_error (w_sessions (h_world h)) s1 = Some x1 -> ss_torn x1 = false ->
  ~ In (ss_factory x1) cf ->
  match hstep h (HEncrypt s1 payload faults) with
  | (OEnc _ _, _, h1) =>
      forall ops s2 x2, LiveCloseD.okrun svc prod cf h1 ops ->
        let h2 := snd (hrun h1 ops) in
        LiveD.nz_store (w_store (h_world h2)) -> nth_error (w_sessions (h_world h2)) s2 = Some x2 -> ss_torn x2 = false ->
        ~ In (ss_factory x2) (LiveCloseD.cf_run cf ops) ->
        p_id (ss_part x2) = p_id (ss_part x1) ->
        fst (fst (hstep h2 (HDecrypt s2 (List.length (h_recs h)) [] []))) = ODec (Some payload)
  | _ => True
  end.
Proof. exact LiveCloseD.encrypt_then_decrypt_own_closing. Qed.
Print Assumptions C01_roundtrip_with_closes_of_sessions_and_factories.

Theorem C01_closing_invariants_reachable_all_policies : forall svc prod t0 ops,
  LiveCloseD.okrun svc prod [] (hinit t0) ops ->
  HInv svc prod (snd (hrun (hinit t0) ops)) /\ LiveCloseD.HILD svc prod (LiveCloseD.cf_run [] ops) (h_world (snd (hrun (hinit t0) ops))).
Proof. exact LiveCloseD.closing_invariants_reachable_own. Qed.
Print Assumptions C01_closing_invariants_reachable_all_policies.

Example C01_closes_of_sessions_and_factories_nonvacuous :
  let h := snd (hrun (hinit Rotation.t0) LiveCloseD.own_closing_ops) in
  LiveCloseD.okrun (s "svc") (s "prod") [] (hinit Rotation.t0) LiveCloseD.own_closing_ops /\ LiveCloseD.cf_run [] LiveCloseD.own_closing_ops = [0%nat] /\
  LiveD.nz_storeb (w_store (h_world h)) = true /\
  fst (fst (hstep h (HDecrypt 2 0 [] []))) = ODec (Some 5%nat) /\ fst (fst (hstep h (HDecrypt 2 1 [] []))) = ODec (Some 6%nat) /\
  fst (fst (hstep h (HDecrypt 0 0 [] []))) <> ODec (Some 5%nat).
Proof. exact LiveCloseD.own_closing_nonvacuous. Qed.

Example C01_session_cache_closes_nonvacuous :
  let h := snd (hrun (hinit Rotation.t0) LiveCloseD.cached_closing_ops) in
  LiveCloseD.okrun (s "svc") (s "prod") [] (hinit Rotation.t0) LiveCloseD.cached_closing_ops /\
  LiveD.nz_storeb (w_store (h_world h)) = true /\
  fst (fst (hstep h (HDecrypt 2 0 [] []))) = ODec (Some 5%nat) /\
  fst (fst (hstep h (HDecrypt 0 0 [] []))) <> ODec (Some 5%nat).
Proof. exact LiveCloseD.cached_closing_nonvacuous. Qed.

From Asherah Require Envelope.TotalD.

Theorem C01_unfaulted_encrypt_succeeds_with_closes_of_sessions_and_factories : forall svc prod t0 ops s x fa payload,
  LiveCloseD.okrun svc prod [] (hinit t0) ops ->
  let h := snd (hrun (hinit t0) ops) in
  let w := h_world h in
  nth_error (w_sessions w) s = Some x -> ss_torn x = false -> ~ In (ss_factory x) (LiveCloseD.cf_run [] ops) ->
  nth_error (w_factories w) (ss_factory x) = Some fa ->
  LiveD.nz_store (w_store w) -> new_key_timestamp (w_now w) (p_precision (fa_policy fa)) <> 0%Z ->
  exists pm c, fst (fst (hstep h (HEncrypt s payload []))) = OEnc pm c.
Proof. exact TotalD.unfaulted_encrypt_succeeds_own_closing. Qed.
Print Assumptions C01_unfaulted_encrypt_succeeds_with_closes_of_sessions_and_factories.

Example C01_unfaulted_encrypt_after_closes_nonvacuous :
  let h := snd (hrun (hinit Rotation.t0) LiveCloseD.own_closing_ops) in
  LiveD.nz_storeb (w_store (h_world h)) = true /\
  (new_key_timestamp (w_now (h_world h)) (p_precision Rotation.pol100) =? 0)%Z = false /\
  match fst (fst (hstep h (HEncrypt 2 9 []))) with OEnc _ _ => True | _ => False end.
Proof. exact TotalD.unfaulted_encrypt_own_closing_nonvacuous. Qed.
