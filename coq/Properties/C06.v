(* C06 — Partition isolation.  Only property statements here; each closed with [exact]. *)
From Asherah Require Import Base.Str Envelope.Partition Envelope.PartitionProofs Envelope.Session Envelope.Local.

(* Full statement for sessions without a region suffix: for ALL strings p, q, svc, prod
   (underscores, embedded service/product names, empty pieces included), the guard that
   DecryptDataRowRecord applies accepts q's intermediate-key id iff p = q. *)
Theorem C06_isolation_default : forall p q svc prod,
  is_valid_ik_id (new_partition p svc prod None) (ik_id_default q svc prod) = true <-> p = q.
Proof. exact default_guard_exact. Qed.
Print Assumptions C06_isolation_default.

Theorem C06_default_rejects_other_ids : forall p id svc prod,
  id <> ik_id_default p svc prod -> is_valid_ik_id (new_partition p svc prod None) id = false.
Proof. exact default_guard_rejects. Qed.
Print Assumptions C06_default_rejects_other_ids.

(* Region-suffixed sessions: the guard is a prefix match.  Exact characterisation ... *)
Theorem C06_suffixed_guard_exact : forall p svc prod c suf id,
  suffixed_guard p svc prod (c :: suf) id = true <-> exists t, id = ik_id_default p svc prod ++ t.
Proof. exact suffixed_guard_iff. Qed.
Print Assumptions C06_suffixed_guard_exact.

(* ... hence isolation holds only outside the prefix relation (partial) ... *)
Theorem C06_isolation_suffixed_partial : forall p svc prod c suf id,
  prefixb (ik_id_default p svc prod) id = false -> suffixed_guard p svc prod (c :: suf) id = false.
Proof. exact suffixed_isolation_partial. Qed.
Print Assumptions C06_isolation_suffixed_partial.

(* ... and the full statement is refuted for suffixed sessions (known finding B). *)
Theorem C06_isolation_suffixed_refuted :
  let svc := s "svc" in let prod := s "prod" in let suf := s "us-west-2" in
  let p := s "a" in let q := s "a_svc_prod_x" in
  p <> q /\ suffixed_guard p svc prod suf (ik_id_suffixed q svc prod suf) = true.
Proof. exact suffixed_collision. Qed.
Print Assumptions C06_isolation_suffixed_refuted.

Theorem C06_suffixed_collision_family : forall p svc prod c suf t,
  suffixed_guard p svc prod (c :: suf)
    (ik_id_suffixed (p ++ us ++ svc ++ us ++ prod ++ t) svc prod (c :: suf)) = true.
Proof. exact suffixed_collision_general. Qed.
Print Assumptions C06_suffixed_collision_family.

Theorem C06_empty_partition_refused : get_session_ok [] = false.
Proof. exact get_session_refuses_empty. Qed.
Print Assumptions C06_empty_partition_refused.

(* at the API of the envelope model: a record naming a key id the guard rejects is refused before any cache,
   metastore or KMS is touched - whatever the cache state and the rest of the record *)
Theorem C06_foreign_refused_at_api : forall e r key pm w,
  d_key r = Some key -> e_parent key = Some pm -> is_valid_ik_id (en_part e) (km_id pm) = false ->
  decrypt_data_row_record e r w = (inl ErrInvalid, w).
Proof. exact decrypt_foreign_refused. Qed.
Print Assumptions C06_foreign_refused_at_api.
