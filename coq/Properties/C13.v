(* C13 - every metastore is an insert-only, read-your-writes key table.  The specification's properties hold for every
   table and operation; the DynamoDB-style adapter model refines the specification for EVERY operation sequence and
   EVERY staleness oracle precisely because it asks for strong consistency, makes the put conditional and scans
   backwards.  The four implementations are tied to the specification by differential execution over semantic fakes
   (a non-consistent read is served from the state before the last write; an unconditional put overwrites). *)
From Asherah Require Import Metastore.Table Metastore.TableProofs.
From Coq Require Import List ZArith.
Import ListNotations.
Open Scope Z_scope.

Theorem C13_store_never_changes_existing_rows : forall t id c r id' c' x,
  t_find id' c' t = Some x -> t_find id' c' (fst (spec_step t (MStore id c r))) = Some x.
Proof. exact spec_store_preserves. Qed.
Print Assumptions C13_store_never_changes_existing_rows.

Theorem C13_store_inserts_iff_absent_and_reads_back : forall t id c r,
  snd (spec_step t (MStore id c r)) = OBool (match t_find id c t with Some _ => false | None => true end) /\
  (t_find id c t = None -> t_find id c (fst (spec_step t (MStore id c r))) = Some r).
Proof. exact spec_store_result. Qed.
Print Assumptions C13_store_inserts_iff_absent_and_reads_back.

Theorem C13_load_latest_is_greatest : forall t id k r,
  t_latest id t None = Some (k, r) -> forall c x, t_find id c t = Some x -> c <= k.
Proof. exact spec_latest_is_greatest. Qed.
Print Assumptions C13_load_latest_is_greatest.

Theorem C13_dynamodb_adapters_refine_spec_under_any_staleness : forall ops b oracle,
  dyn_run good_flags b oracle ops = spec_run (b_now b) ops.
Proof. exact dyn_refines_spec. Qed.
Print Assumptions C13_dynamodb_adapters_refine_spec_under_any_staleness.
