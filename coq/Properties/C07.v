(* C07 - decrypt yields the original plaintext or an error.  For EVERY record value whatsoever (modified,
   spliced, junk, nil fields), every world and every fault plan: if DecryptDataRowRecord returns a plaintext then
   the record passed the partition guard, its encrypted key is a genuine seal of some data key under the
   intermediate key's material and its Data is a genuine seal of exactly the returned plaintext under exactly
   that data key.  With C03 (a data key seals one payload) the plaintext is the payload originally encrypted.
   Partial: absence of Go panics is decided by the harness (recover) and the correspondence; the symbolic AEAD
   (a modified ciphertext opens under no key) is the cryptographic assumption. *)
From Asherah Require Import Envelope.Session Envelope.Local.

Theorem C07_decrypt_authentic : forall e r w p w',
  decrypt_data_row_record e r w = (inr p, w') ->
  exists key pm ikm drk n1 n2,
    d_key r = Some key /\ e_parent key = Some pm /\ is_valid_ik_id (en_part e) (km_id pm) = true /\
    e_key key = CAead ikm n1 (PKey drk) /\ d_data r = CAead drk n2 p.
Proof. exact decrypt_authentic. Qed.
Print Assumptions C07_decrypt_authentic.

Theorem C07_modified_ciphertexts_rejected : forall ik key data w p w',
  decrypt_row ik key data w = (inr p, w') ->
  exists ikm drk n1 n2, e_key key = CAead ikm n1 (PKey drk) /\ data = CAead drk n2 p.
Proof. exact decrypt_row_authentic. Qed.
Print Assumptions C07_modified_ciphertexts_rejected.
