(* C11 - secure memory protocol.  The kernel's mlock/mprotect/munmap effects are modelled by a page record (mapped, locked,
   protection, holds-secret); what is proved is that the Go code drives them correctly.
   Sequential: nested readers to ANY depth see the secret read-only and leave the pages no-access; Close wipes before it
   unlocks and unmaps; a closed secret answers every access with the closed error and touches no page.
   Concurrent: ANY number of readers and closers under ANY schedule - no callback ever touches unmapped, no-access or wiped
   pages, protection is no-access exactly when no reader is inside, close() completes at most once. *)
From Asherah Require Import Base.Conc SecureMem.Secret SecureMem.SecretProofs SecureMem.SecretConc.
From Coq Require Import List ZArith.
Import ListNotations.
Open Scope Z_scope.

Theorem C11_readers_see_secret_and_leave_no_access : forall depth e s,
  Live s -> st_counter s = 0 -> st_closing s = false ->
  let '(r, seen, s') := with_bytes [] depth e s in
  seen = true /\ Live s' /\ st_counter s' = 0 /\ pg_prot (st_pages s') = PNone /\ r = (if e then RErr else ROk).
Proof. exact readers_see_secret_and_leave_no_access. Qed.
Print Assumptions C11_readers_see_secret_and_leave_no_access.

Theorem C11_created_secret_is_locked_and_inaccessible : forall size r s,
  op_new [] size = (r, s) -> 1 <= size -> r = ROk /\ Live s /\ pg_prot (st_pages s) = PNone /\ clean_trace s.
Proof. exact created_secret_is_locked_and_inaccessible. Qed.
Print Assumptions C11_created_secret_is_locked_and_inaccessible.

Theorem C11_close_wipes_unlocks_unmaps : forall s r s',
  Live s -> st_counter s = 0 -> op_close [] (begin s) = (r, s') -> r = ROk /\ Gone s' /\ clean_trace s'.
Proof. exact close_wipes_unlocks_unmaps. Qed.
Print Assumptions C11_close_wipes_unlocks_unmaps.

Theorem C11_closed_secret_rejects_access : forall plan depth e s,
  st_closed s = true \/ st_closing s = true -> with_bytes plan depth e (begin s) = (RClosed, true, begin s).
Proof. exact closed_secret_rejects_access. Qed.
Print Assumptions C11_closed_secret_rejects_access.

Theorem C11_readers_and_closers_never_fault : forall ls sched,
  (forall l, In l ls -> l = RStart \/ l = CStart) ->
  let '(g, ls') := run tstep sched g0 ls in
  g_fault g = false /\ g_closes g <= 1 /\
  (g_closed g = false -> (g_cnt g = 0 -> g_prot g = PNone) /\ (0 < g_cnt g -> g_prot g = PRO) /\ g_mapped g = true) /\
  (g_closed g = true -> g_mapped g = false /\ g_cnt g = 0).
Proof. exact readers_and_closers_never_fault. Qed.
Print Assumptions C11_readers_and_closers_never_fault.
