(* C12 - secure memory under syscall failures.  For EVERY fault plan (any set of failing primitive calls, not just one or
   two): creation returns a fully protected secret or an error, never a degraded secret; after a failed creation the pages
   are wiped, and are unlocked and unmapped unless the corresponding cleanup primitive itself failed; on every path secret
   bytes are zeroed before Unlock / Free; a failed attempt to open the secret changes neither reader count nor pages; a failed
   Close leaves the secret closable and a retry without faults completes it. *)
From Asherah Require Import SecureMem.Secret SecureMem.SecretProofs.
From Coq Require Import List ZArith.
Import ListNotations.
Open Scope Z_scope.

Theorem C12_new_under_every_fault_plan : forall plan size r s,
  op_new plan size = (r, s) ->
  clean_trace s /\
  match r with
  | ROk => Live s /\ st_counter s = 0 /\ st_closing s = false
  | RInvalid => size < 1 /\ s = fresh
  | _ => Scrubbed s
  end.
Proof. exact create_new_all_faults. Qed.
Print Assumptions C12_new_under_every_fault_plan.

Theorem C12_create_random_under_every_fault_plan : forall plan size r s,
  op_create_random plan size = (r, s) ->
  clean_trace s /\
  match r with
  | ROk => Live s /\ st_counter s = 0 /\ st_closing s = false
  | RInvalid => size < 1 /\ s = fresh
  | _ => Scrubbed s
  end.
Proof. exact create_random_all_faults. Qed.
Print Assumptions C12_create_random_under_every_fault_plan.

Theorem C12_failed_access_changes_nothing : forall plan s s',
  Live s -> st_closing s = false -> access plan s = (RErr, s') ->
  st_counter s' = st_counter s /\ st_pages s' = st_pages s /\ Live s' /\ st_closing s' = false.
Proof. exact access_failure_changes_nothing. Qed.
Print Assumptions C12_failed_access_changes_nothing.

Theorem C12_close_under_every_fault_plan : forall plan s r s',
  Live s -> st_counter s = 0 -> op_close plan (begin s) = (r, s') ->
  clean_trace s' /\
  match r with
  | ROk => Gone s'
  | _ => st_closed s' = false /\ st_counter s' = 0 /\ exists s'', op_close [] (begin s') = (ROk, s'') /\ Gone s'' /\ clean_trace s''
  end.
Proof. exact close_all_faults. Qed.
Print Assumptions C12_close_under_every_fault_plan.
