(* C16 - cached sessions are shared, stay usable while held, are torn down exactly once.  Model: SessionCache/SessCacheConc.v.
   For ANY number of goroutines and partitions, ANY schedule of Get / use / Close / Remove-goroutine / factory-Close steps, and
   ANY set of entries evicted at each miss (every policy, every capacity >= 1, expiry included as eviction): no holder ever uses
   a session whose underlying encryption was closed; the usage counter equals the number of holders; the underlying Close of a
   session happens at most once, only after it left the cache and its last holder closed it; a session is cached under at most
   one partition id (callers of a cached id share it).  Partial in the same sense as C08 (interleavings of lock-delimited
   blocks); tied to the code by controlled schedules of real goroutines. *)
From Asherah Require Import Base.Conc SessionCache.SessCacheConc SessionCache.SessCacheProofs.
From Coq Require Import List ZArith.
Import ListNotations.
Open Scope Z_scope.

Theorem C16_sessions_safe : forall n sched,
  let st := run sched g0 (repeat Idle n) in
  bad (fst st) = false /\
  (forall s x, nth_error (sessions (fst st)) s = Some x ->
     nclosed x <= 1 /\ usage x = sumf (holds s) (snd st) /\ (0 < nclosed x -> usage x = 0 /\ evicted x = true)) /\
  (forall a b s, cache (fst st) a = Some s -> cache (fst st) b = Some s -> a = b).
Proof. exact sessions_safe. Qed.
Print Assumptions C16_sessions_safe.

(* non-vacuity: capacity-1 style history - thread 0 holds partition 0 while thread 1's miss on partition 1 evicts it; the Remove
   goroutine cannot close it until thread 0 closes; afterwards it is closed exactly once *)
Example C16_eviction_while_held :
  let st := run [AGet 0%nat 0%nat []; AGet 1%nat 1%nat [0%nat]; ARemove 0%nat; AUse 0%nat; AClose 0%nat; ARemove 0%nat; ARemove 0%nat] g0 [Idle; Idle] in
  bad (fst st) = false /\ map nclosed (sessions (fst st)) = [1; 0].
Proof. vm_compute. split; reflexivity. Qed.
