(* C09 - protected key memory is released.
   PROVED for every world, payload and fault plan: whatever Encrypt returns (record or error), the secret it
   allocated for the data key is closed when it returns (C09_data_key_released); for every history, no SDK
   operation ever reopens a released secret or changes a secret's content, and key objects keep their secret
   (C09_secrets_monotone).
   The full accounting statement (every secret released exactly once after Close) is REFUTED on the faithful model:
   known finding C09-J, witness below; everything else about accounting is decided by the trace correspondence. *)
From Asherah Require Import Envelope.Session Envelope.Frame Envelope.Local Envelope.FrameInst Envelope.Rotation.

Theorem C09_data_key_released : forall e payload w r w' ik w1,
  get_or_load_latest (en_ik e) (p_rci (en_pol e)) (p_expire (en_pol e)) (ik_id e)
                     (fun m => load_latest_or_create_intermediate_key e (km_id m)) w = (inr ik, w1) ->
  encrypt_payload e payload w = (r, w') ->
  forall sc, nth_error (w_secrets w') (length (w_secrets w1)) = Some sc -> s_closed sc = true.
Proof. exact encrypt_releases_data_key. Qed.
Print Assumptions C09_data_key_released.

Theorem C09_secrets_monotone : forall h o, sdk_op o = true ->
  secrets_mono (h_world h) (h_world (snd (hstep h o))).
Proof. exact sdk_secrets_monotone. Qed.
Print Assumptions C09_secrets_monotone.

Theorem C09_accounting_refuted_parent_mismatch :
  live_secrets (h_world (snd (hrun (hinit t0) witness_leak))) <> [].
Proof. exact C09_refuted_parent_mismatch_leak. Qed.
Print Assumptions C09_accounting_refuted_parent_mismatch.
