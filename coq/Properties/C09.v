(* C09 - protected key memory is released.
   PROVED for every world, payload and fault plan: whatever Encrypt returns (record or error), the secret it
   allocated for the data key is closed when it returns (C09_data_key_released); for every history, no SDK
   operation ever reopens a released secret or changes a secret's content, and key objects keep their secret
   (C09_secrets_monotone).
   PROVED over all histories, for sessions with key caching disabled (C09_nocache_decrypt_releases_everything): whatever a
   Decrypt does - any record, any tampering, any fault plan, success or failure - every secret it allocated (system key,
   intermediate key) is closed when it returns, and no secret or key object that existed before the call is touched
   (Envelope/Release.v: ownership invariant with exact reference counts through loadSystemKey / getOrLoadSystemKey /
   intermediateKeyFromEKR / loadIntermediateKey / decryptRow and their deferred Closes).
   The full accounting statement (every secret released exactly once after Close) is REFUTED on the faithful model:
   known finding C09-J, witness below; everything else about accounting is decided by the trace correspondence. *)
From Asherah Require Import Envelope.Session Envelope.Frame Envelope.Local Envelope.FrameInst Envelope.Rotation.

Theorem C09_data_key_released : forall e payload w r w' ik w1,
  get_or_load_latest (en_ik e) (p_rci (en_pol e)) (p_expire (en_pol e)) (ik_id e)
                     (fun m => load_latest_or_create_intermediate_key e (km_id m)) w = (inr ik, w1) ->
  encrypt_payload e payload w = (r, w') ->
  forall sc, nth_error (w_secrets w') (length (w_secrets w1)) = Some sc -> s_closed sc = true.
Proof. exact encrypt_releases_data_key. Qed.
Print Assumptions C09_data_key_released.

Theorem C09_secrets_monotone : forall h o, sdk_op o = true ->
  secrets_mono (h_world h) (h_world (snd (hstep h o))).
Proof. exact sdk_secrets_monotone. Qed.
Print Assumptions C09_secrets_monotone.

Theorem C09_accounting_refuted_parent_mismatch :
  live_secrets (h_world (snd (hrun (hinit t0) witness_leak))) <> [].
Proof. exact C09_refuted_parent_mismatch_leak. Qed.
Print Assumptions C09_accounting_refuted_parent_mismatch.

From Asherah Require Import Envelope.Coherent Envelope.Release.

Theorem C09_nocache_decrypt_releases_everything : forall svc prod t0 ops s rec muts faults,
  Forall (benign svc prod) ops ->
  let h := snd (hrun (hinit t0) ops) in
  (forall x fa, nth_error (w_sessions (h_world h)) s = Some x -> nth_error (w_factories (h_world h)) (ss_factory x) = Some fa ->
                fa_sk fa = None /\ ss_ik x = None) ->
  let w := h_world h in
  let w' := h_world (snd (hstep h (HDecrypt s rec muts faults))) in
  (forall sid, (sid < List.length (w_secrets w))%nat -> nth_error (w_secrets w') sid = nth_error (w_secrets w) sid) /\
  (forall sid sc, (List.length (w_secrets w) <= sid)%nat -> nth_error (w_secrets w') sid = Some sc -> s_closed sc = true) /\
  (forall k, (k < List.length (w_kobjs w))%nat -> nth_error (w_kobjs w') k = nth_error (w_kobjs w) k).
Proof. exact nocache_decrypt_releases_everything. Qed.
Print Assumptions C09_nocache_decrypt_releases_everything.

(* the premise holds for a session of a factory whose policy disables key caching, and the Decrypt there allocates two secrets *)
Example C09_nocache_nonvacuous :
  let h := snd (hrun (hinit Rotation.t0) nocache_ops) in
  Forall (benign (s "svc") (s "prod")) nocache_ops /\ premise_b h 0 = true /\
  fst (fst (hstep h (HDecrypt 0 0 [] []))) = ODec (Some 7%nat) /\
  List.length (w_secrets (h_world (snd (hstep h (HDecrypt 0 0 [] []))))) = (List.length (w_secrets (h_world h)) + 2)%nat.
Proof. exact nocache_nonvacuous. Qed.

(* the same for Encrypt, which creates and stores keys: every secret the call allocated is closed when it returns - except at most
   ONE, the system key that known finding C09-J leaks on a parent mismatch in the duplicate fallback; nothing older is touched *)
Theorem C09_nocache_encrypt_releases_all_but_one : forall svc prod t0 ops s payload faults,
  Forall (benign svc prod) ops ->
  let h := snd (hrun (hinit t0) ops) in
  (forall x fa, nth_error (w_sessions (h_world h)) s = Some x -> nth_error (w_factories (h_world h)) (ss_factory x) = Some fa ->
                fa_sk fa = None /\ ss_ik x = None) ->
  let w := h_world h in
  let w' := h_world (snd (hstep h (HEncrypt s payload faults))) in
  (forall sid, (sid < List.length (w_secrets w))%nat -> nth_error (w_secrets w') sid = nth_error (w_secrets w) sid) /\
  (exists leak : list nat, (List.length leak <= 1)%nat /\
     forall sid sc, (List.length (w_secrets w) <= sid)%nat -> nth_error (w_secrets w') sid = Some sc -> s_closed sc = true \/ In sid leak) /\
  (forall k, (k < List.length (w_kobjs w))%nat -> nth_error (w_kobjs w') k = nth_error (w_kobjs w) k).
Proof. exact nocache_encrypt_releases_all_but_one. Qed.
Print Assumptions C09_nocache_encrypt_releases_all_but_one.

Example C09_nocache_encrypt_leaves_nothing :
  live_secrets (h_world (snd (hrun (hinit Rotation.t0) (nocache_ops ++ [HEncrypt 0 8 []])))) = [].
Proof. exact nocache_encrypt_leaves_nothing. Qed.
