(* C09 - property statements (theorems are being added) *)
From Asherah Require Import Envelope.Session.
