(* C03 - envelope discipline.  For EVERY world (any caches, store, fault plan) and every payload: a successful
   Encrypt returns Data = seal(payload) under a data key that no secret existing before the call held, with a
   nonce not used before the call, and Key = seal(that very data key) under the intermediate key's material with
   the next nonce; the record names this partition's intermediate-key id.  (Uniqueness of crypto/rand output is
   the model's supply, i.e. an assumption; what is proved is that the code asks for a fresh key and nonce and
   wraps the data key nowhere else.) *)
From Asherah Require Import Envelope.Session Envelope.Frame Envelope.Local Envelope.FrameInst.

Theorem C03_fresh_data_key : forall e payload w d w',
  encrypt_payload e payload w = (inr d, w') ->
  exists ek ikm c drk n,
    d_key d = Some ek /\ e_key ek = CAead ikm (S n) (PKey drk) /\ d_data d = CAead drk n payload /\
    e_parent ek = Some {| km_id := ik_id e; km_created := c |} /\
    (length (w_secrets w) <= drk)%nat /\ (w_nonce w <= n)%nat.
Proof. exact encrypt_fresh_data_key. Qed.
Print Assumptions C03_fresh_data_key.

(* the nonce counter never goes back in any SDK operation of any history: no (key, nonce) pair repeats *)
Theorem C03_nonce_monotone : forall h o, sdk_op o = true ->
  (w_nonce (h_world h) <= w_nonce (h_world (snd (hstep h o))))%nat.
Proof. exact sdk_nonce_monotone. Qed.
Print Assumptions C03_nonce_monotone.
