(* C02 - a record is handed out only once its key chain is durable.
   FULL STATEMENT (decided by exhaustive-style fault enumeration + correspondence today): at every EncryptRet(Ok r),
   under every fault plan, the IK row r names and its SK row are in the store and a fresh process decrypts r.
   PROVED here (partial): for every history and every SDK operation, under every fault plan, the store only grows
   by appending rows at absent keys - no row is ever modified, removed or duplicated (so durability, once
   established, is permanent and a crash after any operation leaves a well-formed store). *)
From Asherah Require Import Envelope.Session Envelope.Frame Envelope.FrameInst.

Theorem C02_store_append_only_partial : forall h o, sdk_op o = true ->
  (exists ext, w_store (h_world (snd (hstep h o))) = w_store (h_world h) ++ ext) /\
  (NoDup (store_keys (w_store (h_world h))) -> NoDup (store_keys (w_store (h_world (snd (hstep h o)))))).
Proof. exact sdk_store_append_only. Qed.
Print Assumptions C02_store_append_only_partial.
