(* C02 - a record is handed out only once its key chain is durable.
   PROVED (Envelope/Coherent.v), for EVERY history of SDK operations (new factories with any cache policies, sessions of any
   partitions, Encrypt/Decrypt with any fault plan on any boundary call - errors, false "already exists", errors after the
   write -, any record mutation on Decrypt, session and factory closes), clock advances and key revocations over one
   service/product with default (unsuffixed) key ids:
   - every record any Encrypt has returned names an intermediate key row that IS in the metastore, whose ParentKeyMeta names a
     system key row that IS in the metastore, the data key is sealed under exactly that intermediate key's material and the
     payload under that data key (C02_records_durable; C02_encrypt_returns_genuine ties the record to THIS payload), so the
     metastore contents and the KMS open it;
   - the metastore only ever holds well-formed rows (C02_store_well_formed) and only grows (C02_store_append_only).
   The proof is an invariant over the whole process state (cache coherence: every key object a key cache can hand out is bound
   to the row it is cached under) carried through every function of key_cache.go, envelope.go, session.go, session_cache.go.
   NOT covered by these theorems: region-suffixed factories (known finding C06-B lives there), several services/products in
   one metastore, hostile metastore writes (C07's subject); "once the faults stop the next operation succeeds" is decided by
   the monitor (and by C01's theorems for the cache-less configuration). *)
From Asherah Require Import Envelope.Session Envelope.Frame Envelope.FrameInst Envelope.Create Envelope.Coherent Envelope.FreshProcess Envelope.Rotation.

Theorem C02_records_durable : forall svc prod t0 ops,
  Forall (benign svc prod) ops ->
  let h := snd (hrun (hinit t0) ops) in
  forall j d, nth_error (h_recs h) j = Some d -> exists pid p, genuine svc prod (w_store (h_world h)) pid d p.
Proof. exact records_durable. Qed.
Print Assumptions C02_records_durable.

Theorem C02_encrypt_returns_genuine : forall svc prod h s payload faults,
  HInv svc prod h ->
  match hstep h (HEncrypt s payload faults) with
  | (OEnc _ _, _, h') =>
      exists d pid, h_recs h' = h_recs h ++ [d] /\ genuine svc prod (w_store (h_world h')) pid d (PPayload payload)
  | _ => True
  end.
Proof. exact encrypt_returns_genuine. Qed.
Print Assumptions C02_encrypt_returns_genuine.

Theorem C02_store_well_formed : forall svc prod t0 ops,
  Forall (benign svc prod) ops -> store_ok svc prod (w_store (h_world (snd (hrun (hinit t0) ops)))).
Proof. exact store_well_formed. Qed.
Print Assumptions C02_store_well_formed.

(* "a fresh process holding only the metastore contents and the KMS can decrypt the record": a process with empty tables and
   caching disabled, on the metastore as it is after ANY history, opens every record ever returned *)
Theorem C02_fresh_process_decrypts : forall svc prod t0 ops now pol,
  Forall (benign svc prod) ops ->
  let h := snd (hrun (hinit t0) ops) in
  forall j d, nth_error (h_recs h) j = Some d ->
    exists pid p, fst (decrypt_data_row_record (nocache_env svc prod pid pol) d (fresh_world (w_store (h_world h)) now)) = inr p.
Proof. exact every_record_decrypts_in_a_fresh_process. Qed.
Print Assumptions C02_fresh_process_decrypts.

(* the hypotheses are met and the conclusion is about something: a history with rotation, a faulted encrypt and three records *)
Example C02_nonvacuous :
  Forall (benign (s "svc") (s "prod")) (witness_expiry ++ [HEncrypt 3 5 [(2%nat, FErr)]; HRevoke (s "_SK_svc_prod") (1790000000); HEncrypt 3 6 []]) /\
  length (h_recs (snd (hrun (hinit t0) (witness_expiry ++ [HEncrypt 3 5 [(2%nat, FErr)]; HRevoke (s "_SK_svc_prod") (1790000000); HEncrypt 3 6 []])))) = 5%nat.
Proof.
  split; [|vm_compute; reflexivity].
  repeat constructor; cbn; try exact I.
Qed.

Theorem C02_store_append_only : forall h o, sdk_op o = true ->
  (exists ext, w_store (h_world (snd (hstep h o))) = w_store (h_world h) ++ ext) /\
  (NoDup (store_keys (w_store (h_world h))) -> NoDup (store_keys (w_store (h_world (snd (hstep h o)))))).
Proof. exact sdk_store_append_only. Qed.
Print Assumptions C02_store_append_only.

(* under every fault plan (error, false duplicate, error-after-write on any call): a freshly generated intermediate key is
   handed out only if its row is in the store at that moment; otherwise its secret is released before the call returns *)
Theorem C02_generated_key_persisted_or_discarded : forall e sk w r w',
  create_ik_with_sk e sk w = (r, w') ->
  forall sc, nth_error (w_secrets w') (length (w_secrets w)) = Some sc ->
    s_closed sc = true \/
    (exists ik o, r = inr ik /\ nth_error (w_kobjs w') ik = Some o /\ ko_secret o = length (w_secrets w) /\
                  exists row, store_find (ik_id e) (ko_created o) (w_store w') = Some row).
Proof. exact created_ik_persisted_or_discarded. Qed.
Print Assumptions C02_generated_key_persisted_or_discarded.

(* "once the faults stop the next operation succeeds": the history below may contain any number of faulted operations (any fault
   plans: failed, refused, half-applied writes, failed KMS/AEAD/allocator calls); the next unfaulted Encrypt returns a record -
   which, by C02_encrypt_returns_genuine, names stored keys. *)
From Asherah Require Import Envelope.Live Envelope.Total.

Theorem C02_once_the_faults_stop_encrypt_succeeds : forall svc prod t0 ops s x fa payload,
  Forall (benignL svc prod) ops ->
  let h := snd (hrun (hinit t0) ops) in
  let w := h_world h in
  nth_error (w_sessions w) s = Some x -> nth_error (w_factories w) (ss_factory x) = Some fa ->
  nz_store (w_store w) -> new_key_timestamp (w_now w) (p_precision (fa_policy fa)) <> 0 ->
  exists pm c, fst (fst (hstep h (HEncrypt s payload []))) = OEnc pm c.
Proof. exact unfaulted_encrypt_succeeds. Qed.
Print Assumptions C02_once_the_faults_stop_encrypt_succeeds.

(* the same for every key-cache policy with Session.Close (which destroys the closing session's own key cache) and SessionFactory.Close
   (which destroys the factory's caches) in the history: once the faults stop, the next Encrypt on an open session of an open factory succeeds *)
From Asherah Require Envelope.LiveD Envelope.LiveCloseD Envelope.TotalD.

Theorem C02_once_the_faults_stop_encrypt_succeeds_with_closes : forall svc prod t0 ops s x fa payload,
  LiveCloseD.okrun svc prod [] (hinit t0) ops ->
  let h := snd (hrun (hinit t0) ops) in
  let w := h_world h in
  nth_error (w_sessions w) s = Some x -> ss_torn x = false -> ~ In (ss_factory x) (LiveCloseD.cf_run [] ops) ->
  nth_error (w_factories w) (ss_factory x) = Some fa ->
  LiveD.nz_store (w_store w) -> new_key_timestamp (w_now w) (p_precision (fa_policy fa)) <> 0%Z ->
  exists pm c, fst (fst (hstep h (HEncrypt s payload []))) = OEnc pm c.
Proof. exact TotalD.unfaulted_encrypt_succeeds_own_closing. Qed.
Print Assumptions C02_once_the_faults_stop_encrypt_succeeds_with_closes.
