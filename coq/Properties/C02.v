(* C02 - a record is handed out only once its key chain is durable.
   FULL STATEMENT (decided by exhaustive-style fault enumeration + correspondence today): at every EncryptRet(Ok r),
   under every fault plan, the IK row r names and its SK row are in the store and a fresh process decrypts r.
   PROVED here (partial): for every history and every SDK operation, under every fault plan, the store only grows
   by appending rows at absent keys - no row is ever modified, removed or duplicated (so durability, once
   established, is permanent and a crash after any operation leaves a well-formed store). *)
From Asherah Require Import Envelope.Session Envelope.Frame Envelope.FrameInst Envelope.Create.

Theorem C02_store_append_only_partial : forall h o, sdk_op o = true ->
  (exists ext, w_store (h_world (snd (hstep h o))) = w_store (h_world h) ++ ext) /\
  (NoDup (store_keys (w_store (h_world h))) -> NoDup (store_keys (w_store (h_world (snd (hstep h o)))))).
Proof. exact sdk_store_append_only. Qed.
Print Assumptions C02_store_append_only_partial.

(* under every fault plan (error, false duplicate, error-after-write on any call): a freshly generated intermediate key is
   handed out only if its row is in the store at that moment; otherwise its secret is released before the call returns *)
Theorem C02_generated_key_persisted_or_discarded : forall e sk w r w',
  create_ik_with_sk e sk w = (r, w') ->
  forall sc, nth_error (w_secrets w') (length (w_secrets w)) = Some sc ->
    s_closed sc = true \/
    (exists ik o, r = inr ik /\ nth_error (w_kobjs w') ik = Some o /\ ko_secret o = length (w_secrets w) /\
                  exists row, store_find (ik_id e) (ko_created o) (w_store w') = Some row).
Proof. exact created_ik_persisted_or_discarded. Qed.
Print Assumptions C02_generated_key_persisted_or_discarded.
