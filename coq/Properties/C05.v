(* C05 - revocation takes effect within the revoke-check interval.
   PROVED (partial): the key handed out for new data passed the revoked check (on the cached flag, which every
   reload refreshes from the metastore row) at the current time, or is the loader's answer of this call
   (C05_latest_key_checked); a cached key whose flag says revoked is never considered fresh-and-valid (C20_fresh_means
   + is_key_invalid).
   REFUTED on the faithful model (known finding C05-IK): the two-interval bound for a revoked system key fails when a
   decrypt-path load refreshed / installed the entry (C05_bound_refuted, a computed history). *)
From Asherah Require Import Envelope.Session Envelope.Frame Envelope.FrameInst Envelope.Rotation.

Theorem C05_latest_key_checked : forall cid rci ex id loader w k w',
  (forall x, pres now_same (loader x)) ->
  get_or_load_latest (Some cid) rci ex id loader w = (inr k, w') ->
  (exists w1 w2, is_key_invalid k ex w1 = (inr false, w2) /\ w_now w1 = w_now w) \/
  (exists w1 w2, loader {| km_id := id; km_created := 0 |} w1 = (inr k, w2) /\ w_now w1 = w_now w).
Proof. exact latest_key_checked. Qed.
Print Assumptions C05_latest_key_checked.

Theorem C05_bound_refuted :
  last_enc_parent witness_revocation = Some (t0 / sec) /\ nth_enc_parent 7 witness_revocation = Some (t0 / sec + 85).
Proof. exact C05_refuted_by_decrypt_refresh. Qed.
Print Assumptions C05_bound_refuted.
