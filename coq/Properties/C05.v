(* C05 - revocation takes effect within the revoke-check interval.
   PROVED (partial): the key handed out for new data passed the revoked check (on the cached flag, which every
   reload refreshes from the metastore row) at the current time, or is the loader's answer of this call
   (C05_latest_key_checked); a cached key whose flag says revoked is never considered fresh-and-valid (C20_fresh_means
   + is_key_invalid).
   REFUTED on the faithful model (known finding C05-IK): the two-interval bound for a revoked system key fails when a
   decrypt-path load refreshed / installed the entry (C05_bound_refuted, a computed history), and in the duplicate fallback of
   createIntermediateKey (known finding C05-DUP, C05_duplicate_fallback_refuted). *)
From Asherah Require Import Envelope.Session Envelope.Frame Envelope.FrameInst Envelope.Rotation.

Theorem C05_latest_key_checked : forall cid rci ex id loader w k w',
  (forall x, pres now_same (loader x)) ->
  get_or_load_latest (Some cid) rci ex id loader w = (inr k, w') ->
  (exists w1 w2, is_key_invalid k ex w1 = (inr false, w2) /\ w_now w1 = w_now w) \/
  (exists w1 w2, loader {| km_id := id; km_created := 0 |} w1 = (inr k, w2) /\ w_now w1 = w_now w).
Proof. exact latest_key_checked. Qed.
Print Assumptions C05_latest_key_checked.

Theorem C05_bound_refuted :
  last_enc_parent witness_revocation = Some (t0 / sec) /\ nth_enc_parent 7 witness_revocation = Some (t0 / sec + 85).
Proof. exact C05_refuted_by_decrypt_refresh. Qed.
Print Assumptions C05_bound_refuted.

(* known finding C05-DUP on the faithful model: the same duplicate fallback adopts an intermediate key whose system key was revoked
   three intervals earlier *)
From Asherah Require Import Envelope.DupWitness.

Theorem C05_duplicate_fallback_refuted :
  nth_enc_parent 9 witness_dup_revoked = Some (t0 / sec + 80) /\
  option_map (fun x => existsb (fun e => match e with EvMStore i c _ StFalse => str_eqb i ik_p && (c =? t0 / sec + 80) | _ => false end) (snd x))
             (nth_error (fst (hrun (hinit t0) witness_dup_revoked)) 9) = Some true /\
  row_parent (w_store (h_world (snd (hrun (hinit t0) witness_dup_revoked)))) ik_p (t0 / sec + 80) = Some (t0 / sec) /\
  row_revoked (w_store (h_world (snd (hrun (hinit t0) witness_dup_revoked)))) (s "_SK_svc_prod") (t0 / sec) = Some true /\
  30 * sec > 2 * p_rci pol_nc.
Proof. exact C05_refuted_by_duplicate_fallback. Qed.
Print Assumptions C05_duplicate_fallback_refuted.
