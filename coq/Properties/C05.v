(* C05 - property statements (theorems are being added) *)
From Asherah Require Import Envelope.Session.
