(* C05 - revocation takes effect within the revoke-check interval.
   PROVED (partial): the key handed out for new data passed the revoked check (on the cached flag, which every
   reload refreshes from the metastore row) at the current time, or is the loader's answer of this call
   (C05_latest_key_checked); a cached key whose flag says revoked is never considered fresh-and-valid (C20_fresh_means
   + is_key_invalid).
   REFUTED on the faithful model (known finding C05-IK): the two-interval bound for a revoked system key fails when a
   decrypt-path load refreshed / installed the entry (C05_bound_refuted, a computed history), and in the duplicate fallback of
   createIntermediateKey (known finding C05-DUP, C05_duplicate_fallback_refuted). *)
From Asherah Require Import Envelope.Session Envelope.Frame Envelope.FrameInst Envelope.Rotation.

Theorem C05_latest_key_checked : forall cid rci ex id loader w k w',
  (forall x, pres now_same (loader x)) ->
  get_or_load_latest (Some cid) rci ex id loader w = (inr k, w') ->
  (exists w1 w2, is_key_invalid k ex w1 = (inr false, w2) /\ w_now w1 = w_now w) \/
  (exists w1 w2, loader {| km_id := id; km_created := 0 |} w1 = (inr k, w2) /\ w_now w1 = w_now w).
Proof. exact latest_key_checked. Qed.
Print Assumptions C05_latest_key_checked.

Theorem C05_bound_refuted :
  last_enc_parent witness_revocation = Some (t0 / sec) /\ nth_enc_parent 7 witness_revocation = Some (t0 / sec + 85).
Proof. exact C05_refuted_by_decrypt_refresh. Qed.
Print Assumptions C05_bound_refuted.

(* known finding C05-DUP on the faithful model: the same duplicate fallback adopts an intermediate key whose system key was revoked
   three intervals earlier *)
From Asherah Require Import Envelope.DupWitness.

Theorem C05_duplicate_fallback_refuted :
  nth_enc_parent 9 witness_dup_revoked = Some (t0 / sec + 80) /\
  option_map (fun x => existsb (fun e => match e with EvMStore i c _ StFalse => str_eqb i ik_p && (c =? t0 / sec + 80) | _ => false end) (snd x))
             (nth_error (fst (hrun (hinit t0) witness_dup_revoked)) 9) = Some true /\
  row_parent (w_store (h_world (snd (hrun (hinit t0) witness_dup_revoked)))) ik_p (t0 / sec + 80) = Some (t0 / sec) /\
  row_revoked (w_store (h_world (snd (hrun (hinit t0) witness_dup_revoked)))) (s "_SK_svc_prod") (t0 / sec) = Some true /\
  30 * sec > 2 * p_rci pol_nc.
Proof. exact C05_refuted_by_duplicate_fallback. Qed.
Print Assumptions C05_duplicate_fallback_refuted.

(* "Records written under the revoked key remain decryptable": in the theorems below the history after the Encrypt may contain any
   revocations (HRevoke flags a row; benign / benignL allow it anywhere), and the record still decrypts to its payload - in a fresh
   process holding only the metastore and the KMS, and in any live session of the partition with its key caches. *)
From Asherah Require Import Envelope.Coherent Envelope.FreshProcess Envelope.Live.

Theorem C05_revoked_records_decrypt_in_a_fresh_process : forall svc prod t0 ops now pol,
  Forall (benign svc prod) ops ->
  let h := snd (hrun (hinit t0) ops) in
  forall j d, nth_error (h_recs h) j = Some d ->
    exists pid p, fst (decrypt_data_row_record (nocache_env svc prod pid pol) d (fresh_world (w_store (h_world h)) now)) = inr p.
Proof. exact every_record_decrypts_in_a_fresh_process. Qed.
Print Assumptions C05_revoked_records_decrypt_in_a_fresh_process.

Theorem C05_revoked_records_decrypt_in_live_sessions : forall svc prod h s1 x1 payload faults,
  HInv svc prod h -> HIL svc prod (h_world h) -> nth_error (w_sessions (h_world h)) s1 = Some x1 ->
  match hstep h (HEncrypt s1 payload faults) with
  | (OEnc _ _, _, h1) =>
      forall ops s2 x2, Forall (benignL svc prod) ops ->
        let h2 := snd (hrun h1 ops) in
        nz_store (w_store (h_world h2)) -> nth_error (w_sessions (h_world h2)) s2 = Some x2 -> p_id (ss_part x2) = p_id (ss_part x1) ->
        fst (fst (hstep h2 (HDecrypt s2 (List.length (h_recs h)) [] []))) = ODec (Some payload)
  | _ => True
  end.
Proof. exact encrypt_then_decrypt_live. Qed.
Print Assumptions C05_revoked_records_decrypt_in_live_sessions.

(* the premise is met by a history in which the record's intermediate key AND its system key are revoked before the decrypt *)
Example C05_revoked_nonvacuous :
  let ops := [HNewFactory Rotation.pol100 (s "svc") (s "prod") None; HGetSession 0 (s "p"); HEncrypt 0 9 [];
              HRevoke (s "_IK_p_svc_prod") (Rotation.t0 / sec); HRevoke (s "_SK_svc_prod") (Rotation.t0 / sec); HAdvance (30 * sec);
              HGetSession 0 (s "p")] in
  let h := snd (hrun (hinit Rotation.t0) ops) in
  Forall (benignL (s "svc") (s "prod")) ops /\ nz_storeb (w_store (h_world h)) = true /\
  fst (fst (hstep h (HDecrypt 1 0 [] []))) = ODec (Some 9%nat) /\ fst (fst (hstep h (HDecrypt 0 0 [] []))) = ODec (Some 9%nat).
Proof. split; [repeat constructor; cbn; try exact I|]. split; [vm_compute; reflexivity|]. split; vm_compute; reflexivity. Qed.
