(* C18 - stored and wire formats.  Proved: base64 round-trips every byte string; ciphertext || tag(16) || nonce(12) splits back
   uniquely (also for the empty plaintext, exactly 28 bytes); the key-id formats are injective in the partition (C06).  The
   documented JSON shape is the executable printer Format/Json.v; the SDK's bytes are compared with it byte for byte, and an
   independent reference codec written from the documentation is run against the SDK in both directions (harness). *)
From Asherah Require Import Base.Str Format.Base64 Format.Layout Format.Json Envelope.Partition Envelope.PartitionProofs.
From Coq Require Import List NArith.
Import ListNotations.

Theorem C18_base64_roundtrip : forall l, Forall byte_ok l -> decode (encode l) = Some l.
Proof. exact decode_encode. Qed.
Print Assumptions C18_base64_roundtrip.

Theorem C18_ciphertext_layout_splits_back : forall (A : Type) (ct tag nonce : list A),
  length tag = tag_size -> length nonce = nonce_size -> Layout.split (Layout.join ct tag nonce) = Some (ct, tag, nonce).
Proof. exact @split_join. Qed.
Print Assumptions C18_ciphertext_layout_splits_back.

Theorem C18_intermediate_key_id_determines_partition : forall p q svc prod,
  ik_id_default p svc prod = ik_id_default q svc prod -> p = q.
Proof. exact ik_id_default_inj. Qed.
Print Assumptions C18_intermediate_key_id_determines_partition.

Theorem C18_suffixed_key_id_determines_partition : forall p q svc prod suf,
  ik_id_suffixed p svc prod suf = ik_id_suffixed q svc prod suf -> p = q.
Proof. exact ik_id_suffixed_inj. Qed.
Print Assumptions C18_suffixed_key_id_determines_partition.

(* "an independent implementation written from the documentation decrypts everything the SDK emits": the reader written from the documented
   shape (Format/JsonParse.v: literals in the documented order, Go's string escapes incl. \u00XX, decimal stamps with sign, base64 fields,
   null for absent parts, Revoked and ParentKeyMeta only when present) recovers EVERY key record and EVERY data row record from the
   documented-shape printer's output - ids are arbitrary byte strings, stamps arbitrary integers, keys and data arbitrary bytes; whatever
   follows the value is left untouched.  Hence the shape is unambiguous.  The printer's output is the SDK's, byte for byte (correspondence),
   and the reader is also run on the SDK's bytes in the comparison. *)
From Asherah Require Import Format.JsonParse.

Theorem C18_reader_recovers_every_key_record : forall k r, ekr_ok k -> parse_ekr (print_ekr k ++ r) = Some (k, r).
Proof. exact parse_print_ekr. Qed.
Print Assumptions C18_reader_recovers_every_key_record.

Theorem C18_reader_recovers_every_data_row_record : forall d r, drr_ok d -> parse_drr (print_drr d ++ r) = Some (d, r).
Proof. exact parse_print_drr. Qed.
Print Assumptions C18_reader_recovers_every_data_row_record.

Theorem C18_json_shape_is_unambiguous : forall d d', drr_ok d -> drr_ok d' -> print_drr d = print_drr d' -> d = d'.
Proof. exact print_drr_inj. Qed.
Print Assumptions C18_json_shape_is_unambiguous.

Theorem C18_key_record_shape_is_unambiguous : forall k k', ekr_ok k -> ekr_ok k' -> print_ekr k = print_ekr k' -> k = k'.
Proof. exact print_ekr_inj. Qed.
Print Assumptions C18_key_record_shape_is_unambiguous.

Theorem C18_every_escaped_character_reads_back : forall c r, parse_char (esc_char c ++ r) = Some (c, r).
Proof. exact parse_char_esc. Qed.
Print Assumptions C18_every_escaped_character_reads_back.

Theorem C18_every_stamp_reads_back : forall z r, no_digit_head r -> parse_int (itoa z ++ r) = Some (z, r).
Proof. exact parse_int_itoa. Qed.
Print Assumptions C18_every_stamp_reads_back.
