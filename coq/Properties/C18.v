(* C18 - stored and wire formats.  Proved: base64 round-trips every byte string; ciphertext || tag(16) || nonce(12) splits back
   uniquely (also for the empty plaintext, exactly 28 bytes); the key-id formats are injective in the partition (C06).  The
   documented JSON shape is the executable printer Format/Json.v; the SDK's bytes are compared with it byte for byte, and an
   independent reference codec written from the documentation is run against the SDK in both directions (harness). *)
From Asherah Require Import Base.Str Format.Base64 Format.Layout Format.Json Envelope.Partition Envelope.PartitionProofs.
From Coq Require Import List NArith.
Import ListNotations.

Theorem C18_base64_roundtrip : forall l, Forall byte_ok l -> decode (encode l) = Some l.
Proof. exact decode_encode. Qed.
Print Assumptions C18_base64_roundtrip.

Theorem C18_ciphertext_layout_splits_back : forall (A : Type) (ct tag nonce : list A),
  length tag = tag_size -> length nonce = nonce_size -> Layout.split (Layout.join ct tag nonce) = Some (ct, tag, nonce).
Proof. exact @split_join. Qed.
Print Assumptions C18_ciphertext_layout_splits_back.

Theorem C18_intermediate_key_id_determines_partition : forall p q svc prod,
  ik_id_default p svc prod = ik_id_default q svc prod -> p = q.
Proof. exact ik_id_default_inj. Qed.
Print Assumptions C18_intermediate_key_id_determines_partition.

Theorem C18_suffixed_key_id_determines_partition : forall p q svc prod suf,
  ik_id_suffixed p svc prod suf = ik_id_suffixed q svc prod suf -> p = q.
Proof. exact ik_id_suffixed_inj. Qed.
Print Assumptions C18_suffixed_key_id_determines_partition.
