(* C08 - a key in use is never destroyed underneath its user.  Model: KeyCache/KeyCacheConc.v.  For ANY number of goroutines,
   ANY schedule (each step picks a thread, the name it wants, whether a holder closes, and an ARBITRARY list of other entries
   the load evicts - so every eviction policy and every capacity >= 1, synchronous eviction) no goroutine ever uses a destroyed
   key, and reference counts are exact.  The order of the tree before fix 8f60ea4 (unlock, then count) is refuted by a
   15-step schedule.  Partial: the Go scheduler/memory model is represented by interleavings of the blocks between
   synchronisation points; the model is tied to the code by controlled schedules of real goroutines (same yield points). *)
From Asherah Require Import KeyCache.KeyCacheConc KeyCache.KeyCacheConcProofs.
From Coq Require Import List ZArith.
Import ListNotations.
Open Scope Z_scope.

Theorem C08_no_use_after_destroy : forall n s, ~ In Violated (snd (run true s g0 (repeat Idle n))).
Proof. exact no_use_after_destroy. Qed.
Print Assumptions C08_no_use_after_destroy.

Theorem C08_reference_counts_exact : forall n s,
  let st := run true s g0 (repeat Idle n) in
  (forall o m, cache (fst st) m = Some o -> refs (fst st) o = 1 + sumf (counted o) (snd st)) /\
  (forall o, (forall m, cache (fst st) m <> Some o) -> refs (fst st) o = sumf (counted o) (snd st)) /\
  (forall o, dead (fst st) o = true -> refs (fst st) o <= 0).
Proof. exact refcount_accounting. Qed.
Print Assumptions C08_reference_counts_exact.

Theorem C08_unlock_then_count_refuted : In Violated (snd (run false bad_sched g0 [Idle; Idle; Idle])).
Proof. exact pinned_order_refuted. Qed.
Print Assumptions C08_unlock_then_count_refuted.

(* ---- the sequential half, on the envelope model (Envelope/Live.v): through ANY history of new factories (any key-cache policy
   and capacity >= 1, shared or per-session intermediate-key caches), new sessions, encrypts and decrypts under any fault plans,
   clock changes and revocations - so any number of evictions, stale-entry refreshes and reloads - every key object that sits in
   a key cache is open: its secret has not been destroyed.  (The invariant HIL also accounts every hold handed to a caller
   against the object's reference count; C01_roundtrip_on_live_cached_sessions uses it to show the operations succeed.) *)
From Asherah Require Envelope.Live.

Theorem C08_cached_keys_stay_open : forall svc prod t0 ops,
  Forall (Live.benignL svc prod) ops ->
  let w := Session.h_world (snd (Session.hrun (Session.hinit t0) ops)) in
  forall cid kc ks e, nth_error (World.w_caches w) cid = Some kc -> Coherent.b_abs (World.kc_backing kc) ks = Some e ->
    Live.open_k w (World.ce_key e).
Proof.
  intros svc prod t0 ops FB w. apply (Live.HIL_cached_keys_open svc prod). exact (proj2 (Live.live_invariants_reachable svc prod t0 ops FB)).
Qed.
Print Assumptions C08_cached_keys_stay_open.

(* the same with Session.Close destroying the closing session's own cache and SessionFactory.Close destroying the factory's caches:
   whatever an OPEN session of an open factory can reach through its caches has not been destroyed by the closes of others (sequential histories) *)
From Asherah Require Envelope.LiveD Envelope.LiveCloseD.

Theorem C08_closes_destroy_no_key_an_open_session_can_reach : forall svc prod t0 ops,
  LiveCloseD.okrun svc prod [] (Session.hinit t0) ops ->
  let w := Session.h_world (snd (Session.hrun (Session.hinit t0) ops)) in
  forall s x fa cid kc ks e, nth_error (World.w_sessions w) s = Some x -> World.ss_torn x = false ->
    ~ In (World.ss_factory x) (LiveCloseD.cf_run [] ops) ->
    nth_error (World.w_factories w) (World.ss_factory x) = Some fa ->
    World.ss_ik x = Some cid \/ World.fa_sk fa = Some cid -> nth_error (World.w_caches w) cid = Some kc ->
    Coherent.b_abs (World.kc_backing kc) ks = Some e -> LiveD.open_k w (World.ce_key e).
Proof.
  intros svc prod t0 ops OK w. apply (LiveCloseD.open_sessions_cached_keys_open svc prod (LiveCloseD.cf_run [] ops)).
  exact (proj2 (LiveCloseD.closing_invariants_reachable_own svc prod t0 ops OK)).
Qed.
Print Assumptions C08_closes_destroy_no_key_an_open_session_can_reach.
