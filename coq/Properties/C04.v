(* C04 - expired keys are never used to protect new data.
   PROVED (partial), for every cache state and loader: every key GetOrLoadLatest hands out for new data either
   passed the revoked/expired check at the current time of the operation, or is the answer its loader gave in this
   very call (C04_latest_key_checked).
   REFUTED on the faithful model (known finding C04-IK): clause 3 - "an intermediate key whose system key has
   expired stops being used within one revoke-check interval" - fails when a decrypt-path load installed or
   refreshed the cache entry (C04_clause3_refuted, a computed history).  Clauses 1-2 and clause 3 outside that
   signature are decided by the correspondence + monitor.
   REFUTED too (known finding C04-DUP): the duplicate fallback of createIntermediateKey adopts an unvalidated key
   (C04_duplicate_fallback_refuted, a computed history with one faulted and one unfaulted Encrypt in the same second). *)
From Asherah Require Import Envelope.Session Envelope.Frame Envelope.FrameInst Envelope.Rotation.

Theorem C04_latest_key_checked : forall cid rci ex id loader w k w',
  (forall x, pres now_same (loader x)) ->
  get_or_load_latest (Some cid) rci ex id loader w = (inr k, w') ->
  (exists w1 w2, is_key_invalid k ex w1 = (inr false, w2) /\ w_now w1 = w_now w) \/
  (exists w1 w2, loader {| km_id := id; km_created := 0 |} w1 = (inr k, w2) /\ w_now w1 = w_now w).
Proof. exact latest_key_checked. Qed.
Print Assumptions C04_latest_key_checked.

Theorem C04_clause3_refuted :
  last_enc_parent witness_expiry = Some (t0 / sec + 50) /\ nth_enc_parent 8 witness_expiry = Some (t0 / sec + 120) /\
  is_key_expired (t0 + 120 * sec - p_rci pol100) (t0 / sec) (p_expire pol100) = true.
Proof. exact C04_refuted_by_decrypt_refresh. Qed.
Print Assumptions C04_clause3_refuted.

(* known finding C04-DUP on the faithful model: an UNFAULTED Encrypt whose intermediate-key insert is refused as a duplicate adopts
   the stored key of the same second without validating its parent, here a system key that expired two intervals earlier *)
From Asherah Require Import Envelope.DupWitness.

Theorem C04_duplicate_fallback_refuted :
  nth_enc_parent 8 witness_dup = Some (t0 / sec + 120) /\
  option_map (fun x => refused_ik_insert (snd x)) (nth_error (fst (hrun (hinit t0) witness_dup)) 8) = Some true /\
  row_parent (w_store (h_world (snd (hrun (hinit t0) witness_dup)))) ik_p (t0 / sec + 120) = Some (t0 / sec) /\
  is_key_expired (t0 + 120 * sec - p_rci pol_nc) (t0 / sec) (p_expire pol_nc) = true.
Proof. exact C04_refuted_by_duplicate_fallback. Qed.
Print Assumptions C04_duplicate_fallback_refuted.

(* form c of the same finding (seen when RevokeCheckInterval = 0 joined the generator's configurations): no fault anywhere; the adoption
   happens in one Encrypt of a cold factory and the NEXT Encrypt, at the same instant, uses the cached copy without any metastore call *)
Theorem C04_cached_duplicate_fallback_refuted :
  option_map (fun x => refused_ik_insert_at (t0 / sec + 100) (snd x)) (nth_error (fst (hrun (hinit t0) witness_dup_c)) 9) = Some true /\
  nth_enc_parent 10 witness_dup_c = Some (t0 / sec + 100) /\
  option_map (fun x => no_metastore_event (snd x)) (nth_error (fst (hrun (hinit t0) witness_dup_c)) 10) = Some true /\
  row_parent (w_store (h_world (snd (hrun (hinit t0) witness_dup_c)))) ik_p (t0 / sec + 100) = Some (t0 / sec) /\
  is_key_expired (t0 + 100 * sec + (sec - 1) - p_rci pol_rci0) (t0 / sec) (p_expire pol_rci0) = true.
Proof. exact C04_refuted_by_cached_duplicate_fallback. Qed.
Print Assumptions C04_cached_duplicate_fallback_refuted.

(* clause 1 as a theorem over ALL histories: an unfaulted Encrypt that returns a record wrote it under an intermediate key that is
   not expired at the time of the operation - whichever way the key was obtained (cache hit, stale reload, metastore load,
   creation, duplicate fallback); policy sanity: ExpireKeyAfter >= CreateDatePrecision + 1 s.  (Envelope/Expiry.v) *)
From Asherah Require Import Envelope.Coherent Envelope.Expiry.

Theorem C04_unfaulted_encrypt_key_not_expired : forall svc prod t0 ops s payload,
  Forall (benign svc prod) ops ->
  let h := snd (hrun (hinit t0) ops) in
  match hstep h (HEncrypt s payload []) with
  | (OEnc pm _, _, _) =>
      forall x fa, nth_error (w_sessions (h_world h)) s = Some x -> nth_error (w_factories (h_world h)) (ss_factory x) = Some fa ->
        p_expire (fa_policy fa) >= p_precision (fa_policy fa) + sec -> p_expire (fa_policy fa) >= sec ->
        is_key_expired (w_now (h_world h)) (km_created pm) (p_expire (fa_policy fa)) = false
  | _ => True
  end.
Proof. exact unfaulted_encrypt_key_not_expired. Qed.
Print Assumptions C04_unfaulted_encrypt_key_not_expired.

(* clause 2 as a theorem over ALL histories: every metastore row an unfaulted Encrypt adds - a new intermediate key, a new system
   key - names a parent key that is not expired at the time of the operation: no intermediate key is created under an expired
   system key, whether the system key came from the cache, a reload, the metastore, was just created, or was adopted by the
   duplicate fallback. *)
Theorem C04_unfaulted_encrypt_creates_under_unexpired_keys : forall svc prod t0 ops s payload,
  Forall (benign svc prod) ops ->
  let h := snd (hrun (hinit t0) ops) in
  let w := h_world h in
  let w' := h_world (snd (hstep h (HEncrypt s payload []))) in
  forall x fa, nth_error (w_sessions w) s = Some x -> nth_error (w_factories w) (ss_factory x) = Some fa ->
    p_expire (fa_policy fa) >= p_precision (fa_policy fa) + sec -> p_expire (fa_policy fa) >= sec ->
    forall i c r pm, store_find i c (w_store w') = Some r -> store_find i c (w_store w) = None -> e_parent r = Some pm ->
      is_key_expired (w_now w) (km_created pm) (p_expire (fa_policy fa)) = false.
Proof. exact unfaulted_encrypt_new_rows_fresh. Qed.
Print Assumptions C04_unfaulted_encrypt_creates_under_unexpired_keys.
