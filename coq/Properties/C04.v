(* C04 - expired keys are never used to protect new data.
   PROVED (partial), for every cache state and loader: every key GetOrLoadLatest hands out for new data either
   passed the revoked/expired check at the current time of the operation, or is the answer its loader gave in this
   very call (C04_latest_key_checked).
   REFUTED on the faithful model (known finding C04-IK): clause 3 - "an intermediate key whose system key has
   expired stops being used within one revoke-check interval" - fails when a decrypt-path load installed or
   refreshed the cache entry (C04_clause3_refuted, a computed history).  Clauses 1-2 and clause 3 outside that
   signature are decided by the correspondence + monitor. *)
From Asherah Require Import Envelope.Session Envelope.Frame Envelope.FrameInst Envelope.Rotation.

Theorem C04_latest_key_checked : forall cid rci ex id loader w k w',
  (forall x, pres now_same (loader x)) ->
  get_or_load_latest (Some cid) rci ex id loader w = (inr k, w') ->
  (exists w1 w2, is_key_invalid k ex w1 = (inr false, w2) /\ w_now w1 = w_now w) \/
  (exists w1 w2, loader {| km_id := id; km_created := 0 |} w1 = (inr k, w2) /\ w_now w1 = w_now w).
Proof. exact latest_key_checked. Qed.
Print Assumptions C04_latest_key_checked.

Theorem C04_clause3_refuted :
  last_enc_parent witness_expiry = Some (t0 / sec + 50) /\ nth_enc_parent 8 witness_expiry = Some (t0 / sec + 120) /\
  is_key_expired (t0 + 120 * sec - p_rci pol100) (t0 / sec) (p_expire pol100) = true.
Proof. exact C04_refuted_by_decrypt_refresh. Qed.
Print Assumptions C04_clause3_refuted.
