(* Executable comparison for C15: harness-observed results/callbacks vs the cache model. *)
From Coq Require Import List ZArith Bool.
From Asherah Require Import Cache.Generic.
Import ListNotations.
Open Scope Z_scope.

Inductive cop := COp (o : op Z Z) | CAdv (d : Z).

Record ccase := {
  k_kind : polkind; k_cap : Z; k_expiry : Z; k_sync : bool;
  k_ops : list cop;
  k_obs : list (out Z * list (Z * Z)) }.

Fixpoint run_ops (c : cache Z Z) (now : Z) (hints : list Z) (ops : list cop) : list (out Z * list (Z * Z)) :=
  match ops with
  | [] => []
  | CAdv d :: r => (RUnit, []) :: run_ops c (now + d) hints r
  | COp o :: r =>
      let '(c', res, ev) := step Z.eqb c now hints o in
      match res with
      | RPanic => [(RPanic, ev)]
      | _ => (res, ev) :: run_ops c' now (skipn (length ev) hints) r
      end
  end.

Definition model_run (k : ccase) : list (out Z * list (Z * Z)) :=
  run_ops (new_cache {| c_kind := k_kind k; c_cap := k_cap k; c_expiry := k_expiry k |}) 0
          (map fst (concat (map snd (k_obs k)))) (k_ops k).

Definition out_eqb (a b : out Z) : bool :=
  match a, b with
  | RUnit, RUnit => true
  | RGet None, RGet None => true
  | RGet (Some x), RGet (Some y) => x =? y
  | RBool x, RBool y => Bool.eqb x y
  | RInt x, RInt y => x =? y
  | RPanic, RPanic => true
  | _, _ => false
  end.

Fixpoint evs_eqb (a b : list (Z * Z)) : bool :=
  match a, b with
  | [], [] => true
  | (k, v) :: a', (k', v') :: b' => (k =? k') && (v =? v') && evs_eqb a' b'
  | _, _ => false
  end.

Fixpoint obs_eqb (strict : bool) (a b : list (out Z * list (Z * Z))) : bool :=
  match a, b with
  | [], [] => true
  | (r, e) :: a', (r', e') :: b' => out_eqb r r' && (negb strict || evs_eqb e e') && obs_eqb strict a' b'
  | _, _ => false
  end.

(* synchronous caches: results and callbacks agree operation by operation; asynchronous: results per
   operation and the overall callback sequence *)
Definition agree (k : ccase) : bool :=
  let m := model_run k in
  obs_eqb (k_sync k) m (k_obs k) && evs_eqb (concat (map snd m)) (concat (map snd (k_obs k))).

Fixpoint mismatches_from (i : nat) (cs : list ccase) : list nat :=
  match cs with
  | [] => []
  | c :: r => if agree c then mismatches_from (S i) r else i :: mismatches_from (S i) r
  end.
