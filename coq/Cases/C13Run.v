From Asherah Require Import Metastore.Table.
From Coq Require Import List ZArith Bool Arith.
Import ListNotations.
Open Scope Z_scope.

Definition opar_eqb (a b : option (nat * Z)) : bool :=
  match a, b with None, None => true | Some (i, c), Some (j, d) => Nat.eqb i j && (c =? d) | _, _ => false end.
Definition krec_eqb (a b : krec) : bool :=
  Bool.eqb (kr_revoked a) (kr_revoked b) && (kr_created a =? kr_created b) && Nat.eqb (kr_key a) (kr_key b) && opar_eqb (kr_parent a) (kr_parent b).
Definition mout_eqb (a b : mout) : bool :=
  match a, b with
  | OBool x, OBool y => Bool.eqb x y
  | ORec None, ORec None => true
  | ORec (Some x), ORec (Some y) => krec_eqb x y
  | _, _ => false
  end.
Fixpoint outs_eqb (a b : list mout) : bool :=
  match a, b with [], [] => true | x :: a', y :: b' => mout_eqb x y && outs_eqb a' b' | _, _ => false end.

Fixpoint mismatches_from (i : nat) (cs : list (list mop * list mout)) : list nat :=
  match cs with
  | [] => []
  | (ops, obs) :: r => if outs_eqb (spec_run [] ops) obs then mismatches_from (S i) r else i :: mismatches_from (S i) r
  end.
