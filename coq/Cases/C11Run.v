(* Executable comparison for the secure-memory harness: per operation the result class, the primitive calls made
   (which, succeeded?, pages still dirty?) and the page/counter state afterwards. *)
From Asherah Require Import SecureMem.Secret.
From Coq Require Import List ZArith Bool Arith.
Import ListNotations.
Open Scope Z_scope.

Inductive mop := MNew (size : Z) | MRandom (size : Z) | MWith (depth : nat) (err : bool) | MClose | MIsClosed.

Definition prot_code (p : prot) : nat := match p with PNone => 0 | PRO => 1 | PRW => 2 end.
Definition call_code (c : mcall) : nat :=
  match c with CAlloc => 0 | CLock => 1 | CProtect p => 10 + prot_code p | CUnlock => 2 | CFree => 3 | CRand => 4 end.
Definition res_code (r : res) : nat := match r with ROk => 0 | RErr => 1 | RClosed => 2 | RInvalid => 3 end.

(* observation: result, calls [(code, ok, dirty)], mapped, locked, prot, counter *)
Definition obs : Type := nat * list (nat * bool * bool) * bool * bool * nat * Z.

Definition observe (r : res) (s : sstate) : obs :=
  (res_code r, rev (map (fun e => (call_code (me_call e), me_ok e, me_dirty e)) (st_trace s)),
   pg_mapped (st_pages s), pg_locked (st_pages s), prot_code (pg_prot (st_pages s)), st_counter s).

Fixpoint mrun (s : sstate) (ops : list (mop * fault_plan)) : list obs :=
  match ops with
  | [] => []
  | (o, plan) :: r =>
      match o with
      | MNew size => let '(x, s') := op_new plan size in observe x s' :: mrun s' r
      | MRandom size => let '(x, s') := op_create_random plan size in observe x s' :: mrun s' r
      | MWith d e => let '(x, _, s') := with_bytes plan d e (begin s) in observe x s' :: mrun s' r
      | MClose => let '(x, s') := op_close plan (begin s) in observe x s' :: mrun s' r
      | MIsClosed => observe (if st_closed s then RClosed else ROk) (begin s) :: mrun (begin s) r
      end
  end.

Definition call_eqb (a b : nat * bool * bool) : bool :=
  let '(c, o, d) := a in let '(c', o', d') := b in Nat.eqb c c' && Bool.eqb o o' && Bool.eqb d d'.
Fixpoint calls_eqb (a b : list (nat * bool * bool)) : bool :=
  match a, b with [], [] => true | x :: a', y :: b' => call_eqb x y && calls_eqb a' b' | _, _ => false end.
Definition obs_eqb (a b : obs) : bool :=
  let '(r, cs, m, l, p, c) := a in let '(r', cs', m', l', p', c') := b in
  Nat.eqb r r' && calls_eqb cs cs' && Bool.eqb m m' && Bool.eqb l l' && Nat.eqb p p' && (c =? c').
Fixpoint obss_eqb (a b : list obs) : bool :=
  match a, b with [], [] => true | x :: a', y :: b' => obs_eqb x y && obss_eqb a' b' | _, _ => false end.

Fixpoint mismatches_from (i : nat) (cs : list (list (mop * fault_plan) * list obs)) : list nat :=
  match cs with
  | [] => []
  | (ops, o) :: r => if obss_eqb (mrun fresh ops) o then mismatches_from (S i) r else i :: mismatches_from (S i) r
  end.
