(* Executable comparison for C06 cases produced by the harness (impl observations embedded). *)
From Asherah Require Import Base.Str Envelope.Partition.

Record c06_case := {
  c_p : str; c_q : str; c_svc : str; c_prod : str; c_sufp : option str; c_sufq : option str;
  (* observed on the implementation *)
  o_ikq : str; o_skq : str; o_ikp : str; o_foreign_plain : bool; o_empty_refused : bool }.

Definition c06_model (c : c06_case) : str * str * str * bool * bool :=
  let pp := new_partition (c_p c) (c_svc c) (c_prod c) (c_sufp c) in
  let pq := new_partition (c_q c) (c_svc c) (c_prod c) (c_sufq c) in
  (intermediate_key_id pq, system_key_id pq, intermediate_key_id pp,
   is_valid_ik_id pp (intermediate_key_id pq), negb (get_session_ok [])).

Definition c06_agree (c : c06_case) : bool :=
  let '(ikq, skq, ikp, g, e) := c06_model c in
  str_eqb ikq (o_ikq c) && str_eqb skq (o_skq c) && str_eqb ikp (o_ikp c)
  && Bool.eqb g (o_foreign_plain c) && Bool.eqb e (o_empty_refused c).

Fixpoint mismatches_from (i : nat) (cs : list c06_case) : list nat :=
  match cs with
  | [] => []
  | c :: r => if c06_agree c then mismatches_from (S i) r else i :: mismatches_from (S i) r
  end.
