(* Executable comparison of harness-observed histories with the envelope model.  For every case the
   result is a bitmask saying which projection of the per-operation trace differs:
   1 API results, 2 metastore calls, 4 KMS calls, 8 AEAD calls, 16 secret creation, 32 secret release. *)
From Asherah Require Import Envelope.Session.

Definition ptxt_sim (a b : ptxt) : bool :=
  match a, b with
  | PJunk _, PJunk _ => true
  | _, _ => ptxt_eqb a b
  end.

Definition km_eqb (a b : keymeta) : bool := str_eqb (km_id a) (km_id b) && (km_created a =? km_created b).

Definition okm_eqb (a b : option keymeta) : bool :=
  match a, b with
  | None, None => true
  | Some x, Some y => km_eqb x y
  | _, _ => false
  end.

Definition mres_eqb (a b : mres) : bool :=
  match a, b with
  | MNone, MNone => true
  | MErr, MErr => true
  | MSome c r, MSome c' r' => (c =? c') && Bool.eqb r r'
  | _, _ => false
  end.

Definition sres_eqb (a b : sres) : bool :=
  match a, b with
  | StTrue, StTrue | StFalse, StFalse | StDup, StDup | StErr, StErr => true
  | StErrAfter x, StErrAfter y => Bool.eqb x y
  | _, _ => false
  end.

Definition ores_eqb (a b : ores) : bool :=
  match a, b with
  | OUnit, OUnit | ORefused, ORefused | OErr, OErr | OPanic, OPanic => true
  | OFactory x, OFactory y => Nat.eqb x y
  | OSession x, OSession y => Nat.eqb x y
  | OEnc p c, OEnc p' c' => km_eqb p p' && (c =? c')
  | ODec None, ODec None => true
  | ODec (Some x), ODec (Some y) => Nat.eqb x y
  | _, _ => false
  end.

Definition event_eqb (a b : event) : bool :=
  match a, b with
  | EvMLoad i c r, EvMLoad i' c' r' => str_eqb i i' && (c =? c') && mres_eqb r r'
  | EvMLoadLatest i r, EvMLoadLatest i' r' => str_eqb i i' && mres_eqb r r'
  | EvMStore i c p r, EvMStore i' c' p' r' => str_eqb i i' && (c =? c') && okm_eqb p p' && sres_eqb r r'
  | EvKEnc x, EvKEnc y => Bool.eqb x y
  | EvKDec x, EvKDec y => Bool.eqb x y
  | EvAEnc k n p ok, EvAEnc k' n' p' ok' => ptxt_sim k k' && Nat.eqb n n' && ptxt_sim p p' && Bool.eqb ok ok'
  | EvADec k ok, EvADec k' ok' => ptxt_sim k k' && Bool.eqb ok ok'
  | EvSNew s m ok, EvSNew s' m' ok' => Nat.eqb s s' && ptxt_sim m m' && Bool.eqb ok ok'
  | EvSRand s ok, EvSRand s' ok' => Nat.eqb s s' && Bool.eqb ok ok'
  | EvSClose s, EvSClose s' => Nat.eqb s s'
  | EvSUseClosed s, EvSUseClosed s' => Nat.eqb s s'
  | _, _ => false
  end.

Definition ev_class (e : event) : nat :=
  match e with
  | EvMLoad _ _ _ | EvMLoadLatest _ _ | EvMStore _ _ _ _ => 2
  | EvKEnc _ | EvKDec _ => 4
  | EvAEnc _ _ _ _ | EvADec _ _ => 8
  | EvSNew _ _ _ | EvSRand _ _ => 16
  | EvSClose _ | EvSUseClosed _ => 32
  end.

Fixpoint evs_eqb (a b : list event) : bool :=
  match a, b with
  | [], [] => true
  | x :: a', y :: b' => event_eqb x y && evs_eqb a' b'
  | _, _ => false
  end.

Fixpoint insert_nat (x : nat) (l : list nat) : list nat :=
  match l with
  | [] => [x]
  | y :: r => if Nat.leb x y then x :: l else y :: insert_nat x r
  end.
Definition sort_nat (l : list nat) : list nat := fold_right insert_nat [] l.

Definition close_ids (l : list event) : list nat :=
  sort_nat (fold_right (fun e acc => match e with EvSClose s => s :: acc | _ => acc end) [] l).
Definition useclosed_ids (l : list event) : list nat :=
  sort_nat (fold_right (fun e acc => match e with EvSUseClosed s => s :: acc | _ => acc end) [] l).

Fixpoint nats_eqb (a b : list nat) : bool :=
  match a, b with
  | [], [] => true
  | x :: a', y :: b' => Nat.eqb x y && nats_eqb a' b'
  | _, _ => false
  end.

Definition of_class (c : nat) (l : list event) : list event := filter (fun e => Nat.eqb (ev_class e) c) l.

(* secret releases of one operation are compared as a set: close order inside cache Close follows Go map
   iteration, and asynchronous teardown interleaves *)
Definition op_mask (m o : ores * list event) : nat :=
  (if ores_eqb (fst m) (fst o) then 0 else 1) +
  (if evs_eqb (of_class 2 (snd m)) (of_class 2 (snd o)) then 0 else 2) +
  (if evs_eqb (of_class 4 (snd m)) (of_class 4 (snd o)) then 0 else 4) +
  (if evs_eqb (of_class 8 (snd m)) (of_class 8 (snd o)) then 0 else 8) +
  (if evs_eqb (of_class 16 (snd m)) (of_class 16 (snd o)) then 0 else 16) +
  (if nats_eqb (close_ids (snd m)) (close_ids (snd o)) && nats_eqb (useclosed_ids (snd m)) (useclosed_ids (snd o)) then 0 else 32).

(* first differing operation and its mask; (0, 0) when the traces agree *)
Fixpoint first_diff (i : nat) (m o : list (ores * list event)) : nat * nat :=
  match m, o with
  | [], [] => (0, 0)%nat
  | x :: m', y :: o' => let k := op_mask x y in if Nat.eqb k 0 then first_diff (S i) m' o' else (i, k)
  | _, _ => (i, 63)%nat
  end.

Record ecase := { ec_t0 : Z; ec_ops : list hop; ec_obs : list (ores * list event) }.

Definition case_diff (c : ecase) : nat * nat :=
  first_diff 0 (fst (hrun (hinit (ec_t0 c)) (ec_ops c))) (ec_obs c).

Fixpoint diffs_from (i : nat) (cs : list ecase) : list (nat * (nat * nat)) :=
  match cs with
  | [] => []
  | c :: r => let d := case_diff c in
              if Nat.eqb (snd d) 0 then diffs_from (S i) r else (i, d) :: diffs_from (S i) r
  end.
