(* Executable comparison for C17 cases. *)
From Asherah Require Import Kms.AwsKms.
From Coq Require Import List Bool Arith.
Import ListNotations.

Record kcase := {
  k_wclients : list wreg;                 (* wrap-side clients in client order *)
  k_dclients : list (nat * bool);         (* unwrap-side clients in client order *)
  (* observed *)
  o_wrap_ok : bool; o_gen : nat; o_entries : list nat;   (* entries sorted ascending *)
  o_unwrap_ok : bool; o_attempts : list nat }.

Fixpoint ins (x : nat) (l : list nat) : list nat :=
  match l with [] => [x] | y :: r => if Nat.leb x y then x :: l else y :: ins x r end.
Definition sortn (l : list nat) := fold_right ins [] l.
Fixpoint nats_eqb (a b : list nat) : bool :=
  match a, b with [], [] => true | x :: a', y :: b' => Nat.eqb x y && nats_eqb a' b' | _, _ => false end.

Definition agree (c : kcase) : bool :=
  match wrap (k_wclients c) with
  | None => negb (o_wrap_ok c)
  | Some (g, es) =>
      o_wrap_ok c && Nat.eqb g (o_gen c) && nats_eqb (sortn es) (o_entries c) &&
      (let '(res, att) := unwrap (k_dclients c) es in
       Bool.eqb (match res with Some _ => true | None => false end) (o_unwrap_ok c) && nats_eqb att (o_attempts c))
  end.

Fixpoint mismatches_from (i : nat) (cs : list kcase) : list nat :=
  match cs with [] => [] | c :: r => if agree c then mismatches_from (S i) r else i :: mismatches_from (S i) r end.
