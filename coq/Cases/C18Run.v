From Asherah Require Import Base.Str Format.Base64 Format.Json.
From Coq Require Import List NArith ZArith Bool.
Import ListNotations.

Inductive fcase := FEkr (r : jekr) (observed : str) | FDrr (d : jdrr) (observed : str).

Definition agree (c : fcase) : bool :=
  match c with
  | FEkr r o => str_eqb (print_ekr r) o
  | FDrr d o => str_eqb (print_drr d) o
  end.

Fixpoint mismatches_from (i : nat) (cs : list fcase) : list nat :=
  match cs with [] => [] | c :: r => if agree c then mismatches_from (S i) r else i :: mismatches_from (S i) r end.
