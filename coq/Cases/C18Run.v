From Asherah Require Import Base.Str Format.Base64 Format.Json Format.JsonParse.
From Coq Require Import List NArith ZArith Bool.
Import ListNotations.

Inductive fcase := FEkr (r : jekr) (observed : str) | FDrr (d : jdrr) (observed : str).

Fixpoint ns_eqb (a b : list N) : bool :=
  match a, b with [], [] => true | x :: a', y :: b' => (x =? y)%N && ns_eqb a' b' | _, _ => false end.
Definition meta_eqb (a b : jmeta) : bool := str_eqb (jm_id a) (jm_id b) && (jm_created a =? jm_created b)%Z.
Definition opt_eqb {A} (f : A -> A -> bool) (a b : option A) : bool :=
  match a, b with Some x, Some y => f x y | None, None => true | _, _ => false end.
Definition ekr_eqb (a b : jekr) : bool :=
  Bool.eqb (je_revoked a) (je_revoked b) && (je_created a =? je_created b)%Z && ns_eqb (je_key a) (je_key b) && opt_eqb meta_eqb (je_parent a) (je_parent b).
Definition drr_eqb (a b : jdrr) : bool := opt_eqb ekr_eqb (jd_key a) (jd_key b) && opt_eqb ns_eqb (jd_data a) (jd_data b).

(* the SDK's bytes are the documented-shape printer's bytes, and the documented-shape reader recovers the record from them *)
Definition agree (c : fcase) : bool :=
  match c with
  | FEkr r o => str_eqb (print_ekr r) o && match read_ekr o with Some r' => ekr_eqb r r' | None => false end
  | FDrr d o => str_eqb (print_drr d) o && match read_drr o with Some d' => drr_eqb d d' | None => false end
  end.

Fixpoint mismatches_from (i : nat) (cs : list fcase) : list nat :=
  match cs with [] => [] | c :: r => if agree c then mismatches_from (S i) r else i :: mismatches_from (S i) r end.
