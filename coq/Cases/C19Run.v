(* Executable comparison for C19: records are (partition, payload) of a genuine encrypt, a corrupted copy, or empty. *)
From Asherah Require Import Server.Stream.
From Coq Require Import List Bool Arith.
Import ListNotations.

Inductive srec := RG (part payload : nat) | RBad (part payload : nat) | RNone.

Definition get_sess (id : str) : option nat := match id with [] => None | _ => Some (length id) end.
Definition enc (s p : nat) : option srec := Some (RG s p).
Definition dec (s : nat) (r : srec) : option nat :=
  match r with RG part p => if Nat.eqb part s then Some p else None | _ => None end.

(* observed response classes: 0 session-ok, 1 enc, 2 dec p (encoded 100+p), 3 error, 4 panic/nil *)
Definition code (a : resp srec nat) : nat :=
  match a with RSessionOk => 0 | REnc _ => 1 | RDec p => 100 + p | RErr => 3 | RPanic => 4 end.

Definition model_codes (qs : list (req srec nat)) : list nat := map code (fst (stream srec nat get_sess enc dec NoHandler qs)).

Fixpoint nats_eqb (a b : list nat) : bool :=
  match a, b with [], [] => true | x :: a', y :: b' => Nat.eqb x y && nats_eqb a' b' | _, _ => false end.

Fixpoint mismatches_from (i : nat) (cs : list (list (req srec nat) * list nat)) : list nat :=
  match cs with
  | [] => []
  | (qs, obs) :: r => if nats_eqb (model_codes qs) obs then mismatches_from (S i) r else i :: mismatches_from (S i) r
  end.
