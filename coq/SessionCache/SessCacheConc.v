(* Interleaving model of session_cache.go: cacheWrapper.Get (one block under c.mu: lookup-or-load, Set with eviction of an
   ARBITRARY set of other entries, usage increment), sharedEncryption.Close (decrement), the Remove goroutine spawned per
   eviction (waits for usage zero, then closes the underlying session), and the cache's Close.  Any number of goroutines,
   partitions, any schedule. *)
From Asherah Require Import Base.Conc.
From Coq Require Import List Arith ZArith Lia Bool.
Import ListNotations.
Open Scope Z_scope.
Arguments Z.add : simpl never.
Arguments Z.sub : simpl never.

Definition sid := nat.
Definition name := nat.

Record sess := { usage : Z; evicted : bool; nclosed : Z }.

Record G := { sessions : list sess;            (* index = session id, in creation order *)
              cache : name -> option sid;
              bad : bool }.                    (* a holder used a session whose underlying encryption was closed *)

Inductive pc := Idle | Using (s : sid) | Done.

Inductive action :=
| AGet (t : nat) (n : name) (ev : list name)     (* thread t: Get(n); a miss loads and evicts the names in ev *)
| AUse (t : nat)                                 (* thread t encrypts / decrypts with the session it holds *)
| AClose (t : nat)                               (* thread t closes its session *)
| ARemove (s : sid)                              (* the Remove goroutine of s gets to run *)
| ACloseCache (ev : list name).                  (* factory Close: every cached session is evicted *)

Definition upd {A} (f : nat -> A) (k : nat) (v : A) : nat -> A := fun x => if Nat.eqb x k then v else f x.

Definition mod_sess (g : G) (s : sid) (f : sess -> sess) : G :=
  match nth_error (sessions g) s with
  | Some x => {| sessions := set_nth s (f x) (sessions g); cache := cache g; bad := bad g |}
  | None => g
  end.

Definition evict1 (keep : option name) (g : G) (m : name) : G :=
  if match keep with Some k => Nat.eqb m k | None => false end then g else
  match cache g m with
  | None => g
  | Some s => mod_sess {| sessions := sessions g; cache := upd (cache g) m None; bad := bad g |} s
                       (fun x => {| usage := usage x; evicted := true; nclosed := nclosed x |})
  end.

Definition get_sess (g : G) (s : sid) : sess :=
  nth s (sessions g) {| usage := 0; evicted := false; nclosed := 0 |}.

Definition step (a : action) (g : G) (ls : list pc) : G * list pc :=
  match a with
  | AGet t n ev =>
      match nth_error ls t with
      | Some Idle =>
          match cache g n with
          | Some s => (mod_sess g s (fun x => {| usage := usage x + 1; evicted := evicted x; nclosed := nclosed x |}), set_nth t (Using s) ls)
          | None =>
              let s := length (sessions g) in
              let g1 := {| sessions := sessions g ++ [{| usage := 1; evicted := false; nclosed := 0 |}];
                           cache := upd (cache g) n (Some s); bad := bad g |} in
              (fold_left (evict1 (Some n)) ev g1, set_nth t (Using s) ls)
          end
      | _ => (g, ls)
      end
  | AUse t =>
      match nth_error ls t with
      | Some (Using s) =>
          ({| sessions := sessions g; cache := cache g; bad := bad g || (0 <? nclosed (get_sess g s)) |}, ls)
      | _ => (g, ls)
      end
  | AClose t =>
      match nth_error ls t with
      | Some (Using s) =>
          (mod_sess g s (fun x => {| usage := usage x - 1; evicted := evicted x; nclosed := nclosed x |}), set_nth t Done ls)
      | _ => (g, ls)
      end
  | ARemove s =>
      let x := get_sess g s in
      if evicted x && (usage x <=? 0) && (nclosed x =? 0)
      then (mod_sess g s (fun x => {| usage := usage x; evicted := true; nclosed := nclosed x + 1 |}), ls)
      else (g, ls)
  | ACloseCache ev => (fold_left (evict1 None) ev g, ls)
  end.

Fixpoint run (sched : list action) (g : G) (ls : list pc) : G * list pc :=
  match sched with
  | [] => (g, ls)
  | a :: r => let '(g', ls') := step a g ls in run r g' ls'
  end.

Definition g0 : G := {| sessions := []; cache := fun _ => None; bad := false |}.
