From Asherah Require Import Base.Conc SessionCache.SessCacheConc.
From Coq Require Import List Arith ZArith Lia Bool.
Import ListNotations.
Open Scope Z_scope.
Arguments Z.add : simpl never.
Arguments Z.sub : simpl never.

Definition holds (s : sid) (l : pc) : bool := match l with Using s' => Nat.eqb s' s | _ => false end.

Record Inv (g : G) (ls : list pc) : Prop := {
  i_usage : forall s x, nth_error (sessions g) s = Some x -> usage x = sumf (holds s) ls;
  i_fresh : forall s, (length (sessions g) <= s)%nat -> sumf (holds s) ls = 0;
  i_cache : forall n s, cache g n = Some s -> exists x, nth_error (sessions g) s = Some x /\ evicted x = false;
  i_inj : forall n m s, cache g n = Some s -> cache g m = Some s -> n = m;
  i_closed : forall s x, nth_error (sessions g) s = Some x -> (nclosed x = 0 \/ (nclosed x = 1 /\ evicted x = true /\ usage x = 0));
  i_bad : bad g = false }.

Lemma nth_error_set_nth_eq {A} (l : list A) i x y : nth_error l i = Some y -> nth_error (set_nth i x l) i = Some x.
Proof. revert i; induction l as [|a l IH]; intros [|i] H; cbn in *; try discriminate; [reflexivity | apply IH; exact H]. Qed.

Lemma nth_error_set_nth_neq {A} (l : list A) i j x : i <> j -> nth_error (set_nth i x l) j = nth_error l j.
Proof. revert i j; induction l as [|a l IH]; intros [|i] [|j] H; cbn; try reflexivity; try congruence. apply IH. congruence. Qed.

Lemma set_nth_len {A} (l : list A) i x : length (set_nth i x l) = length l.
Proof. revert i; induction l as [|a l IH]; intros [|i]; cbn; try reflexivity. f_equal. apply IH. Qed.

Lemma nth_error_app1_some {A} (l l' : list A) n x : nth_error l n = Some x -> nth_error (l ++ l') n = Some x.
Proof. intro H. rewrite nth_error_app1; [exact H | apply nth_error_Some; congruence]. Qed.

Lemma mod_sess_nth g s f j :
  nth_error (sessions (mod_sess g s f)) j =
  match nth_error (sessions g) s with
  | Some x => if Nat.eqb s j then Some (f x) else nth_error (sessions g) j
  | None => nth_error (sessions g) j
  end.
Proof.
  unfold mod_sess. destruct (nth_error (sessions g) s) as [x|] eqn:E; [|reflexivity]. cbn [sessions].
  destruct (Nat.eqb s j) eqn:J.
  - apply Nat.eqb_eq in J. subst. eapply nth_error_set_nth_eq. exact E.
  - apply Nat.eqb_neq in J. apply nth_error_set_nth_neq. exact J.
Qed.

Lemma mod_sess_cache g s f : cache (mod_sess g s f) = cache g.
Proof. unfold mod_sess. destruct (nth_error (sessions g) s); reflexivity. Qed.
Lemma mod_sess_bad g s f : bad (mod_sess g s f) = bad g.
Proof. unfold mod_sess. destruct (nth_error (sessions g) s); reflexivity. Qed.
Lemma mod_sess_len g s f : length (sessions (mod_sess g s f)) = length (sessions g).
Proof. unfold mod_sess. destruct (nth_error (sessions g) s); [cbn; apply set_nth_len | reflexivity]. Qed.

(* a modification of session s that keeps usage and only moves towards evicted / not closed-again preserves Inv *)
Lemma mod_keep_inv g ls s f :
  Inv g ls ->
  (forall x, usage (f x) = usage x) ->
  (forall x, nclosed (f x) = nclosed x /\ (evicted x = true -> evicted (f x) = true)) ->
  (forall n, cache g n <> Some s) ->
  Inv (mod_sess g s f) ls.
Proof.
  intros I Hu Hc Hn. constructor.
  - intros j y H. rewrite mod_sess_nth in H. destruct (nth_error (sessions g) s) as [x|] eqn:E; [|apply (i_usage g ls I j y H)].
    destruct (Nat.eqb s j) eqn:J; [|apply (i_usage g ls I j y H)].
    apply Nat.eqb_eq in J. subst j. inversion H; subst. rewrite Hu. apply (i_usage g ls I s x E).
  - intros j H. rewrite mod_sess_len in H. apply (i_fresh g ls I j H).
  - intros n j H. rewrite mod_sess_cache in H. destruct (i_cache g ls I n j H) as [y [Hy Ey]].
    assert (NE : s <> j) by (intro; subst; apply (Hn n); exact H).
    exists y. rewrite mod_sess_nth. destruct (nth_error (sessions g) s); [apply Nat.eqb_neq in NE; rewrite NE|]; split; assumption.
  - intros n m j H1 H2. rewrite mod_sess_cache in H1, H2. apply (i_inj g ls I n m j H1 H2).
  - intros j y H. rewrite mod_sess_nth in H. destruct (nth_error (sessions g) s) as [x|] eqn:E; [|apply (i_closed g ls I j y H)].
    destruct (Nat.eqb s j) eqn:J; [|apply (i_closed g ls I j y H)].
    apply Nat.eqb_eq in J. subst j. inversion H; subst. destruct (Hc x) as [C1 C2]. rewrite C1, Hu.
    destruct (i_closed g ls I s x E) as [Z|[Z1 [Z2 Z3]]]; [left; exact Z | right; repeat split; try assumption; apply C2; exact Z2].
  - rewrite mod_sess_bad. apply (i_bad g ls I).
Qed.

Lemma upd_neq {A} (f : nat -> A) k v x : x <> k -> upd f k v x = f x.
Proof. unfold upd. intro H. destruct (Nat.eqb x k) eqn:E; [apply Nat.eqb_eq in E; contradiction | reflexivity]. Qed.

(* removing a cache entry *)
Lemma uncache_inv g ls m : Inv g ls -> Inv {| sessions := sessions g; cache := upd (cache g) m None; bad := bad g |} ls.
Proof.
  intros I. constructor; cbn [sessions cache bad].
  - apply (i_usage g ls I).
  - apply (i_fresh g ls I).
  - intros n s H. unfold upd in H. destruct (Nat.eqb n m); [discriminate|]. apply (i_cache g ls I n s H).
  - intros n k s H1 H2. unfold upd in H1, H2. destruct (Nat.eqb n m); [discriminate|]. destruct (Nat.eqb k m); [discriminate|].
    apply (i_inj g ls I n k s H1 H2).
  - apply (i_closed g ls I).
  - apply (i_bad g ls I).
Qed.

Lemma evict1_inv keep g ls m : Inv g ls -> Inv (evict1 keep g m) ls.
Proof.
  intros I. unfold evict1. destruct (match keep with Some k => Nat.eqb m k | None => false end); [exact I|].
  destruct (cache g m) as [s|] eqn:C; [|exact I].
  apply mod_keep_inv.
  - apply uncache_inv. exact I.
  - reflexivity.
  - intro x. split; [reflexivity | intros _; reflexivity].
  - intros n H. cbn [cache] in H. unfold upd in H. destruct (Nat.eqb n m) eqn:E; [discriminate|].
    apply Nat.eqb_neq in E. apply E. apply (i_inj g ls I n m s H C).
Qed.

Lemma evict1_keeps keep g m k : keep = Some k -> cache (evict1 keep g m) k = cache g k.
Proof.
  intros ->. unfold evict1. destruct (Nat.eqb m k) eqn:E; [reflexivity|].
  destruct (cache g m); [|reflexivity]. rewrite mod_sess_cache. cbn [cache]. apply upd_neq. apply Nat.eqb_neq in E. congruence.
Qed.

Lemma evicts_inv keep ev : forall g ls, Inv g ls -> Inv (fold_left (evict1 keep) ev g) ls.
Proof. induction ev as [|m r IH]; intros g ls I; [exact I|]. cbn [fold_left]. apply IH. apply evict1_inv. exact I. Qed.

Lemma holds_set ls t l' s l :
  nth_error ls t = Some l -> sumf (holds s) (set_nth t l' ls) = sumf (holds s) ls - cz (holds s l) + cz (holds s l').
Proof. apply sumf_set_nth. Qed.

Theorem step_inv a g ls : Inv g ls -> Inv (fst (step a g ls)) (snd (step a g ls)).
Proof.
  intro I. destruct a as [t n ev|t|t|s|ev]; cbn [step].
  - (* Get *)
    destruct (nth_error ls t) as [[| |]|] eqn:T; try exact I.
    destruct (cache g n) as [s|] eqn:C; cbn [fst snd].
    + (* hit: usage + 1, the thread holds s *)
      destruct (i_cache g ls I n s C) as [x [Hx Ex]].
      constructor.
      * intros j y H. rewrite mod_sess_nth, Hx in H. rewrite (holds_set ls t (Using s) j Idle T). cbn [holds cz].
        destruct (Nat.eqb s j) eqn:J.
        -- apply Nat.eqb_eq in J. subst j. inversion H; subst. cbn [usage]. rewrite (i_usage g ls I s x Hx). try rewrite Nat.eqb_refl; cbn [cz]; lia.
        -- rewrite (i_usage g ls I j y H). cbn [cz]. lia.
      * intros j H. rewrite mod_sess_len in H. rewrite (holds_set ls t (Using s) j Idle T). cbn [holds cz].
        assert (s < length (sessions g))%nat by (apply nth_error_Some; congruence).
        destruct (Nat.eqb s j) eqn:J; [apply Nat.eqb_eq in J; lia|]. rewrite (i_fresh g ls I j H). cbn [cz]. lia.
      * intros m j H. rewrite mod_sess_cache in H. destruct (i_cache g ls I m j H) as [y [Hy Ey]].
        rewrite mod_sess_nth, Hx. destruct (Nat.eqb s j) eqn:J.
        -- apply Nat.eqb_eq in J. subst j. eexists. split; [reflexivity|]. cbn. exact Ex.
        -- exists y. split; assumption.
      * intros a b j H1 H2. rewrite mod_sess_cache in H1, H2. apply (i_inj g ls I a b j H1 H2).
      * intros j y H. rewrite mod_sess_nth, Hx in H. destruct (Nat.eqb s j) eqn:J; [|apply (i_closed g ls I j y H)].
        apply Nat.eqb_eq in J. subst j. inversion H; subst. cbn. destruct (i_closed g ls I s x Hx) as [Z|[_ [Z _]]]; [left; exact Z | congruence].
      * rewrite mod_sess_bad. apply (i_bad g ls I).
    + (* miss: a new session, cached under n, then evictions of other entries *)
      set (s := length (sessions g)).
      set (g1 := {| sessions := sessions g ++ [{| usage := 1; evicted := false; nclosed := 0 |}]; cache := upd (cache g) n (Some s); bad := bad g |}).
      apply evicts_inv.
      constructor; cbn [sessions cache bad g1].
      * intros j y H. rewrite (holds_set ls t (Using s) j Idle T). cbn [holds cz].
        destruct (Nat.eq_dec j s) as [->|NE].
        -- rewrite nth_error_app2 in H by (unfold s; lia). unfold s in H. rewrite Nat.sub_diag in H. inversion H; subst. cbn.
           rewrite (i_fresh g ls I s (Nat.le_refl _)). try rewrite Nat.eqb_refl; cbn [cz]; lia.
        -- assert (j < s)%nat.
           { assert (j < length (sessions g ++ [{| usage := 1; evicted := false; nclosed := 0 |}]))%nat by (apply nth_error_Some; congruence).
             rewrite app_length in H0. cbn in H0. unfold s in *. lia. }
           rewrite nth_error_app1 in H by (unfold s in *; lia). rewrite (i_usage g ls I j y H).
           destruct (Nat.eqb s j) eqn:J; [apply Nat.eqb_eq in J; lia|]. cbn [cz]. lia.
      * intros j H. rewrite app_length in H. cbn in H. rewrite (holds_set ls t (Using s) j Idle T). cbn [holds cz].
        destruct (Nat.eqb s j) eqn:J; [apply Nat.eqb_eq in J; unfold s in *; lia|]. rewrite (i_fresh g ls I j) by lia. cbn [cz]. lia.
      * intros m j H. unfold upd in H. destruct (Nat.eqb m n) eqn:E.
        -- inversion H; subst. eexists. rewrite nth_error_app2 by lia. rewrite Nat.sub_diag. split; reflexivity.
        -- destruct (i_cache g ls I m j H) as [y [Hy Ey]]. exists y. split; [apply nth_error_app1_some; exact Hy | exact Ey].
      * intros a b j H1 H2. unfold upd in H1, H2. destruct (Nat.eqb a n) eqn:Ea; destruct (Nat.eqb b n) eqn:Eb.
        -- apply Nat.eqb_eq in Ea, Eb. congruence.
        -- inversion H1; subst. destruct (i_cache g ls I b _ H2) as [y [Hy _]]. assert (s < length (sessions g))%nat by (apply nth_error_Some; unfold s in *; congruence). unfold s in *; lia.
        -- inversion H2; subst. destruct (i_cache g ls I a _ H1) as [y [Hy _]]. assert (s < length (sessions g))%nat by (apply nth_error_Some; unfold s in *; congruence). unfold s in *; lia.
        -- apply (i_inj g ls I a b j H1 H2).
      * intros j y H. destruct (Nat.eq_dec j s) as [->|NE].
        -- rewrite nth_error_app2 in H by (unfold s; lia). unfold s in H. rewrite Nat.sub_diag in H. inversion H; subst. left. reflexivity.
        -- assert (j < s)%nat.
           { assert (j < length (sessions g ++ [{| usage := 1; evicted := false; nclosed := 0 |}]))%nat by (apply nth_error_Some; congruence).
             rewrite app_length in H0. cbn in H0. unfold s in *. lia. }
           rewrite nth_error_app1 in H by (unfold s in *; lia). apply (i_closed g ls I j y H).
      * apply (i_bad g ls I).
  - (* Use *)
    destruct (nth_error ls t) as [[|s|]|] eqn:T; try exact I. cbn [fst snd].
    assert (B : (0 <? nclosed (get_sess g s)) = false).
    { unfold get_sess. destruct (nth_error (sessions g) s) as [x|] eqn:E.
      - rewrite (nth_error_nth _ _ _ E). destruct (i_closed g ls I s x E) as [Z|[_ [_ Z]]]; [rewrite Z; reflexivity|].
        exfalso. pose proof (i_usage g ls I s x E) as U. assert (In (Using s) ls) by (eapply nth_error_In; eauto).
        pose proof (sumf_in pc (holds s) ls (Using s) H) as P. cbn [holds] in P. rewrite Nat.eqb_refl in P. specialize (P eq_refl). lia.
      - rewrite nth_overflow by (apply nth_error_None; exact E). reflexivity. }
    destruct I as [a b c d e f]. constructor; cbn [sessions cache bad]; try assumption. rewrite f, B. reflexivity.
  - (* Close by the holder *)
    destruct (nth_error ls t) as [[|s|]|] eqn:T; try exact I. cbn [fst snd].
    assert (HIn : In (Using s) ls) by (eapply nth_error_In; eauto).
    assert (POS : 1 <= sumf (holds s) ls).
    { apply (sumf_in pc (holds s) ls (Using s) HIn). cbn. apply Nat.eqb_refl. }
    destruct (nth_error (sessions g) s) as [x|] eqn:Hx.
    2:{ exfalso. apply nth_error_None in Hx. rewrite (i_fresh g ls I s Hx) in POS. lia. }
    constructor.
    + intros j y H. rewrite mod_sess_nth, Hx in H. rewrite (holds_set ls t Done j (Using s) T). cbn [holds cz].
      destruct (Nat.eqb s j) eqn:J.
      * apply Nat.eqb_eq in J. subst j. inversion H; subst. cbn [usage]. rewrite (i_usage g ls I s x Hx). cbn [cz]. lia.
      * rewrite (i_usage g ls I j y H). cbn [cz]. lia.
    + intros j H. rewrite mod_sess_len in H. rewrite (holds_set ls t Done j (Using s) T). cbn [holds cz].
      assert (s < length (sessions g))%nat by (apply nth_error_Some; congruence).
      destruct (Nat.eqb s j) eqn:J; [apply Nat.eqb_eq in J; lia|]. rewrite (i_fresh g ls I j H). cbn [cz]. lia.
    + intros m j H. rewrite mod_sess_cache in H. destruct (i_cache g ls I m j H) as [y [Hy Ey]].
      rewrite mod_sess_nth, Hx. destruct (Nat.eqb s j) eqn:J.
      * apply Nat.eqb_eq in J. subst j. eexists. split; [reflexivity|]. cbn. congruence.
      * exists y. split; assumption.
    + intros a b j H1 H2. rewrite mod_sess_cache in H1, H2. apply (i_inj g ls I a b j H1 H2).
    + intros j y H. rewrite mod_sess_nth, Hx in H. destruct (Nat.eqb s j) eqn:J; [|apply (i_closed g ls I j y H)].
      apply Nat.eqb_eq in J. subst j. inversion H; subst. cbn. destruct (i_closed g ls I s x Hx) as [Z|[_ [_ Z]]]; [left; exact Z|].
      rewrite (i_usage g ls I s x Hx) in Z. lia.
    + rewrite mod_sess_bad. apply (i_bad g ls I).
  - (* the Remove goroutine *)
    destruct (evicted (get_sess g s) && (usage (get_sess g s) <=? 0) && (nclosed (get_sess g s) =? 0)) eqn:C; [|exact I]. cbn [fst snd].
    apply andb_true_iff in C as [C C3]. apply andb_true_iff in C as [C1 C2].
    destruct (nth_error (sessions g) s) as [x|] eqn:Hx.
    2:{ unfold mod_sess. rewrite Hx. exact I. }
    unfold get_sess in C1, C2, C3. rewrite (nth_error_nth _ _ _ Hx) in C1, C2, C3.
    apply Z.leb_le in C2. apply Z.eqb_eq in C3.
    pose proof (i_usage g ls I s x Hx) as U. pose proof (sumf_nonneg pc (holds s) ls) as NN.
    constructor.
    + intros j y H. rewrite mod_sess_nth, Hx in H. destruct (Nat.eqb s j) eqn:J; [|apply (i_usage g ls I j y H)].
      apply Nat.eqb_eq in J. subst j. inversion H; subst. cbn. exact U.
    + intros j H. rewrite mod_sess_len in H. apply (i_fresh g ls I j H).
    + intros m j H. rewrite mod_sess_cache in H. destruct (i_cache g ls I m j H) as [y [Hy Ey]].
      rewrite mod_sess_nth, Hx. destruct (Nat.eqb s j) eqn:J; [apply Nat.eqb_eq in J; subst; congruence|]. exists y. split; assumption.
    + intros a b j H1 H2. rewrite mod_sess_cache in H1, H2. apply (i_inj g ls I a b j H1 H2).
    + intros j y H. rewrite mod_sess_nth, Hx in H. destruct (Nat.eqb s j) eqn:J; [|apply (i_closed g ls I j y H)].
      apply Nat.eqb_eq in J. subst j. inversion H; subst. cbn. right. rewrite C3. split; [reflexivity|]. split; [reflexivity | lia].
    + rewrite mod_sess_bad. apply (i_bad g ls I).
  - (* factory Close *)
    cbn [fst snd]. apply evicts_inv. exact I.
Qed.

Theorem run_inv sched : forall g ls, Inv g ls -> Inv (fst (run sched g ls)) (snd (run sched g ls)).
Proof.
  induction sched as [|a r IH]; intros g ls I; [exact I|].
  cbn [run]. pose proof (step_inv a g ls I) as S. destruct (step a g ls) as [g' ls']. apply IH. exact S.
Qed.

Lemma inv0 n : Inv g0 (repeat Idle n).
Proof.
  assert (S0 : forall s, sumf (holds s) (repeat Idle n) = 0) by (intro s; induction n; cbn; [reflexivity | rewrite IHn; reflexivity]).
  constructor; cbn [g0 sessions cache bad].
  - intros s x H. destruct s; discriminate H.
  - intros s _. apply S0.
  - intros m s H. discriminate H.
  - intros a b s H. discriminate H.
  - intros s x H. destruct s; discriminate H.
  - reflexivity.
Qed.

(* any number of goroutines and partitions, any schedule, any evictions *)
Theorem sessions_safe n sched :
  let st := run sched g0 (repeat Idle n) in
  bad (fst st) = false /\
  (forall s x, nth_error (sessions (fst st)) s = Some x ->
     nclosed x <= 1 /\ usage x = sumf (holds s) (snd st) /\ (0 < nclosed x -> usage x = 0 /\ evicted x = true)) /\
  (forall a b s, cache (fst st) a = Some s -> cache (fst st) b = Some s -> a = b).
Proof.
  cbv zeta. pose proof (run_inv sched g0 (repeat Idle n) (inv0 n)) as I.
  split; [exact (i_bad _ _ I)|]. split; [|exact (i_inj _ _ I)].
  intros s x H. pose proof (i_closed _ _ I s x H) as C. pose proof (i_usage _ _ I s x H) as U.
  split; [destruct C as [Z|[Z _]]; lia|]. split; [exact U|]. intro P. destruct C as [Z|[_ [E Z]]]; [lia | split; assumption].
Qed.
