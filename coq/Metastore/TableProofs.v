From Asherah Require Import Metastore.Table.
From Coq Require Import List ZArith Bool Arith Lia.
Import ListNotations.
Open Scope Z_scope.

(* ---- the specification is an insert-only, read-your-writes table -------------------------------------------- *)

Lemma t_find_app id c t x : t_find id c (t ++ [x]) = match t_find id c t with Some r => Some r | None => t_find id c [x] end.
Proof.
  induction t as [|[[i k] r] t IH]; [cbn; destruct x as [[i k] r]; destruct (Nat.eqb i id && (k =? c)); reflexivity|].
  cbn [app t_find]. destruct (Nat.eqb i id && (k =? c)); [reflexivity | exact IH].
Qed.

(* Store never changes or removes an existing row, whatever it returns *)
Theorem spec_store_preserves t id c r id' c' x :
  t_find id' c' t = Some x -> t_find id' c' (fst (spec_step t (MStore id c r))) = Some x.
Proof.
  intro H. cbn. destruct (t_find id c t); cbn [fst]; [exact H|]. rewrite t_find_app, H. reflexivity.
Qed.

(* Store reports true exactly when no row with that (id, created) existed, and then the row reads back intact *)
Theorem spec_store_result t id c r :
  snd (spec_step t (MStore id c r)) = OBool (match t_find id c t with Some _ => false | None => true end) /\
  (t_find id c t = None -> t_find id c (fst (spec_step t (MStore id c r))) = Some r).
Proof.
  cbn. destruct (t_find id c t) eqn:F; cbn [fst snd]; split; try reflexivity; try discriminate.
  intros _. rewrite t_find_app, F. cbn. rewrite Nat.eqb_refl, Z.eqb_refl. reflexivity.
Qed.

(* reads do not change the table *)
Theorem spec_reads_pure t o : (forall id c r, o <> MStore id c r) -> fst (spec_step t o) = t.
Proof. intro H. destruct o; try reflexivity. exfalso. eapply H. reflexivity. Qed.

(* LoadLatest returns a row of that id with the greatest creation time *)
Lemma t_latest_spec id t best :
  match t_latest id t best with
  | None => best = None /\ forall c r, t_find id c t <> Some r \/ True
  | Some (k, r) =>
      (forall c x, t_find id c t = Some x -> c <= k) /\ (forall bk br, best = Some (bk, br) -> bk <= k)
  end.
Proof.
  revert best; induction t as [|[[i c] r] t IH]; intro best; cbn [t_latest].
  - destruct best as [[bk br]|]; [split; [intros ? ? H; discriminate H | intros ? ? H; inversion H; lia] | split; [reflexivity | right; exact I]].
  - destruct (Nat.eqb i id) eqn:E.
    + set (nb := match best with Some (bk, _) => if bk <? c then Some (c, r) else best | None => Some (c, r) end).
      specialize (IH nb). destruct (t_latest id t nb) as [[k x]|] eqn:L.
      * destruct IH as [I1 I2]. split.
        -- intros c0 x0 H. cbn [t_find] in H. rewrite E in H. cbn [andb] in H. destruct (c =? c0) eqn:C.
           ++ apply Z.eqb_eq in C. subst c0.
              assert (exists bk br, nb = Some (bk, br) /\ c <= bk) as [bk [br [Hn Hle]]].
              { unfold nb. destruct best as [[bk br]|]; [destruct (bk <? c) eqn:LT; [exists c, r; split; [reflexivity | lia] | exists bk, br; split; [reflexivity | apply Z.ltb_ge in LT; lia]] | exists c, r; split; [reflexivity | lia]]. }
              specialize (I2 _ _ Hn). lia.
           ++ eapply I1. exact H.
        -- intros bk br Hb. subst best. unfold nb in I2. destruct (bk <? c) eqn:LT.
           ++ specialize (I2 _ _ eq_refl). apply Z.ltb_lt in LT. lia.
           ++ exact (I2 _ _ eq_refl).
      * destruct IH as [I1 _]. unfold nb in I1. destruct best as [[bk br]|]; [destruct (bk <? c); discriminate I1 | discriminate I1].
    + specialize (IH best). destruct (t_latest id t best) as [[k x]|].
      * destruct IH as [I1 I2]. split; [|exact I2]. intros c0 x0 H. cbn [t_find] in H. rewrite E in H. cbn [andb] in H. eapply I1. exact H.
      * destruct IH as [I1 _]. split; [exact I1 | right; exact I].
Qed.

Theorem spec_latest_is_greatest t id k r :
  t_latest id t None = Some (k, r) -> forall c x, t_find id c t = Some x -> c <= k.
Proof.
  intros H c x F. pose proof (t_latest_spec id t None) as S. rewrite H in S. destruct S as [S _]. eapply S. exact F.
Qed.

(* ---- the adapters refine the specification exactly when they ask for strong consistency, make the put
   conditional and scan backwards --------------------------------------------------------------------------- *)

Theorem dyn_refines_spec : forall ops b oracle,
  dyn_run good_flags b oracle ops = spec_run (b_now b) ops.
Proof.
  induction ops as [|o r IH]; intros b oracle; [reflexivity|].
  cbn [dyn_run spec_run]. destruct o as [id c x|id c|id]; cbn [dyn_step spec_step good_flags f_conditional_put f_consistent_get f_consistent_query f_scan_forward b_view].
  - destruct (t_find id c (b_now b)); cbn [fst snd]; f_equal; apply IH.
  - f_equal. apply IH.
  - f_equal. apply IH.
Qed.

(* each flag matters: witnesses of a wrong answer when it is dropped *)
Definition r1 : krec := {| kr_revoked := false; kr_created := 1; kr_key := 7; kr_parent := None |}.
Definition r2 : krec := {| kr_revoked := true; kr_created := 2; kr_key := 8; kr_parent := Some (3%nat, 1) |}.
Definition b0 : backend := {| b_now := []; b_past := [] |}.

Example without_consistent_get_a_store_is_invisible :
  dyn_run {| f_consistent_get := false; f_consistent_query := true; f_conditional_put := true; f_scan_forward := false |}
          b0 [O; O] [MStore 1 1 r1; MLoad 1 1] <> spec_run [] [MStore 1 1 r1; MLoad 1 1].
Proof. vm_compute. discriminate. Qed.

Example without_condition_a_row_is_overwritten :
  dyn_run {| f_consistent_get := true; f_consistent_query := true; f_conditional_put := false; f_scan_forward := false |}
          b0 [] [MStore 1 1 r1; MStore 1 1 r2; MLoad 1 1] <> spec_run [] [MStore 1 1 r1; MStore 1 1 r2; MLoad 1 1].
Proof. vm_compute. discriminate. Qed.

Example scanning_forward_returns_the_oldest :
  dyn_run {| f_consistent_get := true; f_consistent_query := true; f_conditional_put := true; f_scan_forward := true |}
          b0 [] [MStore 1 1 r1; MStore 1 2 r2; MLoadLatest 1] <> spec_run [] [MStore 1 1 r1; MStore 1 2 r2; MLoadLatest 1].
Proof. vm_compute. discriminate. Qed.
