(* C13: the abstract key table every metastore implementation must refine (insert-only, read-your-writes), and a model
   of the DynamoDB-style adapters over a backend in which a read that does not ask for strong consistency may see any
   earlier state and an unconditional put overwrites. *)
From Coq Require Import List ZArith Bool Arith.
Import ListNotations.
Open Scope Z_scope.

Record krec := { kr_revoked : bool; kr_created : Z; kr_key : nat; kr_parent : option (nat * Z) }.

Definition table := list (nat * Z * krec).      (* (id, created, record), insertion order *)

Fixpoint t_find (id : nat) (c : Z) (t : table) : option krec :=
  match t with
  | [] => None
  | (i, k, r) :: rest => if Nat.eqb i id && (k =? c) then Some r else t_find id c rest
  end.

Fixpoint t_latest (id : nat) (t : table) (best : option (Z * krec)) : option (Z * krec) :=
  match t with
  | [] => best
  | (i, k, r) :: rest =>
      if Nat.eqb i id then
        t_latest id rest (match best with Some (bk, _) => if bk <? k then Some (k, r) else best | None => Some (k, r) end)
      else t_latest id rest best
  end.

Inductive mop := MStore (id : nat) (c : Z) (r : krec) | MLoad (id : nat) (c : Z) | MLoadLatest (id : nat).
Inductive mout := OBool (b : bool) | ORec (r : option krec).

(* the specification *)
Definition spec_step (t : table) (o : mop) : table * mout :=
  match o with
  | MStore id c r => match t_find id c t with
                     | Some _ => (t, OBool false)
                     | None => (t ++ [(id, c, r)], OBool true)
                     end
  | MLoad id c => (t, ORec (t_find id c t))
  | MLoadLatest id => (t, ORec (option_map snd (t_latest id t None)))
  end.

Fixpoint spec_run (t : table) (ops : list mop) : list mout :=
  match ops with
  | [] => []
  | o :: r => let '(t', out) := spec_step t o in out :: spec_run t' r
  end.

(* ---- DynamoDB-style backend ------------------------------------------------------------------------------- *)

(* request flags the adapters set (plugins/aws-v1/persistence/dynamodb.go, plugins/aws-v2/dynamodb/metastore) *)
Record flags := { f_consistent_get : bool; f_consistent_query : bool; f_conditional_put : bool; f_scan_forward : bool }.

Definition good_flags : flags := {| f_consistent_get := true; f_consistent_query := true; f_conditional_put := true; f_scan_forward := false |}.

(* backend state: current table and every earlier state (most recent first) *)
Record backend := { b_now : table; b_past : list table }.

Definition b_view (b : backend) (consistent : bool) (stale : nat) : table :=
  if consistent then b_now b else nth stale (b_past b) (b_now b).

Fixpoint t_replace (id : nat) (c : Z) (r : krec) (t : table) : table :=
  match t with
  | [] => [(id, c, r)]
  | (i, k, x) :: rest => if Nat.eqb i id && (k =? c) then (i, k, r) :: rest else (i, k, x) :: t_replace id c r rest
  end.

Fixpoint t_oldest (id : nat) (t : table) (best : option (Z * krec)) : option (Z * krec) :=
  match t with
  | [] => best
  | (i, k, r) :: rest =>
      if Nat.eqb i id then
        t_oldest id rest (match best with Some (bk, _) => if k <? bk then Some (k, r) else best | None => Some (k, r) end)
      else t_oldest id rest best
  end.

(* one adapter call; [stale] is the staleness oracle for this call *)
Definition dyn_step (f : flags) (b : backend) (stale : nat) (o : mop) : backend * mout :=
  match o with
  | MStore id c r =>
      match t_find id c (b_now b) with
      | Some _ =>
          if f_conditional_put f then (b, OBool false)                                   (* ConditionalCheckFailed *)
          else ({| b_now := t_replace id c r (b_now b); b_past := b_now b :: b_past b |}, OBool true)   (* overwrites! *)
      | None => ({| b_now := b_now b ++ [(id, c, r)]; b_past := b_now b :: b_past b |}, OBool true)
      end
  | MLoad id c => (b, ORec (t_find id c (b_view b (f_consistent_get f) stale)))
  | MLoadLatest id =>
      let v := b_view b (f_consistent_query f) stale in
      (b, ORec (option_map snd (if f_scan_forward f then t_oldest id v None else t_latest id v None)))
  end.

Fixpoint dyn_run (f : flags) (b : backend) (oracle : list nat) (ops : list mop) : list mout :=
  match ops with
  | [] => []
  | o :: r => let '(b', out) := dyn_step f b (hd O oracle) o in out :: dyn_run f b' (tl oracle) r
  end.
