(* Each eviction policy keeps exactly the set of admitted keys (as a duplicate-free list):
   admit adds one key, access permutes, remove deletes one key, victim names a present key. *)
From Coq Require Import List ZArith Bool Lia Permutation.
From Asherah Require Import Cache.Generic Cache.ListLemmas.
Import ListNotations.
Open Scope Z_scope.

Section P.
Variables (K : Type) (keqb : K -> K -> bool).
Hypothesis keqb_spec : forall a b, keqb a b = true <-> a = b.

Notation mem := (mem K keqb).
Notation del := (del K keqb).
Notation to_front := (to_front K keqb).
Notation last_opt := (last_opt K).
Notation drop_last := (drop_last K).

Lemma perm_del k l : NoDup l -> In k l -> Permutation (k :: del k l) l.
Proof.
  induction l as [|x l IH]; intros ND I; [contradiction|].
  inversion ND as [|? ? Hx ND']; subst. rewrite (del_cons K keqb).
  destruct (keqb k x) eqn:E.
  - apply keqb_spec in E. subst. rewrite (del_notin K keqb keqb_spec); [reflexivity | exact Hx].
  - destruct I as [->|I]; [rewrite (keqb_refl K keqb keqb_spec) in E; discriminate|].
    rewrite perm_swap. constructor. apply IH; assumption.
Qed.

Lemma perm_last l x : last_opt l = Some x -> Permutation (x :: drop_last l) l.
Proof.
  intro H. pose proof (last_opt_spec K l) as S. rewrite H in S. destruct S as [l' [E D]]. rewrite D. subst l.
  apply Permutation_cons_append.
Qed.

Definition flat (f : list (Z * list K)) : list K := concat (map snd f).

Definition buckets_ok (f : list (Z * list K)) : Prop := Forall (fun b => snd b <> []) f.

(* ---- lfu buckets ------------------------------------------------------------------------ *)

Lemma flat_cons n ks r : flat ((n, ks) :: r) = ks ++ flat r.
Proof. reflexivity. Qed.

Lemma freq_del_perm k f : NoDup (flat f) -> In k (flat f) -> Permutation (k :: flat (freq_del K keqb k f)) (flat f).
Proof.
  induction f as [|[n ks] r IH]; intros ND I; [contradiction|].
  rewrite flat_cons in *. cbn [freq_del].
  destruct (mem k ks) eqn:M.
  - apply (mem_In K keqb keqb_spec) in M.
    assert (NDk : NoDup ks) by (apply NoDup_app_l in ND; exact ND).
    pose proof (perm_del k ks NDk M) as P.
    destruct (del k ks) as [|y ys] eqn:D.
    + rewrite <- P. reflexivity.
    + rewrite flat_cons. rewrite <- P. reflexivity.
  - apply (mem_false K keqb keqb_spec) in M.
    rewrite flat_cons. apply in_app_or in I as [I|I]; [contradiction|].
    rewrite Permutation_middle. apply Permutation_app_head. apply IH; [|exact I].
    apply NoDup_app_r in ND. exact ND.
Qed.

Lemma freq_del_ok k f : buckets_ok f -> buckets_ok (freq_del K keqb k f).
Proof.
  induction f as [|[n ks] r IH]; intro B; [constructor|].
  inversion B as [|? ? Hb Br]; subst. cbn [freq_del].
  destruct (mem k ks).
  - destruct (del k ks) eqn:D; [exact Br|]. constructor; [cbn; discriminate | exact Br].
  - constructor; [exact Hb | apply IH; exact Br].
Qed.

Lemma freq_ins_perm n k f : Permutation (flat (freq_ins K n k f)) (k :: flat f).
Proof.
  induction f as [|[m ks] r IH]; [reflexivity|].
  cbn [freq_ins]. destruct (m =? n).
  - rewrite !flat_cons. rewrite <- app_assoc. cbn. rewrite <- Permutation_middle. reflexivity.
  - destruct (n <? m).
    + reflexivity.
    + rewrite !flat_cons. rewrite IH. rewrite <- Permutation_middle. reflexivity.
Qed.

Lemma freq_ins_ok n k f : buckets_ok f -> buckets_ok (freq_ins K n k f).
Proof.
  induction f as [|[m ks] r IH]; intro B.
  - constructor; [cbn; discriminate | constructor].
  - inversion B as [|? ? Hb Br]; subst. cbn [freq_ins]. destruct (m =? n).
    + constructor; [cbn; destruct ks; discriminate | exact Br].
    + destruct (n <? m).
      * constructor; [cbn; discriminate | exact B].
      * constructor; [exact Hb | apply IH; exact Br].
Qed.

(* ---- keys held by a policy state, per kind -------------------------------------------------- *)

Definition pkeys (c : cfg) (p : pstate K) : list K :=
  match c_kind c with
  | Lru => ps_win p
  | Slru => ps_prot p ++ ps_prob p
  | Lfu => flat (ps_freq p)
  | Tlfu => ps_win p ++ ps_prot p ++ ps_prob p
  end.

Definition pol_ok (c : cfg) (p : pstate K) : Prop := NoDup (pkeys c p) /\ buckets_ok (ps_freq p).

Lemma pol_ok_empty c : pol_ok c ps_empty.
Proof. split; [unfold pkeys; destruct (c_kind c); cbn; constructor | constructor]. Qed.

(* slru on the pair (prot, prob) *)
Lemma slru_admit_perm p k :
  Permutation (ps_prot (slru_admit K p k) ++ ps_prob (slru_admit K p k)) (k :: ps_prot p ++ ps_prob p).
Proof. cbn. symmetry. apply Permutation_middle. Qed.

Lemma slru_access_perm pc p k :
  NoDup (ps_prot p ++ ps_prob p) -> In k (ps_prot p ++ ps_prob p) ->
  Permutation (ps_prot (slru_access K keqb pc p k) ++ ps_prob (slru_access K keqb pc p k)) (ps_prot p ++ ps_prob p).
Proof.
  intros ND I. unfold slru_access.
  assert (NDa : NoDup (ps_prot p)) by (apply NoDup_app_l in ND; exact ND).
  assert (NDb : NoDup (ps_prob p)) by (apply NoDup_app_r in ND; exact ND).
  destruct (mem k (ps_prot p)) eqn:M.
  - apply (mem_In K keqb keqb_spec) in M. cbn [ps_prot ps_prob set_seg]. unfold Generic.to_front.
    apply Permutation_app_tail. apply (perm_del k _ NDa M).
  - apply (mem_false K keqb keqb_spec) in M. apply in_app_or in I as [I|I]; [contradiction|].
    assert (P : Permutation ((k :: ps_prot p) ++ del k (ps_prob p)) (ps_prot p ++ ps_prob p)).
    { rewrite <- app_comm_cons. rewrite Permutation_middle. apply Permutation_app_head. apply (perm_del k _ NDb I). }
    destruct (len (k :: ps_prot p) >? pc).
    + destruct (last_opt (k :: ps_prot p)) as [b|] eqn:L.
      * cbn [ps_prot ps_prob set_seg]. rewrite <- P.
        rewrite <- Permutation_middle. rewrite app_comm_cons. apply Permutation_app_tail.
        apply (perm_last _ _ L).
      * cbn [ps_prot ps_prob set_seg]. exact P.
    + cbn [ps_prot ps_prob set_seg]. exact P.
Qed.

Lemma slru_remove_perm p k :
  NoDup (ps_prot p ++ ps_prob p) -> In k (ps_prot p ++ ps_prob p) ->
  Permutation (k :: ps_prot (slru_remove K keqb p k) ++ ps_prob (slru_remove K keqb p k)) (ps_prot p ++ ps_prob p).
Proof.
  intros ND I. unfold slru_remove.
  assert (NDa : NoDup (ps_prot p)) by (apply NoDup_app_l in ND; exact ND).
  assert (NDb : NoDup (ps_prob p)) by (apply NoDup_app_r in ND; exact ND).
  destruct (mem k (ps_prot p)) eqn:M.
  - apply (mem_In K keqb keqb_spec) in M. cbn [ps_prot ps_prob set_seg]. rewrite app_comm_cons. apply Permutation_app_tail.
    apply (perm_del k _ NDa M).
  - apply (mem_false K keqb keqb_spec) in M. apply in_app_or in I as [I|I]; [contradiction|].
    cbn [ps_prot ps_prob set_seg]. rewrite Permutation_middle. apply Permutation_app_head. apply (perm_del k _ NDb I).
Qed.

Lemma slru_victim_in p k : slru_victim K p = Some k -> In k (ps_prot p ++ ps_prob p).
Proof.
  unfold slru_victim. destruct (last_opt (ps_prob p)) eqn:L.
  - intro H. inversion H; subst. apply in_or_app. right. apply (last_opt_In K _ _ L).
  - intro H. apply in_or_app. left. apply (last_opt_In K _ _ H).
Qed.

Lemma slru_victim_none p : slru_victim K p = None -> ps_prot p ++ ps_prob p = [].
Proof.
  unfold slru_victim. destruct (last_opt (ps_prob p)) eqn:L; [discriminate|].
  intro H. apply (last_opt_None K) in L. apply (last_opt_None K) in H. rewrite L, H. reflexivity.
Qed.

(* ---- the four interface lemmas ------------------------------------------------------------- *)

Lemma freq_del_notin k f : ~ In k (flat f) -> freq_del K keqb k f = f.
Proof.
  induction f as [|[n ks] r IH]; intro H; [reflexivity|].
  rewrite flat_cons in H. cbn [freq_del].
  destruct (mem k ks) eqn:M.
  - apply (mem_In K keqb keqb_spec) in M. exfalso. apply H. apply in_or_app. left. exact M.
  - f_equal. apply IH. intro I. apply H. apply in_or_app. right. exact I.
Qed.

Lemma slru_access_win pc p k : ps_win (slru_access K keqb pc p k) = ps_win p.
Proof.
  unfold slru_access. destruct (mem k (ps_prot p)); [reflexivity|].
  destruct (len (k :: ps_prot p) >? pc); [|reflexivity].
  destruct (last_opt (k :: ps_prot p)); reflexivity.
Qed.

Lemma slru_access_freq pc p k : ps_freq (slru_access K keqb pc p k) = ps_freq p.
Proof.
  unfold slru_access. destruct (mem k (ps_prot p)); [reflexivity|].
  destruct (len (k :: ps_prot p) >? pc); [|reflexivity].
  destruct (last_opt (k :: ps_prot p)); reflexivity.
Qed.

Lemma slru_remove_win p k : ps_win (slru_remove K keqb p k) = ps_win p.
Proof. unfold slru_remove. destruct (mem k (ps_prot p)); reflexivity. Qed.

Lemma slru_remove_freq p k : ps_freq (slru_remove K keqb p k) = ps_freq p.
Proof. unfold slru_remove. destruct (mem k (ps_prot p)); reflexivity. Qed.

Lemma pol_admit_perm c p k :
  ~ In k (pkeys c p) -> Permutation (pkeys c (pol_admit K keqb c p k)) (k :: pkeys c p).
Proof.
  unfold pkeys, pol_admit. intro NI. destruct (c_kind c).
  - reflexivity.
  - unfold lfu_increment. cbn [ps_freq set_freq]. rewrite freq_ins_perm.
    rewrite (freq_del_notin _ _ NI). reflexivity.
  - apply slru_admit_perm.
  - destruct (tl_bypassed c).
    + cbn [slru_admit ps_win ps_prot ps_prob set_seg]. rewrite <- !Permutation_middle. reflexivity.
    + destruct (len (ps_win p) <? win_cap (c_cap c)); [reflexivity|].
      destruct (last_opt (ps_win p)) as [v|] eqn:L.
      * cbn [slru_admit ps_win ps_prot ps_prob set_seg set_win].
        pose proof (perm_last _ _ L) as P. rewrite <- P at 2.
        rewrite <- !app_comm_cons. constructor. rewrite <- !Permutation_middle. reflexivity.
      * apply (last_opt_None K) in L. cbn [ps_win ps_prot ps_prob set_win]. rewrite L. reflexivity.
Qed.

Lemma pol_admit_buckets c p k : buckets_ok (ps_freq p) -> buckets_ok (ps_freq (pol_admit K keqb c p k)).
Proof.
  intro B. unfold pol_admit. destruct (c_kind c); try exact B.
  - unfold lfu_increment. cbn [ps_freq set_freq]. apply freq_ins_ok. apply freq_del_ok. exact B.
  - destruct (tl_bypassed c); [exact B|].
    destruct (len (ps_win p) <? win_cap (c_cap c)); [exact B|].
    destruct (last_opt (ps_win p)); exact B.
Qed.

Lemma pol_access_perm c p k :
  NoDup (pkeys c p) -> In k (pkeys c p) -> Permutation (pkeys c (pol_access K keqb c p k)) (pkeys c p).
Proof.
  unfold pkeys, pol_access. intros ND I. destruct (c_kind c).
  - cbn [ps_win set_win]. unfold Generic.to_front. apply (perm_del k _ ND I).
  - unfold lfu_increment. cbn [ps_freq set_freq]. rewrite freq_ins_perm. apply (freq_del_perm k _ ND I).
  - apply slru_access_perm; assumption.
  - destruct (mem k (ps_win p)) eqn:M.
    + apply (mem_In K keqb keqb_spec) in M. cbn [ps_win ps_prot ps_prob set_win]. unfold Generic.to_front.
      apply Permutation_app_tail. apply perm_del; [apply NoDup_app_l in ND; exact ND | exact M].
    + apply (mem_false K keqb keqb_spec) in M. apply in_app_or in I as [I|I]; [contradiction|].
      rewrite slru_access_win. apply Permutation_app_head.
      apply slru_access_perm; [apply NoDup_app_r in ND; exact ND | exact I].
Qed.

Lemma pol_access_buckets c p k : buckets_ok (ps_freq p) -> buckets_ok (ps_freq (pol_access K keqb c p k)).
Proof.
  intro B. unfold pol_access. destruct (c_kind c); try exact B.
  - unfold lfu_increment. cbn [ps_freq set_freq]. apply freq_ins_ok. apply freq_del_ok. exact B.
  - rewrite slru_access_freq. exact B.
  - destruct (mem k (ps_win p)); [exact B | rewrite slru_access_freq; exact B].
Qed.

Lemma pol_remove_perm c p k :
  NoDup (pkeys c p) -> In k (pkeys c p) -> Permutation (k :: pkeys c (pol_remove K keqb c p k)) (pkeys c p).
Proof.
  unfold pkeys, pol_remove. intros ND I. destruct (c_kind c).
  - cbn [ps_win set_win]. apply (perm_del k _ ND I).
  - unfold lfu_remove. cbn [ps_freq set_freq]. apply (freq_del_perm k _ ND I).
  - apply slru_remove_perm; assumption.
  - destruct (mem k (ps_win p)) eqn:M.
    + apply (mem_In K keqb keqb_spec) in M. cbn [ps_win ps_prot ps_prob set_win].
      rewrite app_comm_cons. apply Permutation_app_tail.
      apply perm_del; [apply NoDup_app_l in ND; exact ND | exact M].
    + apply (mem_false K keqb keqb_spec) in M. apply in_app_or in I as [I|I]; [contradiction|].
      rewrite slru_remove_win. rewrite Permutation_middle. apply Permutation_app_head.
      apply slru_remove_perm; [apply NoDup_app_r in ND; exact ND | exact I].
Qed.

Lemma pol_remove_buckets c p k : buckets_ok (ps_freq p) -> buckets_ok (ps_freq (pol_remove K keqb c p k)).
Proof.
  intro B. unfold pol_remove. destruct (c_kind c); try exact B.
  - unfold lfu_remove. cbn [ps_freq set_freq]. apply freq_del_ok. exact B.
  - rewrite slru_remove_freq. exact B.
  - destruct (mem k (ps_win p)); [exact B | rewrite slru_remove_freq; exact B].
Qed.

Lemma lfu_victim_spec p :
  buckets_ok (ps_freq p) ->
  match lfu_victim K p with Some k => In k (flat (ps_freq p)) | None => flat (ps_freq p) = [] end.
Proof.
  intro B. unfold lfu_victim. destruct (ps_freq p) as [|[n ks] r]; [reflexivity|].
  inversion B as [|? ? Hb Br]; subst. cbn in Hb. destruct ks as [|k ks]; [contradiction|].
  rewrite flat_cons. left. reflexivity.
Qed.

Lemma pol_victim_spec c p h r p' :
  pol_victim K keqb c p h = (r, p') -> NoDup (pkeys c p) -> buckets_ok (ps_freq p) ->
  Permutation (pkeys c p') (pkeys c p) /\ ps_freq p' = ps_freq p /\
  match r with Some k => In k (pkeys c p) | None => pkeys c p = [] end.
Proof.
  unfold pkeys, pol_victim. intros H ND B. destruct (c_kind c).
  - inversion H; subst. split; [reflexivity|]. split; [reflexivity|].
    destruct (last_opt (ps_win p')) eqn:L; [apply (last_opt_In K _ _ L) | apply (last_opt_None K _ L)].
  - inversion H; subst. split; [reflexivity|]. split; [reflexivity|]. apply lfu_victim_spec. exact B.
  - inversion H; subst. split; [reflexivity|]. split; [reflexivity|].
    destruct (slru_victim K p') eqn:L; [apply slru_victim_in; exact L | apply slru_victim_none; exact L].
  - destruct (last_opt (ps_win p)) as [cand|] eqn:L.
    + destruct (slru_victim K p) as [v|] eqn:SV.
      * assert (Hc : In cand (ps_win p ++ ps_prot p ++ ps_prob p))
          by (apply in_or_app; left; apply (last_opt_In K _ _ L)).
        assert (Hv : In v (ps_win p ++ ps_prot p ++ ps_prob p))
          by (apply in_or_app; right; apply slru_victim_in; exact SV).
        destruct h as [hk|].
        -- destruct (keqb hk v).
           ++ inversion H; subst. split; [|split; [reflexivity | exact Hv]].
              cbn [slru_admit ps_win ps_prot ps_prob set_seg set_win].
              pose proof (perm_last _ _ L) as P. rewrite <- P at 2.
              rewrite <- app_comm_cons. rewrite <- !Permutation_middle. reflexivity.
           ++ inversion H; subst. split; [reflexivity|]. split; [reflexivity | exact Hc].
        -- inversion H; subst. split; [reflexivity|]. split; [reflexivity | exact Hc].
      * inversion H; subst. split; [reflexivity|]. split; [reflexivity|].
        apply in_or_app; left; apply (last_opt_In K _ _ L).
    + inversion H; subst. split; [reflexivity|]. split; [reflexivity|].
      apply (last_opt_None K) in L. rewrite L. cbn [app].
      destruct (slru_victim K p') eqn:SV; [apply slru_victim_in; exact SV | apply slru_victim_none; exact SV].
Qed.

End P.
