(* Victim choice by definition: an entry evicted by the LRU policy to make room is the least recently used of the
   entries present (use = Set or a Get that hits), over every operation sequence. *)
From Asherah Require Import Cache.Generic Cache.ListLemmas Cache.PolicyProofs Cache.CacheProofs.
From Coq Require Import List ZArith Lia Bool Permutation Sorting.Sorted.
Import ListNotations.
Open Scope Z_scope.

Section V.
Variables (K V : Type) (keqb : K -> K -> bool).
Hypothesis keqb_spec : forall a b, keqb a b = true <-> a = b.

Notation cache := (cache K V).
Notation step := (step keqb).
Notation del := (del K keqb).

(* time of last use: Set k at time t and a hitting Get k at time t both stamp k with t *)
Definition lu_upd (lu : K -> Z) (t : Z) (c : cache) (now : Z) (o : op K V) : K -> Z :=
  if closing c then lu else
  match o with
  | OSet k _ => fun x => if keqb x k then t else lu x
  | OGet k => match lookup K V keqb k (items c) with
              | Some (_, e) => if (c_expiry (cc c) >? 0) && (e <? now) then lu else fun x => if keqb x k then t else lu x
              | None => lu
              end
  | _ => lu
  end.

Fixpoint runi (c : cache) (lu : K -> Z) (t : Z) (l : list (input K V)) : cache * (K -> Z) * Z :=
  match l with
  | [] => (c, lu, t)
  | (now, h, o) :: r => runi (fst (fst (step c now h o))) (lu_upd lu t c now o) (t + 1) r
  end.

Definition desc (lu : K -> Z) (l : list K) : Prop := StronglySorted (fun a b => lu b < lu a) l.

Lemma desc_del lu k l : desc lu l -> desc lu (del k l).
Proof.
  induction 1 as [|x l S IH F]; [constructor|]. rewrite (del_cons K keqb). destruct (keqb k x); [exact IH|].
  constructor; [exact IH|]. rewrite Forall_forall in *. intros y Hy. apply (In_del K keqb keqb_spec) in Hy as [Hy _]. exact (F y Hy).
Qed.

Lemma desc_ext lu lu' l : (forall x, In x l -> lu' x = lu x) -> desc lu l -> desc lu' l.
Proof.
  intros E S. induction S as [|x l S IH F]; [constructor|].
  constructor.
  - apply IH. intros y Hy. apply E. right. exact Hy.
  - rewrite Forall_forall in *. intros y Hy. rewrite (E x (or_introl eq_refl)), (E y (or_intror Hy)). exact (F y Hy).
Qed.

Lemma desc_last lu l v : desc lu l -> last_opt K l = Some v -> forall z, In z l -> lu v <= lu z.
Proof.
  intros S L. pose proof (last_opt_spec K l) as Sp. rewrite L in Sp. destruct Sp as [l' [E _]]. subst l. clear L.
  induction l' as [|x l' IH]; intros z Hz; cbn [app] in *.
  - destruct Hz as [->|[]]. lia.
  - inversion S as [|? ? S' F]; subst. destruct Hz as [->|Hz].
    + rewrite Forall_forall in F. assert (In v (l' ++ [v])) by (apply in_or_app; right; left; reflexivity). specialize (F v H). lia.
    + apply IH; assumption.
Qed.

(* the LRU list is sorted by last use, all stamps are in the past *)
Definition J (c : cache) (lu : K -> Z) (t : Z) : Prop :=
  desc lu (ps_win (pst c)) /\ forall k, In k (ps_win (pst c)) -> lu k < t.

Lemma J_touch (l : list K) lu t k :
  desc lu l -> (forall x, In x l -> lu x < t) ->
  let lu' := fun x => if keqb x k then t else lu x in
  desc lu' (k :: del k l) /\ forall x, In x (k :: del k l) -> lu' x < t + 1.
Proof.
  intros S B lu'.
  assert (E : forall x, In x (del k l) -> lu' x = lu x).
  { intros x Hx. apply (In_del K keqb keqb_spec) in Hx as [_ Hn]. unfold lu'. destruct (keqb x k) eqn:Ek; [apply keqb_spec in Ek; contradiction | reflexivity]. }
  split.
  - constructor; [apply (desc_ext lu); [exact E | apply desc_del; exact S]|].
    rewrite Forall_forall. intros y Hy. rewrite (E y Hy). unfold lu'. rewrite (keqb_refl K keqb keqb_spec).
    apply (In_del K keqb keqb_spec) in Hy as [Hy _]. exact (B y Hy).
  - intros x [->|Hx].
    + unfold lu'. rewrite (keqb_refl K keqb keqb_spec). lia.
    + rewrite (E x Hx). apply (In_del K keqb keqb_spec) in Hx as [Hx _]. specialize (B x Hx). lia.
Qed.

Lemma J_del (l : list K) lu t k : desc lu l -> (forall x, In x l -> lu x < t) ->
  desc lu (del k l) /\ forall x, In x (del k l) -> lu x < t + 1.
Proof.
  intros S B. split; [apply desc_del; exact S|]. intros x Hx. apply (In_del K keqb keqb_spec) in Hx as [Hx _]. specialize (B x Hx). lia.
Qed.

Lemma lookup_in k l x : lookup K V keqb k l = Some x -> In k (map fst l).
Proof. apply (lookup_Some_in K V keqb keqb_spec). Qed.

Lemma lru_win_keys c : c_kind (cc c) = Lru -> Inv K V c -> forall k, In k (ps_win (pst c)) <-> In k (map fst (items c)).
Proof.
  intros HK I k. pose proof (inv_perm K V c I) as P. unfold PolicyProofs.pkeys in P. rewrite HK in P.
  split; intro H; [eapply Permutation_in; [exact P | exact H] | eapply Permutation_in; [apply Permutation_sym; exact P | exact H]].
Qed.

Lemma J_weaken c lu t : J c lu t -> J c lu (t + 1).
Proof. intros [S B]. split; [exact S|]. intros k H. specialize (B k H). lia. Qed.

Lemma J_fresh_stamp c lu t k : ~ In k (ps_win (pst c)) -> J c lu t -> J c (fun x => if keqb x k then t else lu x) (t + 1).
Proof.
  intros N [S B]. assert (E : forall x, In x (ps_win (pst c)) -> (if keqb x k then t else lu x) = lu x).
  { intros x Hx. destruct (keqb x k) eqn:Ek; [apply keqb_spec in Ek; subst; contradiction | reflexivity]. }
  split; [apply (desc_ext lu); assumption|]. intros x Hx. rewrite (E x Hx). specialize (B x Hx). lia.
Qed.

(* one operation keeps the recency order *)
Lemma J_step c lu t now h o :
  c_kind (cc c) = Lru -> Inv K V c -> J c lu t ->
  J (fst (fst (step c now h o))) (lu_upd lu t c now o) (t + 1).
Proof.
  intros HK I HJ. pose proof HJ as [S B]. unfold lu_upd. destruct o as [k v|k|k| | |]; cbn [Generic.step].
  - (* Set *)
    destruct (closing c) eqn:CL; [cbn [fst]; apply J_weaken; exact HJ|].
    destruct (lookup K V keqb k (items c)) as [[v0 e0]|] eqn:L.
    + cbn [fst]. unfold with_items, J. cbn [pst]. unfold pol_access. rewrite HK. cbn [ps_win set_win]. unfold to_front.
      apply J_touch; assumption.
    + assert (Nk : ~ In k (ps_win (pst c))).
      { intro H. apply (lru_win_keys c HK I) in H. apply (lookup_None K V keqb keqb_spec) in L. contradiction. }
      destruct (size c =? c_cap (cc c)).
      * unfold evict, pol_victim. rewrite HK. destruct (last_opt K (ps_win (pst c))) as [kv|] eqn:LV.
        -- unfold evict_key, with_items. cbn [items pst cc closing].
           destruct (lookup K V keqb kv (items c)) as [[vv ev]|] eqn:L2; cbn [fst pst]; unfold pol_admit, pol_remove; rewrite HK; cbn [ps_win set_win].
           ++ assert (Nk2 : ~ In k (del kv (ps_win (pst c)))) by (intro H; apply (In_del K keqb keqb_spec) in H as [H _]; contradiction).
              destruct (J_del (ps_win (pst c)) lu t kv S B) as [S1 B1].
              split.
              ** constructor; [apply (desc_ext lu); [|exact S1]|].
                 --- intros x Hx. destruct (keqb x k) eqn:Ek; [apply keqb_spec in Ek; subst; contradiction | reflexivity].
                 --- rewrite Forall_forall. intros y Hy. rewrite (keqb_refl K keqb keqb_spec).
                     destruct (keqb y k) eqn:Ek; [apply keqb_spec in Ek; subst; contradiction|].
                     apply (In_del K keqb keqb_spec) in Hy as [Hy _]. exact (B y Hy).
              ** intros x [->|Hx]; [rewrite (keqb_refl K keqb keqb_spec); lia|].
                 destruct (keqb x k) eqn:Ek; [lia|]. exact (B1 x Hx).
           ++ split.
              ** constructor; [apply (desc_ext lu); [|exact S]|].
                 --- intros x Hx. destruct (keqb x k) eqn:Ek; [apply keqb_spec in Ek; subst; contradiction | reflexivity].
                 --- rewrite Forall_forall. intros y Hy. rewrite (keqb_refl K keqb keqb_spec).
                     destruct (keqb y k) eqn:Ek; [apply keqb_spec in Ek; subst; contradiction|]. exact (B y Hy).
              ** intros x [->|Hx]; [rewrite (keqb_refl K keqb keqb_spec); lia|].
                 destruct (keqb x k) eqn:Ek; [lia|]. specialize (B x Hx). lia.
        -- cbn [fst]. apply J_fresh_stamp; assumption.
      * cbn [fst pst with_items]. unfold pol_admit. rewrite HK. cbn [ps_win set_win]. split.
        -- constructor; [apply (desc_ext lu); [|exact S]|].
           ++ intros x Hx. destruct (keqb x k) eqn:Ek; [apply keqb_spec in Ek; subst; contradiction | reflexivity].
           ++ rewrite Forall_forall. intros y Hy. rewrite (keqb_refl K keqb keqb_spec).
              destruct (keqb y k) eqn:Ek; [apply keqb_spec in Ek; subst; contradiction|]. exact (B y Hy).
        -- intros x [->|Hx]; [rewrite (keqb_refl K keqb keqb_spec); lia|].
           destruct (keqb x k) eqn:Ek; [lia|]. specialize (B x Hx). lia.
  - (* Get *)
    destruct (closing c) eqn:CL; [cbn [fst]; apply J_weaken; exact HJ|].
    destruct (lookup K V keqb k (items c)) as [[v0 e0]|] eqn:L; [|cbn [fst]; apply J_weaken; exact HJ].
    destruct ((c_expiry (cc c) >? 0) && (e0 <? now)).
    + unfold evict_key. rewrite L. cbn [fst pst with_items]. unfold pol_remove. rewrite HK. cbn [ps_win set_win].
      apply J_del; assumption.
    + cbn [fst pst with_items]. unfold pol_access. rewrite HK. cbn [ps_win set_win]. unfold to_front. apply J_touch; assumption.
  - (* Delete *)
    destruct (closing c) eqn:CL; [cbn [fst]; apply J_weaken; exact HJ|].
    destruct (lookup K V keqb k (items c)) as [x|] eqn:L; [|cbn [fst]; apply J_weaken; exact HJ].
    cbn [fst pst with_items]. unfold pol_remove. rewrite HK. cbn [ps_win set_win]. apply J_del; assumption.
  - cbn [fst]. destruct (closing c); apply J_weaken; exact HJ.
  - cbn [fst]. destruct (closing c); apply J_weaken; exact HJ.
  - (* Close *)
    destruct (closing c) eqn:CL; [cbn [fst]; apply J_weaken; exact HJ|].
    destruct (close_loop K V keqb _ _ _ _) as [[c2 ev]|]; cbn [fst pst].
    + split; [constructor | intros k []].
    + apply J_weaken. exact HJ.
Qed.

Lemma runi_inv cf l : forall c lu t,
  c_kind cf = Lru -> 1 <= c_cap cf -> Good K V cf c -> J c lu t ->
  match runi c lu t l with (c', lu', t') => Good K V cf c' /\ J c' lu' t' end.
Proof.
  induction l as [|[[now h] o] r IH]; intros c lu t HK Hc G HJ; cbn [runi]; [split; assumption|].
  apply IH; try assumption.
  - apply (Good_step K V keqb keqb_spec); assumption.
  - destruct G as [I [_ E]]. apply J_step; [rewrite E; exact HK | exact I | exact HJ].
Qed.

(* C15, LRU: whenever a Set has to make room, the entry it evicts is the least recently used of the entries present *)
Theorem lru_victim_is_least_recently_used cf l now h k v :
  c_kind cf = Lru -> 1 <= c_cap cf ->
  match runi (new_cache cf) (fun _ => 0) 1 l with
  | (c, lu, t) =>
      match step c now h (OSet k v) with
      | (_, _, ev) => forall x y, In (x, y) ev -> forall z, In z (map fst (items c)) -> lu x <= lu z
      end
  end.
Proof.
  intros HK Hc.
  assert (J0 : J (new_cache cf) (fun _ => 0) 1) by (split; [constructor | intros ? []]).
  pose proof (runi_inv cf l (new_cache cf) (fun _ => 0) 1 HK Hc (Good_new K V cf) J0) as R.
  destruct (runi (new_cache cf) (fun _ => 0) 1 l) as [[c lu] t]. destruct R as [[I [_ E]] [S B]].
  assert (HKc : c_kind (cc c) = Lru) by (rewrite E; exact HK).
  cbn [Generic.step]. destruct (closing c); [intros x y []|].
  destruct (lookup K V keqb k (items c)) as [[v0 e0]|]; [intros x y []|].
  destruct (size c =? c_cap (cc c)); [|intros x y []].
  unfold evict, pol_victim. rewrite HKc. destruct (last_opt K (ps_win (pst c))) as [kv|] eqn:LV; [|intros x y []].
  unfold evict_key, with_items. cbn [items]. destruct (lookup K V keqb kv (items c)) as [[vv ev0]|]; [|intros x y []].
  intros x y [Hxy|[]] z Hz. inversion Hxy; subst x y.
  apply (desc_last lu (ps_win (pst c)) kv S LV). apply (lru_win_keys c HKc I). exact Hz.
Qed.

(* ---- LFU ------------------------------------------------------------------------------------------------ *)

Notation flat := (flat K).

(* number of uses since the entry was inserted: the inserting Set counts 1, every later Set of the key and every hitting Get adds 1 *)
Definition cnt_upd (cnt : K -> Z) (c : cache) (now : Z) (o : op K V) : K -> Z :=
  if closing c then cnt else
  match o with
  | OSet k _ => match lookup K V keqb k (items c) with
                | Some _ => fun x => if keqb x k then cnt k + 1 else cnt x
                | None => fun x => if keqb x k then 1 else cnt x
                end
  | OGet k => match lookup K V keqb k (items c) with
              | Some (_, e) => if (c_expiry (cc c) >? 0) && (e <? now) then cnt else fun x => if keqb x k then cnt k + 1 else cnt x
              | None => cnt
              end
  | _ => cnt
  end.

Fixpoint runc (c : cache) (cnt : K -> Z) (l : list (input K V)) : cache * (K -> Z) :=
  match l with
  | [] => (c, cnt)
  | (now, h, o) :: r => runc (fst (fst (step c now h o))) (cnt_upd cnt c now o) r
  end.

Definition asc (f : list (Z * list K)) : Prop := StronglySorted (fun a b => fst a < fst b) f.
Definition lab (cnt : K -> Z) (f : list (Z * list K)) : Prop := forall n ks, In (n, ks) f -> forall x, In x ks -> cnt x = n.

Lemma in_freq_del k f m ks' : In (m, ks') (freq_del K keqb k f) -> exists ks, In (m, ks) f /\ incl ks' ks.
Proof.
  induction f as [|[n ks] r IH]; cbn [freq_del]; [intros []|].
  destruct (mem K keqb k ks).
  - destruct (del k ks) as [|y ys] eqn:D.
    + intro H. exists ks'. split; [right; exact H | apply incl_refl].
    + intros [H|H].
      * inversion H; subst. exists ks. split; [left; reflexivity|]. intros x Hx. rewrite <- D in Hx.
        apply (In_del K keqb keqb_spec) in Hx as [Hx _]. exact Hx.
      * exists ks'. split; [right; exact H | apply incl_refl].
  - intros [H|H].
    + inversion H; subst. exists ks'. split; [left; reflexivity | apply incl_refl].
    + destruct (IH H) as [ks0 [H1 H2]]. exists ks0. split; [right; exact H1 | exact H2].
Qed.

Lemma asc_del k f : asc f -> asc (freq_del K keqb k f).
Proof.
  induction 1 as [|[n ks] r S IH F]; cbn [freq_del]; [constructor|].
  destruct (mem K keqb k ks).
  - destruct (del k ks); [exact S | constructor; [exact S | exact F]].
  - constructor; [exact IH|]. rewrite Forall_forall in *. intros [m ks'] H. destruct (in_freq_del k r m ks' H) as [ks0 [H1 _]].
    exact (F (m, ks0) H1).
Qed.

Lemma lab_del cnt k f : lab cnt f -> lab cnt (freq_del K keqb k f).
Proof. intros L n ks H x Hx. destruct (in_freq_del k f n ks H) as [ks0 [H1 H2]]. exact (L n ks0 H1 x (H2 x Hx)). Qed.

Lemma in_freq_ins n k f a ks' :
  In (a, ks') (freq_ins K n k f) ->
  In (a, ks') f \/ (a = n /\ (ks' = [k] \/ exists ks0, In (n, ks0) f /\ ks' = ks0 ++ [k])).
Proof.
  induction f as [|[m ks] r IH]; cbn [freq_ins].
  - intros [H|[]]. inversion H; subst. right. split; [reflexivity | left; reflexivity].
  - destruct (m =? n) eqn:E.
    + apply Z.eqb_eq in E. subst m. intros [H|H].
      * inversion H; subst. right. split; [reflexivity|]. right. exists ks. split; [left; reflexivity | reflexivity].
      * left. right. exact H.
    + destruct (n <? m).
      * intros [H|H]; [inversion H; subst; right; split; [reflexivity | left; reflexivity] | left; exact H].
      * intros [H|H]; [left; left; exact H|]. destruct (IH H) as [H1|[H1 [H2|[ks0 [H2 H3]]]]].
        -- left. right. exact H1.
        -- right. split; [exact H1 | left; exact H2].
        -- right. split; [exact H1|]. right. exists ks0. split; [right; exact H2 | exact H3].
Qed.

Lemma asc_ins n k f : asc f -> asc (freq_ins K n k f).
Proof.
  induction 1 as [|[m ks] r S IH F]; cbn [freq_ins].
  - constructor; constructor.
  - destruct (m =? n) eqn:E.
    + constructor; [exact S | exact F].
    + apply Z.eqb_neq in E. destruct (n <? m) eqn:E2.
      * apply Z.ltb_lt in E2. constructor; [constructor; assumption|]. constructor; [cbn; exact E2|].
        rewrite Forall_forall in *. intros b Hb. specialize (F b Hb). cbn in *. lia.
      * apply Z.ltb_ge in E2. constructor; [exact IH|]. rewrite Forall_forall in *. intros [a ks'] H.
        destruct (in_freq_ins n k r a ks' H) as [H1|[H1 _]]; [exact (F _ H1) | cbn; lia].
Qed.

Lemma lab_ins cnt n k f : lab cnt f -> cnt k = n -> lab cnt (freq_ins K n k f).
Proof.
  intros L Hk a ks' H x Hx. destruct (in_freq_ins n k f a ks' H) as [H1|[H1 [H2|[ks0 [H2 H3]]]]].
  - exact (L a ks' H1 x Hx).
  - subst a ks'. destruct Hx as [->|[]]. exact Hk.
  - subst a ks'. apply in_app_or in Hx as [Hx|[->|[]]]; [exact (L n ks0 H2 x Hx) | exact Hk].
Qed.

Lemma freq_of_in k f n : freq_of K keqb k f = Some n -> exists ks, In (n, ks) f /\ In k ks.
Proof.
  induction f as [|[m ks] r IH]; cbn [freq_of]; [discriminate|].
  destruct (mem K keqb k ks) eqn:M.
  - intro H. inversion H; subst. exists ks. split; [left; reflexivity | apply (mem_In K keqb keqb_spec); exact M].
  - intro H. destruct (IH H) as [ks0 [H1 H2]]. exists ks0. split; [right; exact H1 | exact H2].
Qed.

Lemma freq_of_none k f : freq_of K keqb k f = None -> ~ In k (flat f).
Proof.
  induction f as [|[m ks] r IH]; cbn [freq_of]; [intros _ []|].
  destruct (mem K keqb k ks) eqn:M; [discriminate|]. intro H. rewrite flat_cons. intro I.
  apply in_app_or in I as [I|I]; [apply (mem_false K keqb keqb_spec) in M; contradiction | exact (IH H I)].
Qed.

Lemma freq_of_some_in k f : In k (flat f) -> exists n, freq_of K keqb k f = Some n.
Proof.
  intro H. destruct (freq_of K keqb k f) eqn:E; [eexists; reflexivity|]. apply freq_of_none in E. contradiction.
Qed.

Lemma in_flat x f : In x (flat f) <-> exists n ks, In (n, ks) f /\ In x ks.
Proof.
  induction f as [|[m ks] r IH]; [split; [intros [] | intros [? [? [[] _]]]]|]. rewrite flat_cons. split.
  - intro H. apply in_app_or in H as [H|H]; [exists m, ks; split; [left; reflexivity | exact H]|].
    apply IH in H as [n [ks0 [H1 H2]]]. exists n, ks0. split; [right; exact H1 | exact H2].
  - intros [n [ks0 [[H1|H1] H2]]]; apply in_or_app; [left; inversion H1; subst; exact H2 | right; apply IH; exists n, ks0; split; assumption].
Qed.

Definition JF (c : cache) (cnt : K -> Z) : Prop := asc (ps_freq (pst c)) /\ lab cnt (ps_freq (pst c)).

(* lfu.increment (used both to admit and on access) keeps buckets ascending and correctly labelled *)
Lemma incr_JF cnt cnt' f k :
  NoDup (flat f) -> asc f -> lab cnt f -> (forall x, x <> k -> cnt' x = cnt x) ->
  cnt' k = match freq_of K keqb k f with Some n => n + 1 | None => 1 end ->
  let n := match freq_of K keqb k f with Some n => n + 1 | None => 1 end in
  asc (freq_ins K n k (freq_del K keqb k f)) /\ lab cnt' (freq_ins K n k (freq_del K keqb k f)).
Proof.
  intros ND A L Hx Hk n. split; [apply asc_ins, asc_del; exact A|].
  apply lab_ins; [|exact Hk].
  assert (Nk : ~ In k (flat (freq_del K keqb k f))).
  { destruct (freq_of K keqb k f) as [n0|] eqn:Fo; [apply freq_of_in in Fo as [ks0 [F1 F2]]; assert (I : In k (flat f)) by (apply in_flat; exists n0, ks0; split; assumption) | apply freq_of_none in Fo; rename Fo into N].
    - pose proof (freq_del_perm K keqb keqb_spec k f ND I) as P. intro H.
      assert (ND2 : NoDup (k :: flat (freq_del K keqb k f))) by (eapply Permutation_NoDup; [apply Permutation_sym; exact P | exact ND]).
      inversion ND2; contradiction.
    - rewrite (freq_del_notin K keqb keqb_spec k f N). exact N. }
  intros a ks H x Hxi. rewrite Hx.
  - exact (lab_del cnt k f L a ks H x Hxi).
  - intro E. subst x. apply Nk. apply in_flat. exists a, ks. split; assumption.
Qed.

Lemma lfu_flat_keys c : c_kind (cc c) = Lfu -> Inv K V c -> forall k, In k (flat (ps_freq (pst c))) <-> In k (map fst (items c)).
Proof.
  intros HK I k. pose proof (inv_perm K V c I) as P. unfold PolicyProofs.pkeys in P. rewrite HK in P.
  split; intro H; [eapply Permutation_in; [exact P | exact H] | eapply Permutation_in; [apply Permutation_sym; exact P | exact H]].
Qed.

Lemma lfu_flat_nodup c : c_kind (cc c) = Lfu -> Inv K V c -> NoDup (flat (ps_freq (pst c))).
Proof.
  intros HK I. pose proof (Inv_pkeys_nodup K V c I) as N. unfold PolicyProofs.pkeys in N. rewrite HK in N. exact N.
Qed.

Lemma nodup_freq_del k f : NoDup (flat f) -> NoDup (flat (freq_del K keqb k f)).
Proof.
  intro ND. destruct (freq_of K keqb k f) as [n0|] eqn:Fo.
  - apply freq_of_in in Fo as [ks0 [F1 F2]]. assert (I : In k (flat f)) by (apply in_flat; exists n0, ks0; split; assumption).
    pose proof (freq_del_perm K keqb keqb_spec k f ND I) as P.
    assert (ND2 : NoDup (k :: flat (freq_del K keqb k f))) by (eapply Permutation_NoDup; [apply Permutation_sym; exact P | exact ND]).
    inversion ND2; assumption.
  - apply freq_of_none in Fo. rewrite (freq_del_notin K keqb keqb_spec k f Fo). exact ND.
Qed.

Lemma notin_freq_del x k f : ~ In x (flat f) -> ~ In x (flat (freq_del K keqb k f)).
Proof.
  intros N H. apply in_flat in H as [n [ks [H1 H2]]]. destruct (in_freq_del k f n ks H1) as [ks0 [H3 H4]].
  apply N. apply in_flat. exists n, ks0. split; [exact H3 | exact (H4 x H2)].
Qed.

Lemma lab_ext cnt cnt' f : (forall x, In x (flat f) -> cnt' x = cnt x) -> lab cnt f -> lab cnt' f.
Proof. intros E L n ks H x Hx. rewrite E; [exact (L n ks H x Hx)|]. apply in_flat. exists n, ks. split; assumption. Qed.

Lemma admit_JF cnt f k :
  NoDup (flat f) -> asc f -> lab cnt f -> ~ In k (flat f) ->
  let cnt' := fun x => if keqb x k then 1 else cnt x in
  asc (ps_freq (lfu_increment K keqb {| ps_win := []; ps_prot := []; ps_prob := []; ps_freq := f |} k)) /\
  lab cnt' (ps_freq (lfu_increment K keqb {| ps_win := []; ps_prot := []; ps_prob := []; ps_freq := f |} k)).
Proof.
  intros ND A L N cnt'. unfold lfu_increment. cbn [ps_freq set_freq].
  assert (Fo : freq_of K keqb k f = None).
  { destruct (freq_of K keqb k f) eqn:E; [|reflexivity]. apply freq_of_in in E as [ks [H1 H2]]. exfalso. apply N. apply in_flat. eexists _, ks. split; eassumption. }
  pose proof (incr_JF cnt cnt' f k ND A L) as X. rewrite Fo in *. apply X.
  - intros x Hx. unfold cnt'. destruct (keqb x k) eqn:E; [apply keqb_spec in E; contradiction | reflexivity].
  - unfold cnt'. rewrite (keqb_refl K keqb keqb_spec). reflexivity.
Qed.

Lemma access_JF cnt f k :
  NoDup (flat f) -> asc f -> lab cnt f -> In k (flat f) ->
  let cnt' := fun x => if keqb x k then cnt k + 1 else cnt x in
  asc (ps_freq (lfu_increment K keqb {| ps_win := []; ps_prot := []; ps_prob := []; ps_freq := f |} k)) /\
  lab cnt' (ps_freq (lfu_increment K keqb {| ps_win := []; ps_prot := []; ps_prob := []; ps_freq := f |} k)).
Proof.
  intros ND A L Ik cnt'. unfold lfu_increment. cbn [ps_freq set_freq].
  destruct (freq_of_some_in k f Ik) as [n Fo].
  assert (Ck : cnt k = n) by (apply freq_of_in in Fo as [ks [H1 H2]]; exact (L n ks H1 k H2)).
  pose proof (incr_JF cnt cnt' f k ND A L) as X. rewrite Fo in *. apply X.
  - intros x Hx. unfold cnt'. destruct (keqb x k) eqn:E; [apply keqb_spec in E; contradiction | reflexivity].
  - unfold cnt'. rewrite (keqb_refl K keqb keqb_spec). lia.
Qed.

Lemma lfu_increment_freq p k :
  ps_freq (lfu_increment K keqb p k) = ps_freq (lfu_increment K keqb {| ps_win := []; ps_prot := []; ps_prob := []; ps_freq := ps_freq p |} k).
Proof. reflexivity. Qed.

Lemma JF_step c cnt now h o :
  c_kind (cc c) = Lfu -> Inv K V c -> JF c cnt -> JF (fst (fst (step c now h o))) (cnt_upd cnt c now o).
Proof.
  intros HK I HJ. pose proof HJ as [A L]. pose proof (lfu_flat_nodup c HK I) as ND.
  unfold cnt_upd. destruct o as [k v|k|k| | |]; cbn [Generic.step].
  - destruct (closing c) eqn:CL; [exact HJ|].
    destruct (lookup K V keqb k (items c)) as [[v0 e0]|] eqn:Lk.
    + assert (Ik : In k (flat (ps_freq (pst c)))) by (apply (lfu_flat_keys c HK I); eapply lookup_in; exact Lk).
      cbn [fst]. unfold with_items, JF. cbn [pst]. unfold pol_access. rewrite HK. rewrite lfu_increment_freq.
      apply access_JF; assumption.
    + assert (Nk : ~ In k (flat (ps_freq (pst c)))).
      { intro H. apply (lfu_flat_keys c HK I) in H. apply (lookup_None K V keqb keqb_spec) in Lk. contradiction. }
      assert (Fresh : forall f, NoDup (flat f) -> asc f -> lab cnt f -> ~ In k (flat f) ->
                JF {| cc := cc c; items := []; pst := pol_admit K keqb (cc c) {| ps_win := ps_win (pst c); ps_prot := ps_prot (pst c); ps_prob := ps_prob (pst c); ps_freq := f |} k; closing := false |}
                   (fun x => if keqb x k then 1 else cnt x)).
      { intros f N1 A1 L1 N2. unfold JF. cbn [pst]. unfold pol_admit. rewrite HK. rewrite lfu_increment_freq. cbn [ps_freq]. apply admit_JF; assumption. }
      destruct (size c =? c_cap (cc c)).
      * unfold evict, pol_victim. rewrite HK. destruct (lfu_victim K (pst c)) as [kv|] eqn:LV.
        -- unfold evict_key, with_items. cbn [items pst cc closing].
           destruct (lookup K V keqb kv (items c)) as [[vv ev]|] eqn:L2; cbn [fst pst].
           ++ unfold pol_remove. rewrite HK. unfold lfu_remove.
              pose proof (Fresh (freq_del K keqb kv (ps_freq (pst c))) (nodup_freq_del kv _ ND) (asc_del kv _ A) (lab_del cnt kv _ L) (notin_freq_del k kv _ Nk)) as X.
              unfold JF in *. cbn [pst] in *. unfold pol_admit in *. rewrite HK in *. exact X.
           ++ pose proof (Fresh (ps_freq (pst c)) ND A L Nk) as X. unfold JF in *. cbn [pst] in *. unfold pol_admit in *. rewrite HK in *.
              destruct (pst c). exact X.
        -- cbn [fst]. split; [exact A|]. apply (lab_ext cnt); [|exact L]. intros x Hx.
           destruct (keqb x k) eqn:E; [apply keqb_spec in E; subst; contradiction | reflexivity].
      * cbn [fst pst with_items]. pose proof (Fresh (ps_freq (pst c)) ND A L Nk) as X. unfold JF in *. cbn [pst] in *. unfold pol_admit in *. rewrite HK in *.
        destruct (pst c). exact X.
  - destruct (closing c) eqn:CL; [exact HJ|].
    destruct (lookup K V keqb k (items c)) as [[v0 e0]|] eqn:Lk; [|exact HJ].
    destruct ((c_expiry (cc c) >? 0) && (e0 <? now)).
    + unfold evict_key. rewrite Lk. cbn [fst pst with_items]. unfold JF. cbn [pst]. unfold pol_remove. rewrite HK. unfold lfu_remove. cbn [ps_freq set_freq].
      split; [apply asc_del; exact A | apply lab_del; exact L].
    + assert (Ik : In k (flat (ps_freq (pst c)))) by (apply (lfu_flat_keys c HK I); eapply lookup_in; exact Lk).
      cbn [fst]. unfold with_items, JF. cbn [pst]. unfold pol_access. rewrite HK. rewrite lfu_increment_freq. apply access_JF; assumption.
  - destruct (closing c) eqn:CL; [exact HJ|].
    destruct (lookup K V keqb k (items c)) as [x|] eqn:Lk; [|exact HJ].
    cbn [fst pst with_items]. unfold JF. cbn [pst]. unfold pol_remove. rewrite HK. unfold lfu_remove. cbn [ps_freq set_freq].
    split; [apply asc_del; exact A | apply lab_del; exact L].
  - cbn [fst]. destruct (closing c); exact HJ.
  - cbn [fst]. destruct (closing c); exact HJ.
  - destruct (closing c) eqn:CL; [exact HJ|].
    destruct (close_loop K V keqb _ _ _ _) as [[c2 ev]|]; cbn [fst]; [|exact HJ].
    split; [constructor | intros n ks []].
Qed.

Lemma runc_inv cf l : forall c cnt,
  c_kind cf = Lfu -> 1 <= c_cap cf -> Good K V cf c -> JF c cnt ->
  match runc c cnt l with (c', cnt') => Good K V cf c' /\ JF c' cnt' end.
Proof.
  induction l as [|[[now h] o] r IH]; intros c cnt HK Hc G HJ; cbn [runc]; [split; assumption|].
  apply IH; try assumption.
  - apply (Good_step K V keqb keqb_spec); assumption.
  - destruct G as [I [_ E]]. apply JF_step; [rewrite E; exact HK | exact I | exact HJ].
Qed.

(* C15, LFU: whenever a Set has to make room, the entry it evicts is one of the least frequently used of the entries present *)
Theorem lfu_victim_is_least_frequently_used cf l now h k v :
  c_kind cf = Lfu -> 1 <= c_cap cf ->
  match runc (new_cache cf) (fun _ => 0) l with
  | (c, cnt) =>
      match step c now h (OSet k v) with
      | (_, _, ev) => forall x y, In (x, y) ev -> forall z, In z (map fst (items c)) -> cnt x <= cnt z
      end
  end.
Proof.
  intros HK Hc.
  assert (J0 : JF (new_cache cf) (fun _ => 0)) by (split; [constructor | intros n ks []]).
  pose proof (runc_inv cf l (new_cache cf) (fun _ => 0) HK Hc (Good_new K V cf) J0) as R.
  destruct (runc (new_cache cf) (fun _ => 0) l) as [c cnt]. destruct R as [[I [_ E]] [A L]].
  assert (HKc : c_kind (cc c) = Lfu) by (rewrite E; exact HK).
  cbn [Generic.step]. destruct (closing c); [intros x y []|].
  destruct (lookup K V keqb k (items c)) as [[v0 e0]|]; [intros x y []|].
  destruct (size c =? c_cap (cc c)); [|intros x y []].
  unfold evict, pol_victim. rewrite HKc. destruct (lfu_victim K (pst c)) as [kv|] eqn:LV; [|intros x y []].
  unfold evict_key, with_items. cbn [items]. destruct (lookup K V keqb kv (items c)) as [[vv ev0]|]; [|intros x y []].
  intros x y [Hxy|[]] z Hz. inversion Hxy; subst x y.
  apply (lfu_flat_keys c HKc I) in Hz. unfold lfu_victim in LV.
  destruct (ps_freq (pst c)) as [|[n ks] r] eqn:Ef; [discriminate|]. destruct ks as [|k0 ks]; [discriminate|]. inversion LV; subst k0.
  assert (Ckv : cnt kv = n) by (apply (L n (kv :: ks)); [left; reflexivity | left; reflexivity]).
  apply in_flat in Hz as [m [ks' [[H1|H1] H2]]].
  - inversion H1; subst m ks'. rewrite (L n (kv :: ks) (or_introl eq_refl) z H2). lia.
  - rewrite (L m ks' (or_intror H1) z H2). inversion A as [|? ? _ F]. rewrite Forall_forall in F. specialize (F (m, ks') H1). cbn in F. lia.
Qed.

End V.
