(* List lemmas used by the cache proofs. *)
From Coq Require Import List ZArith Bool Lia Permutation.
From Asherah Require Import Cache.Generic.
Import ListNotations.

Lemma NoDup_app_l {A} (a b : list A) : NoDup (a ++ b) -> NoDup a.
Proof.
  induction a as [|x a IH]; intro H; [constructor|].
  cbn in H. inversion H as [|? ? Hx H']; subst. constructor.
  - intro I. apply Hx. apply in_or_app. left. exact I.
  - apply IH. exact H'.
Qed.

Lemma NoDup_app_r {A} (a b : list A) : NoDup (a ++ b) -> NoDup b.
Proof.
  induction a as [|x a IH]; intro H; [exact H|].
  cbn in H. inversion H; subst. apply IH. assumption.
Qed.

Lemma NoDup_app_disj {A} (a b : list A) x : NoDup (a ++ b) -> In x a -> In x b -> False.
Proof.
  induction a as [|y a IH]; intros H Ia Ib; [contradiction|].
  cbn in H. inversion H as [|? ? Hy H']; subst. destruct Ia as [->|Ia].
  - apply Hy. apply in_or_app. right. exact Ib.
  - apply IH; assumption.
Qed.

Lemma NoDup_app_single_r {A} (l : list A) x : NoDup l -> ~ In x l -> NoDup (l ++ [x]).
Proof.
  induction l as [|y l IH]; intros ND NI; cbn.
  - constructor; [intros [] | constructor].
  - inversion ND as [|? ? Hy ND']; subst. constructor.
    + intro I. apply in_app_or in I as [I|[I|[]]]; [contradiction|]. subst. apply NI. left. reflexivity.
    + apply IH; [exact ND' | intro I; apply NI; right; exact I].
Qed.

Lemma NoDup_app_single {A} (l : list A) x : NoDup l -> ~ In x l -> NoDup (l ++ [x]).
Proof. apply NoDup_app_single_r. Qed.

Section L.
Variables (K : Type) (keqb : K -> K -> bool).
Hypothesis keqb_spec : forall a b, keqb a b = true <-> a = b.

Lemma keqb_refl a : keqb a a = true.
Proof. apply keqb_spec. reflexivity. Qed.

Lemma keqb_false a b : keqb a b = false <-> a <> b.
Proof.
  split.
  - intros H E. apply keqb_spec in E. congruence.
  - intro H. destruct (keqb a b) eqn:E; [apply keqb_spec in E; contradiction | reflexivity].
Qed.

Lemma keqb_dec (a b : K) : {a = b} + {a <> b}.
Proof. destruct (keqb a b) eqn:E; [left; apply keqb_spec; exact E | right; apply keqb_false; exact E]. Qed.

Lemma mem_In k l : mem K keqb k l = true <-> In k l.
Proof.
  unfold mem. rewrite existsb_exists. split.
  - intros [x [Hx E]]. apply keqb_spec in E. subst. exact Hx.
  - intro H. exists k. split; [exact H | apply keqb_refl].
Qed.

Lemma mem_false k l : mem K keqb k l = false <-> ~ In k l.
Proof.
  split.
  - intros H I. apply mem_In in I. congruence.
  - intro H. destruct (mem K keqb k l) eqn:E; [apply mem_In in E; contradiction | reflexivity].
Qed.

Lemma In_del x k l : In x (del K keqb k l) <-> In x l /\ x <> k.
Proof.
  unfold del. rewrite filter_In. split.
  - intros [H1 H2]. split; [exact H1|]. apply negb_true_iff in H2. apply keqb_false in H2. congruence.
  - intros [H1 H2]. split; [exact H1|]. apply negb_true_iff. apply keqb_false. congruence.
Qed.

Lemma NoDup_del k l : NoDup l -> NoDup (del K keqb k l).
Proof. intro H. apply NoDup_filter. exact H. Qed.

Lemma del_cons k x l : del K keqb k (x :: l) = if keqb k x then del K keqb k l else x :: del K keqb k l.
Proof. unfold del. cbn [filter]. destruct (keqb k x); reflexivity. Qed.

Lemma del_nil k : del K keqb k [] = [].
Proof. reflexivity. Qed.

Lemma del_notin k l : ~ In k l -> del K keqb k l = l.
Proof.
  induction l as [|x l IH]; intro H; [reflexivity|].
  rewrite del_cons. destruct (keqb k x) eqn:E.
  - apply keqb_spec in E. subst. exfalso. apply H. left. reflexivity.
  - f_equal. apply IH. intro I. apply H. right. exact I.
Qed.

Lemma length_del_in k l : NoDup l -> In k l -> S (length (del K keqb k l)) = length l.
Proof.
  induction l as [|x l IH]; intros ND I; [contradiction|].
  inversion ND as [|? ? Hx ND']; subst. rewrite del_cons.
  destruct (keqb k x) eqn:E.
  - apply keqb_spec in E. subst. cbn [length]. f_equal. rewrite del_notin; [reflexivity | exact Hx].
  - cbn [length]. f_equal. apply IH; [exact ND'|]. destruct I as [->|I]; [rewrite keqb_refl in E; discriminate | exact I].
Qed.

Lemma last_opt_spec (l : list K) :
  match last_opt K l with
  | Some x => exists l', l = l' ++ [x] /\ drop_last K l = l'
  | None => l = []
  end.
Proof.
  unfold last_opt, drop_last. destruct (rev l) as [|x r] eqn:E.
  - apply (f_equal (@rev K)) in E. rewrite rev_involutive in E. exact E.
  - exists (rev r). cbn. split; [|reflexivity].
    apply (f_equal (@rev K)) in E. rewrite rev_involutive in E. cbn in E. exact E.
Qed.

Lemma last_opt_In l x : last_opt K l = Some x -> In x l.
Proof.
  intro H. pose proof (last_opt_spec l) as S. rewrite H in S. destruct S as [l' [-> _]].
  apply in_or_app. right. left. reflexivity.
Qed.

Lemma last_opt_None l : last_opt K l = None -> l = [].
Proof. intro H. pose proof (last_opt_spec l) as S. rewrite H in S. exact S. Qed.

Lemma last_opt_nonempty l : l <> [] -> exists x, last_opt K l = Some x.
Proof.
  intro H. destruct (last_opt K l) eqn:E; [eexists; reflexivity|].
  apply last_opt_None in E. contradiction.
Qed.

Lemma In_drop_last l x y : NoDup l -> last_opt K l = Some x -> (In y (drop_last K l) <-> In y l /\ y <> x).
Proof.
  intros ND H. pose proof (last_opt_spec l) as S. rewrite H in S. destruct S as [l' [E D]]. rewrite D. subst l.
  apply NoDup_remove_2 in ND. rewrite app_nil_r in ND.
  split.
  - intro I. split; [apply in_or_app; left; exact I|]. intro; subst. contradiction.
  - intros [I N]. apply in_app_or in I as [I|[I|[]]]; [exact I | congruence].
Qed.

Lemma NoDup_drop_last l : NoDup l -> NoDup (drop_last K l).
Proof.
  intro ND. destruct (last_opt K l) eqn:H.
  - pose proof (last_opt_spec l) as S. rewrite H in S. destruct S as [l' [E D]]. rewrite D. subst l.
    apply NoDup_remove_1 in ND. rewrite app_nil_r in ND. exact ND.
  - apply last_opt_None in H. subst. cbn. constructor.
Qed.

Lemma length_drop_last l x : last_opt K l = Some x -> S (length (drop_last K l)) = length l.
Proof.
  intro H. pose proof (last_opt_spec l) as S. rewrite H in S. destruct S as [l' [E D]]. rewrite D. subst l.
  rewrite app_length. cbn. lia.
Qed.

End L.
