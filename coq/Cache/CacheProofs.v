(* Invariant of cache.go over every policy: byKey and the policy structure hold the same duplicate-free
   key set, size <= capacity, no nil victim (no panic); and the refinement to an abstract map. *)
From Coq Require Import List ZArith Bool Lia Permutation.
From Asherah Require Import Cache.Generic Cache.ListLemmas Cache.PolicyProofs.
Import ListNotations.
Open Scope Z_scope.

Section C.
Variables (K V : Type) (keqb : K -> K -> bool).
Hypothesis keqb_spec : forall a b, keqb a b = true <-> a = b.

Notation cache := (cache K V).
Notation lookup := (lookup K V keqb).
Notation remove_item := (remove_item K V keqb).
Notation update_item := (update_item K V keqb).
Notation pkeys := (pkeys K).
Notation step := (@step K V keqb).

Definition keys (c : cache) : list K := map fst (items c).

Definition abs (c : cache) (k : K) : option V := option_map fst (lookup k (items c)).

(* ---- association-list facts ----------------------------------------------------------------- *)

Lemma lookup_None k l : lookup k l = None <-> ~ In k (map fst l).
Proof.
  induction l as [|[k' x] l IH]; cbn; [tauto|].
  destruct (keqb k k') eqn:E.
  - apply keqb_spec in E. subst. split; [discriminate | intro H; exfalso; apply H; left; reflexivity].
  - apply (keqb_false K keqb keqb_spec) in E. rewrite IH. split.
    + intros H [H1|H1]; [congruence | contradiction].
    + intros H H1. apply H. right. exact H1.
Qed.

Lemma lookup_Some_in k l x : lookup k l = Some x -> In k (map fst l).
Proof.
  intro H. destruct (in_dec (keqb_dec K keqb keqb_spec) k (map fst l)) as [I|N]; [exact I|].
  apply lookup_None in N. congruence.
Qed.

Lemma keys_remove k l : map fst (remove_item k l) = del K keqb k (map fst l).
Proof.
  induction l as [|[k' x] l IH]; [reflexivity|].
  unfold Generic.remove_item, Generic.del in *. cbn [filter map fst]. destruct (keqb k k'); cbn [negb map fst]; [exact IH | f_equal; exact IH].
Qed.

Lemma keys_update k x l : map fst (update_item k x l) = map fst l.
Proof.
  induction l as [|[k' y] l IH]; [reflexivity|].
  cbn [Generic.update_item]. destruct (keqb k k'); cbn [map fst]; [reflexivity | f_equal; exact IH].
Qed.

Lemma lookup_remove k k' l : lookup k (remove_item k' l) = if keqb k k' then None else lookup k l.
Proof.
  induction l as [|[k2 x] l IH].
  - cbn. destruct (keqb k k'); reflexivity.
  - unfold Generic.remove_item in *. cbn [filter fst]. destruct (keqb k' k2) eqn:E2; cbn [negb].
    + apply keqb_spec in E2. subst k2. rewrite IH. cbn [Generic.lookup].
      destruct (keqb k k') eqn:E; reflexivity.
    + cbn [Generic.lookup]. destruct (keqb k k2) eqn:E.
      * apply keqb_spec in E. subst k2. destruct (keqb k k') eqn:E3; [|reflexivity].
        apply keqb_spec in E3. subst. rewrite (keqb_refl K keqb keqb_spec) in E2. discriminate.
      * exact IH.
Qed.

Lemma lookup_update k k' x l :
  lookup k (update_item k' x l) = if keqb k k' then (match lookup k' l with Some _ => Some x | None => None end) else lookup k l.
Proof.
  induction l as [|[k2 y] l IH].
  - cbn. destruct (keqb k k'); reflexivity.
  - cbn [Generic.update_item Generic.lookup]. destruct (keqb k' k2) eqn:E2.
    + apply keqb_spec in E2. subst k2. cbn [Generic.lookup]. destruct (keqb k k') eqn:E; reflexivity.
    + cbn [Generic.lookup]. destruct (keqb k k2) eqn:E.
      * apply keqb_spec in E. subst k2. destruct (keqb k k') eqn:E3; [|reflexivity].
        apply keqb_spec in E3. subst. rewrite (keqb_refl K keqb keqb_spec) in E2. discriminate.
      * exact IH.
Qed.

Lemma lookup_app k l k' x :
  lookup k (l ++ [(k', x)]) = match lookup k l with Some y => Some y | None => if keqb k k' then Some x else None end.
Proof.
  induction l as [|[k2 y] l IH]; cbn [app Generic.lookup].
  - destruct (keqb k k'); reflexivity.
  - destruct (keqb k k2); [reflexivity | exact IH].
Qed.

(* ---- the invariant ------------------------------------------------------------------------- *)

Record Inv (c : cache) : Prop := {
  inv_nodup : NoDup (keys c);
  inv_perm : Permutation (pkeys (cc c) (pst c)) (keys c);
  inv_buckets : buckets_ok K (ps_freq (pst c));
  inv_size : 1 <= c_cap (cc c) -> size c <= c_cap (cc c);
}.

Lemma Inv_new cfg : Inv (new_cache cfg).
Proof.
  constructor; cbn.
  - constructor.
  - unfold pkeys, PolicyProofs.pkeys. destruct (c_kind cfg); reflexivity.
  - constructor.
  - unfold size, len. cbn. lia.
Qed.

Lemma Inv_pkeys_nodup c : Inv c -> NoDup (pkeys (cc c) (pst c)).
Proof. intros [ND P _ _]. apply (Permutation_NoDup (Permutation_sym P) ND). Qed.

Lemma size_keys (c : cache) : size c = Z.of_nat (length (keys c)).
Proof. unfold size, len, keys. rewrite map_length. reflexivity. Qed.

(* evicting a present key *)
Lemma evict_key_spec c k :
  Inv c -> In k (keys c) ->
  exists v e, lookup k (items c) = Some (v, e) /\
    evict_key K V keqb c k =
      ({| cc := cc c; items := remove_item k (items c); pst := pol_remove K keqb (cc c) (pst c) k; closing := closing c |}, [(k, v)]).
Proof.
  intros I H. unfold evict_key. destruct (lookup k (items c)) as [[v e]|] eqn:L.
  - exists v, e. split; reflexivity.
  - apply lookup_None in L. contradiction.
Qed.

Lemma Inv_remove c k :
  Inv c -> In k (keys c) ->
  let c' := {| cc := cc c; items := remove_item k (items c); pst := pol_remove K keqb (cc c) (pst c) k; closing := closing c |} in
  Inv c' /\ size c' = size c - 1 /\ keys c' = del K keqb k (keys c).
Proof.
  intros I H c'. pose proof (Inv_pkeys_nodup c I) as NDp. destruct I as [ND P B S].
  assert (Hk : keys c' = del K keqb k (keys c)) by (unfold keys, c'; cbn [items]; apply keys_remove).
  assert (Hp : In k (pkeys (cc c) (pst c))) by (apply (Permutation_in k (Permutation_sym P)); exact H).
  assert (Hs : size c' = size c - 1).
  { rewrite !size_keys. rewrite Hk. pose proof (length_del_in K keqb keqb_spec k (keys c) ND H). lia. }
  split; [|split; [exact Hs | exact Hk]].
  constructor.
  - rewrite Hk. apply NoDup_del. exact ND.
  - rewrite Hk. cbn [cc pst c'].
    pose proof (pol_remove_perm K keqb keqb_spec (cc c) (pst c) k NDp Hp) as P1.
    pose proof (perm_del K keqb keqb_spec k (keys c) ND H) as P2.
    apply (Permutation_cons_inv (a := k)). rewrite P1, P2. exact P.
  - cbn [pst c']. apply pol_remove_buckets. exact B.
  - cbn [cc c']. intro Hc. specialize (S Hc). lia.
Qed.


Lemma abs_remove c k x :
  abs {| cc := cc c; items := remove_item k (items c); pst := pol_remove K keqb (cc c) (pst c) k; closing := closing c |} x
  = if keqb x k then None else abs c x.
Proof. unfold abs. cbn [items]. rewrite lookup_remove. destruct (keqb x k); reflexivity. Qed.

Lemma Inv_with_pst c p' :
  Inv c -> Permutation (pkeys (cc c) p') (pkeys (cc c) (pst c)) -> ps_freq p' = ps_freq (pst c) ->
  Inv {| cc := cc c; items := items c; pst := p'; closing := closing c |}.
Proof.
  intros [ND P B S] HP HF. constructor; cbn [cc items pst keys].
  - exact ND.
  - rewrite HP. exact P.
  - rewrite HF. exact B.
  - exact S.
Qed.

(* evict on a non-empty cache: removes exactly one present key and reports it with its value *)
Lemma evict_spec c h :
  Inv c -> keys c <> [] ->
  exists k0 v0 c',
    evict K V keqb c h = Some (c', [(k0, v0)]) /\ In k0 (keys c) /\ abs c k0 = Some v0 /\
    Inv c' /\ size c' = size c - 1 /\ keys c' = del K keqb k0 (keys c) /\
    cc c' = cc c /\ closing c' = closing c /\ (forall x, abs c' x = if keqb x k0 then None else abs c x).
Proof.
  intros I NE. unfold evict.
  destruct (pol_victim K keqb (cc c) (pst c) h) as [r p'] eqn:PV.
  pose proof (pol_victim_spec K keqb _ _ _ _ _ PV (Inv_pkeys_nodup c I) (inv_buckets c I)) as [HP [HF HR]].
  destruct r as [k0|].
  - assert (Hk : In k0 (keys c)) by (apply (Permutation_in k0 (inv_perm c I)); exact HR).
    set (c1 := with_items K V c (items c) p').
    assert (I1 : Inv c1) by (apply Inv_with_pst; assumption).
    destruct (evict_key_spec c1 k0 I1 Hk) as [v0 [e0 [L EK]]].
    pose proof (Inv_remove c1 k0 I1 Hk) as [I2 [S2 K2]].
    exists k0, v0. eexists. split; [fold c1; rewrite EK; reflexivity|].
    split; [exact Hk|]. split; [unfold abs; cbn [items c1 with_items] in L; rewrite L; reflexivity|].
    split; [exact I2|]. split; [exact S2|]. split; [exact K2|]. split; [reflexivity|]. split; [reflexivity|].
    intro x. apply (abs_remove c1 k0 x).
  - exfalso. apply NE. apply Permutation_nil. rewrite <- HR. exact (inv_perm c I).
Qed.


Lemma keys_nil_size (c : cache) : size c = 0 -> items c = [].
Proof. unfold size, len. destruct (items c); [reflexivity | cbn; lia]. Qed.

Lemma size_pos_keys (c : cache) : size c > 0 -> keys c <> [].
Proof. unfold size, len, keys. destruct (items c); cbn; [lia | discriminate]. Qed.

(* Close: the loop empties the cache, reporting every entry exactly once with the value it held *)
Lemma close_loop_spec fuel : forall c hints acc,
  Inv c -> (length (items c) <= fuel)%nat ->
  exists c2 ev,
    close_loop K V keqb fuel c hints acc = Some (c2, acc ++ ev) /\ items c2 = [] /\
    Permutation (map fst ev) (keys c) /\ (forall k v, In (k, v) ev -> abs c k = Some v).
Proof.
  induction fuel as [|f IH]; intros c hints acc I Hf.
  - exists c, []. cbn [close_loop]. rewrite app_nil_r. split; [reflexivity|].
    assert (E : items c = []) by (destruct (items c); [reflexivity | cbn in Hf; lia]).
    split; [exact E|]. split; [unfold keys; rewrite E; reflexivity | intros ? ? []].
  - cbn [close_loop]. destruct (size c >? 0) eqn:SZ.
    + apply Z.gtb_lt in SZ. assert (NE : keys c <> []) by (apply size_pos_keys; lia).
      destruct (evict_spec c (hd_hint K hints) I NE) as [k0 [v0 [c' [EV [Hk [Ha [I' [S' [K' [_ [_ AB]]]]]]]]]]].
      rewrite EV.
      assert (Hf' : (length (items c') <= f)%nat).
      { pose proof (size_keys c) as E1. pose proof (size_keys c') as E2. unfold keys in E1, E2. rewrite map_length in E1, E2.
        unfold size, len in *. lia. }
      destruct (IH c' (tl hints) (acc ++ [(k0, v0)]) I' Hf') as [c2 [ev [CL [E2 [P2 A2]]]]].
      exists c2, ((k0, v0) :: ev). split; [rewrite CL; rewrite <- app_assoc; reflexivity|].
      split; [exact E2|]. split.
      * cbn [map fst]. rewrite P2, K'. apply (perm_del K keqb keqb_spec k0 (keys c) (inv_nodup c I) Hk).
      * intros k v [E|HI]; [inversion E; subst; exact Ha|].
        specialize (A2 k v HI). rewrite AB in A2. destruct (keqb k k0); [discriminate | exact A2].
    + exists c, []. rewrite app_nil_r. split; [reflexivity|].
      assert (E : items c = []) by (apply keys_nil_size; rewrite Z.gtb_ltb in SZ; apply Z.ltb_ge in SZ; unfold size, len in *; lia).
      split; [exact E|]. split; [unfold keys; rewrite E; reflexivity | intros ? ? []].
Qed.


(* ---- the abstract map the cache refines ----------------------------------------------------- *)

Definition reported (ev : list (K * V)) (x : K) : bool := existsb (fun e => keqb x (fst e)) ev.

(* how the set of retrievable entries evolves: Set binds, Delete unbinds, Close empties, and a key
   leaves otherwise only by being reported to the eviction callback *)
Definition spec_after (m : K -> option V) (closed : bool) (o : op K V) (ev : list (K * V)) (x : K) : option V :=
  if reported ev x then None
  else if closed then m x
  else match o with
       | OSet k v => if keqb x k then Some v else m x
       | ODelete k => if keqb x k then None else m x
       | OClose => None
       | _ => m x
       end.

Definition Closed_ok (c : cache) : Prop := closing c = true -> items c = [].

Definition is_some {A} (o : option A) : bool := match o with Some _ => true | None => false end.

Definition result_ok (c c' : cache) (o : op K V) (r : out V) : Prop :=
  match o with
  | OGet k => r = RGet (abs c' k)
  | ODelete k => r = RBool (is_some (abs c k))
  | OLen => r = RInt (size c)
  | OSet _ _ => r = RUnit
  | OClose => r = RUnit
  | OCap => True
  end.

Lemma abs_closed c x : Closed_ok c -> closing c = true -> abs c x = None.
Proof. intros H E. unfold abs. rewrite (H E). reflexivity. Qed.

Ltac eight := refine (conj _ (conj _ (conj _ (conj _ (conj _ (conj _ (conj _ _))))))).

Lemma noop_spec c cl o r :
  closing c = cl -> Inv c -> Closed_ok c -> r <> RPanic -> result_ok c c o r ->
  (forall x, spec_after (abs c) cl o [] x = abs c x) ->
  Inv c /\ Closed_ok c /\ cc c = cc c /\ r <> RPanic /\ result_ok c c o r /\
  (forall x, abs c x = spec_after (abs c) cl o [] x) /\
  (forall k v, In (k, v) (@nil (K * V)) -> abs c k = Some v) /\ NoDup (map fst (@nil (K * V))).
Proof.
  intros _ I CO HR RO SP. eight; try assumption; try reflexivity.
  - intro x. symmetry. apply SP.
  - intros ? ? [].
  - constructor.
Qed.

Lemma spec_after_closed m o x : spec_after m true o [] x = m x.
Proof. reflexivity. Qed.

Lemma step_spec c now h o :
  Inv c -> Closed_ok c -> 1 <= c_cap (cc c) ->
  match step c now h o with
  | (c', r, ev) =>
      Inv c' /\ Closed_ok c' /\ cc c' = cc c /\ r <> RPanic /\ result_ok c c' o r /\
      (forall x, abs c' x = spec_after (abs c) (closing c) o ev x) /\
      (forall k v, In (k, v) ev -> abs c k = Some v) /\ NoDup (map fst ev)
  end.
Proof.
  intros I CO Hcap. destruct o as [k v|k|k| | |]; cbn [Generic.step].
  - (* Set *)
    destruct (closing c) eqn:CL.
    { apply (noop_spec c true); try assumption; try discriminate; [reflexivity|]. intro x. reflexivity. }
    destruct (lookup k (items c)) as [[v0 e0]|] eqn:L.
    + (* overwrite *)
      assert (Hk : In k (keys c)) by (eapply lookup_Some_in; exact L).
      assert (Hp : In k (pkeys (cc c) (pst c))) by (apply (Permutation_in k (Permutation_sym (inv_perm c I))); exact Hk).
      eight.
      * constructor; unfold keys, with_items; cbn [cc items pst closing].
        -- rewrite keys_update. exact (inv_nodup c I).
        -- rewrite keys_update. rewrite (pol_access_perm K keqb keqb_spec _ _ _ (Inv_pkeys_nodup c I) Hp). exact (inv_perm c I).
        -- apply pol_access_buckets. exact (inv_buckets c I).
        -- intro Hc. unfold size, len. cbn [items]. rewrite <- (map_length fst), keys_update, map_length. exact (inv_size c I Hc).
      * intro E. cbn in E. congruence.
      * reflexivity.
      * discriminate.
      * reflexivity.
      * intro x. unfold spec_after, abs. unfold with_items; cbn [reported existsb items]. rewrite lookup_update.
        destruct (keqb x k) eqn:E; [rewrite L; reflexivity | reflexivity].
      * intros ? ? [].
      * constructor.
    + (* insert, possibly after one eviction *)
      assert (Hnk : ~ In k (keys c)) by (apply lookup_None; exact L).
      destruct (size c =? c_cap (cc c)) eqn:FULL.
      * apply Z.eqb_eq in FULL.
        assert (NE : keys c <> []) by (apply size_pos_keys; lia).
        destruct (evict_spec c (hd_hint K h) I NE) as [k0 [v0 [c1 [EV [Hk0 [Ha0 [I1 [S1 [K1 [C1 [CL1 AB1]]]]]]]]]]].
        rewrite EV.
        assert (Hnk1 : ~ In k (keys c1)) by (rewrite K1; intro H; apply (In_del K keqb keqb_spec) in H; tauto).
        assert (Hnp1 : ~ In k (pkeys (cc c) (pst c1))).
        { intro H. apply Hnk1. rewrite <- C1 in H. apply (Permutation_in k (inv_perm c1 I1)). exact H. }
        assert (Hne : k0 <> k) by (intro; subst; contradiction).
        eight.
        -- constructor; unfold keys, with_items; cbn [cc items pst closing].
           ++ rewrite map_app. cbn [map fst]. apply NoDup_app_single_r; [exact (inv_nodup c1 I1) | exact Hnk1].
           ++ rewrite map_app. cbn [map fst]. rewrite C1.
              rewrite (pol_admit_perm K keqb keqb_spec _ _ _ Hnp1).
              rewrite <- Permutation_cons_append. constructor. rewrite <- C1. exact (inv_perm c1 I1).
           ++ apply pol_admit_buckets. exact (inv_buckets c1 I1).
           ++ rewrite C1. intro Hc. unfold size, len in *. cbn [items]. rewrite app_length. cbn [length]. lia.
        -- intro E. unfold with_items in E; cbn [closing] in E. congruence.
        -- unfold with_items; cbn [cc]. exact C1.
        -- discriminate.
        -- reflexivity.
        -- intro x. unfold spec_after, abs. unfold with_items; cbn [reported existsb items fst]. rewrite lookup_app.
           rewrite orb_false_r. pose proof (AB1 x) as AX. unfold abs in AX.
           destruct (keqb x k0) eqn:E0.
           ++ apply keqb_spec in E0. subst x. rewrite ((proj2 (keqb_false K keqb keqb_spec k0 k)) Hne).
              destruct (lookup k0 (items c1)); [discriminate AX | reflexivity].
           ++ destruct (keqb x k) eqn:E.
              ** apply keqb_spec in E. subst x. rewrite L in AX.
                 destruct (lookup k (items c1)); [discriminate AX | reflexivity].
              ** destruct (lookup x (items c1)); exact AX.
        -- intros k' v' [E|[]]. inversion E; subst. exact Ha0.
        -- constructor; [intros [] | constructor].
      * apply Z.eqb_neq in FULL.
        assert (Hnp : ~ In k (pkeys (cc c) (pst c))).
        { intro H. apply Hnk. apply (Permutation_in k (inv_perm c I)). exact H. }
        eight.
        -- constructor; unfold keys, with_items; cbn [cc items pst closing].
           ++ rewrite map_app. cbn [map fst]. apply NoDup_app_single_r; [exact (inv_nodup c I) | exact Hnk].
           ++ rewrite map_app. cbn [map fst]. rewrite (pol_admit_perm K keqb keqb_spec _ _ _ Hnp).
              rewrite <- Permutation_cons_append. constructor. exact (inv_perm c I).
           ++ apply pol_admit_buckets. exact (inv_buckets c I).
           ++ intro Hc. pose proof (inv_size c I Hc). unfold size, len in *. cbn [items]. rewrite app_length. cbn [length]. lia.
        -- intro E. unfold with_items in E; cbn [closing] in E. congruence.
        -- reflexivity.
        -- discriminate.
        -- reflexivity.
        -- intro x. unfold spec_after, abs. unfold with_items; cbn [reported existsb items]. rewrite lookup_app.
           destruct (keqb x k) eqn:E.
           ++ apply keqb_spec in E. subst x. rewrite L. reflexivity.
           ++ destruct (lookup x (items c)); reflexivity.
        -- intros ? ? [].
        -- constructor.
  - (* Get *)
    destruct (closing c) eqn:CL.
    { apply (noop_spec c true); try assumption; try discriminate.
      + cbn. rewrite (abs_closed c k CO CL). reflexivity.
      + intro x. reflexivity. }
    destruct (lookup k (items c)) as [[v0 e0]|] eqn:L.
    + assert (Hk : In k (keys c)) by (eapply lookup_Some_in; exact L).
      destruct ((c_expiry (cc c) >? 0) && (e0 <? now)).
      * (* expired: evicted and reported *)
        destruct (evict_key_spec c k I Hk) as [v1 [e1 [L1 EK]]]. rewrite EK.
        pose proof (Inv_remove c k I Hk) as [I2 [S2 K2]].
        rewrite L in L1. inversion L1; subst v1 e1.
        eight.
        -- exact I2.
        -- intro E. cbn in E. congruence.
        -- reflexivity.
        -- discriminate.
        -- cbn. rewrite abs_remove. rewrite (keqb_refl K keqb keqb_spec). reflexivity.
        -- intro x. rewrite abs_remove. unfold spec_after. cbn [reported existsb fst]. rewrite orb_false_r.
           destruct (keqb x k); reflexivity.
        -- intros k' v' [E|[]]. inversion E; subst. unfold abs. rewrite L. reflexivity.
        -- constructor; [intros [] | constructor].
      * assert (Hp : In k (pkeys (cc c) (pst c))) by (apply (Permutation_in k (Permutation_sym (inv_perm c I))); exact Hk).
        eight.
        -- constructor; unfold keys, with_items; cbn [cc items pst closing].
           ++ exact (inv_nodup c I).
           ++ rewrite (pol_access_perm K keqb keqb_spec _ _ _ (Inv_pkeys_nodup c I) Hp). exact (inv_perm c I).
           ++ apply pol_access_buckets. exact (inv_buckets c I).
           ++ exact (inv_size c I).
        -- intro E. cbn in E. congruence.
        -- reflexivity.
        -- discriminate.
        -- cbn. unfold abs, with_items. cbn [items]. rewrite L. reflexivity.
        -- intro x. unfold spec_after. cbn. reflexivity.
        -- intros ? ? [].
        -- constructor.
    + apply (noop_spec c false); try assumption; try discriminate.
      * cbn. unfold abs. rewrite L. reflexivity.
      * intro x. reflexivity.
  - (* Delete *)
    destruct (closing c) eqn:CL.
    { apply (noop_spec c true); try assumption; try discriminate.
      + cbn. rewrite (abs_closed c k CO CL). reflexivity.
      + intro x. reflexivity. }
    destruct (lookup k (items c)) as [[v0 e0]|] eqn:L.
    + assert (Hk : In k (keys c)) by (eapply lookup_Some_in; exact L).
      pose proof (Inv_remove c k I Hk) as [I2 [S2 K2]].
      eight.
      * exact I2.
      * intro E. cbn in E. congruence.
      * reflexivity.
      * discriminate.
      * cbn. unfold abs. rewrite L. reflexivity.
      * intro x. unfold with_items. rewrite abs_remove. unfold spec_after. cbn [reported existsb]. reflexivity.
      * intros ? ? [].
      * constructor.
    + apply (noop_spec c false); try assumption; try discriminate.
      * cbn. unfold abs. rewrite L. reflexivity.
      * intro x. unfold spec_after. cbn [reported existsb].
        destruct (keqb x k) eqn:E; [|reflexivity]. apply keqb_spec in E. subst. unfold abs. rewrite L. reflexivity.
  - (* Len *)
    apply (noop_spec c (closing c)); try assumption; try discriminate; try reflexivity.
    intro x. unfold spec_after. cbn. destruct (closing c); reflexivity.
  - (* Cap *)
    apply (noop_spec c (closing c)); try assumption; try discriminate; try reflexivity.
    intro x. unfold spec_after. cbn. destruct (closing c); reflexivity.
  - (* Close *)
    destruct (closing c) eqn:CL.
    { apply (noop_spec c true); try assumption; try discriminate; [reflexivity|]. intro x. reflexivity. }
    set (c1 := {| cc := cc c; items := items c; pst := pst c; closing := true |}).
    assert (I1 : Inv c1) by (destruct I as [a b d e]; constructor; assumption).
    destruct (close_loop_spec (S (length (items c))) c1 h [] I1 (Nat.le_succ_diag_r _)) as [c2 [ev [CLS [E2 [P2 A2]]]]].
    fold c1. rewrite CLS. cbn [app].
    eight.
    + constructor; cbn [cc items pst closing keys map].
      * constructor.
      * unfold pkeys, PolicyProofs.pkeys. destruct (c_kind (cc c)); reflexivity.
      * constructor.
      * unfold size, len. cbn. lia.
    + intro E. reflexivity.
    + reflexivity.
    + discriminate.
    + reflexivity.
    + intro x. unfold spec_after, abs. cbn [items Generic.lookup option_map].
      destruct (reported ev x); reflexivity.
    + intros k v HI. exact (A2 k v HI).
    + apply (Permutation_NoDup (Permutation_sym P2)). exact (inv_nodup c I).
Qed.


(* Close reports every entry *)
Lemma close_reports_all c now h :
  Inv c -> closing c = false ->
  match step c now h OClose with (c', r, ev) => Permutation (map fst ev) (keys c) end.
Proof.
  intros I CL. cbn [Generic.step]. rewrite CL.
  set (c1 := {| cc := cc c; items := items c; pst := pst c; closing := true |}).
  assert (I1 : Inv c1) by (destruct I as [a b d e]; constructor; assumption).
  destruct (close_loop_spec (S (length (items c))) c1 h [] I1 (Nat.le_succ_diag_r _)) as [c2 [ev [CLS [E2 [P2 A2]]]]].
  rewrite CLS. cbn [app]. exact P2.
Qed.

Lemma reported_In ev k v : In (k, v) ev -> reported ev k = true.
Proof.
  intro H. unfold reported. apply existsb_exists. exists (k, v). split; [exact H | apply (keqb_refl K keqb keqb_spec)].
Qed.

Lemma reported_map ev x : reported ev x = true -> In x (map fst ev).
Proof.
  unfold reported. rewrite existsb_exists. intros [[k v] [HI E]]. apply keqb_spec in E. cbn in E. subst.
  apply in_map_iff. exists (k, v). split; [reflexivity | exact HI].
Qed.

(* ---- every reachable state ------------------------------------------------------------------ *)

Definition input : Type := Z * list K * op K V.   (* virtual time, eviction hints, operation *)

Fixpoint run (c : cache) (l : list input) : cache :=
  match l with
  | [] => c
  | (now, h, o) :: r => run (fst (fst (step c now h o))) r
  end.

Definition Good (cf : cfg) (c : cache) : Prop := Inv c /\ Closed_ok c /\ cc c = cf.

Lemma Good_new cf : Good cf (new_cache cf).
Proof. split; [apply Inv_new|]. split; [intro E; discriminate E | reflexivity]. Qed.

Lemma Good_step cf c now h o : 1 <= c_cap cf -> Good cf c -> Good cf (fst (fst (step c now h o))).
Proof.
  intros Hc [I [CO E]]. subst cf. pose proof (step_spec c now h o I CO Hc) as S.
  destruct (step c now h o) as [[c' r] ev]. cbn [fst]. destruct S as [I' [CO' [E' _]]].
  split; [exact I'|]. split; [exact CO' | exact E'].
Qed.

Lemma Good_run cf l : forall c, 1 <= c_cap cf -> Good cf c -> Good cf (run c l).
Proof.
  induction l as [|[[now h] o] r IH]; intros c Hc G; [exact G|].
  cbn [run]. apply IH; [exact Hc|]. apply Good_step; assumption.
Qed.

(* ---- the C15 statements, for every reachable state ------------------------------------------ *)


(* never more entries than the capacity; the lookup table and the policy structure hold the same
   duplicate-free key set *)
Lemma c15_bounded : forall cf l, 1 <= c_cap cf ->
  let c := run (new_cache cf) l in
  size c <= c_cap cf /\ NoDup (keys c) /\ Permutation (pkeys (cc c) (pst c)) (keys c).
Proof.
  intros cf l Hc. cbv zeta. set (c := run (new_cache cf) l). destruct (Good_run cf l _ Hc (Good_new cf)) as [I [_ E]].
  split; [|split].
  - pose proof (inv_size c I) as S. fold c in E. rewrite E in S. apply S. exact Hc.
  - exact (inv_nodup c I).
  - exact (inv_perm c I).
Qed.

(* no operation on a reachable state hits the nil-victim dereference (the model's RPanic) *)
Lemma c15_total : forall cf l now h o, 1 <= c_cap cf ->
  snd (fst (step (run (new_cache cf) l) now h o)) <> RPanic.
Proof.
  intros cf l now h o Hc. destruct (Good_run cf l _ Hc (Good_new cf)) as [I [CO E]].
  pose proof (step_spec _ now h o I CO (eq_ind_r (fun x => 1 <= c_cap x) Hc E)) as S.
  destruct (step (run (new_cache cf) l) now h o) as [[c' r] ev]. cbn [fst snd]. tauto.
Qed.

(* refinement to the abstract map: the retrievable entries change only by Set (bind), Delete (unbind),
   Close (empty) and by being reported to the eviction callback; Get returns the entry retrievable
   after the call (a hit returns the latest Set value; an expired entry is reported and missed) *)
Lemma c15_lookup : forall cf l now h o, 1 <= c_cap cf ->
  let c := run (new_cache cf) l in
  match step c now h o with
  | (c', r, ev) =>
      (forall x, abs c' x = spec_after (abs c) (closing c) o ev x) /\ result_ok c c' o r
  end.
Proof.
  intros cf l now h o Hc. cbv zeta. set (c := run (new_cache cf) l). destruct (Good_run cf l _ Hc (Good_new cf)) as [I [CO E]].
  pose proof (step_spec c now h o I CO (eq_ind_r (fun x => 1 <= c_cap x) Hc E)) as S.
  destruct (step c now h o) as [[c' r] ev]. tauto.
Qed.

(* callbacks: each reported (key, value) was retrievable with exactly that value before the operation
   and is not retrievable after it; no key is reported twice by one operation; and an entry stops being
   retrievable ONLY by being reported, deleted by this very operation, or Close *)
Lemma c15_callbacks : forall cf l now h o, 1 <= c_cap cf ->
  let c := run (new_cache cf) l in
  match step c now h o with
  | (c', r, ev) =>
      (forall k v, In (k, v) ev -> abs c k = Some v /\ abs c' k = None) /\
      NoDup (map fst ev) /\
      (forall x, abs c x <> None -> abs c' x = None -> In x (map fst ev) \/ o = ODelete x \/ o = OClose)
  end.
Proof.
  intros cf l now h o Hc. cbv zeta. set (c := run (new_cache cf) l). destruct (Good_run cf l _ Hc (Good_new cf)) as [I [CO E]].
  pose proof (step_spec c now h o I CO (eq_ind_r (fun x => 1 <= c_cap x) Hc E)) as S.
  destruct (step c now h o) as [[c' r] ev]. destruct S as [_ [_ [_ [_ [_ [SP [EV ND]]]]]]].
  split; [|split; [exact ND|]].
  - intros k v HI. split; [exact (EV k v HI)|]. rewrite SP. unfold spec_after.
    rewrite (reported_In ev k v HI). reflexivity.
  - intros x Hx Hx'. rewrite SP in Hx'. unfold spec_after in Hx'.
    destruct (reported ev x) eqn:R; [left; apply (reported_map); exact R|].
    destruct (closing c); [contradiction|].
    destruct o as [k v|k|k| | |]; try contradiction.
    + destruct (keqb x k); [discriminate | contradiction].
    + destruct (keqb x k) eqn:Ek; [|contradiction]. apply keqb_spec in Ek. subst. right. left. reflexivity.
    + right. right. reflexivity.
Qed.

(* Close (on an open cache) reports every entry *)
Lemma c15_close_reports_all : forall cf l now h, 1 <= c_cap cf ->
  let c := run (new_cache cf) l in
  closing c = false ->
  match step c now h OClose with (c', r, ev) => Permutation (map fst ev) (keys c) end.
Proof.
  intros cf l now h Hc. cbv zeta. set (c := run (new_cache cf) l). intro CL. destruct (Good_run cf l _ Hc (Good_new cf)) as [I _].
  exact (close_reports_all c now h I CL).
Qed.


End C.
