(* Executable model of go/appencryption/pkg/cache: cache.go over the four eviction policies
   (lru.go: lru + slru, lfu.go, tlfu.go).  TinyLFU's frequency sketch is not modelled: where
   tlfu.Victim compares two frequency estimates the model takes a hint (the key the implementation
   was observed to evict); every theorem holds for every hint. *)
From Coq Require Import List ZArith Bool Lia.
Import ListNotations.
Open Scope Z_scope.

Inductive polkind := Lru | Lfu | Slru | Tlfu.

Section Cache.
Variables (K V : Type) (keqb : K -> K -> bool).

Definition mem (k : K) (l : list K) : bool := existsb (keqb k) l.
Definition del (k : K) (l : list K) : list K := filter (fun x => negb (keqb k x)) l.
Definition to_front (k : K) (l : list K) : list K := k :: del k l.
Definition last_opt (l : list K) : option K := match rev l with [] => None | x :: _ => Some x end.
Definition drop_last (l : list K) : list K := rev (tl (rev l)).
Definition len {A} (l : list A) : Z := Z.of_nat (length l).

(* ---- policy state ---------------------------------------------------------------------- *)

Record pstate := {
  ps_win : list K;                 (* LRU list, or TinyLFU admission window; most recent first *)
  ps_prot : list K;                (* SLRU protected segment; most recent first *)
  ps_prob : list K;                (* SLRU probation segment; most recent first *)
  ps_freq : list (Z * list K)      (* LFU buckets, ascending frequency; each bucket oldest first *)
}.

Definition ps_empty : pstate := {| ps_win := []; ps_prot := []; ps_prob := []; ps_freq := [] |}.

Definition set_win p l := {| ps_win := l; ps_prot := ps_prot p; ps_prob := ps_prob p; ps_freq := ps_freq p |}.
Definition set_seg p a b := {| ps_win := ps_win p; ps_prot := a; ps_prob := b; ps_freq := ps_freq p |}.
Definition set_freq p f := {| ps_win := ps_win p; ps_prot := ps_prot p; ps_prob := ps_prob p; ps_freq := f |}.

(* slru (lru.go) *)
Definition slru_admit (p : pstate) (k : K) : pstate := set_seg p (ps_prot p) (k :: ps_prob p).

Definition slru_access (protcap : Z) (p : pstate) (k : K) : pstate :=
  if mem k (ps_prot p) then set_seg p (to_front k (ps_prot p)) (ps_prob p)
  else
    let prob := del k (ps_prob p) in
    let prot := k :: ps_prot p in
    if len prot >? protcap then
      match last_opt prot with
      | Some b => set_seg p (drop_last prot) (b :: prob)
      | None => set_seg p prot prob
      end
    else set_seg p prot prob.

Definition slru_victim (p : pstate) : option K :=
  match last_opt (ps_prob p) with
  | Some k => Some k
  | None => last_opt (ps_prot p)
  end.

Definition slru_remove (p : pstate) (k : K) : pstate :=
  if mem k (ps_prot p) then set_seg p (del k (ps_prot p)) (ps_prob p)
  else set_seg p (ps_prot p) (del k (ps_prob p)).

(* lfu (lfu.go) *)
Fixpoint freq_of (k : K) (f : list (Z * list K)) : option Z :=
  match f with
  | [] => None
  | (n, ks) :: r => if mem k ks then Some n else freq_of k r
  end.

Fixpoint freq_del (k : K) (f : list (Z * list K)) : list (Z * list K) :=
  match f with
  | [] => []
  | (n, ks) :: r =>
      if mem k ks then (match del k ks with [] => r | ks' => (n, ks') :: r end)
      else (n, ks) :: freq_del k r
  end.

Fixpoint freq_ins (n : Z) (k : K) (f : list (Z * list K)) : list (Z * list K) :=
  match f with
  | [] => [(n, [k])]
  | (m, ks) :: r =>
      if m =? n then (m, ks ++ [k]) :: r
      else if n <? m then (n, [k]) :: (m, ks) :: r
      else (m, ks) :: freq_ins n k r
  end.

Definition lfu_increment (p : pstate) (k : K) : pstate :=
  let f := ps_freq p in
  let n := match freq_of k f with Some n => n + 1 | None => 1 end in
  set_freq p (freq_ins n k (freq_del k f)).

Definition lfu_victim (p : pstate) : option K :=
  match ps_freq p with
  | (_, k :: _) :: _ => Some k
  | _ => None
  end.

Definition lfu_remove (p : pstate) (k : K) : pstate := set_freq p (freq_del k (ps_freq p)).

(* ---- the policy interface, dispatched on the kind ------------------------------------------ *)

Record cfg := {
  c_kind : polkind;
  c_cap : Z;          (* capacity given to New *)
  c_expiry : Z;       (* WithExpiry, 0 = none (nanoseconds) *)
}.

(* slru.Init: protectedCapacity = int(float64(capacity) * 0.8) *)
Definition prot_cap (cap : Z) : Z := cap * 4 / 5.
(* tinyLFU.Init: lruCap = int(float64(capacity) * 0.01); the slru gets the rest *)
Definition win_cap (cap : Z) : Z := cap / 100.

Definition pol_protcap (c : cfg) : Z :=
  match c_kind c with
  | Tlfu => prot_cap (c_cap c - win_cap (c_cap c))
  | _ => prot_cap (c_cap c)
  end.

Definition tl_bypassed (c : cfg) : bool := win_cap (c_cap c) =? 0.

Definition pol_admit (c : cfg) (p : pstate) (k : K) : pstate :=
  match c_kind c with
  | Lru => set_win p (k :: ps_win p)
  | Slru => slru_admit p k
  | Lfu => lfu_increment p k
  | Tlfu =>
      if tl_bypassed c then slru_admit p k
      else if len (ps_win p) <? win_cap (c_cap c) then set_win p (k :: ps_win p)
      else match last_opt (ps_win p) with
           | Some v => set_win (slru_admit p v) (k :: drop_last (ps_win p))
           | None => set_win p [k]   (* unreachable: the window capacity is positive here *)
           end
  end.

Definition pol_access (c : cfg) (p : pstate) (k : K) : pstate :=
  match c_kind c with
  | Lru => set_win p (to_front k (ps_win p))
  | Slru => slru_access (pol_protcap c) p k
  | Lfu => lfu_increment p k
  | Tlfu => if mem k (ps_win p) then set_win p (to_front k (ps_win p))
            else slru_access (pol_protcap c) p k
  end.

Definition pol_remove (c : cfg) (p : pstate) (k : K) : pstate :=
  match c_kind c with
  | Lru => set_win p (del k (ps_win p))
  | Slru => slru_remove p k
  | Lfu => lfu_remove p k
  | Tlfu => if mem k (ps_win p) then set_win p (del k (ps_win p)) else slru_remove p k
  end.

(* Victim: for Tlfu with both a window candidate and a main victim, the sketch decides; [hint] is
   the key the implementation evicted (None: keep the candidate as victim, the model default). *)
Definition pol_victim (c : cfg) (p : pstate) (hint : option K) : option K * pstate :=
  match c_kind c with
  | Lru => (last_opt (ps_win p), p)
  | Slru => (slru_victim p, p)
  | Lfu => (lfu_victim p, p)
  | Tlfu =>
      match last_opt (ps_win p), slru_victim p with
      | None, v => (v, p)
      | Some cand, None => (Some cand, p)
      | Some cand, Some v =>
          match hint with
          | Some h => if keqb h v
                      then (Some v, slru_admit (set_win p (drop_last (ps_win p))) cand)
                      else (Some cand, p)
          | None => (Some cand, p)
          end
      end
  end.

(* ---- cache.go ---------------------------------------------------------------------------- *)

Record cache := {
  cc : cfg;
  items : list (K * (V * Z));    (* byKey: key -> (value, expiration) *)
  pst : pstate;
  closing : bool;
}.

Definition new_cache (c : cfg) : cache := {| cc := c; items := []; pst := ps_empty; closing := false |}.

Fixpoint lookup (k : K) (l : list (K * (V * Z))) : option (V * Z) :=
  match l with
  | [] => None
  | (k', x) :: r => if keqb k k' then Some x else lookup k r
  end.

Definition remove_item (k : K) (l : list (K * (V * Z))) : list (K * (V * Z)) :=
  filter (fun e => negb (keqb k (fst e))) l.

Fixpoint update_item (k : K) (x : V * Z) (l : list (K * (V * Z))) : list (K * (V * Z)) :=
  match l with
  | [] => []
  | (k', y) :: r => if keqb k k' then (k', x) :: r else (k', y) :: update_item k x r
  end.

Definition size (c : cache) : Z := len (items c).

Inductive op := OSet (k : K) (v : V) | OGet (k : K) | ODelete (k : K) | OLen | OCap | OClose.
Inductive out := RUnit | RGet (r : option V) | RBool (b : bool) | RInt (z : Z) | RPanic.

Definition with_items c it p := {| cc := cc c; items := it; pst := p; closing := closing c |}.

(* evictItem: remove from byKey and from the policy, report (key, value) to the callback *)
Definition evict_key (c : cache) (k : K) : cache * list (K * V) :=
  match lookup k (items c) with
  | Some (v, _) => (with_items c (remove_item k (items c)) (pol_remove (cc c) (pst c) k), [(k, v)])
  | None => (c, [])
  end.

(* evict: policy victim, then evictItem; None = Victim returned nil (a nil dereference in Go) *)
Definition evict (c : cache) (hint : option K) : option (cache * list (K * V)) :=
  match pol_victim (cc c) (pst c) hint with
  | (Some k, p') => Some (evict_key (with_items c (items c) p') k)
  | (None, _) => None
  end.

Definition expiration (c : cache) (now : Z) : Z := if c_expiry (cc c) >? 0 then now + c_expiry (cc c) else 0.

Definition hd_hint (h : list K) : option K := match h with [] => None | x :: _ => Some x end.

(* Close: evict until empty *)
Fixpoint close_loop (fuel : nat) (c : cache) (hints : list K) (acc : list (K * V)) : option (cache * list (K * V)) :=
  match fuel with
  | O => Some (c, acc)
  | S f =>
      if size c >? 0 then
        match evict c (hd_hint hints) with
        | Some (c', ev) => close_loop f c' (tl hints) (acc ++ ev)
        | None => None
        end
      else Some (c, acc)
  end.

(* One operation at virtual time [now].  [hints]: keys the implementation was seen to evict during
   this operation (only consulted by TinyLFU).  Returns new state, result, callbacks in order. *)
Definition step (c : cache) (now : Z) (hints : list K) (o : op) : cache * out * list (K * V) :=
  match o with
  | OLen => (c, RInt (size c), [])
  | OCap => (c, RInt (if closing c then 0 else c_cap (cc c)), [])
  | OClose =>
      if closing c then (c, RUnit, [])
      else
        let c1 := {| cc := cc c; items := items c; pst := pst c; closing := true |} in
        match close_loop (S (length (items c))) c1 hints [] with
        | Some (c2, ev) => ({| cc := cc c; items := []; pst := ps_empty; closing := true |}, RUnit, ev)
        | None => (c1, RPanic, [])
        end
  | OGet k =>
      if closing c then (c, RGet None, [])
      else match lookup k (items c) with
           | None => (c, RGet None, [])
           | Some (v, e) =>
               if (c_expiry (cc c) >? 0) && (e <? now) then
                 let '(c', ev) := evict_key c k in (c', RGet None, ev)
               else (with_items c (items c) (pol_access (cc c) (pst c) k), RGet (Some v), [])
           end
  | ODelete k =>
      if closing c then (c, RBool false, [])
      else match lookup k (items c) with
           | None => (c, RBool false, [])
           | Some _ => (with_items c (remove_item k (items c)) (pol_remove (cc c) (pst c) k), RBool true, [])
           end
  | OSet k v =>
      if closing c then (c, RUnit, [])
      else match lookup k (items c) with
           | Some (_, e) =>
               let e' := if c_expiry (cc c) >? 0 then now + c_expiry (cc c) else e in
               (with_items c (update_item k (v, e') (items c)) (pol_access (cc c) (pst c) k), RUnit, [])
           | None =>
               let r := if size c =? c_cap (cc c) then evict c (hd_hint hints) else Some (c, []) in
               match r with
               | None => (c, RPanic, [])
               | Some (c1, ev) =>
                   (with_items c1 (items c1 ++ [(k, (v, expiration c now))]) (pol_admit (cc c) (pst c1) k), RUnit, ev)
               end
           end
  end.

End Cache.

Arguments step {K V} keqb c now hints o.
Arguments new_cache {K V} c.
Arguments size {K V} c.
Arguments OSet {K V} k v.
Arguments OGet {K V} k.
Arguments ODelete {K V} k.
Arguments OLen {K V}.
Arguments OCap {K V}.
Arguments OClose {K V}.
Arguments RUnit {V}.
Arguments RGet {V} r.
Arguments RBool {V} b.
Arguments RInt {V} z.
Arguments RPanic {V}.
Arguments ps_win {K} p.
Arguments ps_prot {K} p.
Arguments ps_prob {K} p.
Arguments ps_freq {K} p.
Arguments ps_empty {K}.
Arguments set_win {K} p l.
Arguments set_seg {K} p a b.
Arguments set_freq {K} p f.
Arguments cc {K V} c.
Arguments items {K V} c.
Arguments pst {K V} c.
Arguments closing {K V} c.
