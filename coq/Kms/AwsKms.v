(* Model of the AWS KMS plugins (plugins/aws-v1/kms/aws.go, plugins/aws-v2/kms/kms.go + builder.go): an ordered
   list of regional clients (preferred first), EncryptKey = GenerateDataKey in the first region that can, one
   envelope entry per region that could wrap the data key; DecryptKey = try the configured regions in client order,
   skipping regions without an entry, continuing past failures.  Regional KMS behaviour is an oracle (booleans). *)
From Coq Require Import List Bool Arith.
Import ListNotations.

Record wreg := { w_id : nat; w_gen : bool; w_enc : bool }.     (* a client at wrap time: can GenerateDataKey / Encrypt *)

Definition memb (x : nat) (l : list nat) : bool := existsb (Nat.eqb x) l.

(* EncryptKey: None = "all regions returned errors"; Some (generating region, regions with an entry in client order) *)
Definition wrap (clients : list wreg) : option (nat * list nat) :=
  match find w_gen clients with
  | None => None
  | Some g => Some (w_id g, map w_id (filter (fun c => Nat.eqb (w_id c) (w_id g) || w_enc c) clients))
  end.

(* DecryptKey over clients (region, can decrypt now) and the envelope's entry regions:
   (region that succeeded, regional Decrypt attempts in order) *)
Fixpoint unwrap (clients : list (nat * bool)) (entries : list nat) : option nat * list nat :=
  match clients with
  | [] => (None, [])
  | (r, ok) :: t =>
      if memb r entries then
        if ok then (Some r, [r])
        else let '(res, att) := unwrap t entries in (res, r :: att)
      else unwrap t entries
  end.

(* sortClients / the builder: the preferred region's client is moved to the front, the others keep their order *)
Definition order_clients {A} (is_pref : A -> bool) (l : list A) : list A := filter is_pref l ++ filter (fun x => negb (is_pref x)) l.
