From Asherah Require Import Kms.AwsKms.
From Coq Require Import List Bool Arith Lia.
Import ListNotations.

Lemma memb_In x l : memb x l = true <-> In x l.
Proof.
  unfold memb. rewrite existsb_exists. split.
  - intros [y [H E]]. apply Nat.eqb_eq in E. subst. exact H.
  - intro H. exists x. split; [exact H | apply Nat.eqb_refl].
Qed.

(* unwrapping succeeds exactly when some configured region that has an entry is able to decrypt *)
Theorem unwrap_succeeds_iff clients entries :
  fst (unwrap clients entries) <> None <-> exists r, In (r, true) clients /\ In r entries.
Proof.
  induction clients as [|[r ok] t IH]; cbn [unwrap].
  - split; [intro H; exfalso; apply H; reflexivity | intros [r [[] _]]].
  - destruct (memb r entries) eqn:M.
    + destruct ok.
      * split; [intros _; exists r; split; [left; reflexivity | apply memb_In; exact M] | intros _; discriminate].
      * destruct (unwrap t entries) as [res att] eqn:U. cbn [fst] in *. rewrite IH. split.
        -- intros [x [H1 H2]]. exists x. split; [right; exact H1 | exact H2].
        -- intros [x [[H1|H1] H2]]; [inversion H1 | exists x; split; assumption].
    + rewrite IH. split.
      * intros [x [H1 H2]]. exists x. split; [right; exact H1 | exact H2].
      * intros [x [[H1|H1] H2]]; [|exists x; split; assumption].
        inversion H1; subst. apply memb_In in H2. congruence.
Qed.

(* the region that succeeds has an entry and can decrypt, and it is the last attempt *)
Theorem unwrap_winner clients entries r :
  fst (unwrap clients entries) = Some r ->
  In (r, true) clients /\ In r entries /\ exists before, snd (unwrap clients entries) = before ++ [r].
Proof.
  induction clients as [|[x ok] t IH]; cbn [unwrap]; [discriminate|].
  destruct (memb x entries) eqn:M.
  - destruct ok.
    + intro H. inversion H; subst. split; [left; reflexivity|]. split; [apply memb_In; exact M | exists []; reflexivity].
    + destruct (unwrap t entries) as [res att] eqn:U. cbn [fst snd] in *. intro H. destruct (IH H) as [H1 [H2 [b H3]]].
      split; [right; exact H1|]. split; [exact H2|]. exists (x :: b). rewrite H3. reflexivity.
  - intro H. destruct (IH H) as [H1 [H2 H3]]. split; [right; exact H1 | split; assumption].
Qed.

(* attempts are made in client order, only in regions with an entry, each at most once per client, and every
   attempt before the last one failed *)
Definition with_entry (entries : list nat) (clients : list (nat * bool)) : list (nat * bool) :=
  filter (fun c => memb (fst c) entries) clients.

Fixpoint until_success (l : list (nat * bool)) : list nat :=
  match l with
  | [] => []
  | (r, ok) :: t => if ok then [r] else r :: until_success t
  end.

Theorem unwrap_attempts clients entries :
  snd (unwrap clients entries) = until_success (with_entry entries clients).
Proof.
  induction clients as [|[r ok] t IH]; [reflexivity|].
  cbn [unwrap with_entry filter fst]. destruct (memb r entries).
  - cbn [until_success]. destruct ok; [reflexivity|].
    destruct (unwrap t entries) as [res att]. cbn [snd] in *. rewrite IH. reflexivity.
  - exact IH.
Qed.

(* preferred region first: if the first client has an entry it is attempted first *)
Theorem unwrap_preferred_first p okp rest entries :
  In p entries -> hd_error (snd (unwrap ((p, okp) :: rest) entries)) = Some p.
Proof.
  intro H. cbn [unwrap]. apply memb_In in H. rewrite H. destruct okp; [reflexivity|].
  destruct (unwrap rest entries). reflexivity.
Qed.

Lemma find_some_iff {A} (f : A -> bool) l : (exists x, In x l /\ f x = true) <-> find f l <> None.
Proof.
  induction l as [|a l IH]; cbn.
  - split; [intros [x [[] _]] | intro H; exfalso; apply H; reflexivity].
  - destruct (f a) eqn:E.
    + split; [intros _; discriminate | intros _; exists a; split; [left; reflexivity | exact E]].
    + rewrite <- IH. split.
      * intros [x [[->|H] F]]; [congruence | exists x; split; assumption].
      * intros [x [H F]]. exists x. split; [right; exact H | exact F].
Qed.

(* wrapping succeeds exactly when some region can generate a data key *)
Theorem wrap_succeeds_iff clients : wrap clients <> None <-> exists c, In c clients /\ w_gen c = true.
Proof.
  rewrite find_some_iff. unfold wrap. destruct (find w_gen clients); split; intro H; try discriminate.
  - exfalso. apply H. reflexivity.
  - exfalso. apply H. reflexivity.
Qed.

(* the generating region is the first client (in order) able to generate, and the envelope has an entry for
   exactly the generating region and every region that could wrap the data key *)
Theorem wrap_entries clients g es :
  wrap clients = Some (g, es) ->
  (exists c, In c clients /\ w_id c = g /\ w_gen c = true) /\
  (forall r, In r es <-> exists c, In c clients /\ w_id c = r /\ (r = g \/ w_enc c = true)).
Proof.
  unfold wrap. destruct (find w_gen clients) as [c|] eqn:F; [|discriminate]. intro H. inversion H; subst. clear H.
  split.
  - apply find_some in F as [H1 H2]. exists c. repeat split; assumption.
  - intro r. rewrite in_map_iff. split.
    + intros [x [E H]]. apply filter_In in H as [H1 H2]. exists x. split; [exact H1|]. split; [exact E|].
      apply orb_true_iff in H2 as [H2|H2]; [left; apply Nat.eqb_eq in H2; congruence | right; exact H2].
    + intros [x [H1 [E H2]]]. exists x. split; [exact E|]. apply filter_In. split; [exact H1|].
      apply orb_true_iff. destruct H2 as [H2|H2]; [left; apply Nat.eqb_eq; congruence | right; exact H2].
Qed.

(* wrap then unwrap: succeeds iff a configured region that wrapped the key can decrypt now *)
Theorem wrap_unwrap clients g es dclients :
  wrap clients = Some (g, es) ->
  (fst (unwrap dclients es) <> None <->
   exists r, In (r, true) dclients /\ exists c, In c clients /\ w_id c = r /\ (r = g \/ w_enc c = true)).
Proof.
  intro W. rewrite unwrap_succeeds_iff. destruct (wrap_entries _ _ _ W) as [_ E]. split.
  - intros [r [H1 H2]]. exists r. split; [exact H1 | apply E; exact H2].
  - intros [r [H1 H2]]. exists r. split; [exact H1 | apply E; exact H2].
Qed.

(* ordering: the preferred client comes first, the others keep their relative order *)
Theorem order_preferred_first {A} (is_pref : A -> bool) l x :
  In x l -> is_pref x = true -> exists y t, order_clients is_pref l = y :: t /\ is_pref y = true.
Proof.
  intros H P. unfold order_clients. destruct (filter is_pref l) as [|y t] eqn:F.
  - exfalso. assert (In x (filter is_pref l)) by (apply filter_In; split; assumption). rewrite F in H0. exact H0.
  - exists y, (t ++ filter (fun x0 => negb (is_pref x0)) l). split; [reflexivity|].
    assert (In y (filter is_pref l)) by (rewrite F; left; reflexivity). apply filter_In in H0 as [_ H0]. exact H0.
Qed.
