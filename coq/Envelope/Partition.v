(* Model of go/appencryption/partition.go: key-id construction and the
   IsValidIntermediateKeyID guard, for the default and the region-suffixed partition. *)
From Asherah Require Export Base.Str.

Definition us : str := s "_".

Definition sk_id_default (svc prod : str) : str := s "_SK_" ++ svc ++ us ++ prod.
Definition ik_id_default (p svc prod : str) : str := s "_IK_" ++ p ++ us ++ svc ++ us ++ prod.
Definition sk_id_suffixed (svc prod suf : str) : str := s "_SK_" ++ svc ++ us ++ prod ++ us ++ suf.
Definition ik_id_suffixed (p svc prod suf : str) : str :=
  s "_IK_" ++ p ++ us ++ svc ++ us ++ prod ++ us ++ suf.

(* A partition: id, service, product and an optional region suffix (None = defaultPartition). *)
Record partition := { p_id : str; p_svc : str; p_prod : str; p_suffix : option str }.

Definition system_key_id (p : partition) : str :=
  match p_suffix p with
  | None => sk_id_default (p_svc p) (p_prod p)
  | Some suf => sk_id_suffixed (p_svc p) (p_prod p) suf
  end.

Definition intermediate_key_id (p : partition) : str :=
  match p_suffix p with
  | None => ik_id_default (p_id p) (p_svc p) (p_prod p)
  | Some suf => ik_id_suffixed (p_id p) (p_svc p) (p_prod p) suf
  end.

Definition is_valid_ik_id (p : partition) (id : str) : bool :=
  match p_suffix p with
  | None => str_eqb id (ik_id_default (p_id p) (p_svc p) (p_prod p))
  | Some suf =>
      str_eqb id (ik_id_suffixed (p_id p) (p_svc p) (p_prod p) suf)
      || prefixb (ik_id_default (p_id p) (p_svc p) (p_prod p)) id
  end.

(* SessionFactory.newPartition: a metastore reporting a non-empty region suffix selects the suffixed form *)
Definition new_partition (id svc prod : str) (region_suffix : option str) : partition :=
  {| p_id := id; p_svc := svc; p_prod := prod;
     p_suffix := match region_suffix with
                 | Some (c :: r) => Some (c :: r)
                 | _ => None
                 end |}.

(* GetSession: the empty partition id is refused *)
Definition get_session_ok (id : str) : bool := negb (str_eqb id []).
