(* Proofs about key ids (C06): the default partition's guard is exact for all strings; the
   suffixed partition's guard is a prefix match and is characterised exactly. *)
From Asherah Require Import Base.Str Envelope.Partition.

Lemma str_eqb_refl a : str_eqb a a = true.
Proof. induction a as [|c a IH]; cbn; [reflexivity|]. rewrite Ascii.eqb_refl, IH. reflexivity. Qed.

Lemma str_eqb_eq a b : str_eqb a b = true <-> a = b.
Proof.
  revert b; induction a as [|c a IH]; intros [|d b]; cbn; split; intro H; try reflexivity; try discriminate.
  - apply andb_true_iff in H as [H1 H2]. apply Ascii.eqb_eq in H1. apply IH in H2. congruence.
  - inversion H; subst. rewrite Ascii.eqb_refl. cbn. apply IH. reflexivity.
Qed.

Lemma str_eqb_neq a b : str_eqb a b = false <-> a <> b.
Proof.
  split.
  - intros H E. apply str_eqb_eq in E. congruence.
  - intro H. destruct (str_eqb a b) eqn:E; [|reflexivity]. apply str_eqb_eq in E. contradiction.
Qed.

Lemma prefixb_spec p x : prefixb p x = true <-> exists t, x = p ++ t.
Proof.
  revert x; induction p as [|c p IH]; intros x; cbn.
  - split; [intros _; exists x; reflexivity | reflexivity].
  - destruct x as [|d x].
    + split; [discriminate | intros [t Ht]; discriminate].
    + split.
      * intro H. apply andb_true_iff in H as [H1 H2]. apply Ascii.eqb_eq in H1.
        apply IH in H2 as [t ->]. exists t. subst. reflexivity.
      * intros [t Ht]. inversion Ht; subst. rewrite Ascii.eqb_refl. cbn. apply IH. exists t. reflexivity.
Qed.

Lemma prefixb_app p t : prefixb p (p ++ t) = true.
Proof. apply prefixb_spec. exists t. reflexivity. Qed.

(* ---- default partition: exact for every string --------------------------------------- *)

Lemma ik_id_default_inj p q svc prod :
  ik_id_default p svc prod = ik_id_default q svc prod -> p = q.
Proof.
  unfold ik_id_default. intro H. apply app_inv_head in H.
  rewrite !app_assoc in H. repeat apply app_inv_tail in H. exact H.
Qed.

Lemma default_guard_exact p q svc prod :
  is_valid_ik_id (new_partition p svc prod None) (ik_id_default q svc prod) = true <-> p = q.
Proof.
  cbv [is_valid_ik_id new_partition p_suffix p_id p_svc p_prod]. rewrite str_eqb_eq. split.
  - intro H. symmetry. eapply ik_id_default_inj; eauto.
  - intros ->. reflexivity.
Qed.

(* A default session also rejects every region-suffixed id of another partition unless the two
   ids coincide as strings. *)
Lemma default_guard_rejects p id svc prod :
  id <> ik_id_default p svc prod ->
  is_valid_ik_id (new_partition p svc prod None) id = false.
Proof.
  cbv [is_valid_ik_id new_partition p_suffix p_id p_svc p_prod]. intro H. apply str_eqb_neq. exact H.
Qed.

(* ---- suffixed partition -------------------------------------------------------------- *)

Lemma ik_id_suffixed_inj p q svc prod suf :
  ik_id_suffixed p svc prod suf = ik_id_suffixed q svc prod suf -> p = q.
Proof.
  unfold ik_id_suffixed. intro H. apply app_inv_head in H.
  rewrite !app_assoc in H. repeat apply app_inv_tail in H. exact H.
Qed.

Definition suffixed_guard (p svc prod suf id : str) : bool :=
  is_valid_ik_id (new_partition p svc prod (Some suf)) id.

Lemma suffixed_guard_unfold p svc prod c suf id :
  suffixed_guard p svc prod (c :: suf) id =
  str_eqb id (ik_id_suffixed p svc prod (c :: suf)) || prefixb (ik_id_default p svc prod) id.
Proof. reflexivity. Qed.

(* exact characterisation: accepted iff the id extends the session's unsuffixed IK id *)
Lemma suffixed_guard_iff p svc prod c suf id :
  suffixed_guard p svc prod (c :: suf) id = true <-> exists t, id = ik_id_default p svc prod ++ t.
Proof.
  rewrite suffixed_guard_unfold, orb_true_iff, str_eqb_eq, prefixb_spec. split.
  - intros [-> | H]; [|exact H]. exists (us ++ c :: suf).
    unfold ik_id_suffixed, ik_id_default. rewrite <- !app_assoc. reflexivity.
  - intro H. right. exact H.
Qed.

(* The isolation that does hold for suffixed sessions: a foreign id is rejected unless it
   extends the session's unsuffixed id. *)
Lemma suffixed_isolation_partial p svc prod c suf id :
  prefixb (ik_id_default p svc prod) id = false ->
  suffixed_guard p svc prod (c :: suf) id = false.
Proof.
  intro H. destruct (suffixed_guard _ _ _ _ _) eqn:E; [|reflexivity].
  apply suffixed_guard_iff in E. apply prefixb_spec in E. congruence.
Qed.

(* and the collision: partition "a" accepts the key id of partition "a_svc_prod_x" *)
Lemma suffixed_collision :
  let svc := s "svc" in let prod := s "prod" in let suf := s "us-west-2" in
  let p := s "a" in let q := s "a_svc_prod_x" in
  p <> q /\ suffixed_guard p svc prod suf (ik_id_suffixed q svc prod suf) = true.
Proof. split; [discriminate | vm_compute; reflexivity]. Qed.

(* general form of the collision: every partition id q = p ++ "_" ++ svc ++ "_" ++ prod ++ t collides *)
Lemma suffixed_collision_general p svc prod c suf t :
  suffixed_guard p svc prod (c :: suf)
    (ik_id_suffixed (p ++ us ++ svc ++ us ++ prod ++ t) svc prod (c :: suf)) = true.
Proof.
  apply suffixed_guard_iff. unfold ik_id_suffixed, ik_id_default.
  eexists. rewrite <- !app_assoc. reflexivity.
Qed.

Lemma get_session_refuses_empty : get_session_ok [] = false.
Proof. reflexivity. Qed.

Lemma get_session_accepts_nonempty c r : get_session_ok (c :: r) = true.
Proof. reflexivity. Qed.
