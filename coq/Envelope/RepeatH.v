(* C20, "repeating a decrypt that already succeeded on a session performs no metastore and no KMS calls", as a statement about
   history steps: for EVERY history state (whatever operations, faults, clock changes, revocations led to it), if a Decrypt step of a
   genuine record succeeds on a session whose key cache is the default simple one, the same step taken again reports no metastore and
   no KMS event and leaves the key table alone. *)
From Asherah Require Import Envelope.Session Envelope.Hoare Envelope.CacheCalls Envelope.Local Envelope.Live Envelope.LiveClose Envelope.Repeat.
From Coq Require Import Lia.
Open Scope Z_scope.

Lemma session_env_at s x fa w :
  nth_error (w_sessions w) s = Some x -> nth_error (w_factories w) (ss_factory x) = Some fa ->
  session_env s w = (inr {| en_part := ss_part x; en_pol := fa_policy fa; en_sk := fa_sk fa; en_ik := ss_ik x |}, w).
Proof. intros Hs Hf. unfold session_env, bind, get_session, get_factory, gets. cbn. rewrite Hs. cbn. rewrite Hf. reflexivity. Qed.

Lemma filter_rev' {A} (f : A -> bool) l : filter f (rev l) = rev (filter f l).
Proof.
  induction l as [|a l IH]; [reflexivity|]. cbn [rev filter]. rewrite filter_app, IH. cbn [filter]. destruct (f a); [reflexivity|].
  rewrite app_nil_r. reflexivity.
Qed.

Lemma decrypt_step_eq h s rec r0 x fa :
  nth_error (h_recs h) rec = Some r0 ->
  nth_error (w_sessions (h_world h)) s = Some x -> nth_error (w_factories (h_world h)) (ss_factory x) = Some fa ->
  let e := {| en_part := ss_part x; en_pol := fa_policy fa; en_sk := fa_sk fa; en_ik := ss_ik x |} in
  let rw := decrypt_data_row_record e r0 (begin_op [] (h_world h)) in
  hstep h (HDecrypt s rec [] []) =
  (outcome (fst rw) (fun p => match p with PPayload n => ODec (Some n) | _ => ODec None end), rev (w_trace (snd rw)),
   {| h_world := snd rw; h_recs := h_recs h |}).
Proof.
  intros Hr Hs Hf. cbn zeta. unfold hstep. rewrite Hr. cbn [fold_left].
  rewrite (bind_eq _ _ _ _ _ (session_env_at s x fa (begin_op [] (h_world h)) Hs Hf)).
  destruct (decrypt_data_row_record _ r0 (begin_op [] (h_world h))) as [r w']. reflexivity.
Qed.

Theorem repeated_decrypt_step_makes_no_external_call h s rec x fa cid r0 key pm po :
  nth_error (w_sessions (h_world h)) s = Some x -> nth_error (w_factories (h_world h)) (ss_factory x) = Some fa -> ss_ik x = Some cid ->
  nth_error (h_recs h) rec = Some r0 -> d_key r0 = Some key -> e_parent key = Some pm -> km_created pm <> 0 -> 0 <= p_rci (fa_policy fa) ->
  fst (fst (hstep h (HDecrypt s rec [] []))) = ODec po ->
  let h1 := snd (hstep h (HDecrypt s rec [] [])) in
  (exists kc m, nth_error (w_caches (h_world h1)) cid = Some kc /\ kc_backing kc = BSimple m) ->
  let st := hstep h1 (HDecrypt s rec [] []) in
  filter is_ext (snd (fst st)) = [] /\ w_store (h_world (snd st)) = w_store (h_world h1).
Proof.
  intros Hs Hf Hik Hr Hk Hp Hnz Hrci Ho. cbn zeta.
  rewrite (decrypt_step_eq h s rec r0 x fa Hr Hs Hf) in *. cbn [fst snd] in *.
  set (e := {| en_part := ss_part x; en_pol := fa_policy fa; en_sk := fa_sk fa; en_ik := ss_ik x |}) in *.
  destruct (decrypt_data_row_record e r0 (begin_op [] (h_world h))) as [r w'] eqn:D. cbn [fst snd] in *.
  destruct r as [er|p]; [destruct er; discriminate Ho|]. clear Ho.
  intros [kc [m [Hkc Hb]]]. cbn [h_world] in Hkc.
  (* the first Decrypt leaves the key fresh and the session and factory tables alone *)
  destruct (decrypt_leaves_its_key_fresh e r0 key pm cid p _ _ Hik Hk Hp Hnz Hrci D) as [k F].
  pose proof (qu_at sameS _ _ _ _ (qS_decrypt_data_row_record e r0) D) as ES. unfold sameS in ES. cbn in ES.
  pose proof (qu_at sameF _ _ _ _ (qF_decrypt_data_row_record e r0) D) as [EF _]. cbn in EF.
  assert (Hs1 : nth_error (w_sessions w') s = Some x) by (rewrite ES; exact Hs).
  assert (Hf1 : nth_error (w_factories w') (ss_factory x) = Some fa) by (rewrite EF; exact Hf).
  rewrite (decrypt_step_eq {| h_world := w'; h_recs := h_recs h |} s rec r0 x fa Hr Hs1 Hf1). cbn [fst snd h_world].
  fold e.
  assert (sameK w' (begin_op [] w')) as KB by (apply qK_same; reflexivity).
  pose proof (Fr_sameK cid (p_rci (fa_policy fa)) pm k _ _ KB F) as F1.
  destruct (Fr_fresh cid (p_rci (fa_policy fa)) pm Hnz k (begin_op [] w') kc m Hkc Hb F1) as [w1 G].
  destruct (decrypt_with_fresh_key_makes_no_external_call e r0 key pm cid (begin_op [] w') k w1 Hik Hk Hp G) as [S T].
  split; [|exact S]. rewrite filter_rev'. change (filter is_ext) with ext. rewrite T. reflexivity.
Qed.

(* in a reachable history: the cold second factory's first Decrypt step reports metastore and KMS events, the repeated step none,
   and both return the payload *)
Definition rep_check_h : bool :=
  let h := snd (hrun (hinit Rotation.t0) rep_ops) in
  let st1 := hstep h (HDecrypt 1 0 [] []) in
  let st2 := hstep (snd st1) (HDecrypt 1 0 [] []) in
  match fst (fst st1), fst (fst st2) with
  | ODec (Some 5%nat), ODec (Some 5%nat) =>
      negb (Nat.eqb (length (filter is_ext (snd (fst st1)))) 0) && Nat.eqb (length (filter is_ext (snd (fst st2)))) 0
  | _, _ => false
  end.
Example repeated_decrypt_step_met : rep_check_h = true.
Proof. vm_compute. reflexivity. Qed.

(* ---- "... until the revoke-check interval has elapsed" ---------------------------------------------------------------------------- *)

(* any history state whose session key cache (simple) holds the record's key fresh: the Decrypt step is quiet *)
Lemma decrypt_step_quiet_from_Fr h s rec x fa cid r0 key pm k kc m :
  nth_error (w_sessions (h_world h)) s = Some x -> nth_error (w_factories (h_world h)) (ss_factory x) = Some fa -> ss_ik x = Some cid ->
  nth_error (h_recs h) rec = Some r0 -> d_key r0 = Some key -> e_parent key = Some pm -> km_created pm <> 0 ->
  nth_error (w_caches (h_world h)) cid = Some kc -> kc_backing kc = BSimple m ->
  Fr cid (p_rci (fa_policy fa)) pm k (h_world h) ->
  let st := hstep h (HDecrypt s rec [] []) in
  filter is_ext (snd (fst st)) = [] /\ w_store (h_world (snd st)) = w_store (h_world h).
Proof.
  intros Hs Hf Hik Hr Hk Hp Hnz Hkc Hb F. cbn zeta.
  rewrite (decrypt_step_eq h s rec r0 x fa Hr Hs Hf). cbn [fst snd h_world].
  set (e := {| en_part := ss_part x; en_pol := fa_policy fa; en_sk := fa_sk fa; en_ik := ss_ik x |}).
  assert (sameK (h_world h) (begin_op [] (h_world h))) as KB by (apply qK_same; reflexivity).
  pose proof (Fr_sameK cid (p_rci (fa_policy fa)) pm k _ _ KB F) as F1.
  destruct (Fr_fresh cid (p_rci (fa_policy fa)) pm Hnz k (begin_op [] (h_world h)) kc m Hkc Hb F1) as [w1 G].
  destruct (decrypt_with_fresh_key_makes_no_external_call e r0 key pm cid (begin_op [] (h_world h)) k w1 Hik Hk Hp G) as [S T].
  split; [|exact S]. rewrite filter_rev'. change (filter is_ext) with ext. rewrite T. reflexivity.
Qed.

(* the clock may move on as long as the entry's interval has not elapsed *)
Lemma Fr_advance cid rci pm k w d kc m e :
  nth_error (w_caches w) cid = Some kc -> kc_backing kc = BSimple m ->
  assoc_get (cache_key (km_id pm) (km_created pm)) m = Some e ->
  w_now w + d <= ce_loaded e + rci ->
  Fr cid rci pm k w -> Fr cid rci pm k (with_now (w_now w + d) w).
Proof.
  intros Hc Hb He Hd F kc2 m2 Hc2 Hb2. cbn [w_caches with_now] in Hc2. rewrite Hc in Hc2. injection Hc2 as <-. rewrite Hb in Hb2. injection Hb2 as <-.
  destruct (F kc m Hc Hb) as [e' [o [A [B [C D]]]]]. rewrite He in A. injection A as <-.
  exists e, o. split; [exact He|]. split; [exact B|]. split; [exact C|]. right. exact Hd.
Qed.

(* From EVERY history state: a Decrypt step of a genuine record succeeds on a session with the simple key cache; the clock then moves on
   by any d that keeps the cached entry within one interval of its load; the same Decrypt step reports no metastore and no KMS event.
   (Past the interval a key not flagged revoked is re-read: C20_stale_loads / C20_fresh_means.) *)
Theorem repeated_decrypt_step_within_the_interval h s rec x fa cid r0 key pm po d kc m e :
  nth_error (w_sessions (h_world h)) s = Some x -> nth_error (w_factories (h_world h)) (ss_factory x) = Some fa -> ss_ik x = Some cid ->
  nth_error (h_recs h) rec = Some r0 -> d_key r0 = Some key -> e_parent key = Some pm -> km_created pm <> 0 -> 0 <= p_rci (fa_policy fa) ->
  fst (fst (hstep h (HDecrypt s rec [] []))) = ODec po ->
  let h1 := snd (hstep h (HDecrypt s rec [] [])) in
  nth_error (w_caches (h_world h1)) cid = Some kc -> kc_backing kc = BSimple m ->
  assoc_get (cache_key (km_id pm) (km_created pm)) m = Some e ->
  w_now (h_world h1) + d <= ce_loaded e + p_rci (fa_policy fa) ->
  let h2 := snd (hstep h1 (HAdvance d)) in
  let st := hstep h2 (HDecrypt s rec [] []) in
  filter is_ext (snd (fst st)) = [] /\ w_store (h_world (snd st)) = w_store (h_world h1).
Proof.
  intros Hs Hf Hik Hr Hk Hp Hnz Hrci Ho. cbn zeta.
  rewrite (decrypt_step_eq h s rec r0 x fa Hr Hs Hf) in *. cbn [fst snd] in *.
  set (e0 := {| en_part := ss_part x; en_pol := fa_policy fa; en_sk := fa_sk fa; en_ik := ss_ik x |}) in *.
  destruct (decrypt_data_row_record e0 r0 (begin_op [] (h_world h))) as [r w'] eqn:D. cbn [fst snd] in *.
  destruct r as [er|p]; [destruct er; discriminate Ho|]. clear Ho.
  cbn [h_world]. intros Hkc Hb He Hd.
  destruct (decrypt_leaves_its_key_fresh e0 r0 key pm cid p _ _ Hik Hk Hp Hnz Hrci D) as [k F].
  pose proof (qu_at sameS _ _ _ _ (qS_decrypt_data_row_record e0 r0) D) as ES. unfold sameS in ES. cbn in ES.
  pose proof (qu_at sameF _ _ _ _ (qF_decrypt_data_row_record e0 r0) D) as [EF _]. cbn in EF.
  pose proof (Fr_advance cid _ pm k w' d kc m e Hkc Hb He Hd F) as F2.
  cbn [hstep snd h_world h_recs].
  apply (decrypt_step_quiet_from_Fr {| h_world := with_now (w_now w' + d) w'; h_recs := h_recs h |} s rec x fa cid r0 key pm k kc m);
    cbn [h_world h_recs w_sessions w_factories w_caches with_now]; try assumption.
  - rewrite ES. exact Hs.
  - rewrite EF. exact Hf.
Qed.

(* the boundary, computed: the cold factory's Decrypt loads the key; exactly one interval later the step is still quiet, one nanosecond
   after that it re-reads the key's record *)
Definition rep_check_interval : bool :=
  let h := snd (hrun (hinit Rotation.t0) rep_ops) in
  let h1 := snd (hstep h (HDecrypt 1 0 [] [])) in
  let rci := p_rci Rotation.pol100 in
  let quiet_after d := Nat.eqb (length (filter is_ext (snd (fst (hstep (snd (hstep h1 (HAdvance d))) (HDecrypt 1 0 [] [])))))) 0 in
  (0 <? rci) && quiet_after rci && negb (quiet_after (rci + 1)).
Example repeated_decrypt_interval_boundary : rep_check_interval = true.
Proof. vm_compute. reflexivity. Qed.
