(* Model of go/appencryption/key_cache.go: keyCache (with the `latest` alias map) over simpleCache or
   the generic cache, and neverCache.  Sequential semantics; the locking discipline is C08's subject. *)
From Asherah Require Export Envelope.World.

Definition cache_key (id : str) (created : Z) : str := id ++ itoa created.

Definition get_cache (cid : nat) : M keycache :=
  cs <- gets w_caches ;;
  match nth_error cs cid with Some c => ret c | None => fail ErrPanic end.

Definition put_cache (cid : nat) (c : keycache) : M unit :=
  upd (fun w => with_caches (set_nth cid c (w_caches w)) w).

Fixpoint assoc_get {A} (k : str) (l : list (str * A)) : option A :=
  match l with
  | [] => None
  | (k', x) :: r => if str_eqb k k' then Some x else assoc_get k r
  end.

Fixpoint assoc_set {A} (k : str) (x : A) (l : list (str * A)) : list (str * A) :=
  match l with
  | [] => [(k, x)]
  | (k', y) :: r => if str_eqb k k' then (k', x) :: r else (k', y) :: assoc_set k x r
  end.

(* cache.Interface.Get on the backing cache (the generic cache reorders on access) *)
Definition backing_get (b : backing) (now : Z) (k : str) : backing * option centry :=
  match b with
  | BSimple m => (b, assoc_get k m)
  | BCache c =>
      match Generic.step str_eqb c now [] (OGet k) with
      | (c', RGet r, _) => (BCache c', r)
      | (c', _, _) => (BCache c', None)
      end
  end.

(* cache.Interface.Set: returns the evicted entries (delivered to onEvict) *)
Definition backing_set (b : backing) (now : Z) (k : str) (e : centry) : backing * list (str * centry) :=
  match b with
  | BSimple m => (BSimple (assoc_set k e m), [])
  | BCache c =>
      match Generic.step str_eqb c now [] (OSet k e) with
      | (c', _, ev) => (BCache c', ev)
      end
  end.

(* Close: simpleCache closes every entry (and keeps its map); the generic cache evicts everything *)
Definition backing_close (b : backing) (now : Z) : backing * list (str * centry) :=
  match b with
  | BSimple m => (b, m)
  | BCache c =>
      match Generic.step str_eqb c now [] OClose with
      | (c', _, ev) => (BCache c', ev)
      end
  end.

Definition new_backing (p : cachepol) : backing :=
  match cp_kind p with
  | None => BSimple []
  | Some k => BCache (new_cache {| c_kind := k; c_cap := cp_cap p; c_expiry := 0 |})
  end.

Definition new_keycache (p : cachepol) : M nat :=
  cs <- gets w_caches ;;
  upd (fun w => with_caches (w_caches w ++ [{| kc_backing := new_backing p; kc_latest := [] |}]) w) ;;;
  ret (length cs).

(* ---- keyCache ------------------------------------------------------------------------------------ *)

Definition is_latest (m : keymeta) : bool := km_created m =? 0.

(* read: resolve the latest alias, then keys.Get *)
Definition kc_read (cid : nat) (meta : keymeta) : M (option centry) :=
  kc <- get_cache cid ;;
  let id := if is_latest meta
            then match assoc_get (cache_key (km_id meta) 0) (kc_latest kc) with
                 | Some l => cache_key (km_id l) (km_created l)
                 | None => cache_key (km_id meta) (km_created meta)
                 end
            else cache_key (km_id meta) (km_created meta) in
  now <- get_now ;;
  let '(b', r) := backing_get (kc_backing kc) now id in
  put_cache cid {| kc_backing := b'; kc_latest := kc_latest kc |} ;;; ret r.

(* isReloadRequired *)
Definition reload_required (e : centry) (rci : Z) : M bool :=
  o <- kobj_get (ce_key e) ;;
  now <- get_now ;;
  ret (if ko_revoked o then false else ce_loaded e + rci <? now).

(* getFresh: (key, fresh?) *)
Definition kc_get_fresh (cid : nat) (rci : Z) (meta : keymeta) : M (option (nat * bool)) :=
  r <- kc_read cid meta ;;
  match r with
  | None => ret None
  | Some e => stale <- reload_required e rci ;; ret (Some (ce_key e, negb stale))
  end.

Definition closes (l : list (str * centry)) : M unit :=
  fold_right (fun kv acc => cck_close (ce_key (snd kv)) ;;; acc) (ret tt) l.

(* write *)
Definition kc_write (cid : nat) (meta : keymeta) (e : centry) : M unit :=
  o <- kobj_get (ce_key e) ;;
  kc <- get_cache cid ;;
  let akey := cache_key (km_id meta) 0 in
  let '(meta', latest') :=
    if is_latest meta then
      let m := {| km_id := km_id meta; km_created := ko_created o |} in (m, assoc_set akey m (kc_latest kc))
    else match assoc_get akey (kc_latest kc) with
         | Some l => if km_created l <? ko_created o then (meta, assoc_set akey meta (kc_latest kc)) else (meta, kc_latest kc)
         | None => (meta, assoc_set akey meta (kc_latest kc))
         end in
  let id := cache_key (km_id meta') (km_created meta') in
  now <- get_now ;;
  let '(b1, existing) := backing_get (kc_backing kc) now id in
  (match existing with
   | Some ex => if Nat.eqb (ce_key ex) (ce_key e) then ret tt else cck_close (ce_key ex)
   | None => ret tt
   end) ;;;
  let '(b2, evicted) := backing_set b1 now id e in
  put_cache cid {| kc_backing := b2; kc_latest := latest' |} ;;;
  closes evicted.

(* load *)
Definition kc_load (cid : nat) (meta : keymeta) (loader : keymeta -> M nat) : M nat :=
  k <- loader meta ;;
  ko <- kobj_get k ;;
  r <- kc_read cid meta ;;
  now <- get_now ;;
  same <- (match r with
           | Some e => eo <- kobj_get (ce_key e) ;; ret (ko_created eo =? ko_created ko)
           | None => ret false
           end) ;;
  match r, same with
  | Some e, true =>
      ck_set_revoked (ce_key e) (ko_revoked ko) ;;;
      ck_close k ;;;
      kc_write cid meta {| ce_loaded := now; ce_key := ce_key e |} ;;;
      ret (ce_key e)
  | _, _ =>
      cck_wrap k ;;;
      kc_write cid meta {| ce_loaded := now; ce_key := k |} ;;;
      ret k
  end.

Definition is_key_invalid (k : nat) (expire : Z) : M bool :=
  o <- kobj_get k ;; now <- get_now ;; ret (ko_revoked o || is_key_expired now (ko_created o) expire).

(* a key cache handle: None = neverCache *)
Definition get_or_load (c : option nat) (rci : Z) (meta : keymeta) (loader : keymeta -> M nat) : M nat :=
  match c with
  | None => k <- loader meta ;; cck_wrap k ;;; ret k
  | Some cid =>
      f1 <- kc_get_fresh cid rci meta ;;
      match f1 with
      | Some (k, true) => cck_increment k ;;; ret k
      | _ =>
          f2 <- kc_get_fresh cid rci meta ;;
          match f2 with
          | Some (k, true) => cck_increment k ;;; ret k
          | _ => k <- kc_load cid meta loader ;; cck_increment k ;;; ret k
          end
      end
  end.

Definition get_or_load_latest (c : option nat) (rci expire : Z) (id : str) (loader : keymeta -> M nat) : M nat :=
  let meta := {| km_id := id; km_created := 0 |} in
  match c with
  | None => k <- loader meta ;; cck_wrap k ;;; ret k
  | Some cid =>
      f <- kc_get_fresh cid rci meta ;;
      key <- (match f with
              | Some (k, true) => ret k
              | _ => kc_load cid meta loader
              end) ;;
      inv <- is_key_invalid key expire ;;
      if inv then
        reloaded <- loader meta ;;
        ro <- kobj_get reloaded ;;
        now <- get_now ;;
        cck_wrap reloaded ;;;
        kc_write cid {| km_id := id; km_created := ko_created ro |} {| ce_loaded := now; ce_key := reloaded |} ;;;
        cck_increment reloaded ;;; ret reloaded
      else cck_increment key ;;; ret key
  end.

Definition kc_close (c : option nat) : M unit :=
  match c with
  | None => ret tt
  | Some cid =>
      kc <- get_cache cid ;;
      now <- get_now ;;
      let '(b', ev) := backing_close (kc_backing kc) now in
      put_cache cid {| kc_backing := b'; kc_latest := kc_latest kc |} ;;;
      closes ev
  end.
