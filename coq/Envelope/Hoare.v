(* A small Hoare logic for the envelope model's state-and-error monad, and specifications of the
   primitive world operations.  A triple has a normal postcondition (on the result and the final world)
   and an exceptional one (on the world an error leaves behind): operations that fail half-way still
   have to leave the process-wide invariants intact, because the history goes on after them. *)
From Asherah Require Import Envelope.Session Envelope.FrameInst.
From Coq Require Import Lia.

Definition hoare {A} (P : world -> Prop) (m : M A) (Q : A -> world -> Prop) (E : world -> Prop) : Prop :=
  forall w, P w -> match m w with (inr a, w') => Q a w' | (inl _, w') => E w' end.

Lemma hoare_ret {A} (P : world -> Prop) (a : A) (Q : A -> world -> Prop) (E : world -> Prop) :
  (forall w, P w -> Q a w) -> hoare P (ret a) Q E.
Proof. intros H w Hw. cbn. auto. Qed.

Lemma hoare_fail {A} (P : world -> Prop) e (Q : A -> world -> Prop) (E : world -> Prop) :
  (forall w, P w -> E w) -> hoare P (@fail A e) Q E.
Proof. intros H w Hw. cbn. auto. Qed.

Lemma hoare_bind {A B} (P : world -> Prop) (m : M A) (Q1 : A -> world -> Prop) (f : A -> M B) (Q : B -> world -> Prop) (E : world -> Prop) :
  hoare P m Q1 E -> (forall a, hoare (Q1 a) (f a) Q E) -> hoare P (bind m f) Q E.
Proof.
  intros Hm Hf w Hw. unfold bind. specialize (Hm w Hw). destruct (m w) as [[e|a] w1]; [exact Hm|].
  apply Hf. exact Hm.
Qed.

Lemma hoare_weaken {A} (P P' : world -> Prop) (m : M A) (Q Q' : A -> world -> Prop) (E E' : world -> Prop) :
  hoare P' m Q' E' -> (forall w, P w -> P' w) -> (forall a w, Q' a w -> Q a w) -> (forall w, E' w -> E w) -> hoare P m Q E.
Proof.
  intros H HP HQ HE w Hw. specialize (H w (HP w Hw)). destruct (m w) as [[e|a] w1]; auto.
Qed.

Lemma hoare_pre {A} (P P' : world -> Prop) (m : M A) (Q : A -> world -> Prop) (E : world -> Prop) :
  hoare P' m Q E -> (forall w, P w -> P' w) -> hoare P m Q E.
Proof. intros H HP. eapply hoare_weaken; eauto. Qed.

Lemma hoare_post {A} (P : world -> Prop) (m : M A) (Q Q' : A -> world -> Prop) (E : world -> Prop) :
  hoare P m Q' E -> (forall a w, Q' a w -> Q a w) -> hoare P m Q E.
Proof. intros H HQ. eapply hoare_weaken; eauto. Qed.

(* a pure hypothesis carried in the precondition *)
Lemma hoare_pure {A} (phi : Prop) (P : world -> Prop) (m : M A) (Q : A -> world -> Prop) (E : world -> Prop) :
  (phi -> hoare P m Q E) -> hoare (fun w => phi /\ P w) m Q E.
Proof. intros H w [Hp Hw]. apply (H Hp w Hw). Qed.

Lemma hoare_ex {A X} (P : X -> world -> Prop) (m : M A) (Q : A -> world -> Prop) (E : world -> Prop) :
  (forall x, hoare (P x) m Q E) -> hoare (fun w => exists x, P x w) m Q E.
Proof. intros H w [x Hw]. apply (H x w Hw). Qed.

Lemma hoare_false {A} (m : M A) (Q : A -> world -> Prop) (E : world -> Prop) : hoare (fun _ => False) m Q E.
Proof. intros w []. Qed.

Lemma hoare_conj {A} (P1 P2 : world -> Prop) (m : M A) (Q1 Q2 : A -> world -> Prop) (E1 E2 : world -> Prop) :
  hoare P1 m Q1 E1 -> hoare P2 m Q2 E2 ->
  hoare (fun w => P1 w /\ P2 w) m (fun a w => Q1 a w /\ Q2 a w) (fun w => E1 w /\ E2 w).
Proof.
  intros H1 H2 w [A1 A2]. specialize (H1 w A1). specialize (H2 w A2). destruct (m w) as [[e|a] w1]; split; assumption.
Qed.

(* finally m c: the cleanup runs on every outcome and its own outcome is ignored *)
Lemma hoare_finally {A} (P : world -> Prop) (m : M A) (Q1 : A -> world -> Prop) (E1 : world -> Prop) (c : M unit) (Q : A -> world -> Prop) (E : world -> Prop) :
  hoare P m Q1 E1 ->
  (forall a, hoare (Q1 a) c (fun _ => Q a) (Q a)) ->
  hoare E1 c (fun _ => E) E ->
  hoare P (finally m c) Q E.
Proof.
  intros Hm Hc He w Hw. unfold finally. specialize (Hm w Hw). destruct (m w) as [[e|a] w1].
  - specialize (He w1 Hm). destruct (c w1) as [[e'|u] w2]; cbn [snd]; exact He.
  - specialize (Hc a w1 Hm). destruct (c w1) as [[e'|u] w2]; cbn [snd]; exact Hc.
Qed.

Lemma hoare_try {A} (P : world -> Prop) (m : M A) (Q1 : A -> world -> Prop) (E1 : world -> Prop) (Q : err + A -> world -> Prop) (E : world -> Prop) :
  hoare P m Q1 E1 ->
  (forall a w, Q1 a w -> Q (inr a) w) -> (forall e w, E1 w -> Q (inl e) w) ->
  hoare P (try_ m) Q E.
Proof.
  intros Hm H1 H2 w Hw. unfold try_. specialize (Hm w Hw). destruct (m w) as [[e|a] w1]; auto.
Qed.

Lemma hoare_gets {A} (P : world -> Prop) (f : world -> A) (Q : A -> world -> Prop) (E : world -> Prop) :
  (forall w, P w -> Q (f w) w) -> hoare P (gets f) Q E.
Proof. intros H w Hw. cbn. auto. Qed.

Lemma hoare_upd (P : world -> Prop) (f : world -> world) (Q : unit -> world -> Prop) (E : world -> Prop) :
  (forall w, P w -> Q tt (f w)) -> hoare P (upd f) Q E.
Proof. intros H w Hw. cbn. auto. Qed.

Section Quiet.
Variable R : world -> world -> Prop.
Hypothesis R_refl : forall w, R w w.
Hypothesis R_trans : forall a b c, R a b -> R b c -> R a c.
Definition qu {A} (m : M A) : Prop := forall w, R w (snd (m w)).

Lemma qu_ret {A} (a : A) : qu (ret a). Proof. intro w. apply R_refl. Qed.
Lemma qu_fail {A} e : qu (@fail A e). Proof. intro w. apply R_refl. Qed.
Lemma qu_bind {A B} (m : M A) (f : A -> M B) : qu m -> (forall a, qu (f a)) -> qu (bind m f).
Proof.
  intros Hm Hf w. unfold bind. specialize (Hm w). destruct (m w) as [[e|a] w1]; cbn [snd] in *; [exact Hm|].
  eapply R_trans; [exact Hm | apply Hf].
Qed.
Lemma qu_finally {A} (m : M A) (c : M unit) : qu m -> qu c -> qu (finally m c).
Proof.
  intros Hm Hc w. unfold finally. specialize (Hm w). destruct (m w) as [r w1]; cbn [snd] in *.
  eapply R_trans; [exact Hm | apply Hc].
Qed.
Lemma qu_try {A} (m : M A) : qu m -> qu (try_ m).
Proof. intros Hm w. unfold try_. specialize (Hm w). destruct (m w) as [r w1]. exact Hm. Qed.
Lemma qu_gets {A} (f : world -> A) : qu (gets f). Proof. intro w. apply R_refl. Qed.
End Quiet.

(* ---- relations between the world before and after an operation ------------------------------------- *)

Definition keeps_rows (w w' : world) : Prop :=
  forall id c r, store_find id c (w_store w) = Some r -> store_find id c (w_store w') = Some r.

(* Rq: rows stay, secrets and key objects keep their identity, process-local tables and the clock untouched *)
Definition Rq (w w' : world) : Prop :=
  keeps_rows w w' /\ secrets_mono w w' /\ w_caches w' = w_caches w /\ w_sessions w' = w_sessions w /\
  w_factories w' = w_factories w /\ w_now w' = w_now w.

(* Rq0: additionally the metastore is untouched *)
Definition Rq0 (w w' : world) : Prop := Rq w w' /\ w_store w' = w_store w.

Lemma Rq_refl w : Rq w w.
Proof. repeat split; try reflexivity; try (intros ? ? ? H; exact H); apply secrets_mono_refl. Qed.

Lemma Rq_trans a b c : Rq a b -> Rq b c -> Rq a c.
Proof.
  intros [K1 [S1 [C1 [T1 [F1 N1]]]]] [K2 [S2 [C2 [T2 [F2 N2]]]]]. repeat split; try congruence.
  - intros id cr r H. apply K2, K1, H.
  - destruct (secrets_mono_trans _ _ _ S1 S2) as [X _]. exact X.
  - destruct (secrets_mono_trans _ _ _ S1 S2) as [_ X]. exact X.
Qed.

Lemma Rq0_refl w : Rq0 w w.
Proof. split; [apply Rq_refl | reflexivity]. Qed.

Lemma Rq0_trans a b c : Rq0 a b -> Rq0 b c -> Rq0 a c.
Proof. intros [R1 E1] [R2 E2]. split; [eapply Rq_trans; eassumption | congruence]. Qed.

Lemma Rq0_Rq a b : Rq0 a b -> Rq a b.
Proof. intros [H _]. exact H. Qed.

(* a change that touches only bookkeeping fields *)
Lemma Rq0_same w w' :
  w_store w' = w_store w -> w_secrets w' = w_secrets w -> w_kobjs w' = w_kobjs w -> w_caches w' = w_caches w ->
  w_sessions w' = w_sessions w -> w_factories w' = w_factories w -> w_now w' = w_now w -> Rq0 w w'.
Proof.
  intros E1 E2 E3 E4 E5 E6 E7. split; [|exact E1]. repeat split; try assumption.
  - intros id c r H. rewrite E1. exact H.
  - destruct (secrets_mono_same w w' E2 E3) as [X _]. exact X.
  - destruct (secrets_mono_same w w' E2 E3) as [_ X]. exact X.
Qed.

Definition quiet0 {A} (m : M A) : Prop := qu Rq0 m.
Definition quiet {A} (m : M A) : Prop := qu Rq m.

Lemma quiet0_quiet {A} (m : M A) : quiet0 m -> quiet m.
Proof. intros H w. apply Rq0_Rq, H. Qed.


Ltac q0_same := intro w; apply Rq0_same; reflexivity.

Lemma q0_emit e : quiet0 (emit e). Proof. q0_same. Qed.
Lemma q0_next_call : quiet0 next_call. Proof. q0_same. Qed.
Lemma q0_bump_nonce : quiet0 bump_nonce. Proof. q0_same. Qed.

Lemma q0_secret_alloc m : quiet0 (secret_alloc m).
Proof.
  intro w. unfold secret_alloc. cbn [snd]. split; [|reflexivity]. repeat split; try reflexivity.
  - intros id c r H. exact H.
  - intros sid sc H. exists sc. cbn [w_secrets with_secrets]. split; [apply nth_error_app_l; exact H | tauto].
  - intros k o H. exists o. tauto.
Qed.

Lemma q0_secret_mark_closed sid : quiet0 (secret_mark_closed sid).
Proof.
  intro w. unfold secret_mark_closed. destruct (nth_error (w_secrets w) sid) as [sc|] eqn:E; cbn [snd]; [|apply Rq0_refl].
  split; [|reflexivity]. repeat split; try reflexivity.
  - intros id c r H. exact H.
  - intros i x Hi. cbn [w_secrets with_secrets]. destruct (Nat.eq_dec sid i) as [->|N].
    + rewrite Hi in E. inversion E; subst. eexists. split; [eapply nth_error_set_nth_same; exact Hi|]. cbn. tauto.
    + exists x. rewrite nth_error_set_nth_other by exact N. tauto.
  - intros k o H. exists o. tauto.
Qed.

Lemma q0_kobj_alloc o : quiet0 (kobj_alloc o).
Proof.
  intro w. unfold kobj_alloc. cbn [snd]. split; [|reflexivity]. repeat split; try reflexivity.
  - intros id c r H. exact H.
  - intros i x H. exists x. tauto.
  - intros k x H. exists x. cbn [w_kobjs with_kobjs]. split; [apply nth_error_app_l; exact H | tauto].
Qed.

Lemma q0_kobj_modify k (g : kobj -> kobj) :
  (forall o, ko_created (g o) = ko_created o /\ ko_secret (g o) = ko_secret o) -> quiet0 (kobj_modify k g).
Proof.
  intros Hg w. unfold kobj_modify. destruct (nth_error (w_kobjs w) k) as [o|] eqn:E; cbn [snd]; [|apply Rq0_refl].
  split; [|reflexivity]. repeat split; try reflexivity.
  - intros id c r H. exact H.
  - intros i x H. exists x. tauto.
  - intros i x Hi. cbn [w_kobjs with_kobjs]. destruct (Nat.eq_dec k i) as [->|N].
    + rewrite Hi in E. inversion E; subst. exists (g o). split; [eapply nth_error_set_nth_same; exact Hi | apply Hg].
    + exists x. rewrite nth_error_set_nth_other by exact N. tauto.
Qed.

Global Hint Resolve q0_emit q0_next_call q0_bump_nonce q0_secret_alloc q0_secret_mark_closed q0_kobj_alloc : q0.

Lemma q0_ret {A} (a : A) : quiet0 (ret a). Proof. apply (qu_ret Rq0 Rq0_refl). Qed.
Lemma q0_fail {A} e : quiet0 (@fail A e). Proof. apply (qu_fail Rq0 Rq0_refl). Qed.
Lemma q0_gets {A} (f : world -> A) : quiet0 (gets f). Proof. apply (qu_gets Rq0 Rq0_refl). Qed.
Lemma q0_bind {A B} (m : M A) (f : A -> M B) : quiet0 m -> (forall a, quiet0 (f a)) -> quiet0 (bind m f).
Proof. apply (qu_bind Rq0 Rq0_trans). Qed.
Lemma q0_finally {A} (m : M A) (c : M unit) : quiet0 m -> quiet0 c -> quiet0 (finally m c).
Proof. apply (qu_finally Rq0 Rq0_trans). Qed.
Lemma q0_try {A} (m : M A) : quiet0 m -> quiet0 (try_ m).
Proof. apply (qu_try Rq0). Qed.

Ltac q0_step :=
  first
    [ solve [auto with q0]
    | apply q0_ret | apply q0_fail | apply q0_gets
    | apply q0_bind; [|intro]
    | apply q0_finally
    | apply q0_try
    | match goal with
      | |- quiet0 (match ?x with _ => _ end) => destruct x
      | |- quiet0 (let '(_, _) := ?x in _) => destruct x
      | |- quiet0 (if ?x then _ else _) => destruct x
      end ].
Ltac q0_go := repeat q0_step.

(* ---- every primitive that does not write the metastore or the process tables is quiet0 ------------------ *)

Lemma q0_get_now : quiet0 get_now. Proof. apply q0_gets. Qed.
Lemma q0_get_store : quiet0 get_store. Proof. apply q0_gets. Qed.
Lemma q0_get_secrets : quiet0 get_secrets. Proof. apply q0_gets. Qed.
Lemma q0_get_kobjs : quiet0 get_kobjs. Proof. apply q0_gets. Qed.
Lemma q0_secret_count : quiet0 secret_count. Proof. apply q0_gets. Qed.
Global Hint Resolve q0_get_now q0_get_store q0_get_secrets q0_get_kobjs q0_secret_count : q0.

Lemma q0_m_load id c : quiet0 (m_load id c). Proof. unfold m_load. q0_go. Qed.
Lemma q0_m_load_latest id : quiet0 (m_load_latest id). Proof. unfold m_load_latest. q0_go. Qed.
Lemma q0_kms_encrypt p : quiet0 (kms_encrypt p). Proof. unfold kms_encrypt. q0_go. Qed.
Lemma q0_kms_decrypt c : quiet0 (kms_decrypt c). Proof. unfold kms_decrypt. q0_go. Qed.
Lemma q0_aead_encrypt p k : quiet0 (aead_encrypt p k). Proof. unfold aead_encrypt. q0_go. Qed.
Lemma q0_aead_decrypt c k : quiet0 (aead_decrypt c k). Proof. unfold aead_decrypt. q0_go. Qed.
Lemma q0_secret_new m : quiet0 (secret_new m). Proof. unfold secret_new. q0_go. Qed.
Lemma q0_secret_random : quiet0 secret_random. Proof. unfold secret_random. q0_go. Qed.
Lemma q0_secret_close sid : quiet0 (secret_close sid). Proof. unfold secret_close. q0_go. Qed.
Lemma q0_secret_bytes sid : quiet0 (secret_bytes sid). Proof. unfold secret_bytes. q0_go. Qed.
Lemma q0_kobj_get k : quiet0 (kobj_get k). Proof. unfold kobj_get. q0_go. Qed.
Global Hint Resolve q0_m_load q0_m_load_latest q0_kms_encrypt q0_kms_decrypt q0_aead_encrypt q0_aead_decrypt q0_secret_new
  q0_secret_random q0_secret_close q0_secret_bytes q0_kobj_get : q0.

Lemma q0_ck_close k : quiet0 (ck_close k).
Proof. unfold ck_close. q0_go. apply q0_kobj_modify. intro o. split; reflexivity. Qed.
Global Hint Resolve q0_ck_close : q0.
Lemma q0_cck_close k : quiet0 (cck_close k).
Proof. unfold cck_close. q0_go. apply q0_kobj_modify. intro o. split; reflexivity. Qed.
Lemma q0_cck_increment k : quiet0 (cck_increment k).
Proof. unfold cck_increment. q0_go. apply q0_kobj_modify. intro o. split; reflexivity. Qed.
Lemma q0_ck_set_revoked k b : quiet0 (ck_set_revoked k b).
Proof. unfold ck_set_revoked. q0_go. apply q0_kobj_modify. intro o. split; reflexivity. Qed.
Lemma q0_cck_wrap k : quiet0 (cck_wrap k).
Proof. unfold cck_wrap. q0_go. apply q0_kobj_modify. intro o. split; reflexivity. Qed.
Global Hint Resolve q0_cck_close q0_cck_increment q0_ck_set_revoked q0_cck_wrap : q0.

Lemma q0_key_bytes k : quiet0 (key_bytes k). Proof. unfold key_bytes. q0_go. Qed.
Lemma q0_new_crypto_key c r m : quiet0 (new_crypto_key c r m). Proof. unfold new_crypto_key. q0_go. Qed.
Lemma q0_generate_key c : quiet0 (generate_key c). Proof. unfold generate_key. q0_go. Qed.
Lemma q0_get_cache cid : quiet0 (get_cache cid). Proof. unfold get_cache. q0_go. Qed.
Global Hint Resolve q0_key_bytes q0_new_crypto_key q0_generate_key q0_get_cache : q0.
Lemma q0_reload_required e rci : quiet0 (reload_required e rci). Proof. unfold reload_required. q0_go. Qed.
Lemma q0_is_key_invalid k e : quiet0 (is_key_invalid k e). Proof. unfold is_key_invalid. q0_go. Qed.
Lemma q0_closes l : quiet0 (closes l).
Proof. unfold closes. induction l as [|x l IH]; cbn [fold_right]; q0_go. Qed.
Global Hint Resolve q0_reload_required q0_is_key_invalid q0_closes : q0.
Lemma q0_is_envelope_invalid e r : quiet0 (is_envelope_invalid e r). Proof. unfold is_envelope_invalid. q0_go. Qed.
Lemma q0_generate_key_now e : quiet0 (generate_key_now e). Proof. unfold generate_key_now. q0_go. Qed.
Lemma q0_system_key_from_ekr r : quiet0 (system_key_from_ekr r). Proof. unfold system_key_from_ekr. q0_go. Qed.
Global Hint Resolve q0_is_envelope_invalid q0_generate_key_now q0_system_key_from_ekr : q0.
Lemma q0_load_system_key m : quiet0 (load_system_key m). Proof. unfold load_system_key. q0_go. Qed.
Lemma q0_must_load_latest id : quiet0 (must_load_latest id). Proof. unfold must_load_latest. q0_go. Qed.
Lemma q0_get_factory f : quiet0 (get_factory f). Proof. unfold get_factory. q0_go. Qed.
Lemma q0_get_session s : quiet0 (get_session s). Proof. unfold get_session. q0_go. Qed.
Global Hint Resolve q0_load_system_key q0_must_load_latest q0_get_factory q0_get_session : q0.
Lemma q0_session_env s : quiet0 (session_env s). Proof. unfold session_env. q0_go. Qed.
Lemma q0_decrypt_row ik k d : quiet0 (decrypt_row ik k d). Proof. unfold decrypt_row. q0_go. Qed.
Lemma q0_encrypt_with_ik e ik p : quiet0 (encrypt_with_ik e ik p). Proof. unfold encrypt_with_ik. q0_go. Qed.
Global Hint Resolve q0_session_env q0_decrypt_row q0_encrypt_with_ik : q0.

(* a fact that survives every quiet0 step *)
Definition stable0 (F : world -> Prop) : Prop := forall w w', Rq0 w w' -> F w -> F w'.
Definition stable (F : world -> Prop) : Prop := forall w w', Rq w w' -> F w -> F w'.

Lemma stable_stable0 F : stable F -> stable0 F.
Proof. intros H w w' R. apply H, Rq0_Rq, R. Qed.

Lemma stable0_and F G : stable0 F -> stable0 G -> stable0 (fun w => F w /\ G w).
Proof. intros HF HG w w' R [A B]. split; [eapply HF | eapply HG]; eassumption. Qed.
Lemma stable0_pure (phi : Prop) : stable0 (fun _ => phi).
Proof. intros w w' _ H. exact H. Qed.
Lemma stable_and F G : stable F -> stable G -> stable (fun w => F w /\ G w).
Proof. intros HF HG w w' R [A B]. split; [eapply HF | eapply HG]; eassumption. Qed.
Lemma stable_pure (phi : Prop) : stable (fun _ => phi).
Proof. intros w w' _ H. exact H. Qed.
Lemma stable0_ex {X} (F : X -> world -> Prop) : (forall x, stable0 (F x)) -> stable0 (fun w => exists x, F x w).
Proof. intros H w w' R [x Hx]. exists x. eapply H; eassumption. Qed.

(* running a quiet0 program keeps any stable0 fact, on every outcome *)
Lemma hoare_quiet0 {A} (m : M A) (F : world -> Prop) : quiet0 m -> stable0 F -> hoare F m (fun _ => F) F.
Proof.
  intros Q S w Hw. specialize (Q w). destruct (m w) as [[e|a] w1]; cbn [snd] in Q; eapply S; eassumption.
Qed.

Lemma hoare_quiet {A} (m : M A) (F : world -> Prop) : quiet m -> stable F -> hoare F m (fun _ => F) F.
Proof.
  intros Q S w Hw. specialize (Q w). destruct (m w) as [[e|a] w1]; cbn [snd] in Q; eapply S; eassumption.
Qed.

(* ---- what the primitives return ----------------------------------------------------------------------- *)

Definition mat_of (w : world) (k : nat) (p : ptxt) : Prop :=
  exists o sc, nth_error (w_kobjs w) k = Some o /\ nth_error (w_secrets w) (ko_secret o) = Some sc /\ s_mat sc = p.
Definition created_of (w : world) (k : nat) (c : Z) : Prop :=
  exists o, nth_error (w_kobjs w) k = Some o /\ ko_created o = c.

Lemma stable_mat_of k p : stable (fun w => mat_of w k p).
Proof.
  intros w w' [_ [[S K] _]] [o [sc [H1 [H2 H3]]]].
  destruct (K _ _ H1) as [o' [A [B C]]]. destruct (S _ _ H2) as [sc' [D [E _]]].
  exists o', sc'. rewrite C. repeat split; congruence.
Qed.
Lemma stable_created_of k c : stable (fun w => created_of w k c).
Proof.
  intros w w' [_ [[S K] _]] [o [H1 H2]]. destruct (K _ _ H1) as [o' [A [B C]]]. exists o'. split; congruence.
Qed.

Ltac prim_unfold :=
  unfold hoare, m_load, m_load_latest, kms_decrypt, kms_encrypt, aead_encrypt, aead_decrypt, kobj_get, get_kobjs, get_store, get_now,
    get_cache, get_factory, get_session, secret_new, secret_random, secret_count, secret_alloc, kobj_alloc, bump_nonce,
    bind, next_call, gets, emit, upd, ret, fail.

Lemma m_load_res id c st :
  hoare (fun w => w_store w = st) (m_load id c) (fun r _ => r = store_find id c st) (fun _ => True).
Proof. prim_unfold. intros w Hw. cbn. destruct (fault_at _ _); cbn; [exact I | subst; reflexivity]. Qed.

Lemma m_load_latest_res id st :
  hoare (fun w => w_store w = st) (m_load_latest id) (fun r _ => r = option_map snd (store_latest id st None)) (fun _ => True).
Proof. prim_unfold. intros w Hw. cbn. destruct (fault_at _ _); cbn; [exact I | subst; reflexivity]. Qed.

Lemma kms_decrypt_res c : hoare (fun _ => True) (kms_decrypt c) (fun p _ => kms_open c = Some p) (fun _ => True).
Proof. prim_unfold. intros w _. cbn. destruct (fault_at _ _); cbn; [exact I|]. destruct (kms_open c) eqn:O; cbn; [reflexivity | exact I]. Qed.

Lemma kms_encrypt_res p : hoare (fun _ => True) (kms_encrypt p) (fun c _ => c = CKms p) (fun _ => True).
Proof. prim_unfold. intros w _. cbn. destruct (fault_at _ _); cbn; [exact I | reflexivity]. Qed.

Lemma aead_encrypt_res p key :
  hoare (fun _ => True) (aead_encrypt p key) (fun c _ => exists k n, key = PKey k /\ c = CAead k n p) (fun _ => True).
Proof.
  prim_unfold. intros w _. cbn. destruct (fault_at _ _); cbn; [exact I|]. destruct key as [k| |]; cbn; try exact I.
  exists k, (w_nonce w). split; reflexivity.
Qed.

Lemma aead_decrypt_res c key : hoare (fun _ => True) (aead_decrypt c key) (fun p _ => aead_open key c = Some p) (fun _ => True).
Proof. prim_unfold. intros w _. cbn. destruct (fault_at _ _); cbn; [exact I|]. destruct (aead_open key c) eqn:O; cbn; [reflexivity | exact I]. Qed.

Lemma kobj_get_res k : hoare (fun _ => True) (kobj_get k) (fun o w' => nth_error (w_kobjs w') k = Some o) (fun _ => True).
Proof. prim_unfold. intros w _. cbn. destruct (nth_error (w_kobjs w) k) eqn:E; cbn; [exact E | exact I]. Qed.

Lemma get_now_res : hoare (fun _ => True) get_now (fun t w' => t = w_now w') (fun _ => True).
Proof. prim_unfold. intros w _. reflexivity. Qed.

Lemma get_cache_res cid : hoare (fun _ => True) (get_cache cid) (fun kc w' => nth_error (w_caches w') cid = Some kc) (fun _ => True).
Proof. prim_unfold. intros w _. cbn. destruct (nth_error (w_caches w) cid) eqn:E; cbn; [exact E | exact I]. Qed.

Lemma get_factory_res f : hoare (fun _ => True) (get_factory f) (fun x w' => nth_error (w_factories w') f = Some x) (fun _ => True).
Proof. prim_unfold. intros w _. cbn. destruct (nth_error (w_factories w) f) eqn:E; cbn; [exact E | exact I]. Qed.

Lemma get_session_res s : hoare (fun _ => True) (get_session s) (fun x w' => nth_error (w_sessions w') s = Some x) (fun _ => True).
Proof. prim_unfold. intros w _. cbn. destruct (nth_error (w_sessions w) s) eqn:E; cbn; [exact E | exact I]. Qed.

Lemma key_bytes_res k : hoare (fun _ => True) (key_bytes k) (fun p w' => mat_of w' k p) (fun _ => True).
Proof.
  unfold key_bytes, secret_bytes. prim_unfold. unfold get_secrets, gets. intros w _. cbn.
  destruct (nth_error (w_kobjs w) k) as [o|] eqn:E; cbn; [|exact I].
  destruct (nth_error (w_secrets w) (ko_secret o)) as [sc|] eqn:S; cbn; [|exact I].
  destruct (s_closed sc); cbn; [exact I|]. exists o, sc. repeat split; assumption.
Qed.

Ltac wsimpl :=
  cbn [w_now w_store w_secrets w_kobjs w_nonce w_calls w_faults w_trace w_caches w_sessions w_factories
       with_now with_store with_secrets with_kobjs with_nonce with_calls with_faults with_trace with_caches with_sessions with_factories] in *.

Lemma new_crypto_key_res created revoked mat :
  hoare (fun _ => True) (new_crypto_key created revoked mat)
        (fun k w' => created_of w' k created /\ mat_of w' k mat /\
                     exists o, nth_error (w_kobjs w') k = Some o /\ ko_revoked o = revoked /\ ko_once o = false)
        (fun _ => True).
Proof.
  unfold new_crypto_key. prim_unfold. intros w _. cbn. destruct (fault_at _ _); cbn; [exact I|]. unfold mat_of, created_of. wsimpl.
  assert (N : nth_error (w_kobjs w ++ [{| ko_created := created; ko_secret := length (w_secrets w); ko_revoked := revoked; ko_once := false; ko_refs := 0 |}]) (length (w_kobjs w)) =
              Some {| ko_created := created; ko_secret := length (w_secrets w); ko_revoked := revoked; ko_once := false; ko_refs := 0 |}).
  { rewrite nth_error_app2 by lia. rewrite Nat.sub_diag. reflexivity. }
  split; [|split].
  - eexists. split; [exact N | reflexivity].
  - eexists. eexists. split; [exact N|]. cbn [ko_secret]. split; [rewrite nth_error_app2 by lia; rewrite Nat.sub_diag; reflexivity | reflexivity].
  - eexists. split; [exact N|]. split; reflexivity.
Qed.

Lemma generate_key_res created :
  hoare (fun _ => True) (generate_key created)
        (fun k w' => created_of w' k created /\ exists m, mat_of w' k (PKey m))
        (fun _ => True).
Proof.
  unfold generate_key. prim_unfold. intros w _. cbn. destruct (fault_at _ _); cbn; [exact I|]. unfold mat_of, created_of. wsimpl.
  assert (N : nth_error (w_kobjs w ++ [{| ko_created := created; ko_secret := length (w_secrets w); ko_revoked := false; ko_once := false; ko_refs := 0 |}]) (length (w_kobjs w)) =
              Some {| ko_created := created; ko_secret := length (w_secrets w); ko_revoked := false; ko_once := false; ko_refs := 0 |}).
  { rewrite nth_error_app2 by lia. rewrite Nat.sub_diag. reflexivity. }
  split.
  - eexists. split; [exact N | reflexivity].
  - exists (length (w_secrets w)). eexists. eexists. split; [exact N|]. cbn [ko_secret].
    split; [rewrite nth_error_app2 by lia; rewrite Nat.sub_diag; reflexivity | reflexivity].
Qed.

(* quiet0 program + result fact + stable0 facts, in one step *)
Lemma hoare_q0_res {A} (m : M A) (F G : world -> Prop) (phi : A -> world -> Prop) :
  quiet0 m -> stable0 F -> hoare G m phi (fun _ => True) ->
  hoare (fun w => F w /\ G w) m (fun a w => F w /\ phi a w) F.
Proof.
  intros Q S H. eapply hoare_weaken; [apply (hoare_conj _ _ _ _ _ _ _ (hoare_quiet0 m F Q S) H) | | |]; cbn; tauto.
Qed.

Lemma hoare_q0_res' {A} (m : M A) (F : world -> Prop) (phi : A -> world -> Prop) :
  quiet0 m -> stable0 F -> hoare (fun _ => True) m phi (fun _ => True) ->
  hoare F m (fun a w => F w /\ phi a w) F.
Proof.
  intros Q S H. eapply hoare_pre; [apply (hoare_q0_res m F (fun _ => True) phi Q S H)|]. cbn. tauto.
Qed.

(* the two forms used at almost every step of a larger proof *)
Lemma hoare_q0 {A} (m : M A) (F E : world -> Prop) :
  quiet0 m -> stable0 F -> (forall w, F w -> E w) -> hoare F m (fun _ => F) E.
Proof. intros Q S HE. eapply hoare_weaken; [exact (hoare_quiet0 m F Q S) | | |]; auto. Qed.

Lemma hoare_q0r {A} (m : M A) (F E : world -> Prop) (phi : A -> world -> Prop) :
  quiet0 m -> stable0 F -> hoare (fun _ => True) m phi (fun _ => True) -> (forall w, F w -> E w) ->
  hoare F m (fun a w => F w /\ phi a w) E.
Proof. intros Q S H HE. eapply hoare_weaken; [exact (hoare_q0_res' m F phi Q S H) | | |]; auto. Qed.

(* metastore reads, relative to the current table *)
Lemma m_load_spec (F E : world -> Prop) id c :
  stable0 F -> (forall w, F w -> E w) ->
  hoare F (m_load id c) (fun r w => F w /\ r = store_find id c (w_store w)) E.
Proof.
  intros SF HE w HF. pose proof (q0_m_load id c w) as [_ Es].
  pose proof (hoare_quiet0 _ F (q0_m_load id c) SF w HF) as H1.
  pose proof (m_load_res id c (w_store w) w eq_refl) as H2.
  destruct (m_load id c w) as [[e|r] w1]; cbn [snd] in *; [apply HE; exact H1|].
  split; [exact H1 | rewrite Es; exact H2].
Qed.

Lemma m_load_latest_spec (F E : world -> Prop) id :
  stable0 F -> (forall w, F w -> E w) ->
  hoare F (m_load_latest id) (fun r w => F w /\ r = option_map snd (store_latest id (w_store w) None)) E.
Proof.
  intros SF HE w HF. pose proof (q0_m_load_latest id w) as [_ Es].
  pose proof (hoare_quiet0 _ F (q0_m_load_latest id) SF w HF) as H1.
  pose proof (m_load_latest_res id (w_store w) w eq_refl) as H2.
  destruct (m_load_latest id w) as [[e|r] w1]; cbn [snd] in *; [apply HE; exact H1|].
  split; [exact H1 | rewrite Es; exact H2].
Qed.
