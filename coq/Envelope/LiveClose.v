(* The live round trip when sessions are closed too, for factories whose sessions do not own a key cache (shared intermediate-key
   cache, or intermediate-key caching off): Session.Close then touches no cache. *)
From Asherah Require Import Envelope.Session Envelope.Frame Envelope.FrameInst Envelope.Hoare Envelope.Coherent Envelope.Local Envelope.Live Envelope.Rotation.
From Coq Require Import Lia.

(* programs that leave the session table alone *)
Definition sameS (w w' : world) : Prop := w_sessions w' = w_sessions w.
Lemma sameS_refl w : sameS w w. Proof. reflexivity. Qed.
Lemma sameS_trans a b c : sameS a b -> sameS b c -> sameS a c. Proof. unfold sameS. intros A B. congruence. Qed.
Definition qS {A} (m : M A) : Prop := qu sameS m.
Lemma qS_ret {A} (a : A) : qS (ret a). Proof. apply (qu_ret sameS sameS_refl). Qed.
Lemma qS_fail {A} e : qS (@fail A e). Proof. apply (qu_fail sameS sameS_refl). Qed.
Lemma qS_gets {A} (f : world -> A) : qS (gets f). Proof. apply (qu_gets sameS sameS_refl). Qed.
Lemma qS_bind {A B} (m : M A) (f : A -> M B) : qS m -> (forall a, qS (f a)) -> qS (bind m f). Proof. apply (qu_bind sameS sameS_trans). Qed.
Lemma qS_finally {A} (m : M A) (c : M unit) : qS m -> qS c -> qS (finally m c). Proof. apply (qu_finally sameS sameS_trans). Qed.
Lemma qS_try {A} (m : M A) : qS m -> qS (try_ m). Proof. apply (qu_try sameS). Qed.
Lemma qS_emit e : qS (emit e). Proof. intro w. reflexivity. Qed.
Lemma qS_next_call : qS next_call. Proof. intro w. reflexivity. Qed.
Lemma qS_bump_nonce : qS bump_nonce. Proof. intro w. reflexivity. Qed.
Lemma qS_store_insert id c r : qS (store_insert id c r). Proof. intro w. unfold store_insert. destruct (store_find id c (w_store w)); reflexivity. Qed.
Lemma qS_secret_alloc m : qS (secret_alloc m). Proof. intro w. reflexivity. Qed.
Lemma qS_secret_mark_closed sid : qS (secret_mark_closed sid). Proof. intro w. unfold secret_mark_closed. destruct (nth_error (w_secrets w) sid); reflexivity. Qed.
Lemma qS_kobj_alloc o : qS (kobj_alloc o). Proof. intro w. reflexivity. Qed.
Lemma qS_kobj_modify k g : qS (kobj_modify k g). Proof. intro w. unfold kobj_modify. destruct (nth_error (w_kobjs w) k); reflexivity. Qed.
Lemma qS_put_cache cid c : qS (put_cache cid c). Proof. intro w. reflexivity. Qed.
Global Hint Resolve qS_emit qS_next_call qS_bump_nonce qS_store_insert qS_secret_alloc qS_secret_mark_closed qS_kobj_alloc qS_kobj_modify qS_put_cache : qS.

Ltac qS_step :=
  first
    [ solve [auto with qS]
    | apply qS_ret | apply qS_fail | apply qS_gets
    | apply qS_bind; [|intro]
    | apply qS_finally
    | apply qS_try
    | match goal with
      | |- qS (match ?x with _ => _ end) => destruct x
      | |- qS (let '(_, _) := ?x in _) => destruct x
      | |- qS (if ?x then _ else _) => destruct x
      end ].
Ltac qS_go := repeat qS_step.

Lemma qS_get_now : qS get_now. Proof. apply qS_gets. Qed.
Lemma qS_get_store : qS get_store. Proof. apply qS_gets. Qed.
Lemma qS_get_secrets : qS get_secrets. Proof. apply qS_gets. Qed.
Lemma qS_get_kobjs : qS get_kobjs. Proof. apply qS_gets. Qed.
Lemma qS_secret_count : qS secret_count. Proof. apply qS_gets. Qed.
Global Hint Resolve qS_get_now qS_get_store qS_get_secrets qS_get_kobjs qS_secret_count : qS.
Lemma qS_m_load id c : qS (m_load id c). Proof. unfold m_load. qS_go. Qed.
Lemma qS_m_load_latest id : qS (m_load_latest id). Proof. unfold m_load_latest. qS_go. Qed.
Lemma qS_m_store id c r : qS (m_store id c r). Proof. unfold m_store. qS_go. Qed.
Lemma qS_kms_encrypt p : qS (kms_encrypt p). Proof. unfold kms_encrypt. qS_go. Qed.
Lemma qS_kms_decrypt c : qS (kms_decrypt c). Proof. unfold kms_decrypt. qS_go. Qed.
Lemma qS_aead_encrypt p k : qS (aead_encrypt p k). Proof. unfold aead_encrypt. qS_go. Qed.
Lemma qS_aead_decrypt c k : qS (aead_decrypt c k). Proof. unfold aead_decrypt. qS_go. Qed.
Lemma qS_secret_new m : qS (secret_new m). Proof. unfold secret_new. qS_go. Qed.
Lemma qS_secret_random : qS secret_random. Proof. unfold secret_random. qS_go. Qed.
Lemma qS_secret_close sid : qS (secret_close sid). Proof. unfold secret_close. qS_go. Qed.
Lemma qS_secret_bytes sid : qS (secret_bytes sid). Proof. unfold secret_bytes. qS_go. Qed.
Lemma qS_kobj_get k : qS (kobj_get k). Proof. unfold kobj_get. qS_go. Qed.
Global Hint Resolve qS_m_load qS_m_load_latest qS_m_store qS_kms_encrypt qS_kms_decrypt qS_aead_encrypt qS_aead_decrypt qS_secret_new
  qS_secret_random qS_secret_close qS_secret_bytes qS_kobj_get : qS.
Lemma qS_ck_close k : qS (ck_close k). Proof. unfold ck_close. qS_go. Qed.
Global Hint Resolve qS_ck_close : qS.
Lemma qS_cck_close k : qS (cck_close k). Proof. unfold cck_close. qS_go. Qed.
Lemma qS_cck_increment k : qS (cck_increment k). Proof. unfold cck_increment. qS_go. Qed.
Lemma qS_ck_set_revoked k b : qS (ck_set_revoked k b). Proof. unfold ck_set_revoked. qS_go. Qed.
Lemma qS_cck_wrap k : qS (cck_wrap k). Proof. unfold cck_wrap. qS_go. Qed.
Global Hint Resolve qS_cck_close qS_cck_increment qS_ck_set_revoked qS_cck_wrap : qS.
Lemma qS_key_bytes k : qS (key_bytes k). Proof. unfold key_bytes. qS_go. Qed.
Lemma qS_new_crypto_key c r m : qS (new_crypto_key c r m). Proof. unfold new_crypto_key. qS_go. Qed.
Lemma qS_generate_key c : qS (generate_key c). Proof. unfold generate_key. qS_go. Qed.
Lemma qS_get_cache cid : qS (get_cache cid). Proof. unfold get_cache. qS_go. Qed.
Global Hint Resolve qS_key_bytes qS_new_crypto_key qS_generate_key qS_get_cache : qS.
Lemma qS_kc_read cid m : qS (kc_read cid m). Proof. unfold kc_read. qS_go. Qed.
Lemma qS_reload_required e rci : qS (reload_required e rci). Proof. unfold reload_required. qS_go. Qed.
Global Hint Resolve qS_kc_read qS_reload_required : qS.
Lemma qS_kc_get_fresh cid rci m : qS (kc_get_fresh cid rci m). Proof. unfold kc_get_fresh. qS_go. Qed.
Lemma qS_closes l : qS (closes l). Proof. unfold closes. induction l as [|x l IH]; cbn [fold_right]; qS_go. Qed.
Global Hint Resolve qS_kc_get_fresh qS_closes : qS.
Lemma qS_kc_write cid m e : qS (kc_write cid m e). Proof. unfold kc_write. qS_go. Qed.
Global Hint Resolve qS_kc_write : qS.
Lemma qS_kc_load cid m loader : (forall x, qS (loader x)) -> qS (kc_load cid m loader). Proof. intro H. unfold kc_load. qS_go. Qed.
Lemma qS_is_key_invalid k e : qS (is_key_invalid k e). Proof. unfold is_key_invalid. qS_go. Qed.
Global Hint Resolve qS_is_key_invalid : qS.
Lemma qS_get_or_load c rci m loader : (forall x, qS (loader x)) -> qS (get_or_load c rci m loader).
Proof. intro H. unfold get_or_load. qS_go; apply qS_kc_load; exact H. Qed.
Lemma qS_get_or_load_latest c rci ex id loader : (forall x, qS (loader x)) -> qS (get_or_load_latest c rci ex id loader).
Proof. intro H. unfold get_or_load_latest. qS_go; try apply qS_kc_load; exact H. Qed.
Lemma qS_is_envelope_invalid e r : qS (is_envelope_invalid e r). Proof. unfold is_envelope_invalid. qS_go. Qed.
Lemma qS_generate_key_now e : qS (generate_key_now e). Proof. unfold generate_key_now. qS_go. Qed.
Lemma qS_system_key_from_ekr r : qS (system_key_from_ekr r). Proof. unfold system_key_from_ekr. qS_go. Qed.
Global Hint Resolve qS_is_envelope_invalid qS_generate_key_now qS_system_key_from_ekr : qS.
Lemma qS_load_system_key m : qS (load_system_key m). Proof. unfold load_system_key. qS_go. Qed.
Global Hint Resolve qS_load_system_key : qS.
Lemma qS_get_or_load_system_key e m : qS (get_or_load_system_key e m).
Proof. unfold get_or_load_system_key. apply qS_get_or_load. intro. apply qS_load_system_key. Qed.
Global Hint Resolve qS_get_or_load_system_key : qS.
Lemma qS_intermediate_key_from_ekr e sk r : qS (intermediate_key_from_ekr e sk r). Proof. unfold intermediate_key_from_ekr. qS_go. Qed.
Lemma qS_try_store_system_key e sk : qS (try_store_system_key e sk). Proof. unfold try_store_system_key. qS_go. Qed.
Lemma qS_must_load_latest id : qS (must_load_latest id). Proof. unfold must_load_latest. qS_go. Qed.
Global Hint Resolve qS_intermediate_key_from_ekr qS_try_store_system_key qS_must_load_latest : qS.
Lemma qS_load_latest_or_create_system_key e id : qS (load_latest_or_create_system_key e id). Proof. unfold load_latest_or_create_system_key. qS_go. Qed.
Lemma qS_try_store_intermediate_key e ik sk : qS (try_store_intermediate_key e ik sk). Proof. unfold try_store_intermediate_key. qS_go. Qed.
Global Hint Resolve qS_load_latest_or_create_system_key qS_try_store_intermediate_key : qS.
Lemma qS_create_ik_with_sk e sk : qS (create_ik_with_sk e sk). Proof. unfold create_ik_with_sk. qS_go. Qed.
Global Hint Resolve qS_create_ik_with_sk : qS.
Lemma qS_create_intermediate_key e : qS (create_intermediate_key e).
Proof. unfold create_intermediate_key. apply qS_bind; [apply qS_get_or_load_latest; intro; apply qS_load_latest_or_create_system_key | intro sk; qS_go]. Qed.
Global Hint Resolve qS_create_intermediate_key : qS.
Lemma qS_get_valid_intermediate_key e sk r : qS (get_valid_intermediate_key e sk r). Proof. unfold get_valid_intermediate_key. qS_go. Qed.
Global Hint Resolve qS_get_valid_intermediate_key : qS.
Lemma qS_load_latest_or_create_intermediate_key e id : qS (load_latest_or_create_intermediate_key e id). Proof. unfold load_latest_or_create_intermediate_key. qS_go. Qed.
Lemma qS_load_intermediate_key e m : qS (load_intermediate_key e m). Proof. unfold load_intermediate_key. qS_go. Qed.
Global Hint Resolve qS_load_latest_or_create_intermediate_key qS_load_intermediate_key : qS.
Lemma qS_encrypt_with_ik e ik p : qS (encrypt_with_ik e ik p). Proof. unfold encrypt_with_ik. qS_go. Qed.
Global Hint Resolve qS_encrypt_with_ik : qS.
Lemma qS_encrypt_payload e p : qS (encrypt_payload e p).
Proof. unfold encrypt_payload. apply qS_bind; [apply qS_get_or_load_latest; intro; apply qS_load_latest_or_create_intermediate_key | intro ik; qS_go]. Qed.
Lemma qS_decrypt_row ik k d : qS (decrypt_row ik k d). Proof. unfold decrypt_row. qS_go. Qed.
Global Hint Resolve qS_decrypt_row : qS.
Lemma qS_decrypt_data_row_record e r : qS (decrypt_data_row_record e r).
Proof. unfold decrypt_data_row_record. qS_go. apply qS_get_or_load. intro. apply qS_load_intermediate_key. Qed.
Lemma qS_get_factory f : qS (get_factory f). Proof. unfold get_factory. qS_go. Qed.
Lemma qS_get_session s : qS (get_session s). Proof. unfold get_session. qS_go. Qed.
Global Hint Resolve qS_get_factory qS_get_session : qS.
Lemma qS_session_env s : qS (session_env s). Proof. unfold session_env. qS_go. Qed.


Section LiveClose.
Variables svc prod : str.
Notation HIL := (HIL svc prod).
Notation benignL := (benignL svc prod).
Notation Iv := (Iv svc prod).
Notation genuine := (genuine svc prod).

Definition SharedPol (p : policy) : Prop := p_cache_ik p = false \/ p_shared_ik p = true.
Definition FPol (w : world) : Prop := forall f fa, nth_error (w_factories w) f = Some fa -> SharedPol (fa_policy fa).
Definition NoOwn (w : world) : Prop :=
  forall s0 x, nth_error (w_sessions w) s0 = Some x -> ss_cached x = false /\ (ss_own_ik x = true -> ss_ik x = None).
Definition HILC (w : world) : Prop := HIL w /\ FPol w /\ NoOwn w.

Definition benignC (o : hop) : Prop :=
  match o with
  | HNewFactory p s0 pr suf => s0 = svc /\ pr = prod /\ suf = None /\ Coherent.pol_ok p /\ p_cache_sessions p = false /\ SharedPol p
  | HCloseSession _ | HGetSession _ _ | HEncrypt _ _ _ | HDecrypt _ _ _ _ | HAdvance _ | HRevoke _ _ => True
  | _ => False
  end.

Lemma nth_error_set_nth_other' {A} (l : list A) n m x : n <> m -> nth_error (set_nth n x l) m = nth_error l m.
Proof. revert n m; induction l as [|a l IH]; intros [|n] [|m] H; cbn; try reflexivity; try congruence. apply IH. congruence. Qed.

Lemma nth_error_snoc {A} (l : list A) x n y : nth_error (l ++ [x]) n = Some y -> nth_error l n = Some y \/ y = x.
Proof.
  intro H. destruct (lt_dec n (List.length l)) as [Lt|Ge].
  - left. rewrite nth_error_app1 in H by exact Lt. exact H.
  - right. rewrite nth_error_app2 in H by lia. destruct (n - List.length l)%nat as [|m]; [inversion H; reflexivity | destruct m; discriminate H].
Qed.

Lemma new_factory_shape p s0 pr suf w :
  let w' := snd (new_factory p s0 pr suf w) in
  w_sessions w' = w_sessions w /\ exists fa, fa_policy fa = p /\ w_factories w' = w_factories w ++ [fa].
Proof.
  unfold new_factory, bind, new_keycache, gets, upd, ret.
  destruct (p_cache_sk p), (use_shared_ik p); cbn; (split; [reflexivity | eexists; split; [|reflexivity]; reflexivity]).
Qed.

Lemma new_session_shape f id fa w :
  nth_error (w_factories w) f = Some fa ->
  let w' := snd (new_session f id false w) in
  w_factories w' = w_factories w /\
  exists x, w_sessions w' = w_sessions w ++ [x] /\ ss_cached x = false /\ (SharedPol (fa_policy fa) -> ss_own_ik x = true -> ss_ik x = None).
Proof.
  intro Ef. unfold new_session, get_factory, bind, gets, ret, upd, new_keycache. cbn. rewrite Ef. cbn.
  unfold use_shared_ik. destruct (p_cache_ik (fa_policy fa)) eqn:E1, (p_shared_ik (fa_policy fa)) eqn:E2; cbn;
    (split; [reflexivity | eexists; split; [reflexivity|]; split; [reflexivity|]]); cbn; intros [X|X] Y; congruence.
Qed.

Lemma factory_get_session_run f id w :
  no_scache w ->
  factory_get_session f id w = (inr None, w) \/ factory_get_session f id w = (inl ErrPanic, w) \/
  exists fa, nth_error (w_factories w) f = Some fa /\
             factory_get_session f id w = match new_session f id false w with (inl e, w') => (inl e, w') | (inr s0, w') => (inr (Some s0), w') end.
Proof.
  intros NSc. unfold factory_get_session. destruct (negb (get_session_ok id)); [left; reflexivity|]. right.
  destruct (nth_error (w_factories w) f) as [fa|] eqn:Ef.
  - right. exists fa. split; [reflexivity|].
    cbv beta iota delta [bind get_factory gets ret fail]. rewrite Ef. cbv beta iota. rewrite (NSc f fa Ef).
    destruct (new_session f id false w) as [[er|a] w']; reflexivity.
  - left. cbv beta iota delta [bind get_factory gets ret fail]. rewrite Ef. reflexivity.
Qed.

Lemma factory_get_session_shape f id w :
  no_scache w ->
  let w' := snd (factory_get_session f id w) in
  (w_factories w' = w_factories w /\ w_sessions w' = w_sessions w) \/
  (exists fa x, nth_error (w_factories w) f = Some fa /\ w_factories w' = w_factories w /\ w_sessions w' = w_sessions w ++ [x] /\
                ss_cached x = false /\ (SharedPol (fa_policy fa) -> ss_own_ik x = true -> ss_ik x = None)).
Proof.
  intros NSc w'. unfold w'. destruct (factory_get_session_run f id w NSc) as [E|[E|[fa [Ef E]]]]; rewrite E.
  - left. split; reflexivity.
  - left. split; reflexivity.
  - pose proof (new_session_shape f id fa w Ef) as [EF [x [ES [C1 C2]]]].
    destruct (new_session f id false w) as [[er|a] w1]; cbn [snd] in *; right; exists fa, x; repeat split; assumption.
Qed.

Definition torn_copy (x : session) : session :=
  {| ss_factory := ss_factory x; ss_part := ss_part x; ss_ik := ss_ik x; ss_own_ik := ss_own_ik x; ss_cached := ss_cached x;
     ss_usage := ss_usage x; ss_evicted := ss_evicted x; ss_torn := true |}.

Lemma session_close_run s0 w :
  match nth_error (w_sessions w) s0 with
  | None => session_close s0 w = (inl ErrPanic, w)
  | Some x => ss_cached x = false -> (ss_own_ik x = true -> ss_ik x = None) ->
              session_close s0 w = (inr tt, with_sessions (set_nth s0 (torn_copy x) (w_sessions w)) w)
  end.
Proof.
  destruct (nth_error (w_sessions w) s0) as [x|] eqn:Es.
  - intros C1 C2. cbv beta iota delta [session_close bind get_session gets ret fail]. rewrite Es. cbv beta iota. rewrite C1.
    cbv beta iota delta [envelope_close bind get_session gets ret fail put_session upd]. rewrite Es. cbv beta iota.
    assert (E : (if ss_own_ik x then kc_close (ss_ik x) else (fun w1 : world => (inr tt, w1))) = (fun w1 : world => (inr tt, w1))).
    { destruct (ss_own_ik x); [rewrite (C2 eq_refl)|]; reflexivity. }
    rewrite E. reflexivity.
  - cbv beta iota delta [session_close bind get_session gets ret fail]. rewrite Es. reflexivity.
Qed.

Lemma benignC_cases o : benignC o -> benignL o \/ exists s0, o = HCloseSession s0.
Proof. destruct o; cbn [benignC Live.benignL]; try tauto. intros _. right. eexists. reflexivity. Qed.

Lemma HILC_same_tables w w' : w_sessions w' = w_sessions w -> w_factories w' = w_factories w -> FPol w /\ NoOwn w -> FPol w' /\ NoOwn w'.
Proof. intros E1 E2 [F N]. split; [intros f fa H; rewrite E2 in H; exact (F f fa H) | intros s0 x H; rewrite E1 in H; exact (N s0 x H)]. Qed.

Theorem hstepC_inv h o : benignC o -> HILC (h_world h) -> HILC (h_world (snd (hstep h o))).
Proof.
  intros B [HL [FP NO]]. destruct (benignC_cases o B) as [BL|[s0 ->]].
  - split; [exact (hstepL_inv svc prod h o BL HL)|].
    destruct o; cbn [Live.benignL] in BL; try contradiction; cbn [hstep].
    + (* new factory *)
      destruct B as [_ [_ [_ [_ [_ SP]]]]].
      pose proof (new_factory_shape p svc0 prod0 suffix (begin_op [] (h_world h))) as [ES [fa [Ep EF]]].
      destruct (new_factory p svc0 prod0 suffix (begin_op [] (h_world h))) as [r w']. cbn [snd h_world] in *. split.
      * intros f fa' H. rewrite EF in H. apply nth_error_snoc in H as [H| ->]; [exact (FP f fa' H) | rewrite Ep; exact SP].
      * intros s1 x H. rewrite ES in H. exact (NO s1 x H).
    + (* get session *)
      destruct HL as [kinds [H0 [_ NSc]]].
      pose proof (factory_get_session_shape f id (begin_op [] (h_world h)) NSc) as X.
      destruct (factory_get_session f id (begin_op [] (h_world h))) as [r w']. cbn [snd h_world] in *.
      destruct X as [[EF ES]|[fa [x [Ef [EF [ES [C1 C2]]]]]]].
      * exact (HILC_same_tables _ w' ES EF (conj FP NO)).
      * split; [intros f' fa' H; rewrite EF in H; exact (FP f' fa' H)|].
        intros s1 x' H. rewrite ES in H. apply nth_error_snoc in H as [H| ->]; [exact (NO s1 x' H)|]. split; [exact C1 | exact (C2 (FP f fa Ef))].
    + (* encrypt *)
      assert (QS : qS (e <- session_env s;; encrypt_payload e (PPayload payload))) by (apply qS_bind; [apply qS_session_env | intro; apply qS_encrypt_payload]).
      assert (QF : qF (e <- session_env s;; encrypt_payload e (PPayload payload))) by (apply qF_bind; [apply qF_session_env | intro; apply qF_encrypt_payload]).
      pose proof (QS (begin_op faults (h_world h))) as ES. pose proof (proj1 (QF (begin_op faults (h_world h)))) as EF.
      destruct ((e <- session_env s;; encrypt_payload e (PPayload payload)) (begin_op faults (h_world h))) as [[er|d] w']; cbn [snd h_world] in *;
        exact (HILC_same_tables _ w' ES EF (conj FP NO)).
    + (* decrypt *)
      destruct (nth_error (h_recs h) rec) as [r0|]; [|cbn [snd h_world]; split; assumption].
      set (r1 := fold_left (apply_mut (h_recs h)) muts r0).
      assert (QS : qS (e <- session_env s;; decrypt_data_row_record e r1)) by (apply qS_bind; [apply qS_session_env | intro; apply qS_decrypt_data_row_record]).
      assert (QF : qF (e <- session_env s;; decrypt_data_row_record e r1)) by (apply qF_bind; [apply qF_session_env | intro; apply qF_decrypt_data_row_record]).
      pose proof (QS (begin_op faults (h_world h))) as ES. pose proof (proj1 (QF (begin_op faults (h_world h)))) as EF.
      destruct ((e <- session_env s;; decrypt_data_row_record e r1) (begin_op faults (h_world h))) as [[er|d] w']; cbn [snd h_world] in *;
        exact (HILC_same_tables _ w' ES EF (conj FP NO)).
    + cbn [snd h_world]. split; assumption.
    + cbn [snd h_world]. split; assumption.
  - (* Session.Close: the session table changes, nothing else *)
    cbn [hstep]. set (w0 := begin_op [] (h_world h)).
    destruct HL as [kinds [H0 [[HI L] NSc]]].
    assert (HI0 : Iv kinds w0) by (eapply Iv_ext; [..|exact HI]; reflexivity).
    assert (L0 : LInv NoX H0 w0) by (eapply LInv_bookkeeping; [..|exact L]; reflexivity).
    assert (NSc0 : no_scache w0) by exact NSc.
    assert (FP0 : FPol w0) by exact FP. assert (NO0 : NoOwn w0) by exact NO.
    clearbody w0.
    pose proof (session_close_spec svc prod kinds s0 w0 HI0) as X.
    pose proof (session_close_run s0 w0) as R.
    destruct (nth_error (w_sessions w0) s0) as [x|] eqn:Es.
    + destruct (NO0 s0 x Es) as [C1 C2]. rewrite (R C1 C2) in X |- *. cbn [snd h_world].
      split; [|split].
      * exists kinds, H0. split; [split; [exact X | eapply LInv_bookkeeping; [..|exact L0]; reflexivity]|]. exact NSc0.
      * exact FP0.
      * intros s1 y Hy. cbn in Hy. destruct (Nat.eq_dec s1 s0) as [->|Ne].
        -- rewrite (nth_error_set_nth_same _ _ _ _ Es) in Hy. inversion Hy; subst y. cbn. split; [exact C1 | exact C2].
        -- rewrite nth_error_set_nth_other' in Hy by congruence. exact (NO0 s1 y Hy).
    + rewrite R. cbn [snd h_world]. split; [exists kinds, H0; split; [split; assumption | exact NSc0] | split; assumption].
Qed.

Lemma hrunC_inv ops : forall h, Forall benignC ops -> HILC (h_world h) -> HILC (h_world (snd (hrun h ops))).
Proof.
  induction ops as [|o ops IH]; intros h FB HI; cbn [hrun]; [exact HI|].
  inversion FB as [|? ? Bo Bops]; subst.
  pose proof (hstepC_inv h o Bo HI) as H1. destruct (hstep h o) as [[res ev] h1]. cbn [snd] in H1.
  specialize (IH h1 Bops H1). destruct (hrun h1 ops) as [rest hf]. exact IH.
Qed.

Lemma genuine_hstepC h o pid d p :
  benignC o -> genuine (w_store (h_world h)) pid d p -> genuine (w_store (h_world (snd (hstep h o)))) pid d p.
Proof.
  intros B G. destruct (benignC_cases o B) as [BL|[s0 ->]]; [exact (genuine_hstep svc prod h o pid d p BL G)|].
  destruct (sdk_step_R Rs Rs_frame h (HCloseSession s0) eq_refl) as [K _]. eapply genuine_kept; [exact K | exact G].
Qed.

Lemma genuine_hrunC ops : forall h pid d p,
  Forall benignC ops -> genuine (w_store (h_world h)) pid d p -> genuine (w_store (h_world (snd (hrun h ops)))) pid d p.
Proof.
  induction ops as [|o ops IH]; intros h pid d p FB G; cbn [hrun]; [exact G|].
  inversion FB as [|? ? Bo Bops]; subst.
  pose proof (genuine_hstepC h o pid d p Bo G) as G1. destruct (hstep h o) as [[res ev] h1]. cbn [snd] in G1.
  specialize (IH h1 pid d p Bops G1). destruct (hrun h1 ops) as [rest hf]. exact IH.
Qed.

Lemma HILC_init t0 : HILC (h_world (hinit t0)).
Proof.
  split; [exact (HIL_init svc prod t0)|]. split.
  - intros f fa H. destruct f; discriminate H.
  - intros s0 x H. destruct s0; discriminate H.
Qed.

Lemma benignC_benign o : benignC o -> benign svc prod o.
Proof. destruct o; cbn [benignC benign]; tauto. Qed.

Theorem live_invariants_reachable_closing t0 ops :
  Forall benignC ops -> HInv svc prod (snd (hrun (hinit t0) ops)) /\ HILC (h_world (snd (hrun (hinit t0) ops))).
Proof.
  intro FB. split.
  - apply invariant_reachable. eapply Forall_impl; [|exact FB]. apply benignC_benign.
  - exact (hrunC_inv ops (hinit t0) FB (HILC_init t0)).
Qed.

(* Encrypt, then anything - now including Session.Close - then a fault-free Decrypt in any session of the same partition id (the
   sessions of these factories own no key cache, so even a closed one still works): the payload comes back *)
Theorem encrypt_then_decrypt_live_closing h s1 x1 payload faults :
  HInv svc prod h -> HILC (h_world h) -> nth_error (w_sessions (h_world h)) s1 = Some x1 ->
  match hstep h (HEncrypt s1 payload faults) with
  | (OEnc _ _, _, h1) =>
      forall ops s2 x2, Forall benignC ops ->
        let h2 := snd (hrun h1 ops) in
        nz_store (w_store (h_world h2)) -> nth_error (w_sessions (h_world h2)) s2 = Some x2 -> p_id (ss_part x2) = p_id (ss_part x1) ->
        fst (fst (hstep h2 (HDecrypt s2 (List.length (h_recs h)) [] []))) = ODec (Some payload)
  | _ => True
  end.
Proof.
  intros HV HL Hs.
  pose proof (hstepC_inv h (HEncrypt s1 payload faults) I HL) as HL1.
  destruct HV as [[kinds HI] RO]. cbn [hstep] in *.
  assert (HI0 : Iv kinds (begin_op faults (h_world h))) by (eapply Iv_ext; [..|exact HI]; reflexivity).
  set (w0 := begin_op faults (h_world h)) in *.
  assert (Hs0 : nth_error (w_sessions w0) s1 = Some x1) by exact Hs. clearbody w0.
  pose proof HI0 as [_ [_ _ _ S]]. destruct (S s1 x1 Hs0) as [[fa Hfa] _].
  pose proof (session_env_run s1 x1 fa w0 Hs0 Hfa) as Run.
  pose proof (session_env_spec svc prod kinds s1 w0 HI0) as X. rewrite Run in X. destruct X as [_ EO].
  set (e := {| en_part := ss_part x1; en_pol := fa_policy fa; en_sk := fa_sk fa; en_ik := ss_ik x1 |}) in *.
  pose proof (encrypt_payload_spec svc prod kinds e (PPayload payload) EO w0 HI0) as Y.
  unfold bind in *. rewrite Run in *.
  destruct (encrypt_payload e (PPayload payload) w0) as [[er|d] w1]; cbn [outcome snd h_world] in *.
  { destruct er; exact I. }
  destruct Y as [_ G]. destruct (d_key d) as [k|]; [|exact I]. destruct (e_parent k); [|exact I].
  cbv beta iota.
  intros ops s2 x2 FB NZ Hs2 Epid.
  set (h1 := {| h_world := w1; h_recs := h_recs h ++ [d] |}) in *.
  set (h2 := snd (hrun h1 ops)) in *.
  change (fst (fst (hstep h2 (HDecrypt s2 (List.length (h_recs h)) [] []))) = ODec (Some payload)).
  assert (Hj : nth_error (h_recs h2) (List.length (h_recs h)) = Some d).
  { apply recs_hrun_prefix. cbn [h_recs h1]. rewrite nth_error_app2 by lia. rewrite Nat.sub_diag. reflexivity. }
  apply (live_decrypt_of_recorded svc prod h2 s2 x2 _ d payload); [exact (proj1 (hrunC_inv ops h1 FB HL1)) | exact NZ | exact Hs2 | exact Hj |].
  rewrite Epid. exact (genuine_hrunC ops h1 _ d _ FB G).
Qed.

End LiveClose.

(* non-vacuity: a factory with the shared intermediate-key cache; session 0 encrypts and is closed; later session 1 of the same
   partition - and the closed session 0 itself - decrypt the record *)
Definition pol_shared : policy :=
  {| p_expire := 100 * sec; p_rci := 10 * sec; p_precision := 1 * sec; p_cache_sk := true; p_cache_ik := true; p_shared_ik := true;
     p_sk_pol := Rotation.simple_pol; p_ik_pol := Rotation.simple_pol; p_cache_sessions := false; p_sess_cap := 1000;
     p_sess_dur := 7200 * sec; p_sess_kind := Generic.Slru |}.
Definition closing_ops : list hop :=
  [HNewFactory pol_shared (s "svc") (s "prod") None; HGetSession 0 (s "p"); HEncrypt 0 5 []; HCloseSession 0; HAdvance (20 * sec); HGetSession 0 (s "p")].

Example closing_nonvacuous :
  let h := snd (hrun (hinit Rotation.t0) closing_ops) in
  Forall (benignC (s "svc") (s "prod")) closing_ops /\ nz_storeb (w_store (h_world h)) = true /\
  fst (fst (hstep h (HDecrypt 1 0 [] []))) = ODec (Some 5%nat) /\ fst (fst (hstep h (HDecrypt 0 0 [] []))) = ODec (Some 5%nat).
Proof.
  split; [repeat constructor; cbn; try exact I; right; reflexivity|]. split; [vm_compute; reflexivity|]. split; vm_compute; reflexivity.
Qed.
