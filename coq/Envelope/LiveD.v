(* Liveness of cached keys (sequential semantics): a key handed out by a key cache stays open until it is released,
   whatever evictions, refreshes and reloads happen meanwhile.  Reference counts are tracked against a ghost map H of
   outstanding holds.  Histories here never close a cache (long-lived sessions): see the theorem's statement. *)
From Asherah Require Import Envelope.Session Envelope.Frame Envelope.FrameInst Envelope.Hoare Envelope.Coherent Envelope.Local Cache.CacheProofs Envelope.PartitionProofs.
From Coq Require Import Lia.

Definition holds := nat -> Z.
Definition hadd (H : holds) (k : nat) (d : Z) : holds := fun x => if Nat.eqb x k then H x + d else H x.

Lemma hadd_same H k d : hadd H k d k = H k + d.
Proof. unfold hadd. rewrite Nat.eqb_refl. reflexivity. Qed.
Lemma hadd_other H k d x : x <> k -> hadd H k d x = H x.
Proof. intro N. unfold hadd. destruct (Nat.eqb x k) eqn:E; [apply Nat.eqb_eq in E; contradiction | reflexivity]. Qed.

Definition open_k (w : world) (k : nat) : Prop :=
  exists o sc, nth_error (w_kobjs w) k = Some o /\ ko_once o = false /\ nth_error (w_secrets w) (ko_secret o) = Some sc /\ s_closed sc = false.

Definition refs_ge (w : world) (k : nat) (n : Z) : Prop := exists o, nth_error (w_kobjs w) k = Some o /\ ko_refs o >= n.

(* D: key caches that have been closed; what they still hold does not count *)
Definition centry_at (D : nat -> Prop) (w : world) (cid : nat) (ks : str) (e : centry) : Prop :=
  ~ D cid /\ exists kc, nth_error (w_caches w) cid = Some kc /\ b_abs (kc_backing kc) ks = Some e.

(* X: positions (cache id, key string) whose entry is being replaced right now and is not counted *)
Definition cached (D : nat -> Prop) (Ex : nat -> str -> Prop) (w : world) (k : nat) : Prop := exists cid ks e, centry_at D w cid ks e /\ ~ Ex cid ks /\ ce_key e = k.

Record LInv (D : nat -> Prop) (Ex : nat -> str -> Prop) (H : holds) (w : world) : Prop := {
  l_cached : forall k, cached D Ex w k -> open_k w k /\ refs_ge w k (1 + H k);
  l_held : forall k, H k > 0 -> open_k w k /\ refs_ge w k (H k);
  l_own : forall cid ks e cid' ks' e', centry_at D w cid ks e -> centry_at D w cid' ks' e' -> ce_key e = ce_key e' -> cid = cid' /\ ks = ks';
  l_sec : forall k k' o o', nth_error (w_kobjs w) k = Some o -> nth_error (w_kobjs w) k' = Some o' -> ko_secret o = ko_secret o' -> k = k';
  l_alloc : forall k o, nth_error (w_kobjs w) k = Some o -> (ko_secret o < length (w_secrets w))%nat;
  l_nonneg : forall k, H k >= 0;
  l_opencache : forall cid kc c, ~ D cid -> nth_error (w_caches w) cid = Some kc -> kc_backing kc = BCache c -> closing c = false;
  l_good : forall cid kc, ~ D cid -> nth_error (w_caches w) cid = Some kc -> b_good (kc_backing kc) }.

(* programs that leave key objects, secrets and caches alone *)
Definition same_live (w w' : world) : Prop :=
  w_kobjs w' = w_kobjs w /\ w_secrets w' = w_secrets w /\ w_caches w' = w_caches w.

Lemma LInv_same D0 Ex H w w' : same_live w w' -> LInv D0 Ex H w -> LInv D0 Ex H w'.
Proof.
  intros [E1 [E2 E3]] [A B C D E F G G2].
  assert (OK : forall k, open_k w k -> open_k w' k) by (intros k [o [sc X]]; exists o, sc; rewrite E1, E2; exact X).
  assert (RG : forall k n, refs_ge w k n -> refs_ge w' k n) by (intros k n [o X]; exists o; rewrite E1; exact X).
  assert (CE : forall cid ks e, centry_at D0 w' cid ks e -> centry_at D0 w cid ks e) by (intros cid ks e [ND [kc X]]; split; [exact ND|]; exists kc; rewrite <- E3; exact X).
  constructor.
  - intros k [cid [ks [e [X Y]]]]. destruct (A k (ex_intro _ cid (ex_intro _ ks (ex_intro _ e (conj (CE _ _ _ X) Y))))) as [P Q]. split; auto.
  - intros k Hk. destruct (B k Hk). split; auto.
  - intros. eapply C; eauto.
  - intros k k' o o'. rewrite E1. apply D.
  - intros k o. rewrite E1, E2. apply E.
  - exact F.
  - intros cid kc c ND. rewrite E3. apply G. exact ND.
  - intros cid kc ND. rewrite E3. apply G2. exact ND.
Qed.

Lemma same_live_refl w : same_live w w. Proof. repeat split. Qed.
Lemma same_live_trans a b c : same_live a b -> same_live b c -> same_live a c.
Proof. intros [A1 [A2 A3]] [B1 [B2 B3]]. repeat split; congruence. Qed.

Definition qL {A} (m : M A) : Prop := qu same_live m.

Lemma qL_ret {A} (a : A) : qL (ret a). Proof. apply (qu_ret same_live same_live_refl). Qed.
Lemma qL_fail {A} e : qL (@fail A e). Proof. apply (qu_fail same_live same_live_refl). Qed.
Lemma qL_gets {A} (f : world -> A) : qL (gets f). Proof. apply (qu_gets same_live same_live_refl). Qed.
Lemma qL_bind {A B} (m : M A) (f : A -> M B) : qL m -> (forall a, qL (f a)) -> qL (bind m f).
Proof. apply (qu_bind same_live same_live_trans). Qed.
Lemma qL_finally {A} (m : M A) (c : M unit) : qL m -> qL c -> qL (finally m c).
Proof. apply (qu_finally same_live same_live_trans). Qed.
Lemma qL_try {A} (m : M A) : qL m -> qL (try_ m).
Proof. apply (qu_try same_live). Qed.

Ltac qL_same := intro w; repeat split.
Lemma qL_emit e : qL (emit e). Proof. qL_same. Qed.
Lemma qL_next_call : qL next_call. Proof. qL_same. Qed.
Lemma qL_bump_nonce : qL bump_nonce. Proof. qL_same. Qed.
Lemma qL_store_insert id c r : qL (store_insert id c r).
Proof. intro w. unfold store_insert. destruct (store_find id c (w_store w)); repeat split. Qed.
Global Hint Resolve qL_emit qL_next_call qL_bump_nonce qL_store_insert : qL.

Ltac qL_step :=
  first
    [ solve [auto with qL]
    | apply qL_ret | apply qL_fail | apply qL_gets
    | apply qL_bind; [|intro]
    | apply qL_finally
    | apply qL_try
    | match goal with
      | |- qL (match ?x with _ => _ end) => destruct x
      | |- qL (let '(_, _) := ?x in _) => destruct x
      | |- qL (if ?x then _ else _) => destruct x
      end ].
Ltac qL_go := repeat qL_step.

Lemma qL_get_now : qL get_now. Proof. apply qL_gets. Qed.
Lemma qL_get_store : qL get_store. Proof. apply qL_gets. Qed.
Lemma qL_get_secrets : qL get_secrets. Proof. apply qL_gets. Qed.
Lemma qL_get_kobjs : qL get_kobjs. Proof. apply qL_gets. Qed.
Global Hint Resolve qL_get_now qL_get_store qL_get_secrets qL_get_kobjs : qL.
Lemma qL_m_load id c : qL (m_load id c). Proof. unfold m_load. qL_go. Qed.
Lemma qL_m_load_latest id : qL (m_load_latest id). Proof. unfold m_load_latest. qL_go. Qed.
Lemma qL_m_store id c r : qL (m_store id c r). Proof. unfold m_store. qL_go. Qed.
Lemma qL_kms_encrypt p : qL (kms_encrypt p). Proof. unfold kms_encrypt. qL_go. Qed.
Lemma qL_kms_decrypt c : qL (kms_decrypt c). Proof. unfold kms_decrypt. qL_go. Qed.
Lemma qL_aead_encrypt p k : qL (aead_encrypt p k). Proof. unfold aead_encrypt. qL_go. Qed.
Lemma qL_aead_decrypt c k : qL (aead_decrypt c k). Proof. unfold aead_decrypt. qL_go. Qed.
Lemma qL_secret_bytes sid : qL (secret_bytes sid). Proof. unfold secret_bytes. qL_go. Qed.
Lemma qL_kobj_get k : qL (kobj_get k). Proof. unfold kobj_get. qL_go. Qed.
Global Hint Resolve qL_m_load qL_m_load_latest qL_m_store qL_kms_encrypt qL_kms_decrypt qL_aead_encrypt qL_aead_decrypt qL_secret_bytes qL_kobj_get : qL.
Lemma qL_key_bytes k : qL (key_bytes k). Proof. unfold key_bytes. qL_go. Qed.
Lemma qL_get_cache cid : qL (get_cache cid). Proof. unfold get_cache. qL_go. Qed.
Global Hint Resolve qL_key_bytes qL_get_cache : qL.
Lemma qL_reload_required e rci : qL (reload_required e rci). Proof. unfold reload_required. qL_go. Qed.
Lemma qL_is_key_invalid k e : qL (is_key_invalid k e). Proof. unfold is_key_invalid. qL_go. Qed.
Lemma qL_is_envelope_invalid e r : qL (is_envelope_invalid e r). Proof. unfold is_envelope_invalid. qL_go. Qed.
Lemma qL_must_load_latest id : qL (must_load_latest id). Proof. unfold must_load_latest. qL_go. Qed.
Lemma qL_get_factory f : qL (get_factory f). Proof. unfold get_factory. qL_go. Qed.
Lemma qL_get_session s : qL (get_session s). Proof. unfold get_session. qL_go. Qed.
Global Hint Resolve qL_reload_required qL_is_key_invalid qL_is_envelope_invalid qL_must_load_latest qL_get_factory qL_get_session : qL.
Lemma qL_session_env s : qL (session_env s). Proof. unfold session_env. qL_go. Qed.
Lemma qL_decrypt_row ik k d : qL (decrypt_row ik k d). Proof. unfold decrypt_row. qL_go. Qed.
Global Hint Resolve qL_session_env qL_decrypt_row : qL.


Lemma kobj_modify_run k g w o : nth_error (w_kobjs w) k = Some o -> kobj_modify k g w = (inr o, with_kobjs (set_nth k (g o) (w_kobjs w)) w).
Proof. intro E. unfold kobj_modify. rewrite E. reflexivity. Qed.

Lemma kobj_modify_none k g w : nth_error (w_kobjs w) k = None -> kobj_modify k g w = (inl ErrPanic, w).
Proof. intro E. unfold kobj_modify. rewrite E. reflexivity. Qed.

Lemma open_exists w k : open_k w k -> exists o, nth_error (w_kobjs w) k = Some o /\ ko_once o = false.
Proof. intros [o [sc [X [Y _]]]]. exists o. split; assumption. Qed.

Lemma ck_close_ok k w o : nth_error (w_kobjs w) k = Some o -> exists w', ck_close k w = (inr tt, w').
Proof.
  intro Ek. unfold ck_close, bind. rewrite (kobj_modify_run k _ w o Ek). destruct (ko_once o); [eexists; reflexivity|].
  unfold secret_close, bind, secret_mark_closed. wsimpl. destruct (nth_error (w_secrets w) (ko_secret o)); cbn [fst snd]; eexists; reflexivity.
Qed.


Definition sameF (w w' : world) : Prop := w_factories w' = w_factories w /\ w_faults w' = w_faults w.
Lemma sameF_refl w : sameF w w. Proof. split; reflexivity. Qed.
Lemma sameF_trans a b c : sameF a b -> sameF b c -> sameF a c. Proof. unfold sameF. intros [A1 A2] [B1 B2]. split; congruence. Qed.
Definition qF {A} (m : M A) : Prop := qu sameF m.
Lemma qF_ret {A} (a : A) : qF (ret a). Proof. apply (qu_ret sameF sameF_refl). Qed.
Lemma qF_fail {A} e : qF (@fail A e). Proof. apply (qu_fail sameF sameF_refl). Qed.
Lemma qF_gets {A} (f : world -> A) : qF (gets f). Proof. apply (qu_gets sameF sameF_refl). Qed.
Lemma qF_bind {A B} (m : M A) (f : A -> M B) : qF m -> (forall a, qF (f a)) -> qF (bind m f). Proof. apply (qu_bind sameF sameF_trans). Qed.
Lemma qF_finally {A} (m : M A) (c : M unit) : qF m -> qF c -> qF (finally m c). Proof. apply (qu_finally sameF sameF_trans). Qed.
Lemma qF_try {A} (m : M A) : qF m -> qF (try_ m). Proof. apply (qu_try sameF). Qed.
Lemma qF_emit e : qF (emit e). Proof. intro w. split; reflexivity. Qed.
Lemma qF_next_call : qF next_call. Proof. intro w. split; reflexivity. Qed.
Lemma qF_bump_nonce : qF bump_nonce. Proof. intro w. split; reflexivity. Qed.
Lemma qF_store_insert id c r : qF (store_insert id c r). Proof. intro w. unfold store_insert. destruct (store_find id c (w_store w)); split; reflexivity. Qed.
Lemma qF_secret_alloc m : qF (secret_alloc m). Proof. intro w. split; reflexivity. Qed.
Lemma qF_secret_mark_closed sid : qF (secret_mark_closed sid). Proof. intro w. unfold secret_mark_closed. destruct (nth_error (w_secrets w) sid); split; reflexivity. Qed.
Lemma qF_kobj_alloc o : qF (kobj_alloc o). Proof. intro w. split; reflexivity. Qed.
Lemma qF_kobj_modify k g : qF (kobj_modify k g). Proof. intro w. unfold kobj_modify. destruct (nth_error (w_kobjs w) k); split; reflexivity. Qed.
Lemma qF_put_cache cid c : qF (put_cache cid c). Proof. intro w. split; reflexivity. Qed.
Lemma qF_put_session s x : qF (put_session s x). Proof. intro w. split; reflexivity. Qed.
Global Hint Resolve qF_emit qF_next_call qF_bump_nonce qF_store_insert qF_secret_alloc qF_secret_mark_closed qF_kobj_alloc qF_kobj_modify qF_put_cache qF_put_session : qF.

Ltac qF_step :=
  first
    [ solve [auto with qF]
    | apply qF_ret | apply qF_fail | apply qF_gets
    | apply qF_bind; [|intro]
    | apply qF_finally
    | apply qF_try
    | match goal with
      | |- qF (match ?x with _ => _ end) => destruct x
      | |- qF (let '(_, _) := ?x in _) => destruct x
      | |- qF (if ?x then _ else _) => destruct x
      end ].
Ltac qF_go := repeat qF_step.

Lemma qF_get_now : qF get_now. Proof. apply qF_gets. Qed.
Lemma qF_get_store : qF get_store. Proof. apply qF_gets. Qed.
Lemma qF_get_secrets : qF get_secrets. Proof. apply qF_gets. Qed.
Lemma qF_get_kobjs : qF get_kobjs. Proof. apply qF_gets. Qed.
Lemma qF_secret_count : qF secret_count. Proof. apply qF_gets. Qed.
Global Hint Resolve qF_get_now qF_get_store qF_get_secrets qF_get_kobjs qF_secret_count : qF.
Lemma qF_m_load id c : qF (m_load id c). Proof. unfold m_load. qF_go. Qed.
Lemma qF_m_load_latest id : qF (m_load_latest id). Proof. unfold m_load_latest. qF_go. Qed.
Lemma qF_m_store id c r : qF (m_store id c r). Proof. unfold m_store. qF_go. Qed.
Lemma qF_kms_encrypt p : qF (kms_encrypt p). Proof. unfold kms_encrypt. qF_go. Qed.
Lemma qF_kms_decrypt c : qF (kms_decrypt c). Proof. unfold kms_decrypt. qF_go. Qed.
Lemma qF_aead_encrypt p k : qF (aead_encrypt p k). Proof. unfold aead_encrypt. qF_go. Qed.
Lemma qF_aead_decrypt c k : qF (aead_decrypt c k). Proof. unfold aead_decrypt. qF_go. Qed.
Lemma qF_secret_new m : qF (secret_new m). Proof. unfold secret_new. qF_go. Qed.
Lemma qF_secret_random : qF secret_random. Proof. unfold secret_random. qF_go. Qed.
Lemma qF_secret_close sid : qF (secret_close sid). Proof. unfold secret_close. qF_go. Qed.
Lemma qF_secret_bytes sid : qF (secret_bytes sid). Proof. unfold secret_bytes. qF_go. Qed.
Lemma qF_kobj_get k : qF (kobj_get k). Proof. unfold kobj_get. qF_go. Qed.
Global Hint Resolve qF_m_load qF_m_load_latest qF_m_store qF_kms_encrypt qF_kms_decrypt qF_aead_encrypt qF_aead_decrypt qF_secret_new
  qF_secret_random qF_secret_close qF_secret_bytes qF_kobj_get : qF.
Lemma qF_ck_close k : qF (ck_close k). Proof. unfold ck_close. qF_go. Qed.
Global Hint Resolve qF_ck_close : qF.
Lemma qF_cck_close k : qF (cck_close k). Proof. unfold cck_close. qF_go. Qed.
Lemma qF_cck_increment k : qF (cck_increment k). Proof. unfold cck_increment. qF_go. Qed.
Lemma qF_ck_set_revoked k b : qF (ck_set_revoked k b). Proof. unfold ck_set_revoked. qF_go. Qed.
Lemma qF_cck_wrap k : qF (cck_wrap k). Proof. unfold cck_wrap. qF_go. Qed.
Global Hint Resolve qF_cck_close qF_cck_increment qF_ck_set_revoked qF_cck_wrap : qF.
Lemma qF_key_bytes k : qF (key_bytes k). Proof. unfold key_bytes. qF_go. Qed.
Lemma qF_new_crypto_key c r m : qF (new_crypto_key c r m). Proof. unfold new_crypto_key. qF_go. Qed.
Lemma qF_generate_key c : qF (generate_key c). Proof. unfold generate_key. qF_go. Qed.
Lemma qF_get_cache cid : qF (get_cache cid). Proof. unfold get_cache. qF_go. Qed.
Global Hint Resolve qF_key_bytes qF_new_crypto_key qF_generate_key qF_get_cache : qF.
Lemma qF_kc_read cid m : qF (kc_read cid m). Proof. unfold kc_read. qF_go. Qed.
Lemma qF_reload_required e rci : qF (reload_required e rci). Proof. unfold reload_required. qF_go. Qed.
Global Hint Resolve qF_kc_read qF_reload_required : qF.
Lemma qF_kc_get_fresh cid rci m : qF (kc_get_fresh cid rci m). Proof. unfold kc_get_fresh. qF_go. Qed.
Lemma qF_closes l : qF (closes l). Proof. unfold closes. induction l as [|x l IH]; cbn [fold_right]; qF_go. Qed.
Global Hint Resolve qF_kc_get_fresh qF_closes : qF.
Lemma qF_kc_write cid m e : qF (kc_write cid m e). Proof. unfold kc_write. qF_go. Qed.
Global Hint Resolve qF_kc_write : qF.
Lemma qF_kc_load cid m loader : (forall x, qF (loader x)) -> qF (kc_load cid m loader). Proof. intro H. unfold kc_load. qF_go. Qed.
Lemma qF_is_key_invalid k e : qF (is_key_invalid k e). Proof. unfold is_key_invalid. qF_go. Qed.
Global Hint Resolve qF_is_key_invalid : qF.
Lemma qF_get_or_load c rci m loader : (forall x, qF (loader x)) -> qF (get_or_load c rci m loader).
Proof. intro H. unfold get_or_load. qF_go; apply qF_kc_load; exact H. Qed.
Lemma qF_get_or_load_latest c rci ex id loader : (forall x, qF (loader x)) -> qF (get_or_load_latest c rci ex id loader).
Proof. intro H. unfold get_or_load_latest. qF_go; try apply qF_kc_load; exact H. Qed.
Lemma qF_is_envelope_invalid e r : qF (is_envelope_invalid e r). Proof. unfold is_envelope_invalid. qF_go. Qed.
Lemma qF_generate_key_now e : qF (generate_key_now e). Proof. unfold generate_key_now. qF_go. Qed.
Lemma qF_system_key_from_ekr r : qF (system_key_from_ekr r). Proof. unfold system_key_from_ekr. qF_go. Qed.
Global Hint Resolve qF_is_envelope_invalid qF_generate_key_now qF_system_key_from_ekr : qF.
Lemma qF_load_system_key m : qF (load_system_key m). Proof. unfold load_system_key. qF_go. Qed.
Global Hint Resolve qF_load_system_key : qF.
Lemma qF_get_or_load_system_key e m : qF (get_or_load_system_key e m).
Proof. unfold get_or_load_system_key. apply qF_get_or_load. intro. apply qF_load_system_key. Qed.
Global Hint Resolve qF_get_or_load_system_key : qF.
Lemma qF_intermediate_key_from_ekr e sk r : qF (intermediate_key_from_ekr e sk r). Proof. unfold intermediate_key_from_ekr. qF_go. Qed.
Lemma qF_try_store_system_key e sk : qF (try_store_system_key e sk). Proof. unfold try_store_system_key. qF_go. Qed.
Lemma qF_must_load_latest id : qF (must_load_latest id). Proof. unfold must_load_latest. qF_go. Qed.
Global Hint Resolve qF_intermediate_key_from_ekr qF_try_store_system_key qF_must_load_latest : qF.
Lemma qF_load_latest_or_create_system_key e id : qF (load_latest_or_create_system_key e id). Proof. unfold load_latest_or_create_system_key. qF_go. Qed.
Lemma qF_try_store_intermediate_key e ik sk : qF (try_store_intermediate_key e ik sk). Proof. unfold try_store_intermediate_key. qF_go. Qed.
Global Hint Resolve qF_load_latest_or_create_system_key qF_try_store_intermediate_key : qF.
Lemma qF_create_ik_with_sk e sk : qF (create_ik_with_sk e sk). Proof. unfold create_ik_with_sk. qF_go. Qed.
Global Hint Resolve qF_create_ik_with_sk : qF.
Lemma qF_create_intermediate_key e : qF (create_intermediate_key e).
Proof. unfold create_intermediate_key. apply qF_bind; [apply qF_get_or_load_latest; intro; apply qF_load_latest_or_create_system_key | intro sk; qF_go]. Qed.
Global Hint Resolve qF_create_intermediate_key : qF.
Lemma qF_get_valid_intermediate_key e sk r : qF (get_valid_intermediate_key e sk r). Proof. unfold get_valid_intermediate_key. qF_go. Qed.
Global Hint Resolve qF_get_valid_intermediate_key : qF.
Lemma qF_load_latest_or_create_intermediate_key e id : qF (load_latest_or_create_intermediate_key e id). Proof. unfold load_latest_or_create_intermediate_key. qF_go. Qed.
Lemma qF_load_intermediate_key e m : qF (load_intermediate_key e m). Proof. unfold load_intermediate_key. qF_go. Qed.
Global Hint Resolve qF_load_latest_or_create_intermediate_key qF_load_intermediate_key : qF.
Lemma qF_encrypt_with_ik e ik p : qF (encrypt_with_ik e ik p). Proof. unfold encrypt_with_ik. qF_go. Qed.
Global Hint Resolve qF_encrypt_with_ik : qF.
Lemma qF_encrypt_payload e p : qF (encrypt_payload e p).
Proof. unfold encrypt_payload. apply qF_bind; [apply qF_get_or_load_latest; intro; apply qF_load_latest_or_create_intermediate_key | intro ik; qF_go]. Qed.
Lemma qF_decrypt_row ik k d : qF (decrypt_row ik k d). Proof. unfold decrypt_row. qF_go. Qed.
Global Hint Resolve qF_decrypt_row : qF.
Lemma qF_decrypt_data_row_record e r : qF (decrypt_data_row_record e r).
Proof. unfold decrypt_data_row_record. qF_go. apply qF_get_or_load. intro. apply qF_load_intermediate_key. Qed.
Lemma qF_get_factory f : qF (get_factory f). Proof. unfold get_factory. qF_go. Qed.
Lemma qF_get_session s : qF (get_session s). Proof. unfold get_session. qF_go. Qed.
Global Hint Resolve qF_get_factory qF_get_session : qF.
Lemma qF_session_env s : qF (session_env s). Proof. unfold session_env. qF_go. Qed.

(* ---- total correctness: no failure when no fault is planned -------------------------------------------------- *)

Definition NF (w : world) : Prop := w_faults w = [].
Definition noerr {A} (P : world -> Prop) (m : M A) : Prop := forall w, P w -> exists a w', m w = (inr a, w').

Lemma noerr_ret {A} (P : world -> Prop) (a : A) : noerr P (ret a).
Proof. intros w _. exists a, w. reflexivity. Qed.

Lemma noerr_pre {A} (P P' : world -> Prop) (m : M A) : noerr P' m -> (forall w, P w -> P' w) -> noerr P m.
Proof. intros H HP w Hw. exact (H w (HP w Hw)). Qed.

Lemma noerr_bind {A B} (P : world -> Prop) (m : M A) (Q1 : A -> world -> Prop) (E : world -> Prop) (f : A -> M B) :
  noerr P m -> hoare P m Q1 E -> (forall a, noerr (Q1 a) (f a)) -> noerr P (bind m f).
Proof.
  intros Nm Hm Nf w Hw. destruct (Nm w Hw) as [a [w1 Em]]. specialize (Hm w Hw). rewrite Em in Hm.
  destruct (Nf a w1 Hm) as [b [w2 Ef]]. exists b, w2. unfold bind. rewrite Em. exact Ef.
Qed.

Lemma noerr_finally {A} (P : world -> Prop) (m : M A) (c : M unit) : noerr P m -> noerr P (finally m c).
Proof. intros Nm w Hw. destruct (Nm w Hw) as [a [w1 Em]]. exists a, (snd (c w1)). unfold finally. rewrite Em. reflexivity. Qed.

Lemma noerr_ex {A X} (P : X -> world -> Prop) (m : M A) : (forall x, noerr (P x) m) -> noerr (fun w => exists x, P x w) m.
Proof. intros H w [x Hw]. exact (H x w Hw). Qed.

Lemma noerr_pure {A} (phi : Prop) (P : world -> Prop) (m : M A) : (phi -> noerr P m) -> noerr (fun w => phi /\ P w) m.
Proof. intros H w [Hp Hw]. exact (H Hp w Hw). Qed.

Lemma noerr_pull {A} (P : world -> Prop) (phi : Prop) (m : M A) : (forall w, P w -> phi) -> (phi -> noerr P m) -> noerr P m.
Proof. intros H1 H2 w Hw. exact (H2 (H1 w Hw) w Hw). Qed.

Lemma hoare_NF {A} (m : M A) : qF m -> hoare NF m (fun _ w => NF w) NF.
Proof. intros Q w Hw. specialize (Q w). destruct (m w) as [[e|a] w1]; cbn [snd] in Q; unfold NF in *; rewrite (proj2 Q); exact Hw. Qed.

(* a triple that also keeps "no fault planned" *)
Lemma hoare_nf {A} (P : world -> Prop) (m : M A) (Q : A -> world -> Prop) (E : world -> Prop) :
  qF m -> hoare P m Q E -> hoare (fun w => P w /\ NF w) m (fun a w => Q a w /\ NF w) (fun _ => True).
Proof.
  intros QF H. eapply hoare_weaken; [exact (hoare_conj _ _ _ _ _ _ _ H (hoare_NF m QF)) | | |]; cbv beta; tauto.
Qed.

Lemma next_call_nf w : NF w -> next_call w = (inr None, with_calls (S (w_calls w)) w).
Proof. intro H. unfold next_call. rewrite H. reflexivity. Qed.

Lemma n_m_load id c : noerr NF (m_load id c).
Proof. intros w H. unfold m_load, bind. rewrite (next_call_nf w H). eexists; eexists; reflexivity. Qed.
Lemma n_m_load_latest id : noerr NF (m_load_latest id).
Proof. intros w H. unfold m_load_latest, bind. rewrite (next_call_nf w H). eexists; eexists; reflexivity. Qed.
Lemma n_kms_decrypt c p : kms_open c = Some p -> noerr NF (kms_decrypt c).
Proof. intros O w H. unfold kms_decrypt, bind. rewrite (next_call_nf w H), O. eexists; eexists; reflexivity. Qed.
Lemma n_aead_decrypt c key p : aead_open key c = Some p -> noerr NF (aead_decrypt c key).
Proof. intros O w H. unfold aead_decrypt, bind. rewrite (next_call_nf w H), O. eexists; eexists; reflexivity. Qed.
Lemma n_new_crypto_key cr rv mat : noerr NF (new_crypto_key cr rv mat).
Proof. intros w H. unfold new_crypto_key, secret_new, bind. rewrite (next_call_nf w H). eexists; eexists; reflexivity. Qed.

Definition exists_k (w : world) (k : nat) : Prop := exists o, nth_error (w_kobjs w) k = Some o.
Lemma open_exists_k w k : open_k w k -> exists_k w k.
Proof. intros [o [sc [X _]]]. exists o. exact X. Qed.

Lemma n_kobj_get k : noerr (fun w => exists_k w k) (kobj_get k).
Proof. intros w [o E]. unfold kobj_get, bind, get_kobjs, gets. cbn. rewrite E. eexists; eexists; reflexivity. Qed.
Lemma n_key_bytes k : noerr (fun w => open_k w k) (key_bytes k).
Proof.
  intros w [o [sc [A1 [A2 [A3 A4]]]]]. unfold key_bytes, bind, kobj_get, get_kobjs, gets, secret_bytes, get_secrets. cbn. rewrite A1. cbn. rewrite A3, A4.
  eexists; eexists; reflexivity.
Qed.
Lemma n_kobj_modify_ret k g : noerr (fun w => exists_k w k) (kobj_modify k g;;; ret tt).
Proof. intros w [o E]. unfold bind. rewrite (kobj_modify_run k g w o E). eexists; eexists; reflexivity. Qed.
Lemma n_cck_wrap k : noerr (fun w => exists_k w k) (cck_wrap k). Proof. apply n_kobj_modify_ret. Qed.
Lemma n_cck_increment k : noerr (fun w => exists_k w k) (cck_increment k). Proof. apply n_kobj_modify_ret. Qed.
Lemma n_ck_set_revoked k b : noerr (fun w => exists_k w k) (ck_set_revoked k b). Proof. apply n_kobj_modify_ret. Qed.
Lemma n_ck_close k : noerr (fun w => exists_k w k) (ck_close k).
Proof. intros w [o E]. destruct (ck_close_ok k w o E) as [w' X]. exists tt, w'. exact X. Qed.
Lemma n_cck_close k : noerr (fun w => exists_k w k) (cck_close k).
Proof.
  intros w [o E]. unfold cck_close, bind. rewrite (kobj_modify_run k _ w o E). destruct (ko_refs o - 1 >? 0); [eexists; eexists; reflexivity|].
  assert (E1 : nth_error (w_kobjs (with_kobjs (set_nth k (ko_with_refs (fun r => r - 1) o) (w_kobjs w)) w)) k = Some (ko_with_refs (fun r => r - 1) o))
    by (wsimpl; eapply nth_error_set_nth_same; exact E).
  destruct (ck_close_ok k _ _ E1) as [w' X]. exists tt, w'. exact X.
Qed.
Lemma n_get_cache cid : noerr (fun w => exists kc, nth_error (w_caches w) cid = Some kc) (get_cache cid).
Proof. intros w [kc E]. unfold get_cache, bind, gets. cbn. rewrite E. eexists; eexists; reflexivity. Qed.
Lemma n_get_now (P : world -> Prop) : noerr P get_now. Proof. intros w _. eexists; eexists; reflexivity. Qed.


(* ---- everything below is relative to a set D of dead (closed) key caches ------------------------------------------- *)
Section LiveD.
Variable Dd : nat -> Prop.
Notation centry_at := (centry_at Dd).
Notation cached := (cached Dd).
Notation LInv := (LInv Dd).
Notation LInv_same := (LInv_same Dd).
Definition cache_live (c : option nat) : Prop := forall cid, c = Some cid -> ~ Dd cid.
Definition env_live (e : env) : Prop := cache_live (en_sk e) /\ cache_live (en_ik e).
Definition stableL (F : world -> Prop) : Prop := forall w w', same_live w w' -> F w -> F w'.

Lemma hoare_qL {A} (m : M A) (F E : world -> Prop) : qL m -> stableL F -> (forall w, F w -> E w) -> hoare F m (fun _ => F) E.
Proof.
  intros Q S HE w Hw. specialize (Q w). destruct (m w) as [[e|a] w1]; cbn [snd] in Q; [apply HE|]; eapply S; eassumption.
Qed.

Lemma stableL_LInv Ex H : stableL (LInv Ex H).
Proof. intros w w' S. apply LInv_same. exact S. Qed.

(* ---- key objects --------------------------------------------------------------------------------- *)

Definition freshk (Ex : nat -> str -> Prop) (H : holds) (w : world) (k : nat) : Prop := open_k w k /\ ~ cached Ex w k /\ H k = 0.

Lemma cached_caches Ex w w' k : w_caches w' = w_caches w -> cached Ex w' k -> cached Ex w k.
Proof. intros E [cid [ks [e [[ND [kc [X Y]]] Z]]]]. exists cid, ks, e. split; [split; [exact ND|]; exists kc; rewrite <- E; split; assumption | exact Z]. Qed.

Lemma unallocated_free Ex H w k : LInv Ex H w -> nth_error (w_kobjs w) k = None -> ~ cached Ex w k /\ H k = 0.
Proof.
  intros L N. split.
  - intro C. destruct (l_cached Dd Ex H w L k C) as [[o [sc [X _]]] _]. congruence.
  - destruct (Z_gt_le_dec (H k) 0) as [G|Le]; [|pose proof (l_nonneg Dd Ex H w L k); lia].
    destruct (l_held Dd Ex H w L k G) as [[o [sc [X _]]] _]. congruence.
Qed.

(* appending a fresh secret and a fresh object *)
Lemma LInv_alloc Ex H w mat o :
  LInv Ex H w -> ko_secret o = length (w_secrets w) -> ko_once o = false ->
  let w' := with_kobjs (w_kobjs w ++ [o]) (with_secrets (w_secrets w ++ [{| s_mat := mat; s_closed := false |}]) w) in
  LInv Ex H w' /\ freshk Ex H w' (length (w_kobjs w)).
Proof.
  intros L Es Eo w'. pose proof L as [A B C D E F G G2].
  assert (Nk : nth_error (w_kobjs w) (length (w_kobjs w)) = None) by (apply nth_error_None; lia).
  destruct (unallocated_free Ex H w (length (w_kobjs w)) L Nk) as [NC H0].
  assert (OK : forall k, open_k w k -> open_k w' k).
  { intros k [o0 [sc [X [Y [Z1 Z2]]]]]. exists o0, sc. unfold w'. wsimpl. split; [apply nth_error_app_l; exact X|]. split; [exact Y|].
    split; [apply nth_error_app_l; exact Z1 | exact Z2]. }
  assert (RG : forall k n, refs_ge w k n -> refs_ge w' k n).
  { intros k n [o0 [X Y]]. exists o0. unfold w'. wsimpl. split; [apply nth_error_app_l; exact X | exact Y]. }
  assert (CE : forall cid ks e, centry_at w' cid ks e -> centry_at w cid ks e) by (intros cid ks e X; exact X).
  assert (Old : forall k o0, nth_error (w_kobjs w ++ [o]) k = Some o0 -> nth_error (w_kobjs w) k = Some o0 \/ (k = length (w_kobjs w) /\ o0 = o)).
  { intros k o0 X. destruct (lt_dec k (length (w_kobjs w))) as [Lt|Ge]; [left; rewrite nth_error_app1 in X by exact Lt; exact X|].
    right. assert (k = length (w_kobjs w)) by (assert (k < length (w_kobjs w ++ [o]))%nat by (apply nth_error_Some; congruence); rewrite app_length in H1; cbn in H1; lia).
    subst k. rewrite nth_error_app2 in X by lia. rewrite Nat.sub_diag in X. inversion X. split; reflexivity. }
  split.
  - constructor.
    + intros k Ck. destruct (A k Ck) as [P Q]. split; auto.
    + intros k Hk. destruct (B k Hk) as [P Q]. split; auto.
    + exact C.
    + intros k k' o1 o2 X1 X2 Y. unfold w' in X1, X2. wsimpl.
      destruct (Old _ _ X1) as [O1|[K1 O1]], (Old _ _ X2) as [O2|[K2 O2]].
      * eapply D; eassumption.
      * subst. pose proof (E _ _ O1). lia.
      * subst. pose proof (E _ _ O2). lia.
      * congruence.
    + intros k o1 X. unfold w' in *. wsimpl. rewrite app_length. cbn [length]. destruct (Old _ _ X) as [O1|[K1 O1]].
      * pose proof (E _ _ O1). lia.
      * subst. lia.
    + exact F.
    + exact G.
    + exact G2.
  - split; [|split; [intro Cx; apply NC; exact Cx | exact H0]].
    exists o, {| s_mat := mat; s_closed := false |}. unfold w'. wsimpl.
    split; [rewrite nth_error_app2 by lia; rewrite Nat.sub_diag; reflexivity|]. split; [exact Eo|].
    split; [rewrite Es, nth_error_app2 by lia; rewrite Nat.sub_diag; reflexivity | reflexivity].
Qed.

Lemma open_same w w' k : same_live w w' -> open_k w k -> open_k w' k.
Proof. intros [E1 [E2 _]] [o [sc X]]. exists o, sc. rewrite E1, E2. exact X. Qed.
Lemma cached_same Ex w w' k : same_live w w' -> cached Ex w' k -> cached Ex w k.
Proof. intros [_ [_ E3]]. apply cached_caches. exact E3. Qed.
Lemma freshk_same Ex H w w' k : same_live w w' -> freshk Ex H w k -> freshk Ex H w' k.
Proof.
  intros S [A [B C]]. split; [eapply open_same; eassumption|]. split; [|exact C]. intro X. apply B. eapply cached_same; eassumption.
Qed.

Lemma new_crypto_key_L Ex H cr rv mat :
  hoare (LInv Ex H) (new_crypto_key cr rv mat) (fun k w => LInv Ex H w /\ freshk Ex H w k) (LInv Ex H).
Proof.
  intros w L. unfold new_crypto_key, secret_new, bind, next_call, secret_count, gets, emit, upd, fail, ret, secret_alloc, kobj_alloc. cbn [fst snd].
  destruct (fault_at (w_calls w) (w_faults w)); cbn [fst snd].
  - eapply LInv_same; [|exact L]. repeat split.
  - wsimpl.
    set (o := {| ko_created := cr; ko_secret := length (w_secrets w); ko_revoked := rv; ko_once := false; ko_refs := 0 |}).
    destruct (LInv_alloc Ex H w mat o L eq_refl eq_refl) as [L' F'].
    split; [eapply LInv_same; [|exact L'] | eapply freshk_same; [|exact F']]; repeat split.
Qed.

Lemma generate_key_L Ex H cr :
  hoare (LInv Ex H) (generate_key cr) (fun k w => LInv Ex H w /\ freshk Ex H w k) (LInv Ex H).
Proof.
  intros w L. unfold generate_key, secret_random, bind, next_call, secret_count, gets, emit, upd, fail, ret, secret_alloc, kobj_alloc. cbn [fst snd].
  destruct (fault_at (w_calls w) (w_faults w)); cbn [fst snd].
  - eapply LInv_same; [|exact L]. repeat split.
  - wsimpl.
    set (o := {| ko_created := cr; ko_secret := length (w_secrets w); ko_revoked := false; ko_once := false; ko_refs := 0 |}).
    destruct (LInv_alloc Ex H w (PKey (length (w_secrets w))) o L eq_refl eq_refl) as [L' F'].
    split; [eapply LInv_same; [|exact L'] | eapply freshk_same; [|exact F']]; repeat split.
Qed.

Lemma LInv_kobj_set Ex H H' w k o o' :
  LInv Ex H w -> nth_error (w_kobjs w) k = Some o -> ko_secret o' = ko_secret o ->
  (forall x, x <> k -> H' x = H x) -> H' k >= 0 ->
  (cached Ex w k -> ko_once o' = false /\ ko_refs o' >= 1 + H' k) ->
  (H' k > 0 -> ko_once o' = false /\ ko_refs o' >= H' k) ->
  (cached Ex w k \/ H' k > 0 -> open_k w k) ->
  LInv Ex H' (with_kobjs (set_nth k o' (w_kobjs w)) w).
Proof.
  intros L Ek Es Hx Hk0 Hc Hh Hop. pose proof L as [A B C D E F G G2].
  set (w' := with_kobjs (set_nth k o' (w_kobjs w)) w).
  assert (Nk : nth_error (w_kobjs w') k = Some o') by (unfold w'; wsimpl; eapply nth_error_set_nth_same; exact Ek).
  assert (No : forall x, x <> k -> nth_error (w_kobjs w') x = nth_error (w_kobjs w) x)
    by (intros x N; unfold w'; wsimpl; apply nth_error_set_nth_other; congruence).
  assert (OKo : forall x, x <> k -> open_k w x -> open_k w' x).
  { intros x N [o0 [sc [X Y]]]. exists o0, sc. rewrite (No x N). exact (conj X Y). }
  assert (OKk : ko_once o' = false -> open_k w k -> open_k w' k).
  { intros O1 [o0 [sc [X [_ [Z1 Z2]]]]]. rewrite Ek in X. inversion X; subst o0. exists o', sc. split; [exact Nk|]. split; [exact O1|]. rewrite Es. split; assumption. }
  assert (RGo : forall x n, x <> k -> refs_ge w x n -> refs_ge w' x n).
  { intros x n N [o0 [X Y]]. exists o0. rewrite (No x N). split; assumption. }
  assert (CE : forall x, cached Ex w' x -> cached Ex w x) by (intros x X; exact X).
  constructor.
  - intros x Cx. destruct (Nat.eq_dec x k) as [->|N].
    + destruct (Hc (CE _ Cx)) as [O1 R1]. split; [apply OKk; [exact O1 | apply Hop; left; exact (CE _ Cx)] | exists o'; split; [exact Nk | exact R1]].
    + destruct (A x (CE _ Cx)) as [P Q]. rewrite (Hx x N). split; [apply OKo; assumption | apply RGo; assumption].
  - intros x Hxp. destruct (Nat.eq_dec x k) as [->|N].
    + destruct (Hh Hxp) as [O1 R1]. split; [apply OKk; [exact O1 | apply Hop; right; exact Hxp] | exists o'; split; [exact Nk | exact R1]].
    + rewrite (Hx x N) in *. destruct (B x Hxp) as [P Q]. split; [apply OKo; assumption | apply RGo; assumption].
  - exact C.
  - intros x x' o1 o2 X1 X2 Y.
    assert (S1 : exists q, nth_error (w_kobjs w) x = Some q /\ ko_secret q = ko_secret o1).
    { destruct (Nat.eq_dec x k) as [->|N]; [rewrite Nk in X1; inversion X1; subst; exists o; split; [exact Ek | symmetry; exact Es] | rewrite (No x N) in X1; exists o1; split; [exact X1 | reflexivity]]. }
    assert (S2 : exists q, nth_error (w_kobjs w) x' = Some q /\ ko_secret q = ko_secret o2).
    { destruct (Nat.eq_dec x' k) as [->|N]; [rewrite Nk in X2; inversion X2; subst; exists o; split; [exact Ek | symmetry; exact Es] | rewrite (No x' N) in X2; exists o2; split; [exact X2 | reflexivity]]. }
    destruct S1 as [q1 [Q1 R1]], S2 as [q2 [Q2 R2]]. eapply D; [exact Q1 | exact Q2 | congruence].
  - intros x o1 X. unfold w' in *. wsimpl. destruct (Nat.eq_dec x k) as [->|N].
    + rewrite (nth_error_set_nth_same _ _ _ _ Ek) in X. inversion X; subst. rewrite Es. exact (E k o Ek).
    + rewrite nth_error_set_nth_other in X by congruence. exact (E x o1 X).
  - intro x. destruct (Nat.eq_dec x k) as [->|N]; [exact Hk0 | rewrite (Hx x N); exact (F x)].
  - exact G.
  - exact G2.
Qed.




Lemma cck_wrap_L Ex H k : hoare (fun w => LInv Ex H w /\ freshk Ex H w k) (cck_wrap k) (fun _ w => LInv Ex (hadd H k 1) w) (fun _ => False).
Proof.
  intros w [L [Op [NC H0]]]. destruct (open_exists w k Op) as [o [Ek Eo]].
  unfold cck_wrap, bind. rewrite (kobj_modify_run k _ w o Ek). cbn [ret].
  apply (LInv_kobj_set Ex H (hadd H k 1) w k o _ L Ek); cbn [ko_with_refs ko_secret ko_once ko_refs].
  - reflexivity.
  - intros x N. apply hadd_other. exact N.
  - rewrite hadd_same. lia.
  - intro C. contradiction.
  - intros _. rewrite hadd_same. split; [exact Eo | lia].
  - intros _. exact Op.
Qed.

Lemma cck_increment_L Ex H k :
  hoare (fun w => LInv Ex H w /\ (cached Ex w k \/ H k > 0)) (cck_increment k) (fun _ w => LInv Ex (hadd H k 1) w) (fun _ => False).
Proof.
  intros w [L Ob].
  assert (Op : open_k w k) by (destruct Ob as [C|Hk]; [exact (proj1 (l_cached Dd Ex H w L k C)) | exact (proj1 (l_held Dd Ex H w L k Hk))]).
  destruct (open_exists w k Op) as [o [Ek Eo]].
  unfold cck_increment, bind. rewrite (kobj_modify_run k _ w o Ek). cbn [ret].
  apply (LInv_kobj_set Ex H (hadd H k 1) w k o _ L Ek); cbn [ko_with_refs ko_secret ko_once ko_refs].
  - reflexivity.
  - intros x N. apply hadd_other. exact N.
  - rewrite hadd_same. pose proof (l_nonneg Dd Ex H w L k). lia.
  - intro C. rewrite hadd_same. destruct (l_cached Dd Ex H w L k C) as [_ [o0 [X Y]]]. rewrite Ek in X. inversion X; subst. split; [exact Eo | lia].
  - intros _. rewrite hadd_same. split; [exact Eo|]. destruct Ob as [C|Hk].
    + destruct (l_cached Dd Ex H w L k C) as [_ [o0 [X Y]]]. rewrite Ek in X. inversion X; subst. lia.
    + destruct (l_held Dd Ex H w L k Hk) as [_ [o0 [X Y]]]. rewrite Ek in X. inversion X; subst. lia.
  - intros _. exact Op.
Qed.

Lemma ck_set_revoked_L Ex H k b : hoare (LInv Ex H) (ck_set_revoked k b) (fun _ w => LInv Ex H w) (LInv Ex H).
Proof.
  intros w L. unfold ck_set_revoked, bind. destruct (nth_error (w_kobjs w) k) as [o|] eqn:Ek.
  - rewrite (kobj_modify_run k _ w o Ek). cbn [ret].
    apply (LInv_kobj_set Ex H H w k o _ L Ek); cbn [ko_with_revoked ko_secret ko_once ko_refs].
    + reflexivity.
    + reflexivity.
    + exact (l_nonneg Dd Ex H w L k).
    + intro C. destruct (l_cached Dd Ex H w L k C) as [[o0 [sc [X [Y _]]]] [o1 [X1 Y1]]]. rewrite Ek in X, X1. inversion X; inversion X1; subst. split; assumption.
    + intro Hk. destruct (l_held Dd Ex H w L k Hk) as [[o0 [sc [X [Y _]]]] [o1 [X1 Y1]]]. rewrite Ek in X, X1. inversion X; inversion X1; subst. split; assumption.
    + intros [C|Hk]; [exact (proj1 (l_cached Dd Ex H w L k C)) | exact (proj1 (l_held Dd Ex H w L k Hk))].
  - rewrite (kobj_modify_none k _ w Ek). exact L.
Qed.

(* closing the secret of an object nothing depends on any more *)
Lemma LInv_secret_close Ex H w k o :
  LInv Ex H w -> nth_error (w_kobjs w) k = Some o -> ~ cached Ex w k -> H k = 0 ->
  forall sc, nth_error (w_secrets w) (ko_secret o) = Some sc ->
  LInv Ex H (with_secrets (set_nth (ko_secret o) {| s_mat := s_mat sc; s_closed := true |} (w_secrets w)) w).
Proof.
  intros L Ek NC H0 sc Es. pose proof L as [A B C D E F G G2].
  set (w' := with_secrets (set_nth (ko_secret o) {| s_mat := s_mat sc; s_closed := true |} (w_secrets w)) w).
  assert (OK : forall x, x <> k -> open_k w x -> open_k w' x).
  { intros x N [o0 [sc0 [X [Y [Z1 Z2]]]]]. exists o0, sc0. unfold w'. wsimpl. split; [exact X|]. split; [exact Y|].
    rewrite nth_error_set_nth_other; [split; assumption|]. intro Eq. apply N. symmetry. eapply D; [exact Ek | exact X | exact Eq]. }
  constructor.
  - intros x Cx. destruct (Nat.eq_dec x k) as [->|N]; [contradiction|]. destruct (A x Cx) as [P Q]. split; [apply OK; assumption | exact Q].
  - intros x Hx. destruct (Nat.eq_dec x k) as [->|N]; [lia|]. destruct (B x Hx) as [P Q]. split; [apply OK; assumption | exact Q].
  - exact C.
  - exact D.
  - intros x o1 X. unfold w'. wsimpl. rewrite set_nth_length. exact (E x o1 X).
  - exact F.
  - exact G.
  - exact G2.
Qed.

Lemma ck_close_L Ex H k :
  hoare (fun w => LInv Ex H w /\ ~ cached Ex w k /\ H k = 0) (ck_close k) (fun _ w => LInv Ex H w) (LInv Ex H).
Proof.
  intros w [L [NC H0]]. unfold ck_close, bind. destruct (nth_error (w_kobjs w) k) as [o|] eqn:Ek.
  - rewrite (kobj_modify_run k _ w o Ek).
    assert (L1 : LInv Ex H (with_kobjs (set_nth k (ko_with_once true o) (w_kobjs w)) w)).
    { apply (LInv_kobj_set Ex H H w k o _ L Ek); cbn [ko_with_once ko_secret ko_once ko_refs].
      - reflexivity.
      - reflexivity.
      - lia.
      - intro C. contradiction.
      - intro Hk. lia.
      - intros [C|Hk]; [contradiction | lia]. }
    destruct (ko_once o); [exact L1|].
    unfold secret_close, bind, secret_mark_closed. wsimpl.
    destruct (nth_error (w_secrets w) (ko_secret o)) as [sc|] eqn:Es; cbn [fst snd].
    + unfold emit, upd. cbn [fst snd].
      set (w1 := with_kobjs (set_nth k (ko_with_once true o) (w_kobjs w)) w) in *.
      assert (Ek1 : nth_error (w_kobjs w1) k = Some (ko_with_once true o)) by (unfold w1; wsimpl; eapply nth_error_set_nth_same; exact Ek).
      pose proof (LInv_secret_close Ex H w1 k _ L1 Ek1 NC H0 sc Es) as L2. cbn [ko_with_once ko_secret] in L2.
      eapply LInv_same; [|exact L2]. repeat split.
    + exact L1.
  - rewrite (kobj_modify_none k _ w Ek). exact L.
Qed.


(* releasing a hold *)
Lemma cck_close_L Ex H k :
  hoare (fun w => LInv Ex H w /\ H k > 0) (cck_close k) (fun _ w => LInv Ex (hadd H k (-1)) w) (fun _ => False).
Proof.
  intros w [L Hk]. destruct (l_held Dd Ex H w L k Hk) as [Op [o [Ek Rk]]]. destruct (open_exists w k Op) as [o0 [Ek0 Eo]].
  rewrite Ek in Ek0. inversion Ek0; subst o0.
  unfold cck_close, bind. rewrite (kobj_modify_run k _ w o Ek).
  set (w1 := with_kobjs (set_nth k (ko_with_refs (fun r => r - 1) o) (w_kobjs w)) w).
  assert (L1 : LInv Ex (hadd H k (-1)) w1).
  { apply (LInv_kobj_set Ex H (hadd H k (-1)) w k o _ L Ek); cbn [ko_with_refs ko_secret ko_once ko_refs].
    - reflexivity.
    - intros x N. apply hadd_other. exact N.
    - rewrite hadd_same. lia.
    - intro C. rewrite hadd_same. destruct (l_cached Dd Ex H w L k C) as [_ [o1 [X Y]]]. rewrite Ek in X. inversion X; subst. split; [exact Eo | lia].
    - intros _. rewrite hadd_same. split; [exact Eo | lia].
    - intros _. exact Op. }
  destruct (ko_refs o - 1 >? 0) eqn:Gt; [exact L1|].
  assert (Le : ko_refs o - 1 <= 0) by (destruct (Z.gtb_spec (ko_refs o - 1) 0); [discriminate | assumption]).
  assert (Ek1 : nth_error (w_kobjs w1) k = Some (ko_with_refs (fun r => r - 1) o)) by (unfold w1; wsimpl; eapply nth_error_set_nth_same; exact Ek).
  assert (NC : ~ cached Ex w1 k).
  { intro C. destruct (l_cached _ _ _ _ L1 k C) as [_ [o1 [X Y]]]. rewrite Ek1 in X.
    inversion X; subst. cbn [ko_with_refs ko_refs] in Y. rewrite hadd_same in Y. lia. }
  assert (H0 : hadd H k (-1) k = 0) by (rewrite hadd_same; lia).
  pose proof (ck_close_L Ex (hadd H k (-1)) k w1 (conj L1 (conj NC H0))) as X.
  destruct (ck_close_ok k w1 _ Ek1) as [w2 Eq]. rewrite Eq in *. exact X.
Qed.

(* ---- caches ------------------------------------------------------------------------------------------ *)

Definition NoX : nat -> str -> Prop := fun _ _ => False.
Definition Xat (cid : nat) (ks : str) : nat -> str -> Prop := fun c s => c = cid /\ s = ks.

Fixpoint hadds (H : holds) (l : list (str * centry)) : holds :=
  match l with
  | [] => H
  | (_, e) :: r => hadds (hadd H (ce_key e) 1) r
  end.

Lemma centry_put w cid kc' cid0 ks e :
  centry_at (with_caches (set_nth cid kc' (w_caches w)) w) cid0 ks e ->
  (cid0 <> cid /\ centry_at w cid0 ks e) \/ (cid0 = cid /\ ~ Dd cid /\ b_abs (kc_backing kc') ks = Some e /\ exists kc, nth_error (w_caches w) cid = Some kc).
Proof.
  intros [ND [kc0 [X Y]]]. wsimpl. rewrite nth_error_set_nth in X. destruct (Nat.eqb cid cid0) eqn:E.
  - apply Nat.eqb_eq in E. subst cid0. destruct (nth_error (w_caches w) cid) as [kc|] eqn:Ec; [|discriminate]. inversion X; subst kc0.
    right. split; [reflexivity|]. split; [exact ND|]. split; [exact Y | exists kc; reflexivity].
  - apply Nat.eqb_neq in E. left. split; [congruence | split; [exact ND | exists kc0; split; assumption]].
Qed.

(* replacing a cache by one that holds the same objects under the same keys (Get reorders; a refresh restamps) *)
Lemma LInv_put_same Ex H w cid kc kc' :
  LInv Ex H w -> nth_error (w_caches w) cid = Some kc ->
  (forall x e', b_abs (kc_backing kc') x = Some e' -> exists e, b_abs (kc_backing kc) x = Some e /\ ce_key e = ce_key e') ->
  (forall c, kc_backing kc' = BCache c -> closing c = false) -> b_good (kc_backing kc') ->
  LInv Ex H (with_caches (set_nth cid kc' (w_caches w)) w).
Proof.
  intros L Ec Same Op Gd. pose proof L as [A B C D E F G G2].
  set (w' := with_caches (set_nth cid kc' (w_caches w)) w).
  assert (Back : forall cid0 ks e', centry_at w' cid0 ks e' -> exists e, centry_at w cid0 ks e /\ ce_key e = ce_key e').
  { intros cid0 ks e' X. destruct (centry_put w cid kc' cid0 ks e' X) as [[N Y]|[-> [ND [Y _]]]].
    - exists e'. split; [exact Y | reflexivity].
    - destruct (Same ks e' Y) as [e [Z1 Z2]]. exists e. split; [split; [exact ND|]; exists kc; split; assumption | exact Z2]. }
  assert (CB : forall k, cached Ex w' k -> cached Ex w k).
  { intros k [cid0 [ks [e' [X [NX Y]]]]]. destruct (Back _ _ _ X) as [e [Z1 Z2]]. exists cid0, ks, e. split; [exact Z1|]. split; [exact NX | congruence]. }
  constructor.
  - intros k Ck. exact (A k (CB k Ck)).
  - exact B.
  - intros c1 s1 e1 c2 s2 e2 X1 X2 Y. destruct (Back _ _ _ X1) as [f1 [Z1 W1]], (Back _ _ _ X2) as [f2 [Z2 W2]].
    eapply C; [exact Z1 | exact Z2 | congruence].
  - exact D.
  - exact E.
  - exact F.
  - intros cid0 kc0 c ND0 X Y. unfold w' in X. wsimpl. rewrite nth_error_set_nth in X. destruct (Nat.eqb cid cid0) eqn:Eq.
    + destruct (nth_error (w_caches w) cid); [|discriminate]. inversion X; subst. exact (Op c Y).
    + exact (G cid0 kc0 c ND0 X Y).
  - intros cid0 kc0 ND0 X. unfold w' in X. wsimpl. rewrite nth_error_set_nth in X. destruct (Nat.eqb cid cid0) eqn:Eq.
    + destruct (nth_error (w_caches w) cid); [|discriminate]. inversion X; subst. exact Gd.
    + exact (G2 cid0 kc0 ND0 X).
Qed.

(* the entry at (cid, ks) is about to be replaced: its cache reference is now an ordinary hold *)
Lemma LInv_open_hole H w cid ks e :
  LInv NoX H w -> centry_at w cid ks e -> LInv (Xat cid ks) (hadd H (ce_key e) 1) w.
Proof.
  intros L Ce. pose proof L as [A B C D E F G G2]. set (k0 := ce_key e).
  assert (C0 : cached NoX w k0) by (exists cid, ks, e; split; [exact Ce | split; [intros [] | reflexivity]]).
  constructor.
  - intros k [c1 [s1 [e1 [X [NX Y]]]]].
    assert (Nk : k <> k0).
    { intro Eq. rewrite Eq in Y. destruct (C c1 s1 e1 cid ks e X Ce Y) as [E1 E2]. apply NX. split; assumption. }
    rewrite (hadd_other H k0 1 k Nk). apply A. exists c1, s1, e1. split; [exact X | split; [intros [] | exact Y]].
  - intros k Hk. destruct (Nat.eq_dec k k0) as [->|Nk].
    + rewrite hadd_same. destruct (A k0 C0) as [P [o [Q R]]]. split; [exact P | exists o; split; [exact Q | lia]].
    + rewrite (hadd_other H k0 1 k Nk) in *. exact (B k Hk).
  - exact C.
  - exact D.
  - exact E.
  - intro k. destruct (Nat.eq_dec k k0) as [->|Nk]; [rewrite hadd_same; pose proof (F k0); lia | rewrite (hadd_other H k0 1 k Nk); exact (F k)].
  - exact G.
  - exact G2.
Qed.

Fixpoint cntk (l : list (str * centry)) (x : nat) : Z :=
  match l with
  | [] => 0
  | (_, e) :: r => (if Nat.eqb x (ce_key e) then 1 else 0) + cntk r x
  end.

Lemma hadds_val l : forall H x, hadds H l x = H x + cntk l x.
Proof.
  induction l as [|[s0 e] r IH]; intros H x; cbn [hadds cntk]; [lia|].
  rewrite IH. unfold hadd. destruct (Nat.eqb x (ce_key e)); lia.
Qed.

Lemma cntk_nonneg l x : cntk l x >= 0.
Proof. induction l as [|[s0 e] r IH]; cbn [cntk]; [lia|]. destruct (Nat.eqb x (ce_key e)); lia. Qed.

Lemma cntk_pos l x : cntk l x > 0 -> exists s0 e, In (s0, e) l /\ ce_key e = x.
Proof.
  induction l as [|[s0 e] r IH]; cbn [cntk]; [lia|]. destruct (Nat.eqb x (ce_key e)) eqn:E.
  - intros _. apply Nat.eqb_eq in E. exists s0, e. split; [left; reflexivity | congruence].
  - intro H. destruct (IH ltac:(lia)) as [s1 [e1 [X Y]]]. exists s1, e1. split; [right; exact X | exact Y].
Qed.

Lemma cntk_zero l x : (forall s0 e, In (s0, e) l -> ce_key e <> x) -> cntk l x = 0.
Proof.
  induction l as [|[s0 e] r IH]; intro Hn; cbn [cntk]; [reflexivity|].
  destruct (Nat.eqb x (ce_key e)) eqn:E; [apply Nat.eqb_eq in E; exfalso; apply (Hn s0 e (or_introl eq_refl)); congruence|].
  rewrite IH; [lia|]. intros s1 e1 X. apply (Hn s1 e1). right. exact X.
Qed.

(* entries with pairwise different objects: each object counted at most once *)
Lemma cntk_le1 l x : (forall s1 e1 s2 e2, In (s1, e1) l -> In (s2, e2) l -> ce_key e1 = ce_key e2 -> s1 = s2) -> NoDup (map fst l) -> cntk l x <= 1.
Proof.
  induction l as [|[s0 e] r IH]; intros Inj ND; cbn [cntk]; [lia|].
  inversion ND as [|? ? Hn ND']; subst.
  assert (IHr : cntk r x <= 1) by (apply IH; [intros; eapply Inj; [right; eassumption | right; eassumption | assumption] | exact ND']).
  destruct (Nat.eqb x (ce_key e)) eqn:E; [|lia]. apply Nat.eqb_eq in E.
  assert (cntk r x = 0); [|lia]. apply cntk_zero. intros s1 e1 X Y.
  assert (s0 = s1) by (eapply Inj; [left; reflexivity | right; exact X | congruence]). subst s1.
  apply Hn. cbn. apply in_map_iff. exists (s0, e1). split; [reflexivity | exact X].
Qed.

(* installing a held object in a free (or excluded) position of cache cid; the evicted entries become holds *)
Lemma LInv_put_donate X0 H w cid kc kc' id e ev :
  ~ Dd cid ->
  LInv X0 H w -> nth_error (w_caches w) cid = Some kc ->
  (forall c s0, X0 c s0 -> c = cid /\ s0 = id) ->
  (b_abs (kc_backing kc) id = None \/ X0 cid id) ->
  b_abs (kc_backing kc') id = Some e ->
  (forall x e', x <> id -> b_abs (kc_backing kc') x = Some e' -> b_abs (kc_backing kc) x = Some e' /\ ~ In x (map fst ev)) ->
  (forall x y, In (x, y) ev -> b_abs (kc_backing kc) x = Some y /\ x <> id) ->
  NoDup (map fst ev) ->
  (forall c, kc_backing kc' = BCache c -> closing c = false) -> b_good (kc_backing kc') ->
  H (ce_key e) > 0 -> ~ cached X0 w (ce_key e) ->
  LInv NoX (hadds (hadd H (ce_key e) (-1)) ev) (with_caches (set_nth cid kc' (w_caches w)) w).
Proof.
  intros NDc L Ec X0sub Free Hid Hkeep Hev NDev Op Gd Hk NCk. pose proof L as [A B C D E F G G2].
  set (k := ce_key e) in *. set (w' := with_caches (set_nth cid kc' (w_caches w)) w).
  set (H1 := hadd H k (-1)).
  assert (EvC : forall x y, In (x, y) ev -> centry_at w cid x y /\ ~ X0 cid x).
  { intros x y I. destruct (Hev x y I) as [P Q]. split; [split; [exact NDc|]; exists kc; split; assumption|]. intro Xx. destruct (X0sub _ _ Xx) as [_ Ex]. contradiction. }
  assert (EvNk : forall x y, In (x, y) ev -> ce_key y <> k).
  { intros x y I Eq. destruct (EvC x y I) as [P Q]. apply NCk. exists cid, x, y. split; [exact P | split; [exact Q | exact Eq]]. }
  assert (Ck0 : cntk ev k = 0) by (apply cntk_zero; intros s0 e0 I; exact (EvNk s0 e0 I)).
  assert (EvInj : forall s1 e1 s2 e2, In (s1, e1) ev -> In (s2, e2) ev -> ce_key e1 = ce_key e2 -> s1 = s2).
  { intros s1 e1 s2 e2 I1 I2 Eq. destruct (C cid s1 e1 cid s2 e2 (proj1 (EvC _ _ I1)) (proj1 (EvC _ _ I2)) Eq) as [_ X]. exact X. }
  (* entries of the new world *)
  assert (Ent : forall c1 s1 e1, centry_at w' c1 s1 e1 ->
            (c1 = cid /\ s1 = id /\ e1 = e) \/ (centry_at w c1 s1 e1 /\ ~ X0 c1 s1 /\ (c1 = cid -> s1 <> id /\ ~ In s1 (map fst ev)))).
  { intros c1 s1 e1 Xe. destruct (centry_put w cid kc' c1 s1 e1 Xe) as [[N Y]|[-> [_ [Y _]]]].
    - right. split; [exact Y|]. split; [intro Xx; destruct (X0sub _ _ Xx); contradiction | intro; contradiction].
    - destruct (list_eq_dec Ascii.ascii_dec s1 id) as [->|Ns].
      + left. rewrite Hid in Y. inversion Y. repeat split.
      + right. destruct (Hkeep s1 e1 Ns Y) as [P Q]. split; [split; [exact NDc|]; exists kc; split; assumption|]. split; [intro Xx; destruct (X0sub _ _ Xx); contradiction|].
        intros _. split; assumption. }
  assert (Cnt0 : forall c1 s1 e1, centry_at w c1 s1 e1 -> (c1 = cid -> ~ In s1 (map fst ev)) -> cntk ev (ce_key e1) = 0).
  { intros c1 s1 e1 Xe Hn. apply cntk_zero. intros s0 e0 I Eq. destruct (EvC s0 e0 I) as [P _].
    destruct (C cid s0 e0 c1 s1 e1 P Xe Eq) as [E1 E2]. subst. apply (Hn eq_refl). apply in_map_iff. exists (s1, e0). split; [reflexivity | exact I]. }
  constructor.
  - (* cached objects *)
    intros x [c1 [s1 [e1 [Xe [_ Ye]]]]]. rewrite hadds_val. destruct (Ent _ _ _ Xe) as [[-> [-> ->]]|[Xo [NX Hs]]].
    + subst x. fold k. rewrite Ck0. unfold H1. rewrite hadd_same. destruct (B k Hk) as [P [o [Q R]]]. split; [exact P | exists o; split; [exact Q | lia]].
    + assert (Cx : cached X0 w x) by (exists c1, s1, e1; split; [exact Xo | split; [exact NX | exact Ye]]).
      assert (Nxk : x <> k) by (intro Eq; rewrite Eq in Cx; contradiction).
      rewrite <- Ye. rewrite (Cnt0 c1 s1 e1 Xo (fun Eq => proj2 (Hs Eq))). rewrite Ye. unfold H1. rewrite (hadd_other H k (-1) x Nxk).
      destruct (A x Cx) as [P [o [Q R]]]. split; [exact P | exists o; split; [exact Q | lia]].
  - (* held objects *)
    intros x Hx. rewrite hadds_val in Hx. rewrite hadds_val.
    destruct (Z_gt_le_dec (cntk ev x) 0) as [Pos|Zero].
    + destruct (cntk_pos ev x Pos) as [s0 [e0 [I Eq]]]. destruct (EvC s0 e0 I) as [P Q].
      assert (Cx : cached X0 w x) by (exists cid, s0, e0; split; [exact P | split; [exact Q | exact Eq]]).
      assert (Nxk : x <> k) by (intro Eq2; rewrite Eq2 in Cx; contradiction).
      pose proof (cntk_le1 ev x EvInj NDev). unfold H1. rewrite (hadd_other H k (-1) x Nxk).
      destruct (A x Cx) as [P1 [o [Q1 R1]]]. split; [exact P1 | exists o; split; [exact Q1 | lia]].
    + pose proof (cntk_nonneg ev x). assert (cntk ev x = 0) by lia. rewrite H2 in *.
      assert (Hx0 : H x > 0).
      { unfold H1, hadd in Hx. destruct (Nat.eqb x k); lia. }
      destruct (B x Hx0) as [P [o [Q R]]]. split; [exact P|]. exists o. split; [exact Q|]. unfold H1, hadd. destruct (Nat.eqb x k); lia.
  - (* ownership *)
    intros c1 s1 e1 c2 s2 e2 X1 X2 Eq.
    destruct (Ent _ _ _ X1) as [[-> [-> ->]]|[Xo1 [NX1 Hs1]]], (Ent _ _ _ X2) as [[-> [-> ->]]|[Xo2 [NX2 Hs2]]].
    + split; reflexivity.
    + exfalso. apply NCk. exists c2, s2, e2. split; [exact Xo2 | split; [exact NX2 | symmetry; exact Eq]].
    + exfalso. apply NCk. exists c1, s1, e1. split; [exact Xo1 | split; [exact NX1 | exact Eq]].
    + eapply C; eassumption.
  - exact D.
  - exact E.
  - intro x. rewrite hadds_val. pose proof (cntk_nonneg ev x). unfold H1, hadd. destruct (Nat.eqb x k) eqn:Eq; [apply Nat.eqb_eq in Eq; subst; lia | pose proof (F x); lia].
  - intros cid0 kc0 c ND0 Xc Yc. unfold w' in Xc. wsimpl. rewrite nth_error_set_nth in Xc. destruct (Nat.eqb cid cid0) eqn:Eq.
    + destruct (nth_error (w_caches w) cid); [|discriminate]. inversion Xc; subst. exact (Op c Yc).
    + exact (G cid0 kc0 c ND0 Xc Yc).
  - intros cid0 kc0 ND0 Xc. unfold w' in Xc. wsimpl. rewrite nth_error_set_nth in Xc. destruct (Nat.eqb cid cid0) eqn:Eq.
    + destruct (nth_error (w_caches w) cid); [|discriminate]. inversion Xc; subst. exact Gd.
    + exact (G2 cid0 kc0 ND0 Xc).
Qed.

(* ---- invariant up to leaked holds ----------------------------------------------------------------- *)

Definition hle (H H' : holds) : Prop := forall x, H x <= H' x.
Definition Lge (H : holds) (w : world) : Prop := exists H', hle H H' /\ LInv NoX H' w.

Lemma hle_refl H : hle H H. Proof. intro x. lia. Qed.
Lemma hle_trans A B C : hle A B -> hle B C -> hle A C. Proof. intros X Y x. specialize (X x). specialize (Y x). lia. Qed.
Lemma hle_hadd H H' k d : hle H H' -> hle (hadd H k d) (hadd H' k d).
Proof. intros X x. unfold hadd. specialize (X x). destruct (Nat.eqb x k); lia. Qed.
Lemma Lge_of H w : LInv NoX H w -> Lge H w. Proof. intro L. exists H. split; [apply hle_refl | exact L]. Qed.
Lemma Lge_mono H H0 w : hle H0 H -> Lge H w -> Lge H0 w.
Proof. intros X [H' [Y L]]. exists H'. split; [eapply hle_trans; eassumption | exact L]. Qed.
Lemma hadd_hadd_cancel H k : forall x, hadd (hadd H k 1) k (-1) x = H x.
Proof. intro x. unfold hadd. destruct (Nat.eqb x k); lia. Qed.

Lemma LInv_ext Ex H H' w : (forall x, H' x = H x) -> LInv Ex H w -> LInv Ex H' w.
Proof.
  intros E [A B C D F G I I2]. constructor; try assumption.
  - intros k Ck. rewrite E. exact (A k Ck).
  - intros k Hk. rewrite E in *. exact (B k Hk).
  - intro k. rewrite E. exact (G k).
Qed.

Lemma hle_hadds H l : hle H (hadds H l).
Proof. intro x. rewrite hadds_val. pose proof (cntk_nonneg l x). lia. Qed.

(* releasing the cache references of evicted entries *)
Lemma closes_L ev : forall H, (forall x, H x >= 0) -> hoare (LInv NoX (hadds H ev)) (closes ev) (fun _ w => LInv NoX H w) (Lge H).
Proof.
  induction ev as [|[s0 e] r IH]; intros H Hn; unfold closes; cbn [fold_right hadds].
  - apply hoare_ret. tauto.
  - fold (closes r).
    assert (Comm : forall x, hadds (hadd H (ce_key e) 1) r x = hadd (hadds H r) (ce_key e) 1 x).
    { intro x. rewrite !hadds_val. unfold hadd. rewrite hadds_val. destruct (Nat.eqb x (ce_key e)); lia. }
    eapply (hoare_bind _ _ (fun (_ : unit) w => LInv NoX (hadds H r) w)).
    + eapply hoare_weaken.
      * exact (cck_close_L NoX (hadd (hadds H r) (ce_key e) 1) (ce_key e)).
      * intros w L. split; [eapply LInv_ext; [|exact L]; intro x; symmetry; apply Comm|].
        rewrite hadd_same, hadds_val. pose proof (cntk_nonneg r (ce_key e)). pose proof (Hn (ce_key e)). lia.
      * intros u w L. eapply LInv_ext; [|exact L]. intro x. symmetry. apply hadd_hadd_cancel.
      * intros w [].
    + intros _. apply IH. exact Hn.
Qed.

(* ---- what Get and Set do to a backing cache, for liveness ---------------------------------------------- *)

Definition b_open (b : backing) : Prop := forall c, b = BCache c -> closing c = false.

Lemma set_overwrite_noev (c : Generic.cache str centry) now h k v x :
  closing c = false -> lookup str centry str_eqb k (items c) = Some x -> snd (Generic.step str_eqb c now h (OSet k v)) = [].
Proof. intros CL L. cbn [Generic.step]. rewrite CL, L. destruct x. reflexivity. Qed.

Lemma set_closing (c : Generic.cache str centry) now h k v :
  closing (fst (fst (Generic.step str_eqb c now h (OSet k v)))) = closing c.
Proof.
  cbn [Generic.step]. destruct (closing c) eqn:CL; [exact CL|].
  destruct (lookup str centry str_eqb k (items c)) as [[v0 e0]|]; [cbn [fst closing with_items]; exact CL|].
  destruct (size c =? c_cap (cc c)).
  - unfold evict. destruct (pol_victim str str_eqb (cc c) (pst c) (hd_hint str h)) as [[kv|] p']; [|exact CL].
    unfold evict_key, with_items. cbn [items]. destruct (lookup str centry str_eqb kv (items c)) as [[vv ev]|]; cbn [fst closing]; exact CL.
  - cbn [fst closing with_items]. exact CL.
Qed.

Lemma get_closing (c : Generic.cache str centry) now h k :
  closing (fst (fst (Generic.step str_eqb c now h (OGet k)))) = closing c.
Proof.
  cbn [Generic.step]. destruct (closing c) eqn:CL; [exact CL|].
  destruct (lookup str centry str_eqb k (items c)) as [[v0 e0]|] eqn:L; [|exact CL].
  destruct ((c_expiry (cc c) >? 0) && (e0 <? now)).
  - unfold evict_key. rewrite L. cbn [fst closing with_items]. exact CL.
  - cbn [fst closing with_items]. exact CL.
Qed.

Lemma backing_get_open b now k : b_open b -> b_open (fst (backing_get b now k)).
Proof.
  intro O. destruct b as [m|c]; cbn [backing_get]; [intros c E; discriminate E|].
  pose proof (get_closing c now [] k) as GC.
  destruct (Generic.step str_eqb c now [] (OGet k)) as [[c1 r] ev]. cbn [fst] in GC.
  destruct r; cbn [fst]; intros c2 E; inversion E; subst; rewrite GC; apply O; reflexivity.
Qed.

Lemma backing_set_live b now k e :
  b_good b -> b_open b ->
  match backing_set b now k e with
  | (b', ev) =>
      b_abs b' k = Some e /\
      (forall x e', x <> k -> b_abs b' x = Some e' -> b_abs b x = Some e' /\ ~ In x (map fst ev)) /\
      (forall x y, In (x, y) ev -> b_abs b x = Some y /\ x <> k) /\
      NoDup (map fst ev) /\ (b_abs b k <> None -> ev = []) /\ b_open b'
  end.
Proof.
  intros G O. destruct b as [m|c]; cbn [backing_set b_good b_abs] in *.
  - split; [rewrite assoc_get_set, str_eqb_refl; reflexivity|]. split.
    { intros x e' N H. rewrite assoc_get_set in H. destruct (str_eqb x k) eqn:E; [apply str_eqb_eq in E; contradiction|]. split; [exact H | intros []]. }
    split; [intros x y []|]. split; [constructor|]. split; [reflexivity | intros c E; discriminate E].
  - destruct G as [I [CO [Hc He]]]. assert (CL : closing c = false) by (apply O; reflexivity).
    pose proof (step_spec str centry str_eqb str_eqb_eq c now [] (OSet k e) I CO Hc) as S.
    pose proof (set_closing c now [] k e) as SC.
    assert (OW : forall x, lookup str centry str_eqb k (items c) = Some x -> snd (Generic.step str_eqb c now [] (OSet k e)) = [])
      by (intros x L; eapply set_overwrite_noev; eassumption).
    destruct (Generic.step str_eqb c now [] (OSet k e)) as [[c' r] ev]. cbn [fst snd] in *.
    destruct S as [I' [CO' [CC' [_ [_ [SP [EV ND]]]]]]]. rewrite CL in SP.
    assert (EvK : forall x y, In (x, y) ev -> CacheProofs.abs str centry str_eqb c x = Some y /\ x <> k).
    { intros x y Hi. split; [exact (EV x y Hi)|]. intro Eq. subst x. pose proof (EV k y Hi) as A. unfold CacheProofs.abs in A.
      destruct (lookup str centry str_eqb k (items c)) as [z|] eqn:L; [|discriminate]. rewrite (OW z eq_refl) in Hi. exact Hi. }
    assert (NotRep : forall x, (forall y, ~ In (x, y) ev) -> reported str centry str_eqb ev x = false).
    { intros x Hn. destruct (reported str centry str_eqb ev x) eqn:R; [|reflexivity]. apply (reported_map str centry str_eqb str_eqb_eq) in R.
      apply in_map_iff in R as [[x0 y0] [E1 E2]]. cbn in E1. subst x0. exfalso. exact (Hn y0 E2). }
    cbn [b_abs]. split.
    { rewrite SP. unfold spec_after. rewrite NotRep; [rewrite str_eqb_refl; reflexivity|]. intros y Hi. destruct (EvK k y Hi) as [_ N]. contradiction. }
    split.
    { intros x e' N H. rewrite SP in H. unfold spec_after in H. destruct (reported str centry str_eqb ev x) eqn:R; [discriminate|].
      destruct (str_eqb x k) eqn:E; [apply str_eqb_eq in E; contradiction|]. split; [exact H|].
      intro Hi. apply in_map_iff in Hi as [[x0 y0] [E1 E2]]. cbn in E1. subst x0.
      rewrite (reported_In str centry str_eqb str_eqb_eq ev x y0 E2) in R. discriminate. }
    split; [exact EvK|]. split; [exact ND|]. split.
    { intro Hn. unfold CacheProofs.abs in Hn. destruct (lookup str centry str_eqb k (items c)) as [z|] eqn:L; [exact (OW z eq_refl) | contradiction]. }
    intros c2 E. inversion E; subst. rewrite SC. exact CL.
Qed.

(* ---- key_cache.go ---------------------------------------------------------------------------------------- *)

Lemma stableL_cache_at cid kc : stableL (fun w => nth_error (w_caches w) cid = Some kc).
Proof. intros w w' [_ [_ E]] H. rewrite E. exact H. Qed.
Lemma stableL_and F G : stableL F -> stableL G -> stableL (fun w => F w /\ G w).
Proof. intros HF HG w w' S [A B]. split; [eapply HF | eapply HG]; eassumption. Qed.

Lemma get_cache_L (F : world -> Prop) (E : world -> Prop) cid :
  stableL F -> (forall w, F w -> E w) ->
  hoare F (get_cache cid) (fun kc w => F w /\ nth_error (w_caches w) cid = Some kc) E.
Proof.
  intros SF HE w HF. unfold get_cache, bind, gets. cbn [fst snd]. destruct (nth_error (w_caches w) cid) eqn:Ec; cbn; [split; [exact HF | exact Ec] | apply HE; exact HF].
Qed.


Lemma kc_read_L H cid meta (P : nat -> Prop) :
  ~ Dd cid ->
  hoare (fun w => LInv NoX H w /\ forall k0, P k0 -> freshk NoX H w k0) (kc_read cid meta)
        (fun r w => (LInv NoX H w /\ forall k0, P k0 -> freshk NoX H w k0) /\ forall e, r = Some e -> exists s0, centry_at w cid s0 e)
        (LInv NoX H).
Proof.
  intro NDc. unfold kc_read.
  pose (A := fun w => LInv NoX H w /\ forall k0, P k0 -> freshk NoX H w k0).
  assert (SA : stableL A).
  { intros w w' S [L Fr]. split; [eapply LInv_same; eassumption|]. intros k0 Pk. eapply freshk_same; [exact S | exact (Fr k0 Pk)]. }
  eapply (hoare_bind _ _ (fun kc w => A w /\ nth_error (w_caches w) cid = Some kc)).
  { exact (get_cache_L A (LInv NoX H) cid SA (fun w X => proj1 X)). }
  intro kc.
  eapply (hoare_bind _ _ (fun (_ : Z) w => A w /\ nth_error (w_caches w) cid = Some kc)).
  { exact (hoare_qL get_now _ _ qL_get_now (stableL_and _ _ SA (stableL_cache_at cid kc)) (fun w X => proj1 (proj1 X))). }
  intro now.
  set (id := if is_latest meta then match assoc_get (cache_key (km_id meta) 0) (kc_latest kc) with
                                    | Some l => cache_key (km_id l) (km_created l)
                                    | None => cache_key (km_id meta) (km_created meta) end
             else cache_key (km_id meta) (km_created meta)).
  intros w [[L Fr] Ec].
  pose proof (backing_get_spec (kc_backing kc) now id (l_good _ _ _ _ L cid kc NDc Ec)) as BG.
  pose proof (backing_get_open (kc_backing kc) now id (fun c E => l_opencache _ _ _ _ L cid kc c NDc Ec E)) as BO.
  destruct (backing_get (kc_backing kc) now id) as [b' r]. cbn [fst] in BO. destruct BG as [G' [Er Eabs]].
  unfold bind, put_cache, upd, ret. cbn [fst snd].
  set (w' := with_caches (set_nth cid {| kc_backing := b'; kc_latest := kc_latest kc |} (w_caches w)) w).
  assert (L' : LInv NoX H w').
  { apply (LInv_put_same NoX H w cid kc _ L Ec); cbn [kc_backing].
    - intros x e' X. rewrite Eabs in X. exists e'. split; [exact X | reflexivity].
    - exact BO.
    - exact G'. }
  assert (CB : forall k0, cached NoX w' k0 -> cached NoX w k0).
  { intros k0 [c1 [s1 [e1 [X [NX Y]]]]]. destruct (centry_put w cid _ c1 s1 e1 X) as [[N Z]|[-> [_ [Z _]]]].
    - exists c1, s1, e1. split; [exact Z | split; [exact NX | exact Y]].
    - cbn [kc_backing] in Z. rewrite Eabs in Z. exists cid, s1, e1. split; [split; [exact NDc|]; exists kc; split; assumption | split; [exact NX | exact Y]]. }
  split; [split; [exact L'|]|].
  - intros k0 Pk. destruct (Fr k0 Pk) as [Op [NC H0]]. split; [exact Op|]. split; [intro C; apply NC; apply CB; exact C | exact H0].
  - intros e Hr. subst r. exists id. split; [exact NDc|]. exists {| kc_backing := b'; kc_latest := kc_latest kc |}. unfold w'. wsimpl.
    split; [eapply nth_error_set_nth_same; exact Ec|]. cbn [kc_backing]. rewrite Eabs. exact Hr.
Qed.

Lemma stable0_not_cached Ex k : stable0 (fun w => ~ cached Ex w k).
Proof. intros w w' [[_ [_ [EC _]]] _] N C. apply N. eapply cached_caches; [|exact C]. exact EC. Qed.

Lemma hle_hadd_neg H k : hle (hadd H k (-1)) H.
Proof. intro x. unfold hadd. destruct (Nat.eqb x k); lia. Qed.

Lemma cached_Xat_NoX cid id w k : cached (Xat cid id) w k -> cached NoX w k.
Proof. intros [c1 [s1 [e1 [X [_ Y]]]]]. exists c1, s1, e1. split; [exact X | split; [intros [] | exact Y]]. Qed.

(* write of a held object that is not in any cache: the hold becomes the cache's reference; a displaced entry and the evicted
   entries are released *)
Lemma kc_write_donate_L H cid meta e :
  ~ Dd cid ->
  hoare (fun w => LInv NoX H w /\ H (ce_key e) > 0 /\ ~ cached NoX w (ce_key e)) (kc_write cid meta e)
        (fun _ w => LInv NoX (hadd H (ce_key e) (-1)) w /\ cached NoX w (ce_key e)) (Lge (hadd H (ce_key e) (-1))).
Proof.
  intro NDc. unfold kc_write. set (k := ce_key e).
  apply (hoare_pull _ (H k > 0 /\ forall x, H x >= 0)); [intros w [L [Hk _]]; split; [exact Hk | exact (l_nonneg _ _ _ _ L)]|]. intros [Hkpos Hnn].
  pose (A0 := fun w => LInv NoX H w /\ H k > 0 /\ ~ cached NoX w k).
  assert (SL0 : stableL A0).
  { intros w w' S [L [Hk NC]]. split; [eapply LInv_same; eassumption|]. split; [exact Hk|]. intro C. apply NC. eapply cached_same; eassumption. }
  assert (E0 : forall w, A0 w -> Lge (hadd H k (-1)) w).
  { intros w [L _]. exists H. split; [apply hle_hadd_neg | exact L]. }
  eapply (hoare_bind _ _ (fun (_ : kobj) w => A0 w)); [exact (hoare_qL (kobj_get k) A0 _ (qL_kobj_get k) SL0 E0)|].
  intro o.
  eapply (hoare_bind _ _ (fun kc w => A0 w /\ nth_error (w_caches w) cid = Some kc)); [exact (get_cache_L A0 _ cid SL0 E0)|].
  intro kc.
  set (akey := cache_key (km_id meta) 0).
  set (ml := if is_latest meta
             then let m := {| km_id := km_id meta; km_created := ko_created o |} in (m, assoc_set akey m (kc_latest kc))
             else match assoc_get akey (kc_latest kc) with
                  | Some l => if km_created l <? ko_created o then (meta, assoc_set akey meta (kc_latest kc)) else (meta, kc_latest kc)
                  | None => (meta, assoc_set akey meta (kc_latest kc))
                  end).
  destruct ml as [meta' latest'].
  set (id := cache_key (km_id meta') (km_created meta')).
  pose (A1 := fun w => A0 w /\ nth_error (w_caches w) cid = Some kc).
  assert (SL1 : stableL A1) by (apply stableL_and; [exact SL0 | apply stableL_cache_at]).
  eapply (hoare_bind _ _ (fun (_ : Z) w => A1 w)); [exact (hoare_qL get_now A1 _ qL_get_now SL1 (fun w X => E0 w (proj1 X)))|].
  intro now.
  apply (hoare_pull _ (b_good (kc_backing kc) /\ b_open (kc_backing kc))).
  { intros w [[L _] Ec]. split; [exact (l_good _ _ _ _ L cid kc NDc Ec) | intros c Eb; exact (l_opencache _ _ _ _ L cid kc c NDc Ec Eb)]. }
  intros [G O].
  pose proof (backing_get_spec (kc_backing kc) now id G) as BG.
  pose proof (backing_get_open (kc_backing kc) now id O) as BO.
  destruct (backing_get (kc_backing kc) now id) as [b1 existing]. cbn [fst] in BO. destruct BG as [G1 [Eex Eabs1]].
  pose proof (backing_set_live b1 now id e G1 BO) as BS.
  pose proof (backing_set_spec b1 now id e G1) as BS0.
  destruct (backing_set b1 now id e) as [b2 ev]. destruct BS as [S1 [S2 [S3 [S4 [S5 S6]]]]]. destruct BS0 as [G2 _].
  (* the state just before the cache is updated *)
  pose (X0 := match existing with Some _ => Xat cid id | None => NoX end).
  eapply (hoare_bind _ _ (fun (_ : unit) w => (LInv X0 H w /\ H k > 0 /\ ~ cached X0 w k) /\ nth_error (w_caches w) cid = Some kc)).
  { destruct existing as [ex|] eqn:Eexi.
    - (* an entry for another object sits at id: release it *)
      intros w [[L [Hk NC]] Ec].
      assert (Cex : centry_at w cid id ex) by (split; [exact NDc|]; exists kc; split; [exact Ec | symmetry; exact Eex]).
      assert (Nk : ce_key ex <> k).
      { intro Eq. apply NC. exists cid, id, ex. split; [exact Cex | split; [intros [] | exact Eq]]. }
      assert (Neq : Nat.eqb (ce_key ex) k = false) by (apply Nat.eqb_neq; exact Nk). unfold hoare; cbv beta. fold k. rewrite Neq.
      pose proof (LInv_open_hole H w cid id ex L Cex) as L1.
      assert (Hex : hadd H (ce_key ex) 1 (ce_key ex) > 0) by (rewrite hadd_same; pose proof (l_nonneg _ _ _ _ L (ce_key ex)); lia).
      pose proof (cck_close_L (Xat cid id) (hadd H (ce_key ex) 1) (ce_key ex) w (conj L1 Hex)) as CC.
      pose proof (q0_cck_close (ce_key ex) w) as [[_ [_ [EC _]]] _].
      destruct (cck_close (ce_key ex) w) as [[er|u] w1]; cbn [snd] in EC; [contradiction|].
      split; [|rewrite EC; exact Ec]. split; [eapply LInv_ext; [|exact CC]; intro x; symmetry; apply hadd_hadd_cancel|].
      split; [exact Hk|]. intro C. apply NC. apply cached_Xat_NoX in C. eapply cached_caches; [|exact C]. exact EC.
    - apply hoare_ret. intros w X. exact X. }
  intros _.
  eapply (hoare_bind _ _ (fun (_ : unit) w => LInv NoX (hadds (hadd H k (-1)) ev) w /\ centry_at w cid id e)).
  { intros w [[L [Hk NC]] Ec]. unfold put_cache, upd. cbn [fst snd].
    split; [|split; [exact NDc|]; exists {| kc_backing := b2; kc_latest := latest' |}; wsimpl; split; [eapply nth_error_set_nth_same; exact Ec | exact S1]].
    apply (LInv_put_donate X0 H w cid kc {| kc_backing := b2; kc_latest := latest' |} id e ev NDc L Ec); cbn [kc_backing].
    - intros c s0 Xx. unfold X0 in Xx. destruct existing; [exact Xx | destruct Xx].
    - unfold X0. destruct existing as [ex|]; [right; split; reflexivity | left; symmetry; exact Eex].
    - exact S1.
    - intros x e' N Hx. destruct (S2 x e' N Hx) as [P Q]. split; [rewrite <- Eabs1; exact P | exact Q].
    - intros x y Hi. destruct (S3 x y Hi) as [P Q]. split; [rewrite <- Eabs1; exact P | exact Q].
    - exact S4.
    - exact S6.
    - exact G2.
    - exact Hk.
    - exact NC. }
  intros _.
  assert (Nn : forall x, hadd H k (-1) x >= 0).
  { intro x. unfold hadd. destruct (Nat.eqb x k) eqn:Eq; [apply Nat.eqb_eq in Eq; subst x; lia | exact (Hnn x)]. }
  eapply hoare_weaken.
  - exact (hoare_conj _ _ _ _ _ _ _ (closes_L ev (hadd H k (-1)) Nn)
             (hoare_quiet0 (closes ev) (fun w => centry_at w cid id e) (q0_closes ev)
                (fun w w' R X => match X with conj ND0 (ex_intro _ kc0 (conj Y1 Y2)) => conj ND0 (ex_intro _ kc0 (conj (eq_ind_r (fun c => nth_error c cid = Some kc0) Y1 (proj1 (proj2 (proj2 (proj1 R))))) Y2)) end))).
  - intros w X; exact X.
  - intros u w [L Ce]. split; [exact L|]. exists cid, id, e. split; [exact Ce | split; [intros [] | reflexivity]].
  - intros w [X _]. exact X.
Qed.

(* where kc_write puts an entry for key object o *)
Definition tgt (meta : keymeta) (o : kobj) : str :=
  if is_latest meta then cache_key (km_id meta) (ko_created o) else cache_key (km_id meta) (km_created meta).

(* re-writing the entry of an object that already sits at its place (a refresh): nothing changes hands *)
Lemma kc_write_same_L H cid meta e0 :
  hoare (fun w => LInv NoX H w /\ exists o ex, nth_error (w_kobjs w) (ce_key e0) = Some o /\ centry_at w cid (tgt meta o) ex /\ ce_key ex = ce_key e0)
        (kc_write cid meta e0) (fun _ w => LInv NoX H w /\ cached NoX w (ce_key e0)) (LInv NoX H).
Proof.
  unfold kc_write. set (k := ce_key e0).
  pose (A0 := fun w => LInv NoX H w /\ exists o ex, nth_error (w_kobjs w) k = Some o /\ centry_at w cid (tgt meta o) ex /\ ce_key ex = k).
  assert (SL0 : stableL A0).
  { intros w w' S [L [o [ex [X [[ND0 [kc [Y1 Y2]]] Z]]]]]. split; [eapply LInv_same; eassumption|]. pose proof S as [E1 [_ E3]].
    exists o, ex. split; [rewrite E1; exact X|]. split; [split; [exact ND0|]; exists kc; rewrite E3; split; assumption | exact Z]. }
  assert (E0 : forall w, A0 w -> LInv NoX H w) by (intros w X; exact (proj1 X)).
  eapply (hoare_bind _ _ (fun o w => A0 w /\ nth_error (w_kobjs w) k = Some o)).
  { intros w HA. pose proof (hoare_qL (kobj_get k) A0 _ (qL_kobj_get k) SL0 E0 w HA) as X. pose proof (kobj_get_res k w I) as Y.
    destruct (kobj_get k w) as [[er|o] w1]; [exact X | split; assumption]. }
  intro o.
  pose (A1 := fun w => A0 w /\ nth_error (w_kobjs w) k = Some o).
  assert (SL1 : stableL A1).
  { apply stableL_and; [exact SL0|]. intros w w' [E1 _] X. rewrite E1. exact X. }
  eapply (hoare_bind _ _ (fun kc w => A1 w /\ nth_error (w_caches w) cid = Some kc)); [exact (get_cache_L A1 _ cid SL1 (fun w X => E0 w (proj1 X)))|].
  intro kc.
  set (akey := cache_key (km_id meta) 0).
  set (ml := if is_latest meta
             then let m := {| km_id := km_id meta; km_created := ko_created o |} in (m, assoc_set akey m (kc_latest kc))
             else match assoc_get akey (kc_latest kc) with
                  | Some l => if km_created l <? ko_created o then (meta, assoc_set akey meta (kc_latest kc)) else (meta, kc_latest kc)
                  | None => (meta, assoc_set akey meta (kc_latest kc))
                  end).
  assert (Eid : cache_key (km_id (fst ml)) (km_created (fst ml)) = tgt meta o).
  { unfold ml, tgt. destruct (is_latest meta); [reflexivity|].
    destruct (assoc_get akey (kc_latest kc)) as [l|]; [destruct (km_created l <? ko_created o)|]; reflexivity. }
  destruct ml as [meta' latest']. cbn [fst] in Eid. rewrite Eid. set (id := tgt meta o).
  pose (A2 := fun w => A1 w /\ nth_error (w_caches w) cid = Some kc).
  assert (SL2 : stableL A2) by (apply stableL_and; [exact SL1 | apply stableL_cache_at]).
  eapply (hoare_bind _ _ (fun (_ : Z) w => A2 w)); [exact (hoare_qL get_now A2 _ qL_get_now SL2 (fun w X => E0 w (proj1 (proj1 X))))|].
  intro now.
  intros w [[[L [o1 [ex [Eo1 [[NDc [kc1 [Ec1 Eab]]] Ek]]]]] Eo] Ec].
  rewrite Eo in Eo1. inversion Eo1; subst o1. rewrite Ec in Ec1. inversion Ec1; subst kc1. fold id in Eab.
  pose proof (l_good _ _ _ _ L cid kc NDc Ec) as G. assert (O : b_open (kc_backing kc)) by (intros c Eb; exact (l_opencache _ _ _ _ L cid kc c NDc Ec Eb)).
  pose proof (backing_get_spec (kc_backing kc) now id G) as BG.
  pose proof (backing_get_open (kc_backing kc) now id O) as BO.
  destruct (backing_get (kc_backing kc) now id) as [b1 existing]. cbn [fst] in BO. destruct BG as [G1 [Eex Eabs1]].
  rewrite Eab in Eex. subst existing. fold k. rewrite Ek, Nat.eqb_refl.
  pose proof (backing_set_live b1 now id e0 G1 BO) as BS.
  pose proof (backing_set_spec b1 now id e0 G1) as BS0.
  destruct (backing_set b1 now id e0) as [b2 ev]. destruct BS as [S1 [S2 [S3 [S4 [S5 S6]]]]]. destruct BS0 as [G2 _].
  assert (Ev0 : ev = []) by (apply S5; rewrite Eabs1, Eab; discriminate). subst ev.
  unfold bind, ret, put_cache, upd, closes. cbn [fst snd fold_right].
  split; [|exists cid, id, e0; split; [split; [exact NDc|]; exists {| kc_backing := b2; kc_latest := latest' |}; wsimpl; split; [eapply nth_error_set_nth_same; exact Ec | exact S1] | split; [intros [] | reflexivity]]].
  apply (LInv_put_same NoX H w cid kc _ L Ec); cbn [kc_backing].
  - intros x e' X. destruct (list_eq_dec Ascii.ascii_dec x id) as [->|N].
    + rewrite S1 in X. inversion X; subst e'. exists ex. split; [exact Eab | exact Ek].
    + destruct (S2 x e' N X) as [P _]. rewrite Eabs1 in P. exists e'. split; [exact P | reflexivity].
  - exact S6.
  - exact G2.
Qed.

(* ---- programs that leave the factory table alone ------------------------------------------------------------ *)
Section LiveCoh.
Variables svc prod : str.
Notation Iv := (Iv svc prod).
Notation handed := (handed svc prod).
Notation okid := (okid svc prod).
Notation bound := (bound svc prod).

(* kc_read, with the place where the returned entry sits (cache coherence gives the key string) *)
Lemma kc_read_at kinds cid b meta :
  nth_error kinds cid = Some b -> ~ Dd cid -> okid (kd_of b) (km_id meta) ->
  hoare (Iv kinds) (kc_read cid meta)
        (fun r w => forall e, r = Some e -> exists o, nth_error (w_kobjs w) (ce_key e) = Some o /\ centry_at w cid (tgt meta o) e)
        (fun _ => True).
Proof.
  intros Hk NDc Ok. unfold kc_read.
  eapply (hoare_bind _ _ (fun kc w => Iv kinds w /\ nth_error (w_caches w) cid = Some kc)).
  { exact (hoare_q0r (get_cache cid) (Iv kinds) _ _ (q0_get_cache cid) (stable0_Iv svc prod kinds) (get_cache_res cid) (fun w H => I)). }
  intro kc.
  eapply (hoare_bind _ _ (fun now w => (Iv kinds w /\ nth_error (w_caches w) cid = Some kc) /\ now = w_now w)).
  { exact (hoare_q0r get_now (fun w => Iv kinds w /\ nth_error (w_caches w) cid = Some kc) _ _ q0_get_now
             (stable0_and _ _ (stable0_Iv svc prod kinds) (stable0_cache_at cid kc)) get_now_res (fun w H => I)). }
  intro now.
  set (id := if is_latest meta then match assoc_get (cache_key (km_id meta) 0) (kc_latest kc) with
                                    | Some l => cache_key (km_id l) (km_created l)
                                    | None => cache_key (km_id meta) (km_created meta) end
             else cache_key (km_id meta) (km_created meta)).
  intros w [[HI Ec] _]. pose proof HI as [SO [L C F S]].
  pose proof (C cid kc b Ec Hk) as [G [EN AL]].
  pose proof (backing_get_spec (kc_backing kc) now id G) as BG.
  destruct (backing_get (kc_backing kc) now id) as [b' r]. destruct BG as [G' [Er Eabs]].
  unfold bind, put_cache, upd, ret. cbn [fst snd].
  intros e Hr. subst r. destruct (EN id e Hr) as [i [c [Eid [[o [Ho Hc]] Hb]]]].
  assert (Oi : okid (kd_of b) i) by (destruct Hb as [O _]; exact O).
  exists o. wsimpl. split; [exact Ho|].
  assert (Et : id = tgt meta o).
  { unfold tgt. unfold id in Eid |- *. destruct (is_latest meta) eqn:Lt.
    - destruct (assoc_get (cache_key (km_id meta) 0) (kc_latest kc)) as [l|] eqn:Al.
      + pose proof (AL _ _ Al) as El. rewrite El in Eid |- *.
        destruct (cache_key_inj svc prod _ _ _ _ _ Ok Oi Eid) as [E1 E2]. rewrite Hc, E2. reflexivity.
      + destruct (cache_key_inj svc prod _ _ _ _ _ Ok Oi Eid) as [E1 E2]. rewrite Hc, E2. reflexivity.
    - reflexivity. }
  rewrite <- Et. split; [exact NDc|]. exists {| kc_backing := b'; kc_latest := kc_latest kc |}.
  split; [eapply nth_error_set_nth_same; exact Ec|]. cbn [kc_backing]. rewrite Eabs. exact Hr.
Qed.

Definition IL kinds (H : holds) (w : world) : Prop := Iv kinds w /\ LInv NoX H w.
Definition ILge kinds (H : holds) (w : world) : Prop := Iv kinds w /\ Lge H w.

(* a loader: keeps both invariants (possibly leaking holds) and returns a bound object nothing refers to yet *)
Definition loader_okL kinds (kd : kind) (loader : keymeta -> M nat) (meta : keymeta) : Prop :=
  forall H, hoare (IL kinds H) (loader meta)
                  (fun k w => exists H', hle H H' /\ IL kinds H' w /\ handed kd meta w k /\ freshk NoX H' w k)
                  (ILge kinds H).

Lemma ILge_mono kinds H H0 w : hle H0 H -> ILge kinds H w -> ILge kinds H0 w.
Proof. intros X [A B]. split; [exact A | eapply Lge_mono; eassumption]. Qed.

Lemma IL_ILge kinds H w : IL kinds H w -> ILge kinds H w.
Proof. intros [A B]. split; [exact A | apply Lge_of; exact B]. Qed.

(* bookkeeping programs keep everything *)
Lemma hoare_qB {A} (m : M A) (F1 F2 E : world -> Prop) :
  quiet0 m -> qL m -> stable0 F1 -> stableL F2 -> (forall w, F1 w /\ F2 w -> E w) ->
  hoare (fun w => F1 w /\ F2 w) m (fun _ w => F1 w /\ F2 w) E.
Proof.
  intros Q0 QL S0 SL HE. eapply hoare_weaken; [exact (hoare_conj _ _ _ _ _ _ _ (hoare_quiet0 m F1 Q0 S0) (hoare_qL m F2 F2 QL SL (fun w X => X))) | | |]; cbv beta; auto.
Qed.

Lemma ck_set_revoked_fresh Ex H k b k0 :
  hoare (fun w => LInv Ex H w /\ freshk Ex H w k0) (ck_set_revoked k b) (fun _ w => LInv Ex H w /\ freshk Ex H w k0) (LInv Ex H).
Proof.
  intros w [L Fr]. pose proof (ck_set_revoked_L Ex H k b w L) as X.
  unfold ck_set_revoked, bind in *. destruct (nth_error (w_kobjs w) k) as [o|] eqn:Ek.
  - rewrite (kobj_modify_run k _ w o Ek) in *. cbn [ret] in *. split; [exact X|].
    destruct Fr as [[o0 [sc [A1 [A2 [A3 A4]]]]] [NC H0]]. split; [|split; [exact NC | exact H0]].
    destruct (Nat.eq_dec k0 k) as [->|N].
    + rewrite Ek in A1. inversion A1; subst o0. exists (ko_with_revoked b o), sc. wsimpl.
      split; [eapply nth_error_set_nth_same; exact Ek|]. cbn [ko_with_revoked ko_once ko_secret]. repeat split; assumption.
    + exists o0, sc. wsimpl. rewrite nth_error_set_nth_other by congruence. repeat split; assumption.
  - rewrite (kobj_modify_none k _ w Ek) in *. exact X.
Qed.

(* the place of entry e, in terms that survive refreshes of the key object *)
Definition tgtc (meta : keymeta) (c : Z) : str :=
  if is_latest meta then cache_key (km_id meta) c else cache_key (km_id meta) (km_created meta).
Definition posfact (cid : nat) (meta : keymeta) (e : centry) (w : world) : Prop :=
  exists c, created_of w (ce_key e) c /\ centry_at w cid (tgtc meta c) e.

Lemma stable0_centry cid ks e : stable0 (fun w => centry_at w cid ks e).
Proof. intros w w' [[_ [_ [EC _]]] _] [ND0 [kc [X Y]]]. split; [exact ND0|]. exists kc. rewrite EC. split; assumption. Qed.
Lemma stableL_centry cid ks e : stableL (fun w => centry_at w cid ks e).
Proof. intros w w' [_ [_ EC]] [ND0 [kc [X Y]]]. split; [exact ND0|]. exists kc. rewrite EC. split; assumption. Qed.
Lemma stable0_posfact cid meta e : stable0 (posfact cid meta e).
Proof.
  intros w w' R [c [X Y]]. exists c. split; [eapply (stable_created_of (ce_key e) c); [apply Rq0_Rq; exact R | exact X] | eapply stable0_centry; eassumption].
Qed.
Lemma stableL_posfact cid meta e : stableL (posfact cid meta e).
Proof.
  intros w w' S [c [[o [X1 X2]] Y]]. exists c. split; [exists o; destruct S as [E1 _]; rewrite E1; split; assumption | eapply stableL_centry; eassumption].
Qed.

Lemma posfact_tgt cid meta e w : posfact cid meta e w -> exists o ex, nth_error (w_kobjs w) (ce_key e) = Some o /\ centry_at w cid (tgt meta o) ex /\ ce_key ex = ce_key e.
Proof. intros [c [[o [X1 X2]] Y]]. exists o, e. split; [exact X1|]. split; [|reflexivity]. unfold tgt. unfold tgtc in Y. rewrite X2. exact Y. Qed.

Lemma freshk_ext Ex H H' w k : (forall x, H' x = H x) -> freshk Ex H w k -> freshk Ex H' w k.
Proof. intros E [A [B C]]. split; [exact A | split; [exact B | rewrite E; exact C]]. Qed.

Lemma kc_load_L kinds cid b meta loader :
  nth_error kinds cid = Some b -> ~ Dd cid -> okid (kd_of b) (km_id meta) -> loader_okL kinds (kd_of b) loader meta ->
  forall H, hoare (IL kinds H) (kc_load cid meta loader)
                  (fun k w => exists H', hle H H' /\ LInv NoX H' w /\ cached NoX w k) (Lge H).
Proof.
  intros Hk NDc Ok LO H. unfold kc_load. set (kd := kd_of b).
  eapply (hoare_bind _ _ (fun k w => exists H', hle H H' /\ IL kinds H' w /\ handed kd meta w k /\ freshk NoX H' w k)).
  { eapply hoare_weaken; [exact (LO H) | intros w X; exact X | intros k w X; exact X | intros w X; exact (proj2 X)]. }
  intro k. apply hoare_ex. intro H1.
  apply hoare_pre with (P' := fun w => hle H H1 /\ (IL kinds H1 w /\ handed kd meta w k /\ freshk NoX H1 w k)); [|intros w X; exact X].
  apply hoare_pure. intro Le.
  (* from here on the error postcondition is Lge H1, weakened at the end *)
  eapply hoare_weaken with (Q' := fun k0 w => exists H', hle H1 H' /\ LInv NoX H' w /\ cached NoX w k0) (E' := Lge H1);
    [| intros w X; exact X | intros k0 w [H' [X Y]]; exists H'; split; [eapply hle_trans; eassumption | exact Y] | intros w X; eapply Lge_mono; eassumption].
  pose (F1 := fun w => Iv kinds w).
  pose (F2 := fun w => LInv NoX H1 w /\ freshk NoX H1 w k).
  assert (S1 : stable0 F1) by apply stable0_Iv.
  assert (S2 : stableL F2).
  { intros w w' S [L Fr]. split; [eapply LInv_same; eassumption | eapply freshk_same; eassumption]. }
  assert (EE : forall w, F1 w /\ F2 w -> Lge H1 w) by (intros w [_ [L _]]; apply Lge_of; exact L).
  eapply (hoare_bind _ _ (fun (_ : kobj) w => F1 w /\ F2 w)).
  { eapply hoare_pre; [exact (hoare_qB (kobj_get k) F1 F2 _ (q0_kobj_get k) (qL_kobj_get k) S1 S2 EE)|]. intros w [[A B] [_ C]]. split; [exact A | split; assumption]. }
  intro ko.
  (* the read: coherence tells where the entry sits, liveness that it is still there *)
  eapply (hoare_bind _ _ (fun r w => F2 w /\ forall e, r = Some e -> posfact cid meta e w)).
  { eapply hoare_weaken.
    - exact (hoare_conj _ _ _ _ _ _ _ (kc_read_at kinds cid b meta Hk NDc Ok) (kc_read_L H1 cid meta (fun k0 => k0 = k) NDc)).
    - intros w [A [L Fr]]. split; [exact A|]. split; [exact L|]. intros k0 ->. exact Fr.
    - intros r w [At [[L Fr] _]]. split; [split; [exact L | exact (Fr k eq_refl)]|].
      intros e Hr. destruct (At e Hr) as [o [X Y]]. exists (ko_created o). split; [exists o; split; [exact X | reflexivity]|].
      unfold tgtc. unfold tgt in Y. exact Y.
    - intros w [_ L]. apply Lge_of. exact L. }
  intro r.
  pose (F3 := fun w => F2 w /\ forall e, r = Some e -> posfact cid meta e w).
  assert (S3 : stableL F3).
  { apply stableL_and; [exact S2|]. intros w w' S X e Hr. eapply stableL_posfact; [exact S | exact (X e Hr)]. }
  assert (E3 : forall w, F3 w -> Lge H1 w) by (intros w [[L _] _]; apply Lge_of; exact L).
  eapply (hoare_bind _ _ (fun (_ : Z) w => F3 w)); [exact (hoare_qL get_now F3 _ qL_get_now S3 E3)|].
  intro now.
  eapply (hoare_bind _ _ (fun (_ : bool) w => F3 w)).
  { assert (Qx : qL (match r with
                      | Some e => eo <- kobj_get (ce_key e) ;; ret (ko_created eo =? ko_created ko)
                      | None => ret false end)) by (destruct r; qL_go).
    exact (hoare_qL _ F3 _ Qx S3 E3). }
  intro same.
  apply (hoare_pull _ (H1 k = 0)); [intros w [[_ [_ [_ X]]] _]; exact X|]. intro Hk0.
  (* a new entry for the loaded object *)
  assert (Fresh : hoare F3 (cck_wrap k;;; kc_write cid meta {| ce_loaded := now; ce_key := k |};;; ret k)
                        (fun k0 w => exists H', hle H1 H' /\ LInv NoX H' w /\ cached NoX w k0) (Lge H1)).
  { eapply (hoare_bind _ _ (fun (_ : unit) w => LInv NoX (hadd H1 k 1) w /\ ~ cached NoX w k)).
    { eapply hoare_weaken.
      - exact (hoare_conj _ _ _ _ _ _ _ (cck_wrap_L NoX H1 k) (hoare_quiet0 (cck_wrap k) (fun w => ~ cached NoX w k) (q0_cck_wrap k) (stable0_not_cached NoX k))).
      - intros w [[L Fr] _]. split; [split; assumption | exact (proj1 (proj2 Fr))].
      - intros u w X. exact X.
      - intros w [[] _]. }
    intros _.
    eapply (hoare_bind _ _ (fun (_ : unit) w => LInv NoX H1 w /\ cached NoX w k)).
    { eapply hoare_weaken.
      - exact (kc_write_donate_L (hadd H1 k 1) cid meta {| ce_loaded := now; ce_key := k |} NDc).
      - cbn [ce_key]. intros w [L NC]. split; [exact L|]. split; [rewrite hadd_same; lia | exact NC].
      - cbn [ce_key]. intros u w [L C]. split; [eapply LInv_ext; [|exact L]; intro x; symmetry; apply hadd_hadd_cancel | exact C].
      - cbn [ce_key]. intros w X. eapply Lge_mono; [|exact X]. intro x. rewrite hadd_hadd_cancel. lia. }
    intros _. apply hoare_ret. intros w [L C]. exists H1. split; [apply hle_refl | split; assumption]. }
  destruct r as [e|]; [destruct same|]; [|exact Fresh|exact Fresh].
  (* the cached object has the same creation stamp: keep it, drop the reloaded one *)
  pose (F4 := fun w => (LInv NoX H1 w /\ freshk NoX H1 w k) /\ posfact cid meta e w).
  eapply (hoare_bind _ _ (fun (_ : unit) w => F4 w)).
  { eapply hoare_weaken.
    - exact (hoare_conj _ _ _ _ _ _ _ (ck_set_revoked_fresh NoX H1 (ce_key e) (ko_revoked ko) k)
               (hoare_quiet0 _ (posfact cid meta e) (q0_ck_set_revoked (ce_key e) (ko_revoked ko)) (stable0_posfact cid meta e))).
    - intros w [X Y]. split; [exact X | exact (Y e eq_refl)].
    - intros u w X. exact X.
    - intros w [L _]. apply Lge_of. exact L. }
  intros _.
  eapply (hoare_bind _ _ (fun (_ : unit) w => LInv NoX H1 w /\ posfact cid meta e w)).
  { eapply hoare_weaken.
    - exact (hoare_conj _ _ _ _ _ _ _ (ck_close_L NoX H1 k) (hoare_quiet0 _ (posfact cid meta e) (q0_ck_close k) (stable0_posfact cid meta e))).
    - intros w [[L [_ [NC H0]]] P]. split; [split; [exact L | split; assumption] | exact P].
    - intros u w X. exact X.
    - intros w [L _]. apply Lge_of. exact L. }
  intros _.
  eapply (hoare_bind _ _ (fun (_ : unit) w => LInv NoX H1 w /\ cached NoX w (ce_key e))).
  { eapply hoare_weaken.
    - exact (kc_write_same_L H1 cid meta {| ce_loaded := now; ce_key := ce_key e |}).
    - cbn [ce_key]. intros w [L P]. split; [exact L | apply posfact_tgt; exact P].
    - cbn [ce_key]. intros u w X. exact X.
    - intros w L. apply Lge_of. exact L. }
  intros _. apply hoare_ret. intros w [L C]. exists H1. split; [apply hle_refl | split; assumption].
Qed.

Lemma kc_get_fresh_L H cid rci meta :
  ~ Dd cid ->
  hoare (LInv NoX H) (kc_get_fresh cid rci meta)
        (fun f w => LInv NoX H w /\ forall k fr, f = Some (k, fr) -> cached NoX w k) (LInv NoX H).
Proof.
  intro NDc. unfold kc_get_fresh.
  eapply (hoare_bind _ _ (fun r w => LInv NoX H w /\ forall e, r = Some e -> exists s0, centry_at w cid s0 e)).
  { eapply hoare_weaken; [exact (kc_read_L H cid meta (fun _ => False) NDc) | | |]; cbv beta.
    - intros w L. split; [exact L | intros k0 []].
    - intros r w [[L _] X]. split; assumption.
    - intros w X. exact X. }
  intros [e|].
  - pose (A := fun w => LInv NoX H w /\ exists s0, centry_at w cid s0 e).
    assert (SA : stableL A).
    { apply stableL_and; [apply stableL_LInv|]. intros w w' S [s0 X]. exists s0. eapply stableL_centry; eassumption. }
    eapply (hoare_bind _ _ (fun (_ : bool) w => A w)).
    + eapply hoare_pre; [exact (hoare_qL _ A _ (qL_reload_required e rci) SA (fun w X => proj1 X))|].
      intros w [L X]. split; [exact L | exact (X e eq_refl)].
    + intro stale. apply hoare_ret. intros w [L [s0 Ce]]. split; [exact L|]. intros k fr Hf. inversion Hf; subst.
      exists cid, s0, e. split; [exact Ce | split; [intros [] | reflexivity]].
  - apply hoare_ret. intros w [L _]. split; [exact L|]. intros k fr Hf. discriminate Hf.
Qed.

Lemma kc_get_fresh_IL kinds cid b rci meta H :
  nth_error kinds cid = Some b -> ~ Dd cid -> okid (kd_of b) (km_id meta) ->
  hoare (IL kinds H) (kc_get_fresh cid rci meta)
        (fun f w => IL kinds H w /\ forall k fr, f = Some (k, fr) -> handed (kd_of b) meta w k /\ cached NoX w k) (IL kinds H).
Proof.
  intros Hk NDc Ok. eapply hoare_weaken.
  - exact (hoare_conj _ _ _ _ _ _ _ (kc_get_fresh_spec svc prod kinds cid b rci meta Hk Ok) (kc_get_fresh_L H cid rci meta NDc)).
  - intros w X. exact X.
  - intros f w [[HI Hh] [L Hc]]. split; [split; assumption|]. intros k fr Hf. split; [exact (Hh k fr Hf) | exact (Hc k fr Hf)].
  - intros w X. exact X.
Qed.

Lemma kc_load_IL kinds cid b meta loader :
  nth_error kinds cid = Some b -> ~ Dd cid -> okid (kd_of b) (km_id meta) -> loader_ok svc prod kinds (kd_of b) loader meta ->
  loader_okL kinds (kd_of b) loader meta ->
  forall H, hoare (IL kinds H) (kc_load cid meta loader)
                  (fun k w => exists H', hle H H' /\ IL kinds H' w /\ handed (kd_of b) meta w k /\ cached NoX w k) (ILge kinds H).
Proof.
  intros Hk NDc Ok LO LOL H. eapply hoare_weaken.
  - exact (hoare_conj _ _ _ _ _ _ _ (kc_load_spec svc prod kinds cid b meta loader Hk Ok LO) (kc_load_L kinds cid b meta loader Hk NDc Ok LOL H)).
  - intros w X. split; [exact (proj1 X) | exact X].
  - intros k w [[HI Hh] [H' [Le [L C]]]]. exists H'. split; [exact Le|]. split; [split; assumption|]. split; assumption.
  - intros w X. exact X.
Qed.

Lemma stable0_Iv_handed kinds kd meta k : stable0 (fun w => Iv kinds w /\ handed kd meta w k).
Proof. apply stable0_and; [apply stable0_Iv | apply stable0_of_S, stableS_handed]. Qed.

Lemma incr_ret_IL kinds kd meta H1 k :
  hoare (fun w => IL kinds H1 w /\ handed kd meta w k /\ cached NoX w k) (cck_increment k;;; ret k)
        (fun k0 w => k0 = k /\ IL kinds (hadd H1 k 1) w /\ handed kd meta w k) (fun _ => False).
Proof.
  eapply (hoare_bind _ _ (fun (_ : unit) w => (Iv kinds w /\ handed kd meta w k) /\ LInv NoX (hadd H1 k 1) w)).
  - eapply hoare_weaken.
    + exact (hoare_conj _ _ _ _ _ _ _ (hoare_quiet0 (cck_increment k) _ (q0_cck_increment k) (stable0_Iv_handed kinds kd meta k)) (cck_increment_L NoX H1 k)).
    + intros w [[HI L] [Hh C]]. split; [split; assumption | split; [exact L | left; exact C]].
    + intros u w X. exact X.
    + intros w [_ []].
  - intros _. apply hoare_ret. intros w [[HI Hh] L]. split; [reflexivity|]. split; [split; assumption | exact Hh].
Qed.

Lemma wrap_ret_IL kinds kd meta H1 k :
  hoare (fun w => IL kinds H1 w /\ handed kd meta w k /\ freshk NoX H1 w k) (cck_wrap k;;; ret k)
        (fun k0 w => k0 = k /\ IL kinds (hadd H1 k 1) w /\ handed kd meta w k) (fun _ => False).
Proof.
  eapply (hoare_bind _ _ (fun (_ : unit) w => (Iv kinds w /\ handed kd meta w k) /\ LInv NoX (hadd H1 k 1) w)).
  - eapply hoare_weaken.
    + exact (hoare_conj _ _ _ _ _ _ _ (hoare_quiet0 (cck_wrap k) _ (q0_cck_wrap k) (stable0_Iv_handed kinds kd meta k)) (cck_wrap_L NoX H1 k)).
    + intros w [[HI L] [Hh Fr]]. split; [split; assumption | split; assumption].
    + intros u w X. exact X.
    + intros w [_ []].
  - intros _. apply hoare_ret. intros w [[HI Hh] L]. split; [reflexivity|]. split; [split; assumption | exact Hh].
Qed.

Definition held_post kinds (kd : kind) (meta : keymeta) (H : holds) (k : nat) (w : world) : Prop :=
  exists H', hle (hadd H k 1) H' /\ IL kinds H' w /\ handed kd meta w k.

Lemma held_post_mono kinds kd meta H H1 k w : hle H H1 -> held_post kinds kd meta H1 k w -> held_post kinds kd meta H k w.
Proof. intros Le [H' [X Y]]. exists H'. split; [eapply hle_trans; [apply hle_hadd; exact Le | exact X] | exact Y]. Qed.

Lemma get_or_load_IL kinds c b rci meta loader :
  cache_kind kinds c b -> cache_live c -> okid (kd_of b) (km_id meta) -> loader_ok svc prod kinds (kd_of b) loader meta -> loader_okL kinds (kd_of b) loader meta ->
  forall H, hoare (IL kinds H) (get_or_load c rci meta loader) (fun k w => held_post kinds (kd_of b) meta H k w) (ILge kinds H).
Proof.
  intros Hc CL Ok LO LOL H. unfold get_or_load. set (kd := kd_of b). destruct c as [cid|].
  - pose proof (Hc cid eq_refl) as Hk. pose proof (CL cid eq_refl) as NDc.
    assert (Hit : forall H1 k, hoare (fun w => IL kinds H1 w /\ handed kd meta w k /\ cached NoX w k) (cck_increment k;;; ret k)
                              (fun k0 w => held_post kinds kd meta H1 k0 w) (ILge kinds H)).
    { intros H1 k. eapply hoare_weaken; [exact (incr_ret_IL kinds kd meta H1 k) | intros w X; exact X | | intros w []].
      intros k0 w [-> [X Y]]. exists (hadd H1 k 1). split; [apply hle_refl | split; assumption]. }
    assert (Tail : hoare (IL kinds H) (k <- kc_load cid meta loader;; cck_increment k;;; ret k)
                         (fun k w => held_post kinds kd meta H k w) (ILge kinds H)).
    { eapply (hoare_bind _ _ _); [exact (kc_load_IL kinds cid b meta loader Hk NDc Ok LO LOL H)|]. intro k. apply hoare_ex. intro H1.
      apply hoare_pre with (P' := fun w => hle H H1 /\ (IL kinds H1 w /\ handed kd meta w k /\ cached NoX w k)); [|intros w X; exact X].
      apply hoare_pure. intro Le. eapply hoare_post; [exact (Hit H1 k)|]. intros k0 w X. eapply held_post_mono; eassumption. }
    eapply (hoare_bind _ _ _).
    { eapply hoare_weaken with (E' := IL kinds H); [exact (kc_get_fresh_IL kinds cid b rci meta H Hk NDc Ok) | intros w X; exact X | intros f w X; exact X | apply IL_ILge]. }
    intros [[k [|]]|].
    + eapply hoare_pre; [exact (Hit H k)|]. intros w [HI X]. destruct (X k true eq_refl) as [A B]. split; [exact HI | split; assumption].
    + eapply hoare_pre with (P' := IL kinds H); [|intros w [HI _]; exact HI].
      eapply (hoare_bind _ _ _).
      { eapply hoare_weaken with (E' := IL kinds H); [exact (kc_get_fresh_IL kinds cid b rci meta H Hk NDc Ok) | intros w X; exact X | intros f w X; exact X | apply IL_ILge]. }
      intros [[k2 [|]]|].
      * eapply hoare_pre; [exact (Hit H k2)|]. intros w [HI X]. destruct (X k2 true eq_refl) as [A B]. split; [exact HI | split; assumption].
      * eapply hoare_pre; [exact Tail | intros w [HI _]; exact HI].
      * eapply hoare_pre; [exact Tail | intros w [HI _]; exact HI].
    + eapply hoare_pre with (P' := IL kinds H); [|intros w [HI _]; exact HI].
      eapply (hoare_bind _ _ _).
      { eapply hoare_weaken with (E' := IL kinds H); [exact (kc_get_fresh_IL kinds cid b rci meta H Hk NDc Ok) | intros w X; exact X | intros f w X; exact X | apply IL_ILge]. }
      intros [[k2 [|]]|].
      * eapply hoare_pre; [exact (Hit H k2)|]. intros w [HI X]. destruct (X k2 true eq_refl) as [A B]. split; [exact HI | split; assumption].
      * eapply hoare_pre; [exact Tail | intros w [HI _]; exact HI].
      * eapply hoare_pre; [exact Tail | intros w [HI _]; exact HI].
  - eapply (hoare_bind _ _ _); [exact (LOL H)|]. intro k. apply hoare_ex. intro H1.
    apply hoare_pre with (P' := fun w => hle H H1 /\ (IL kinds H1 w /\ handed kd meta w k /\ freshk NoX H1 w k)); [|intros w X; exact X].
    apply hoare_pure. intro Le. eapply hoare_weaken; [exact (wrap_ret_IL kinds kd meta H1 k) | intros w X; exact X | | intros w []].
    intros k0 w [-> [X Y]]. eapply held_post_mono; [exact Le|]. exists (hadd H1 k 1). split; [apply hle_refl | split; assumption].
Qed.

Definition held_bound kinds (kd : kind) (id : str) (H : holds) (k : nat) (w : world) : Prop :=
  exists H', hle (hadd H k 1) H' /\ IL kinds H' w /\ bound kd w k id.

Lemma get_or_load_latest_IL kinds c b rci expire id loader :
  cache_kind kinds c b -> cache_live c -> okid (kd_of b) id ->
  loader_ok svc prod kinds (kd_of b) loader {| km_id := id; km_created := 0 |} ->
  loader_okL kinds (kd_of b) loader {| km_id := id; km_created := 0 |} ->
  forall H, hoare (IL kinds H) (get_or_load_latest c rci expire id loader) (fun k w => held_bound kinds (kd_of b) id H k w) (ILge kinds H).
Proof.
  intros Hc CL Ok LO LOL H. unfold get_or_load_latest. set (meta := {| km_id := id; km_created := 0 |}). set (kd := kd_of b).
  assert (Okm : okid kd (km_id meta)) by exact Ok.
  destruct c as [cid|].
  - pose proof (Hc cid eq_refl) as Hk. pose proof (CL cid eq_refl) as NDc.
    eapply (hoare_bind _ _ (fun (f : option (nat * bool)) w => IL kinds H w /\ forall k fr, f = Some (k, fr) -> handed kd meta w k /\ cached NoX w k)).
    { eapply hoare_weaken with (E' := IL kinds H); [exact (kc_get_fresh_IL kinds cid b rci meta H Hk NDc Okm) | intros w X; exact X | intros f w X; exact X | apply IL_ILge]. }
    intro f.
    eapply (hoare_bind _ _ (fun key w => exists H1, hle H H1 /\ IL kinds H1 w /\ handed kd meta w key /\ cached NoX w key)).
    { destruct f as [[k [|]]|].
      - apply hoare_ret. intros w [HI X]. destruct (X k true eq_refl) as [A B]. exists H. split; [apply hle_refl | split; [exact HI | split; assumption]].
      - eapply hoare_pre; [exact (kc_load_IL kinds cid b meta loader Hk NDc Okm LO LOL H) | intros w X; exact (proj1 X)].
      - eapply hoare_pre; [exact (kc_load_IL kinds cid b meta loader Hk NDc Okm LO LOL H) | intros w X; exact (proj1 X)]. }
    intro key. apply hoare_ex. intro H1.
    apply hoare_pre with (P' := fun w => hle H H1 /\ (IL kinds H1 w /\ handed kd meta w key /\ cached NoX w key)); [|intros w X; exact X].
    apply hoare_pure. intro Le1.
    eapply hoare_weaken with (Q' := fun k w => held_bound kinds kd id H1 k w) (E' := ILge kinds H1);
      [| intros w X; exact X
       | intros k w [H' [X Y]]; exists H'; split; [eapply hle_trans; [apply hle_hadd; exact Le1 | exact X] | exact Y]
       | intros w X; eapply ILge_mono; eassumption].
    pose (A := fun w => IL kinds H1 w /\ handed kd meta w key /\ cached NoX w key).
    eapply (hoare_bind _ _ (fun (_ : bool) w => A w)).
    { assert (SA0 : stable0 (fun w => Iv kinds w /\ handed kd meta w key)) by apply stable0_Iv_handed.
      assert (SAL : stableL (fun w => LInv NoX H1 w /\ cached NoX w key)).
      { intros w w' S [L [c1 [s1 [e1 [X Y]]]]]. split; [eapply LInv_same; eassumption|]. exists c1, s1, e1. split; [eapply stableL_centry; eassumption | exact Y]. }
      eapply hoare_weaken; [exact (hoare_qB (is_key_invalid key expire) _ _ (ILge kinds H1) (q0_is_key_invalid key expire) (qL_is_key_invalid key expire) SA0 SAL
                                      (fun w X => conj (proj1 (proj1 X)) (Lge_of _ _ (proj1 (proj2 X))))) | | |]; cbv beta.
      - intros w [[HI L] [Hh C]]. split; [split; assumption | split; assumption].
      - intros u w [[HI Hh] [L C]]. split; [split; assumption | split; assumption].
      - intros w X. exact X. }
    intros [|].
    + (* invalid: reload *)
      eapply (hoare_bind _ _ (fun reloaded w => exists H2, hle H1 H2 /\ IL kinds H2 w /\ handed kd meta w reloaded /\ freshk NoX H2 w reloaded)).
      { eapply hoare_pre; [exact (LOL H1) | intros w X; exact (proj1 X)]. }
      intro reloaded. apply hoare_ex. intro H2.
      apply hoare_pre with (P' := fun w => hle H1 H2 /\ (IL kinds H2 w /\ handed kd meta w reloaded /\ freshk NoX H2 w reloaded)); [|intros w X; exact X].
      apply hoare_pure. intro Le2.
      eapply hoare_weaken with (Q' := fun k w => held_bound kinds kd id H2 k w) (E' := ILge kinds H2);
        [| intros w X; exact X
         | intros k w [H' [X Y]]; exists H'; split; [eapply hle_trans; [apply hle_hadd; exact Le2 | exact X] | exact Y]
         | intros w X; eapply ILge_mono; eassumption].
      apply (hoare_pull _ (H2 reloaded = 0)); [intros w [_ [_ [_ [_ X]]]]; exact X|]. intro Hr0.
      pose (F1 := fun w => Iv kinds w /\ handed kd meta w reloaded).
      pose (F2 := fun w => LInv NoX H2 w /\ freshk NoX H2 w reloaded).
      assert (S1 : stable0 F1) by apply stable0_Iv_handed.
      assert (S2 : stableL F2) by (intros w w' S [L Fr]; split; [eapply LInv_same; eassumption | eapply freshk_same; eassumption]).
      assert (EE : forall w, F1 w /\ F2 w -> ILge kinds H2 w) by (intros w [[HI _] [L _]]; split; [exact HI | apply Lge_of; exact L]).
      eapply (hoare_bind _ _ (fun ro w => (F1 w /\ F2 w) /\ created_of w reloaded (ko_created ro))).
      { intros w [[HI L] [Hh Fr]].
        pose proof (hoare_qB (kobj_get reloaded) F1 F2 _ (q0_kobj_get reloaded) (qL_kobj_get reloaded) S1 S2 EE w (conj (conj HI Hh) (conj L Fr))) as X.
        pose proof (kobj_get_res reloaded w I) as Y.
        destruct (kobj_get reloaded w) as [[er|ro] w1]; [exact X|]. split; [exact X|]. exists ro. split; [exact Y | reflexivity]. }
      intro ro.
      pose (G1 := fun w => F1 w /\ created_of w reloaded (ko_created ro)).
      assert (SG1 : stable0 G1) by (apply stable0_and; [exact S1 | apply stable0_of_S, stableS_created_of]).
      assert (EG : forall w, G1 w /\ F2 w -> ILge kinds H2 w) by (intros w [[X _] Y]; exact (EE w (conj X Y))).
      eapply (hoare_bind _ _ (fun (_ : Z) w => G1 w /\ F2 w)).
      { eapply hoare_pre; [exact (hoare_qB get_now G1 F2 _ q0_get_now qL_get_now SG1 S2 EG)|]. intros w [[X Y] Z]. split; [split; assumption | exact Y]. }
      intro now.
      eapply (hoare_bind _ _ (fun (_ : unit) w => G1 w /\ (LInv NoX (hadd H2 reloaded 1) w /\ ~ cached NoX w reloaded))).
      { eapply hoare_weaken.
        - exact (hoare_conj _ _ _ _ _ _ _ (hoare_quiet0 (cck_wrap reloaded) G1 (q0_cck_wrap reloaded) SG1)
                   (hoare_conj _ _ _ _ _ _ _ (cck_wrap_L NoX H2 reloaded) (hoare_quiet0 (cck_wrap reloaded) (fun w => ~ cached NoX w reloaded) (q0_cck_wrap reloaded) (stable0_not_cached NoX reloaded)))).
        - intros w [X [L Fr]]. split; [exact X|]. split; [split; assumption | exact (proj1 (proj2 Fr))].
        - intros u w X. exact X.
        - intros w [_ [[] _]]. }
      intros _.
      set (meta2 := {| km_id := id; km_created := ko_created ro |}).
      eapply (hoare_bind _ _ (fun (_ : unit) w => (Iv kinds w /\ bound kd w reloaded id) /\ (LInv NoX H2 w /\ cached NoX w reloaded))).
      { eapply hoare_weaken.
        - exact (hoare_conj _ _ _ _ _ _ _
                   (hoare_carry (kc_write cid meta2 {| ce_loaded := now; ce_key := reloaded |}) (fun w => bound kd w reloaded id) _ _ _
                      (pres_kc_write Rs Rs_frame cid meta2 _) (stableS_bound svc prod kd reloaded id)
                      (kc_write_spec svc prod kinds cid b meta2 {| ce_loaded := now; ce_key := reloaded |} Hk Ok))
                   (kc_write_donate_L (hadd H2 reloaded 1) cid meta2 {| ce_loaded := now; ce_key := reloaded |} NDc)).
        - cbn [ce_key]. intros w [[[HI [Hb _]] Hcr] [L NC]]. split.
          + split; [|exact Hb]. split; [exact HI|]. split; [exact Hb | intros _; exact Hcr].
          + split; [exact L|]. split; [rewrite hadd_same; lia | exact NC].
        - cbn [ce_key]. intros u w [[HI Hb] [L C]]. split; [split; assumption|]. split; [eapply LInv_ext; [|exact L]; intro x; symmetry; apply hadd_hadd_cancel | exact C].
        - cbn [ce_key]. intros w [HI X]. split; [exact HI|]. eapply Lge_mono; [|exact X]. intro x. rewrite hadd_hadd_cancel. lia. }
      intros _.
      eapply hoare_weaken; [exact (incr_ret_IL kinds kd meta H2 reloaded) | | | intros w []].
      * intros w [[HI Hb] [L C]]. split; [split; assumption|]. split; [split; [exact Hb | intro X; discriminate X] | exact C].
      * intros k0 w [-> [X [Hb _]]]. exists (hadd H2 reloaded 1). split; [apply hle_refl | split; assumption].
    + eapply hoare_weaken; [exact (incr_ret_IL kinds kd meta H1 key) | intros w X; exact X | | intros w []].
      intros k0 w [-> [X [Hb _]]]. exists (hadd H1 key 1). split; [apply hle_refl | split; assumption].
  - eapply (hoare_bind _ _ _); [exact (LOL H)|]. intro k. apply hoare_ex. intro H1.
    apply hoare_pre with (P' := fun w => hle H H1 /\ (IL kinds H1 w /\ handed kd meta w k /\ freshk NoX H1 w k)); [|intros w X; exact X].
    apply hoare_pure. intro Le. eapply hoare_weaken; [exact (wrap_ret_IL kinds kd meta H1 k) | intros w X; exact X | | intros w []].
    intros k0 w [-> [X [Hb _]]]. exists (hadd H1 k 1). split; [apply hle_hadd; exact Le | split; assumption].
Qed.

(* ---- envelope.go --------------------------------------------------------------------------------------- *)

Notation SKid := (SKid svc prod).
Notation IKid := (IKid svc prod).
Notation env_ok := (env_ok svc prod).

Lemma system_key_from_ekr_L H r :
  hoare (LInv NoX H) (system_key_from_ekr r) (fun k w => LInv NoX H w /\ freshk NoX H w k) (LInv NoX H).
Proof.
  unfold system_key_from_ekr.
  eapply (hoare_bind _ _ (fun (_ : ptxt) w => LInv NoX H w)); [exact (hoare_qL _ _ _ (qL_kms_decrypt _) (stableL_LInv NoX H) (fun w X => X))|].
  intro p. exact (new_crypto_key_L NoX H _ _ p).
Qed.

Lemma load_system_key_L H meta :
  hoare (LInv NoX H) (load_system_key meta) (fun k w => LInv NoX H w /\ freshk NoX H w k) (LInv NoX H).
Proof.
  unfold load_system_key.
  eapply (hoare_bind _ _ (fun (_ : option ekr) w => LInv NoX H w)); [exact (hoare_qL _ _ _ (qL_m_load _ _) (stableL_LInv NoX H) (fun w X => X))|].
  intros [r|]; [exact (system_key_from_ekr_L H r) | apply hoare_fail; tauto].
Qed.

Lemma load_system_key_okL kinds meta : km_id meta = SKid -> loader_okL kinds KSk load_system_key meta.
Proof.
  intros Eid H. destruct (load_system_key_ok svc prod kinds meta Eid) as [_ LS].
  eapply hoare_weaken; [exact (hoare_conj _ _ _ _ _ _ _ LS (load_system_key_L H meta)) | intros w X; exact X | | ].
  - intros k w [[HI Hh] [L Fr]]. exists H. split; [apply hle_refl|]. split; [split; assumption | split; assumption].
  - intros w [HI L]. split; [exact HI | apply Lge_of; exact L].
Qed.

Lemma get_or_load_system_key_IL kinds e pm :
  env_ok kinds e -> env_live e -> km_id pm = SKid ->
  forall H, hoare (IL kinds H) (get_or_load_system_key e pm)
                  (fun k w => exists H', hle (hadd H k 1) H' /\ IL kinds H' w /\ bound KSk w k SKid) (ILge kinds H).
Proof.
  intros EO EL Eid H. pose proof EO as [_ [_ [_ [Hsk _]]]]. unfold get_or_load_system_key.
  eapply hoare_post; [exact (get_or_load_IL kinds (en_sk e) true (p_rci (en_pol e)) pm load_system_key Hsk (proj1 EL) Eid
                                (load_system_key_ok svc prod kinds pm Eid) (load_system_key_okL kinds pm Eid) H)|].
  intros k w [H' [Le [HI [Hb _]]]]. exists H'. rewrite Eid in Hb. split; [exact Le | split; assumption].
Qed.

Lemma hle_hadd_pos H k : hle H (hadd H k 1).
Proof. intro x. unfold hadd. destruct (Nat.eqb x k); lia. Qed.

(* intermediateKeyFromEKR: the system key it may look up stays held (known finding J) - a leak, never a premature release *)
Lemma intermediate_key_from_ekr_L kinds e sk r :
  env_ok kinds e -> env_live e -> (forall pm, e_parent r = Some pm -> km_id pm = SKid) ->
  forall H, hoare (IL kinds H) (intermediate_key_from_ekr e sk r)
                  (fun k w => exists H', hle H H' /\ LInv NoX H' w /\ freshk NoX H' w k) (Lge H).
Proof.
  intros EO EL Hp H. unfold intermediate_key_from_ekr.
  eapply (hoare_bind _ _ (fun (_ : kobj) w => IL kinds H w)).
  { eapply hoare_weaken; [exact (hoare_qB (kobj_get sk) (Iv kinds) (LInv NoX H) (Lge H) (q0_kobj_get sk) (qL_kobj_get sk) (stable0_Iv svc prod kinds) (stableL_LInv NoX H)
                                   (fun w X => Lge_of _ _ (proj2 X))) | | |]; cbv beta; auto. }
  intro sko.
  eapply (hoare_bind _ _ (fun (_ : nat) w => exists H1, hle H H1 /\ LInv NoX H1 w)).
  { destruct (e_parent r) as [pm|] eqn:Ep.
    - destruct (ko_created sko =? km_created pm).
      + apply hoare_ret. intros w [_ L]. exists H. split; [apply hle_refl | exact L].
      + eapply hoare_weaken; [exact (get_or_load_system_key_IL kinds e pm EO EL (Hp pm eq_refl) H) | intros w X; exact X | | intros w X; exact (proj2 X)].
        intros k w [H' [Le [[_ L] _]]]. exists H'. split; [eapply hle_trans; [apply hle_hadd_pos | exact Le] | exact L].
    - apply hoare_ret. intros w [_ L]. exists H. split; [apply hle_refl | exact L]. }
  intro sk'. apply hoare_ex. intro H1.
  apply hoare_pre with (P' := fun w => hle H H1 /\ LInv NoX H1 w); [|intros w X; exact X]. apply hoare_pure. intro Le.
  eapply hoare_weaken with (Q' := fun k w => LInv NoX H1 w /\ freshk NoX H1 w k) (E' := LInv NoX H1);
    [| intros w X; exact X | intros k w [L Fr]; exists H1; split; [exact Le | split; assumption] | intros w L; exists H1; split; assumption].
  eapply (hoare_bind _ _ (fun (_ : ptxt) w => LInv NoX H1 w)); [exact (hoare_qL _ _ _ (qL_key_bytes sk') (stableL_LInv NoX H1) (fun w X => X))|].
  intro skb.
  eapply (hoare_bind _ _ (fun (_ : ptxt) w => LInv NoX H1 w)); [exact (hoare_qL _ _ _ (qL_aead_decrypt _ _) (stableL_LInv NoX H1) (fun w X => X))|].
  intro ikb. exact (new_crypto_key_L NoX H1 _ _ ikb).
Qed.

Lemma qL_try_store_system_key e sk : qL (try_store_system_key e sk). Proof. unfold try_store_system_key. qL_go. Qed.
Lemma qL_try_store_intermediate_key e ik sk : qL (try_store_intermediate_key e ik sk). Proof. unfold try_store_intermediate_key. qL_go. Qed.

Lemma generate_key_now_L H e : hoare (LInv NoX H) (generate_key_now e) (fun k w => LInv NoX H w /\ freshk NoX H w k) (LInv NoX H).
Proof.
  unfold generate_key_now.
  eapply (hoare_bind _ _ (fun (_ : Z) w => LInv NoX H w)); [exact (hoare_qL _ _ _ qL_get_now (stableL_LInv NoX H) (fun w X => X))|].
  intro now. exact (generate_key_L NoX H _).
Qed.

Lemma stableL_LInv_fresh H k : stableL (fun w => LInv NoX H w /\ freshk NoX H w k).
Proof. intros w w' S [L Fr]. split; [eapply LInv_same; eassumption | eapply freshk_same; eassumption]. Qed.

Lemma load_latest_sk_L H id :
  hoare (LInv NoX H) (r2 <- must_load_latest id ;; system_key_from_ekr r2) (fun k w => LInv NoX H w /\ freshk NoX H w k) (LInv NoX H).
Proof.
  eapply (hoare_bind _ _ (fun (_ : ekr) w => LInv NoX H w)); [exact (hoare_qL _ _ _ (qL_must_load_latest id) (stableL_LInv NoX H) (fun w X => X))|].
  intro r2. exact (system_key_from_ekr_L H r2).
Qed.

Lemma load_latest_or_create_system_key_L H e id :
  hoare (LInv NoX H) (load_latest_or_create_system_key e id) (fun k w => LInv NoX H w /\ freshk NoX H w k) (LInv NoX H).
Proof.
  unfold load_latest_or_create_system_key.
  eapply (hoare_bind _ _ (fun (_ : option ekr) w => LInv NoX H w)); [exact (hoare_qL _ _ _ (qL_m_load_latest id) (stableL_LInv NoX H) (fun w X => X))|].
  intro r.
  eapply (hoare_bind _ _ (fun (_ : bool) w => LInv NoX H w)).
  { assert (Qx : qL (match r with Some r0 => inv <- is_envelope_invalid e r0 ;; ret (negb inv) | None => ret false end)) by (destruct r; qL_go).
    exact (hoare_qL _ _ _ Qx (stableL_LInv NoX H) (fun w X => X)). }
  intro valid.
  assert (Create : hoare (LInv NoX H) (sk <- generate_key_now e ;;
                            st <- try_ (try_store_system_key e sk) ;;
                            match st with
                            | inr true => ret sk
                            | inr false => ck_close sk ;;; r2 <- must_load_latest id ;; system_key_from_ekr r2
                            | inl er => ck_close sk ;;; fail er
                            end) (fun k w => LInv NoX H w /\ freshk NoX H w k) (LInv NoX H)).
  { eapply (hoare_bind _ _ _); [exact (generate_key_now_L H e)|]. intro sk.
    eapply (hoare_bind _ _ (fun (_ : err + bool) w => LInv NoX H w /\ freshk NoX H w sk)).
    { exact (hoare_qL _ _ _ (qL_try _ (qL_try_store_system_key e sk)) (stableL_LInv_fresh H sk) (fun w X => proj1 X)). }
    intros [er|[|]].
    - eapply (hoare_bind _ _ (fun (_ : unit) w => LInv NoX H w)).
      + eapply hoare_pre; [exact (ck_close_L NoX H sk) | intros w [L [_ [NC H0]]]; split; [exact L | split; assumption]].
      + intros _. apply hoare_fail. tauto.
    - apply hoare_ret. tauto.
    - eapply (hoare_bind _ _ (fun (_ : unit) w => LInv NoX H w)).
      + eapply hoare_pre; [exact (ck_close_L NoX H sk) | intros w [L [_ [NC H0]]]; split; [exact L | split; assumption]].
      + intros _. exact (load_latest_sk_L H id). }
  destruct r as [r0|]; [destruct valid|]; [exact (system_key_from_ekr_L H r0) | exact Create | exact Create].
Qed.

Lemma load_latest_or_create_system_key_okL kinds e :
  env_ok kinds e -> env_live e ->
  loader_okL kinds KSk (fun m => load_latest_or_create_system_key e (km_id m)) {| km_id := SKid; km_created := 0 |}.
Proof.
  intros EO EL H. destruct (load_latest_or_create_system_key_ok svc prod kinds e EO) as [_ LS]. cbn [km_id] in *.
  eapply hoare_weaken; [exact (hoare_conj _ _ _ _ _ _ _ LS (load_latest_or_create_system_key_L H e SKid)) | intros w X; exact X | | ].
  - intros k w [[HI Hh] [L Fr]]. exists H. split; [apply hle_refl|]. split; [split; assumption | split; assumption].
  - intros w [HI L]. split; [exact HI | apply Lge_of; exact L].
Qed.

Definition fresh_post (H : holds) (k : nat) (w : world) : Prop := exists H', hle H H' /\ LInv NoX H' w /\ freshk NoX H' w k.

Lemma load_latest_ik_L kinds e sk :
  env_ok kinds e -> env_live e ->
  forall H, hoare (IL kinds H) (r2 <- must_load_latest (ik_id e) ;; intermediate_key_from_ekr e sk r2) (fun k w => fresh_post H k w) (Lge H).
Proof.
  intros EO EL H. unfold must_load_latest. pose proof (ik_id_env svc prod kinds e EO) as Eik. set (pid := p_id (en_part e)) in *. rewrite Eik.
  eapply (hoare_bind _ _ (fun r2 w => IL kinds H w /\ exists c, store_find (IKid pid) c (w_store w) = Some r2)).
  { eapply (hoare_bind _ _ (fun r w => IL kinds H w /\ r = option_map snd (store_latest (IKid pid) (w_store w) None))).
    { intros w [HI L].
      pose proof (m_load_latest_spec (Iv kinds) (Iv kinds) (IKid pid) (stable0_Iv svc prod kinds) (fun w X => X) w HI) as X.
      pose proof (hoare_qL _ _ _ (qL_m_load_latest (IKid pid)) (stableL_LInv NoX H) (fun w X => X) w L) as Y.
      destruct (m_load_latest (IKid pid) w) as [[er|r] w1]; [apply Lge_of; exact Y|]. destruct X as [X1 X2]. split; [split; assumption | exact X2]. }
    intros [r|]; [|apply hoare_fail; intros w [[_ L] _]; apply Lge_of; exact L]. apply hoare_ret. intros w [HI Hr]. split; [exact HI|].
    apply store_latest_find. symmetry. exact Hr. }
  intro r2.
  apply (hoare_pull _ (forall pm, e_parent r2 = Some pm -> km_id pm = SKid)).
  { intros w [[[SO _] _] [c Hf]] pm Ep. destruct (store_ok_ik svc prod _ _ _ _ SO Hf) as [_ [m [_ [c' [skm [n [P _]]]]]]]. rewrite P in Ep. inversion Ep. reflexivity. }
  intro Hp. eapply hoare_pre; [exact (intermediate_key_from_ekr_L kinds e sk r2 EO EL Hp H) | intros w X; exact (proj1 X)].
Qed.

Lemma create_ik_with_sk_L kinds e sk :
  env_ok kinds e -> env_live e ->
  forall H, hoare (fun w => IL kinds H w /\ bound KSk w sk SKid) (create_ik_with_sk e sk) (fun k w => fresh_post H k w) (Lge H).
Proof.
  intros EO EL H. unfold create_ik_with_sk.
  pose (A := fun w => Iv kinds w /\ bound KSk w sk SKid).
  assert (SA : stable0 A) by (apply stable0_and; [apply stable0_Iv | apply stable0_of_S, stableS_bound]).
  eapply (hoare_bind _ _ (fun ik w => (A w /\ exists m, mat_of w ik (PKey m)) /\ (LInv NoX H w /\ freshk NoX H w ik))).
  { eapply hoare_weaken.
    - exact (hoare_conj _ _ _ _ _ _ _ (generate_key_now_spec e A (fun _ => True) SA (fun w X => I)) (generate_key_now_L H e)).
    - intros w [[HI L] Hb]. split; [split; assumption | exact L].
    - intros k w X. exact X.
    - intros w [_ L]. apply Lge_of. exact L. }
  intro ik.
  eapply (hoare_bind _ _ (fun (st : err + bool) w => Iv kinds w /\ (LInv NoX H w /\ freshk NoX H w ik))).
  { eapply hoare_weaken.
    - exact (hoare_conj _ _ _ _ _ _ _
               (hoare_try _ _ (fun (b0 : bool) w => Iv kinds w /\ (b0 = true -> bound KIk w ik (ik_id e))) (Iv kinds)
                          (fun (st : err + bool) w => Iv kinds w) (fun _ => False)
                          (hoare_ex (fun m w => Iv kinds w /\ mat_of w ik (PKey m) /\ bound KSk w sk SKid) _ _ _
                                    (fun m => try_store_intermediate_key_spec svc prod kinds e ik sk m EO))
                          (fun b0 w X => proj1 X) (fun er w X => X))
               (hoare_qL _ _ _ (qL_try _ (qL_try_store_intermediate_key e ik sk)) (stableL_LInv_fresh H ik) (fun w X => X))).
    - intros w [[[HI Hb] [m Hm]] LF]. split; [exists m; split; [exact HI | split; assumption] | exact LF].
    - intros st w X. exact X.
    - intros w [[] _]. }
  intros [er|[|]].
  - eapply (hoare_bind _ _ (fun (_ : unit) w => LInv NoX H w)).
    + eapply hoare_weaken; [exact (ck_close_L NoX H ik) | intros w [_ [L [_ [NC H0]]]]; split; [exact L | split; assumption] | intros u w X; exact X | intros w L; apply Lge_of; exact L].
    + intros _. apply hoare_fail. intros w L. apply Lge_of. exact L.
  - apply hoare_ret. intros w [_ [L Fr]]. exists H. split; [apply hle_refl | split; assumption].
  - eapply (hoare_bind _ _ (fun (_ : unit) w => IL kinds H w)).
    + eapply hoare_weaken.
      * exact (hoare_conj _ _ _ _ _ _ _ (hoare_quiet0 (ck_close ik) (Iv kinds) (q0_ck_close ik) (stable0_Iv svc prod kinds)) (ck_close_L NoX H ik)).
      * intros w [HI [L [_ [NC H0]]]]. split; [exact HI | split; [exact L | split; assumption]].
      * intros u w X. exact X.
      * intros w [_ L]. apply Lge_of. exact L.
    + intros _. exact (load_latest_ik_L kinds e sk EO EL H).
Qed.

Lemma ck_close_open_other Ex H k k0 :
  k0 <> k -> hoare (fun w => LInv Ex H w /\ open_k w k0) (ck_close k) (fun _ w => open_k w k0) (fun _ => True).
Proof.
  intros N w [L [o0 [sc0 [A1 [A2 [A3 A4]]]]]]. unfold ck_close, bind. destruct (nth_error (w_kobjs w) k) as [o|] eqn:Ek.
  - rewrite (kobj_modify_run k _ w o Ek).
    assert (O1 : open_k (with_kobjs (set_nth k (ko_with_once true o) (w_kobjs w)) w) k0).
    { exists o0, sc0. wsimpl. rewrite nth_error_set_nth_other by congruence. repeat split; assumption. }
    destruct (ko_once o); [exact O1|].
    unfold secret_close, bind, secret_mark_closed. wsimpl.
    destruct (nth_error (w_secrets w) (ko_secret o)) as [sc|] eqn:Es; cbn [fst snd]; [|exact O1].
    unfold emit, upd. cbn [fst snd]. exists o0, sc0. wsimpl. rewrite nth_error_set_nth_other by congruence.
    split; [exact A1|]. split; [exact A2|]. split; [|exact A4]. rewrite nth_error_set_nth_other; [exact A3|].
    intro Eq. apply N. symmetry. exact (l_sec _ _ _ _ L k k0 o o0 Ek A1 Eq).
  - rewrite (kobj_modify_none k _ w Ek). exact I.
Qed.

Lemma cck_close_open_other Ex H k k0 :
  k0 <> k -> hoare (fun w => LInv Ex H w /\ H k > 0 /\ open_k w k0) (cck_close k) (fun _ w => open_k w k0) (fun _ => True).
Proof.
  intros N w [L [Hk Op0]]. pose proof (cck_close_L Ex H k w (conj L Hk)) as CL.
  destruct (l_held Dd Ex H w L k Hk) as [_ [o [Ek _]]].
  unfold cck_close, bind in *. rewrite (kobj_modify_run k _ w o Ek) in *.
  set (w1 := with_kobjs (set_nth k (ko_with_refs (fun r => r - 1) o) (w_kobjs w)) w) in *.
  assert (O1 : open_k w1 k0).
  { destruct Op0 as [o0 [sc0 [A1 A2]]]. exists o0, sc0. unfold w1. wsimpl. rewrite nth_error_set_nth_other by congruence. split; assumption. }
  destruct (ko_refs o - 1 >? 0); [exact O1|].
  (* the invariant still holds in w1 for the reduced hold map: reuse cck_close_L's intermediate step through ck_close_open_other *)
  assert (L1 : LInv Ex (hadd H k (-1)) w1).
  { destruct (open_exists w k (proj1 (l_held Dd Ex H w L k Hk))) as [o2 [Ek2 Eo]]. rewrite Ek in Ek2. inversion Ek2; subst o2.
    apply (LInv_kobj_set Ex H (hadd H k (-1)) w k o _ L Ek); cbn [ko_with_refs ko_secret ko_once ko_refs].
    - reflexivity.
    - intros x Nx. apply hadd_other. exact Nx.
    - rewrite hadd_same. lia.
    - intro C. rewrite hadd_same. destruct (l_cached Dd Ex H w L k C) as [_ [o1 [X Y]]]. rewrite Ek in X. inversion X; subst. split; [exact Eo | lia].
    - intros _. rewrite hadd_same. destruct (l_held Dd Ex H w L k Hk) as [_ [o1 [X Y]]]. rewrite Ek in X. inversion X; subst. split; [exact Eo | lia].
    - intros _. exact (proj1 (l_held Dd Ex H w L k Hk)). }
  exact (ck_close_open_other Ex (hadd H k (-1)) k k0 N w1 (conj L1 O1)).
Qed.

(* releasing a hold that is known to be there, up to leaks *)
Lemma release_L H0 sk :
  (forall x, H0 x >= 0) ->
  hoare (fun w => exists H2, hle (hadd H0 sk 1) H2 /\ LInv NoX H2 w) (cck_close sk) (fun _ w => Lge H0 w) (fun _ => False).
Proof.
  intro Hn. apply hoare_ex. intro H2. apply hoare_pure. intro Le.
  eapply hoare_weaken; [exact (cck_close_L NoX H2 sk) | | | intros w []].
  - intros w L. split; [exact L|]. specialize (Le sk). rewrite hadd_same in Le. pose proof (Hn sk). lia.
  - intros u w L. exists (hadd H2 sk (-1)). split; [|exact L]. intro x. specialize (Le x). unfold hadd in *. destruct (Nat.eqb x sk); lia.
Qed.

Lemma release_fresh_L H0 sk k :
  (forall x, H0 x >= 0) ->
  hoare (fun w => exists H2, hle (hadd H0 sk 1) H2 /\ LInv NoX H2 w /\ freshk NoX H2 w k) (cck_close sk) (fun _ w => fresh_post H0 k w) (fun _ => False).
Proof.
  intro Hn. apply hoare_ex. intro H2. apply hoare_pure. intro Le.
  assert (Pos : H2 sk > 0) by (specialize (Le sk); rewrite hadd_same in Le; pose proof (Hn sk); lia).
  apply (hoare_pull _ (H2 k = 0)); [intros w [_ [_ [_ X]]]; exact X|]. intro Hk0.
  assert (N : k <> sk) by (intro Eq; subst; lia).
  eapply hoare_weaken.
  - exact (hoare_conj _ _ _ _ _ _ _ (cck_close_L NoX H2 sk)
             (hoare_conj _ _ _ _ _ _ _ (hoare_quiet0 (cck_close sk) (fun w => ~ cached NoX w k) (q0_cck_close sk) (stable0_not_cached NoX k))
                (cck_close_open_other NoX H2 sk k N))).
  - intros w [L Fr]. split; [split; [exact L | exact Pos]|]. split; [exact (proj1 (proj2 Fr))|]. split; [exact L | split; [exact Pos | exact (proj1 Fr)]].
  - intros u w [L [NC Op]]. exists (hadd H2 sk (-1)). split; [intro x; specialize (Le x); unfold hadd in *; destruct (Nat.eqb x sk); lia|].
    split; [exact L|]. split; [exact Op|]. split; [exact NC|]. rewrite (hadd_other H2 sk (-1) k N). exact Hk0.
  - intros w [[] _].
Qed.

(* combined postcondition of a loader-like function: both invariants, bound result, nothing refers to it yet *)
Definition fresh_bound kinds (kd : kind) (id : str) (H : holds) (k : nat) (w : world) : Prop :=
  exists H', hle H H' /\ IL kinds H' w /\ bound kd w k id /\ freshk NoX H' w k.

Lemma IL_nonneg kinds H w : IL kinds H w -> forall x, H x >= 0.
Proof. intros [_ L]. exact (l_nonneg _ _ _ _ L). Qed.

Lemma create_intermediate_key_IL kinds e :
  env_ok kinds e -> env_live e ->
  forall H, hoare (IL kinds H) (create_intermediate_key e) (fun k w => fresh_bound kinds KIk (ik_id e) H k w) (ILge kinds H).
Proof.
  intros EO EL H. apply (hoare_pull _ (forall x, H x >= 0)); [apply IL_nonneg|]. intro Hn.
  unfold create_intermediate_key. pose proof EO as [_ [_ [_ [Hsk _]]]].
  eapply (hoare_bind _ _ (fun sk w => held_bound kinds KSk SKid H sk w)).
  { rewrite (sk_id_env svc prod kinds e EO).
    exact (get_or_load_latest_IL kinds (en_sk e) true _ _ SKid _ Hsk (proj1 EL) eq_refl (load_latest_or_create_system_key_ok svc prod kinds e EO)
             (load_latest_or_create_system_key_okL kinds e EO EL) H). }
  intro sk. apply hoare_ex. intro H1.
  apply hoare_pre with (P' := fun w => hle (hadd H sk 1) H1 /\ (IL kinds H1 w /\ bound KSk w sk SKid)); [|intros w X; exact X].
  apply hoare_pure. intro Le.
  eapply hoare_finally with (Q1 := fun k w => (Iv kinds w /\ bound KIk w k (ik_id e)) /\ fresh_post H1 k w) (E1 := fun w => Iv kinds w /\ Lge H1 w).
  - eapply hoare_weaken.
    + exact (hoare_conj _ _ _ _ _ _ _ (create_ik_with_sk_spec svc prod kinds e sk EO) (create_ik_with_sk_L kinds e sk EO EL H1)).
    + intros w [[HI L] Hb]. split; [split; assumption | split; [split; assumption | exact Hb]].
    + intros k w X. exact X.
    + intros w X. exact X.
  - intro k. eapply hoare_weaken.
    + exact (hoare_conj _ _ _ _ _ _ _
               (hoare_quiet0 (cck_close sk) (fun w => Iv kinds w /\ bound KIk w k (ik_id e)) (q0_cck_close sk)
                  (stable0_and _ _ (stable0_Iv svc prod kinds) (stable0_of_S _ (stableS_bound svc prod KIk k (ik_id e)))))
               (release_fresh_L H sk k Hn)).
    + intros w [X [H2 [Le2 [L Fr]]]]. split; [exact X|]. exists H2. split; [eapply hle_trans; eassumption | split; assumption].
    + intros u w [[HI Hb] [H' [Le' [L Fr]]]]. exists H'. split; [exact Le'|]. split; [split; assumption | split; assumption].
    + intros w [_ []].
  - eapply hoare_weaken.
    + exact (hoare_conj _ _ _ _ _ _ _ (hoare_quiet0 (cck_close sk) (Iv kinds) (q0_cck_close sk) (stable0_Iv svc prod kinds)) (release_L H sk Hn)).
    + intros w [HI [H2 [Le2 L]]]. split; [exact HI|]. exists H2. split; [eapply hle_trans; eassumption | exact L].
    + intros u w X. exact X.
    + intros w [_ []].
Qed.

Notation ik_rec := (ik_rec svc prod).

Lemma ik_rec_parent st i r m : ik_rec st i r m -> forall pm, e_parent r = Some pm -> km_id pm = SKid.
Proof. intros [_ [c' [skm [n [P _]]]]] pm Ep. rewrite P in Ep. inversion Ep. reflexivity. Qed.

(* intermediateKeyFromEKR, both invariants *)
Lemma intermediate_key_from_ekr_IL kinds e sk r i m :
  env_ok kinds e -> env_live e -> okid KIk i ->
  forall H, hoare (fun w => IL kinds H w /\ ik_rec (w_store w) i r m) (intermediate_key_from_ekr e sk r)
                  (fun k w => exists H', hle H H' /\ IL kinds H' w /\ (bound KIk w k i /\ created_of w k (e_created r)) /\ freshk NoX H' w k)
                  (ILge kinds H).
Proof.
  intros EO EL Oi H.
  apply (hoare_pull _ (forall pm, e_parent r = Some pm -> km_id pm = SKid)); [intros w [_ X]; exact (ik_rec_parent _ _ _ _ X)|]. intro Hp.
  eapply hoare_weaken.
  - exact (hoare_conj _ _ _ _ _ _ _ (intermediate_key_from_ekr_spec svc prod kinds e sk r i m EO Oi) (intermediate_key_from_ekr_L kinds e sk r EO EL Hp H)).
  - intros w [[HI L] X]. split; [split; assumption | split; assumption].
  - intros k w [[HI [Hb Hc]] [H' [Le [L Fr]]]]. exists H'. split; [exact Le|]. split; [split; assumption|]. split; [split; assumption | exact Fr].
  - intros w X. exact X.
Qed.

Lemma get_valid_intermediate_key_IL kinds e sk r i m :
  env_ok kinds e -> env_live e -> okid KIk i ->
  forall H, hoare (fun w => IL kinds H w /\ ik_rec (w_store w) i r m) (get_valid_intermediate_key e sk r)
                  (fun v w => exists H', hle H H' /\ IL kinds H' w /\ forall ik, v = Some ik -> bound KIk w ik i /\ freshk NoX H' w ik)
                  (ILge kinds H).
Proof.
  intros EO EL Oi H. unfold get_valid_intermediate_key.
  eapply (hoare_bind _ _ (fun (_ : bool) w => IL kinds H w /\ ik_rec (w_store w) i r m)).
  { eapply hoare_weaken.
    - exact (hoare_qB (is_key_invalid sk (p_expire (en_pol e))) (fun w => Iv kinds w /\ ik_rec (w_store w) i r m) (LInv NoX H) (ILge kinds H)
               (q0_is_key_invalid _ _) (qL_is_key_invalid _ _) (stable0_and _ _ (stable0_Iv svc prod kinds) (stable0_of_S _ (stableS_ik_rec svc prod i r m)))
               (stableL_LInv NoX H) (fun w X => conj (proj1 (proj1 X)) (Lge_of _ _ (proj2 X)))).
    - intros w [[HI L] X]. split; [split; assumption | exact L].
    - intros u w [[HI X] L]. split; [split; assumption | exact X].
    - intros w X. exact X. }
  intros [|].
  - apply hoare_ret. intros w [HIL _]. exists H. split; [apply hle_refl | split; [exact HIL | intros ik X; discriminate X]].
  - eapply (hoare_bind _ _ (fun (x : err + nat) w => exists H', hle H H' /\ IL kinds H' w /\ forall ik, x = inr ik -> bound KIk w ik i /\ freshk NoX H' w ik)).
    + eapply hoare_try with (Q1 := fun k w => exists H', hle H H' /\ IL kinds H' w /\ (bound KIk w k i /\ created_of w k (e_created r)) /\ freshk NoX H' w k)
                            (E1 := ILge kinds H).
      * exact (intermediate_key_from_ekr_IL kinds e sk r i m EO EL Oi H).
      * intros k w [H' [Le [HIL [[Hb _] Fr]]]]. exists H'. split; [exact Le | split; [exact HIL|]]. intros ik X. inversion X; subst. split; assumption.
      * intros er w [HI [H' [Le L]]]. exists H'. split; [exact Le | split; [split; assumption|]]. intros ik X. discriminate X.
    + intros [er|ik]; apply hoare_ret; intros w [H' [Le [HIL X]]]; exists H'; (split; [exact Le | split; [exact HIL|]]); intros ik0 E0; [discriminate E0|].
      inversion E0; subst. exact (X ik0 eq_refl).
Qed.

Lemma fresh_bound_mono kinds kd id H H1 k w : hle H H1 -> fresh_bound kinds kd id H1 k w -> fresh_bound kinds kd id H k w.
Proof. intros Le [H' [X Y]]. exists H'. split; [eapply hle_trans; eassumption | exact Y]. Qed.

(* run m while holding sk, release sk afterwards whatever happened *)
Lemma finally_release kinds kd id H sk (m : M nat) H1 (P : world -> Prop) :
  hle (hadd H sk 1) H1 -> (forall x, H x >= 0) ->
  hoare P m (fun k w => fresh_bound kinds kd id H1 k w) (ILge kinds H1) ->
  hoare P (finally m (cck_close sk)) (fun k w => fresh_bound kinds kd id H k w) (ILge kinds H).
Proof.
  intros Le Hn Hm.
  eapply hoare_finally with (Q1 := fun k w => fresh_bound kinds kd id H1 k w) (E1 := ILge kinds H1); [exact Hm| |].
  - intro k. apply hoare_ex. intro H2.
    apply hoare_pre with (P' := fun w => hle H1 H2 /\ ((Iv kinds w /\ bound kd w k id) /\ (LInv NoX H2 w /\ freshk NoX H2 w k))).
    2:{ intros w [X [[HI L] [Hb Fr]]]. split; [exact X|]. split; [split; assumption | split; assumption]. }
    apply hoare_pure. intro Le2.
    eapply hoare_weaken.
    + exact (hoare_conj _ _ _ _ _ _ _
               (hoare_quiet0 (cck_close sk) (fun w => Iv kinds w /\ bound kd w k id) (q0_cck_close sk)
                  (stable0_and _ _ (stable0_Iv svc prod kinds) (stable0_of_S _ (stableS_bound svc prod kd k id))))
               (release_fresh_L H sk k Hn)).
    + intros w [X [L Fr]]. split; [exact X|]. exists H2. split; [eapply hle_trans; eassumption | split; assumption].
    + intros u w [[HI Hb] [H' [Le' [L Fr]]]]. exists H'. split; [exact Le'|]. split; [split; assumption | split; assumption].
    + intros w [_ []].
  - eapply hoare_weaken.
    + exact (hoare_conj _ _ _ _ _ _ _ (hoare_quiet0 (cck_close sk) (Iv kinds) (q0_cck_close sk) (stable0_Iv svc prod kinds)) (release_L H sk Hn)).
    + intros w [HI [H2 [Le2 L]]]. split; [exact HI|]. exists H2. split; [eapply hle_trans; eassumption | exact L].
    + intros u w X. exact X.
    + intros w [_ []].
Qed.

Lemma create_ik_from_ILge kinds e H (P : world -> Prop) :
  env_ok kinds e -> env_live e -> (forall w, P w -> ILge kinds H w) ->
  hoare P (create_intermediate_key e) (fun k w => fresh_bound kinds KIk (ik_id e) H k w) (ILge kinds H).
Proof.
  intros EO EL HP. apply hoare_pre with (P' := fun w => exists H', hle H H' /\ IL kinds H' w).
  2:{ intros w X. destruct (HP w X) as [HI [H' [Le L]]]. exists H'. split; [exact Le | split; assumption]. }
  apply hoare_ex. intro H'. apply hoare_pure. intro Le.
  eapply hoare_weaken; [exact (create_intermediate_key_IL kinds e EO EL H') | intros w X; exact X | | intros w X; eapply ILge_mono; eassumption].
  intros k w X. eapply fresh_bound_mono; eassumption.
Qed.

Lemma load_latest_or_create_intermediate_key_IL kinds e :
  env_ok kinds e -> env_live e ->
  forall H, hoare (IL kinds H) (load_latest_or_create_intermediate_key e (ik_id e)) (fun k w => fresh_bound kinds KIk (ik_id e) H k w) (ILge kinds H).
Proof.
  intros EO EL H. apply (hoare_pull _ (forall x, H x >= 0)); [apply IL_nonneg|]. intro Hn.
  unfold load_latest_or_create_intermediate_key.
  pose proof (ik_id_env svc prod kinds e EO) as Eik. set (pid := p_id (en_part e)) in *.
  eapply (hoare_bind _ _ (fun r w => IL kinds H w /\ r = option_map snd (store_latest (ik_id e) (w_store w) None))).
  { intros w [HI L].
    pose proof (m_load_latest_spec (Iv kinds) (Iv kinds) (ik_id e) (stable0_Iv svc prod kinds) (fun w X => X) w HI) as X.
    pose proof (hoare_qL _ _ _ (qL_m_load_latest (ik_id e)) (stableL_LInv NoX H) (fun w X => X) w L) as Y.
    destruct (m_load_latest (ik_id e) w) as [[er|r] w1]; [split; [exact X | apply Lge_of; exact Y]|]. destruct X as [X1 X2]. split; [split; assumption | exact X2]. }
  intro r.
  pose (A := fun w => IL kinds H w /\ r = option_map snd (store_latest (ik_id e) (w_store w) None)).
  eapply (hoare_bind _ _ (fun (_ : bool) w => A w)).
  { assert (Qx0 : quiet0 (match r with
                          | Some r0 => match e_parent r0 with Some _ => inv <- is_envelope_invalid e r0 ;; ret (negb inv) | None => ret false end
                          | None => ret false end)) by (destruct r as [r0|]; [destruct (e_parent r0)|]; q0_go).
    assert (QxL : qL (match r with
                      | Some r0 => match e_parent r0 with Some _ => inv <- is_envelope_invalid e r0 ;; ret (negb inv) | None => ret false end
                      | None => ret false end)) by (destruct r as [r0|]; [destruct (e_parent r0)|]; qL_go).
    eapply hoare_weaken.
    - exact (hoare_qB _ (fun w => Iv kinds w /\ r = option_map snd (store_latest (ik_id e) (w_store w) None)) (LInv NoX H) (ILge kinds H) Qx0 QxL
               (stable0_and _ _ (stable0_Iv svc prod kinds) (stable0_eq_store_latest (ik_id e) r)) (stableL_LInv NoX H)
               (fun w X => conj (proj1 (proj1 X)) (Lge_of _ _ (proj2 X)))).
    - intros w [[HI L] X]. split; [split; assumption | exact L].
    - intros u w [[HI X] L]. split; [split; assumption | exact X].
    - intros w X. exact X. }
  intro usable.
  assert (EA : forall w, A w -> ILge kinds H w) by (intros w [X _]; apply IL_ILge; exact X).
  destruct r as [r0|]; [destruct usable|]; [|apply create_ik_from_ILge; assumption|apply create_ik_from_ILge; assumption].
  apply hoare_pre with (P' := fun w => exists m, IL kinds H w /\ ik_rec (w_store w) (ik_id e) r0 m).
  2:{ intros w [[HI L] Hr]. pose proof HI as [SO _]. symmetry in Hr. apply store_latest_find in Hr as [c Hf]. rewrite Eik in *.
      destruct (store_ok_ik svc prod _ _ _ _ SO Hf) as [_ [m Hm]]. exists m. split; [split; assumption | exact Hm]. }
  apply hoare_ex. intro m.
  apply (hoare_pull _ (exists c', e_parent r0 = Some {| km_id := SKid; km_created := c' |})).
  { intros w [_ [_ [c' [skm [n [H2 _]]]]]]. exists c'. exact H2. }
  intros [c' Ep]. rewrite Ep.
  assert (OkI : okid KIk (ik_id e)) by (rewrite Eik; exists pid; reflexivity).
  eapply (hoare_bind _ _ (fun (x : err + nat) w =>
            match x with
            | inr sk => exists H1, hle (hadd H sk 1) H1 /\ (IL kinds H1 w /\ bound KSk w sk SKid) /\ ik_rec (w_store w) (ik_id e) r0 m
            | inl _ => ILge kinds H w
            end)).
  { eapply hoare_try with (Q1 := fun sk w => (exists H1, hle (hadd H sk 1) H1 /\ IL kinds H1 w /\ bound KSk w sk SKid) /\ ik_rec (w_store w) (ik_id e) r0 m)
                          (E1 := ILge kinds H).
    - exact (hoare_carry _ (fun w => ik_rec (w_store w) (ik_id e) r0 m) _ _ _ (pres_get_or_load_system_key Rs Rs_frame e _)
               (stableS_ik_rec svc prod (ik_id e) r0 m) (get_or_load_system_key_IL kinds e {| km_id := SKid; km_created := c' |} EO EL eq_refl H)).
    - intros sk w [[H1 [Le [HIL Hb]]] Hr]. exists H1. split; [exact Le | split; [split; assumption | exact Hr]].
    - intros er w X. exact X. }
  intros [er|sk]; [apply create_ik_from_ILge; [exact EO | exact EL | intros w X; exact X]|].
  apply hoare_ex. intro H1.
  apply hoare_pre with (P' := fun w => hle (hadd H sk 1) H1 /\ ((IL kinds H1 w /\ bound KSk w sk SKid) /\ ik_rec (w_store w) (ik_id e) r0 m)); [|intros w X; exact X].
  apply hoare_pure. intro Le.
  apply (finally_release kinds KIk (ik_id e) H sk _ H1 _ Le Hn).
  eapply (hoare_bind _ _ (fun (v : option nat) w => exists H2, hle H1 H2 /\ IL kinds H2 w /\ forall ik, v = Some ik -> bound KIk w ik (ik_id e) /\ freshk NoX H2 w ik)).
  { eapply hoare_pre; [exact (get_valid_intermediate_key_IL kinds e sk r0 (ik_id e) m EO EL OkI H1) | intros w [[X _] Y]; split; assumption]. }
  intros [ik|].
  - apply hoare_ret. intros w [H2 [Le2 [HIL X]]]. destruct (X ik eq_refl) as [Hb Fr]. exists H2. split; [exact Le2 | split; [exact HIL | split; assumption]].
  - apply create_ik_from_ILge; [exact EO | exact EL |]. intros w [H2 [Le2 [[HI L] _]]]. split; [exact HI | exists H2; split; assumption].
Qed.

Definition fresh_G kinds (G : nat -> world -> Prop) (H : holds) (k : nat) (w : world) : Prop :=
  exists H', hle H H' /\ IL kinds H' w /\ G k w /\ freshk NoX H' w k.

Lemma finally_releaseG kinds (G : nat -> world -> Prop) H sk (m : M nat) H1 (P : world -> Prop) :
  (forall k, stableS (G k)) -> hle (hadd H sk 1) H1 -> (forall x, H x >= 0) ->
  hoare P m (fun k w => fresh_G kinds G H1 k w) (ILge kinds H1) ->
  hoare P (finally m (cck_close sk)) (fun k w => fresh_G kinds G H k w) (ILge kinds H).
Proof.
  intros SG Le Hn Hm.
  eapply hoare_finally with (Q1 := fun k w => fresh_G kinds G H1 k w) (E1 := ILge kinds H1); [exact Hm| |].
  - intro k. apply hoare_ex. intro H2.
    apply hoare_pre with (P' := fun w => hle H1 H2 /\ ((Iv kinds w /\ G k w) /\ (LInv NoX H2 w /\ freshk NoX H2 w k))).
    2:{ intros w [X [[HI L] [Hb Fr]]]. split; [exact X|]. split; [split; assumption | split; assumption]. }
    apply hoare_pure. intro Le2.
    eapply hoare_weaken.
    + exact (hoare_conj _ _ _ _ _ _ _
               (hoare_quiet0 (cck_close sk) (fun w => Iv kinds w /\ G k w) (q0_cck_close sk)
                  (stable0_and _ _ (stable0_Iv svc prod kinds) (stable0_of_S _ (SG k))))
               (release_fresh_L H sk k Hn)).
    + intros w [X [L Fr]]. split; [exact X|]. exists H2. split; [eapply hle_trans; eassumption | split; assumption].
    + intros u w [[HI Hb] [H' [Le' [L Fr]]]]. exists H'. split; [exact Le'|]. split; [split; assumption | split; assumption].
    + intros w [_ []].
  - eapply hoare_weaken.
    + exact (hoare_conj _ _ _ _ _ _ _ (hoare_quiet0 (cck_close sk) (Iv kinds) (q0_cck_close sk) (stable0_Iv svc prod kinds)) (release_L H sk Hn)).
    + intros w [HI [H2 [Le2 L]]]. split; [exact HI|]. exists H2. split; [eapply hle_trans; eassumption | exact L].
    + intros u w X. exact X.
    + intros w [_ []].
Qed.

Lemma load_latest_or_create_intermediate_key_okL kinds e :
  env_ok kinds e -> env_live e ->
  loader_okL kinds KIk (fun m => load_latest_or_create_intermediate_key e (km_id m)) {| km_id := ik_id e; km_created := 0 |}.
Proof.
  intros EO EL H. cbn [km_id]. eapply hoare_post; [exact (load_latest_or_create_intermediate_key_IL kinds e EO EL H)|].
  intros k w [H' [Le [HIL [Hb Fr]]]]. exists H'. split; [exact Le | split; [exact HIL|]]. split; [|exact Fr]. split; [exact Hb | intro X; discriminate X].
Qed.

Lemma load_intermediate_key_okL kinds e meta :
  env_ok kinds e -> env_live e -> km_id meta = ik_id e -> loader_okL kinds KIk (load_intermediate_key e) meta.
Proof.
  intros EO EL Eid H. apply (hoare_pull _ (forall x, H x >= 0)); [apply IL_nonneg|]. intro Hn.
  unfold load_intermediate_key.
  pose proof (ik_id_env svc prod kinds e EO) as Eik. set (pid := p_id (en_part e)) in *. rewrite Eid, Eik.
  eapply (hoare_bind _ _ (fun r w => IL kinds H w /\ r = store_find (IKid pid) (km_created meta) (w_store w))).
  { intros w [HI L].
    pose proof (m_load_spec (Iv kinds) (Iv kinds) (IKid pid) (km_created meta) (stable0_Iv svc prod kinds) (fun w X => X) w HI) as X.
    pose proof (hoare_qL _ _ _ (qL_m_load (IKid pid) (km_created meta)) (stableL_LInv NoX H) (fun w X => X) w L) as Y.
    destruct (m_load (IKid pid) (km_created meta) w) as [[er|r] w1]; [split; [exact X | apply Lge_of; exact Y]|]. destruct X as [X1 X2]. split; [split; assumption | exact X2]. }
  intros [r|]; [|apply hoare_fail; intros w [X _]; apply IL_ILge; exact X].
  apply hoare_pre with (P' := fun w => exists m, e_created r = km_created meta /\ (IL kinds H w /\ ik_rec (w_store w) (IKid pid) r m)).
  2:{ intros w [[HI L] Hr]. pose proof HI as [SO _]. symmetry in Hr. destruct (store_ok_ik svc prod _ _ _ _ SO Hr) as [Ec [m Hm]]. exists m.
      split; [exact Ec | split; [split; assumption | exact Hm]]. }
  apply hoare_ex. intro m. apply hoare_pure. intro Ec.
  apply (hoare_pull _ (exists c', e_parent r = Some {| km_id := SKid; km_created := c' |})).
  { intros w [_ [_ [c' [skm [n [H2 _]]]]]]. exists c'. exact H2. }
  intros [c' Ep]. rewrite Ep.
  assert (OkI : okid KIk (IKid pid)) by (exists pid; reflexivity).
  eapply (hoare_bind _ _ (fun sk w => exists H1, hle (hadd H sk 1) H1 /\ (IL kinds H1 w /\ bound KSk w sk SKid) /\ ik_rec (w_store w) (IKid pid) r m)).
  { eapply hoare_post.
    - exact (hoare_carry _ (fun w => ik_rec (w_store w) (IKid pid) r m) _ _ _ (pres_get_or_load_system_key Rs Rs_frame e _)
               (stableS_ik_rec svc prod (IKid pid) r m) (get_or_load_system_key_IL kinds e {| km_id := SKid; km_created := c' |} EO EL eq_refl H)).
    - intros sk w [[H1 [Le [HIL Hb]]] Hr]. exists H1. split; [exact Le | split; [split; assumption | exact Hr]]. }
  intro sk. apply hoare_ex. intro H1.
  apply hoare_pre with (P' := fun w => hle (hadd H sk 1) H1 /\ ((IL kinds H1 w /\ bound KSk w sk SKid) /\ ik_rec (w_store w) (IKid pid) r m)); [|intros w X; exact X].
  apply hoare_pure. intro Le.
  apply (finally_releaseG kinds (fun k w => handed KIk meta w k) H sk _ H1 _ (fun k => stableS_handed svc prod KIk meta k) Le Hn).
  eapply hoare_weaken; [exact (intermediate_key_from_ekr_IL kinds e sk r (IKid pid) m EO EL OkI H1) | intros w [[X _] Y]; split; assumption | | intros w X; exact X].
  intros k w [H2 [Le2 [HIL [[Hb Hc] Fr]]]]. exists H2. split; [exact Le2 | split; [exact HIL|]]. split; [|exact Fr].
  split; [rewrite Eid, Eik; exact Hb | intros _; rewrite <- Ec; exact Hc].
Qed.

(* ---- Encrypt / Decrypt keep both invariants under every fault plan ------------------------------------------ *)

Lemma encrypt_with_ik_L H e ik p : hoare (LInv NoX H) (encrypt_with_ik e ik p) (fun _ w => LInv NoX H w) (LInv NoX H).
Proof.
  unfold encrypt_with_ik.
  eapply (hoare_bind _ _ (fun (_ : Z) w => LInv NoX H w)); [exact (hoare_qL _ _ _ qL_get_now (stableL_LInv NoX H) (fun w X => X))|].
  intro now.
  eapply (hoare_bind _ _ _); [exact (generate_key_L NoX H _)|]. intro drk.
  eapply hoare_finally with (Q1 := fun (_ : drr) w => LInv NoX H w /\ freshk NoX H w drk) (E1 := fun w => LInv NoX H w /\ freshk NoX H w drk).
  - assert (Q : qL (drkb <- key_bytes drk;; enc_data <- aead_encrypt p drkb;; ikb <- key_bytes ik;; drkb2 <- key_bytes drk;;
                    enc_key <- aead_encrypt drkb2 ikb;; drko <- kobj_get drk;; iko <- kobj_get ik;;
                    ret {| d_key := Some {| e_revoked := false; e_created := ko_created drko; e_key := enc_key;
                                            e_parent := Some {| km_id := ik_id e; km_created := ko_created iko |} |}; d_data := enc_data |})) by qL_go.
    exact (hoare_qL _ _ _ Q (stableL_LInv_fresh H drk) (fun w X => X)).
  - intros _. eapply hoare_weaken; [exact (ck_close_L NoX H drk) | intros w [L [_ [NC H0]]]; split; [exact L | split; assumption] | intros u w X; exact X | intros w X; exact X].
  - eapply hoare_weaken; [exact (ck_close_L NoX H drk) | intros w [L [_ [NC H0]]]; split; [exact L | split; assumption] | intros u w X; exact X | intros w X; exact X].
Qed.

Notation genuine := (genuine svc prod).

Lemma encrypt_payload_IL kinds e payload :
  env_ok kinds e -> env_live e ->
  forall H, hoare (IL kinds H) (encrypt_payload e payload)
                  (fun d w => ILge kinds H w /\ genuine (w_store w) (p_id (en_part e)) d payload) (ILge kinds H).
Proof.
  intros EO EL H. apply (hoare_pull _ (forall x, H x >= 0)); [apply IL_nonneg|]. intro Hn.
  unfold encrypt_payload. pose proof EO as [_ [_ [_ [_ Hik]]]].
  assert (Oi : okid (kd_of false) (ik_id e)) by (rewrite (ik_id_env svc prod kinds e EO); eexists; reflexivity).
  eapply (hoare_bind _ _ (fun ik w => held_bound kinds KIk (ik_id e) H ik w)).
  { exact (get_or_load_latest_IL kinds (en_ik e) false _ _ (ik_id e) _ Hik (proj2 EL) Oi (load_latest_or_create_intermediate_key_ok svc prod kinds e EO)
             (load_latest_or_create_intermediate_key_okL kinds e EO EL) H). }
  intro ik. apply hoare_ex. intro H1.
  apply hoare_pre with (P' := fun w => hle (hadd H ik 1) H1 /\ (IL kinds H1 w /\ bound KIk w ik (ik_id e))); [|intros w X; exact X].
  apply hoare_pure. intro Le.
  eapply hoare_finally with (Q1 := fun d w => (Iv kinds w /\ genuine (w_store w) (p_id (en_part e)) d payload) /\ LInv NoX H1 w) (E1 := fun w => Iv kinds w /\ LInv NoX H1 w).
  - eapply hoare_weaken.
    + exact (hoare_conj _ _ _ _ _ _ _ (encrypt_with_ik_spec svc prod kinds e ik payload EO) (encrypt_with_ik_L H1 e ik payload)).
    + intros w [[HI L] Hb]. split; [split; assumption | exact L].
    + intros d w X. exact X.
    + intros w X. exact X.
  - intro d. eapply hoare_weaken.
    + exact (hoare_conj _ _ _ _ _ _ _
               (hoare_quiet0 (cck_close ik) (fun w => Iv kinds w /\ genuine (w_store w) (p_id (en_part e)) d payload) (q0_cck_close ik)
                  (stable0_and _ _ (stable0_Iv svc prod kinds) (stable0_store (fun st => genuine st (p_id (en_part e)) d payload))))
               (release_L H ik Hn)).
    + intros w [X L]. split; [exact X|]. exists H1. split; assumption.
    + intros u w [[HI G] X]. split; [split; assumption | exact G].
    + intros w [_ []].
  - eapply hoare_weaken.
    + exact (hoare_conj _ _ _ _ _ _ _ (hoare_quiet0 (cck_close ik) (Iv kinds) (q0_cck_close ik) (stable0_Iv svc prod kinds)) (release_L H ik Hn)).
    + intros w [HI L]. split; [exact HI|]. exists H1. split; assumption.
    + intros u w X. exact X.
    + intros w [_ []].
Qed.

Lemma decrypt_data_row_record_IL kinds e r :
  env_ok kinds e -> env_live e ->
  forall H, hoare (IL kinds H) (decrypt_data_row_record e r) (fun _ w => ILge kinds H w) (ILge kinds H).
Proof.
  intros EO EL H. apply (hoare_pull _ (forall x, H x >= 0)); [apply IL_nonneg|]. intro Hn.
  unfold decrypt_data_row_record. pose proof EO as [_ [_ [_ [_ Hik]]]].
  destruct (d_key r) as [key|]; [|apply hoare_fail; apply IL_ILge].
  destruct (e_parent key) as [pm|]; [|apply hoare_fail; apply IL_ILge].
  destruct (is_valid_ik_id (en_part e) (km_id pm)) eqn:G; cbn [negb]; [|apply hoare_fail; apply IL_ILge].
  pose proof (default_guard svc prod e (km_id pm) kinds EO G) as Eid.
  assert (Oi : okid (kd_of false) (km_id pm)) by (rewrite Eid, (ik_id_env svc prod kinds e EO); eexists; reflexivity).
  eapply (hoare_bind _ _ (fun ik w => held_post kinds KIk pm H ik w)).
  { exact (get_or_load_IL kinds (en_ik e) false _ pm _ Hik (proj2 EL) Oi (load_intermediate_key_ok svc prod kinds e pm EO Eid) (load_intermediate_key_okL kinds e pm EO EL Eid) H). }
  intro ik. apply hoare_ex. intro H1.
  apply hoare_pre with (P' := fun w => hle (hadd H ik 1) H1 /\ (IL kinds H1 w /\ handed KIk pm w ik)); [|intros w X; exact X].
  apply hoare_pure. intro Le.
  eapply hoare_finally with (Q1 := fun (_ : ptxt) w => IL kinds H1 w) (E1 := IL kinds H1).
  - eapply hoare_weaken; [exact (hoare_qB (decrypt_row ik key (d_data r)) (Iv kinds) (LInv NoX H1) (IL kinds H1) (q0_decrypt_row _ _ _) (qL_decrypt_row _ _ _)
                                  (stable0_Iv svc prod kinds) (stableL_LInv NoX H1) (fun w X => X)) | intros w [X _]; exact X | intros p w X; exact X | intros w X; exact X].
  - intros _. eapply hoare_weaken.
    + exact (hoare_conj _ _ _ _ _ _ _ (hoare_quiet0 (cck_close ik) (Iv kinds) (q0_cck_close ik) (stable0_Iv svc prod kinds)) (release_L H ik Hn)).
    + intros w [HI L]. split; [exact HI|]. exists H1. split; assumption.
    + intros u w X. exact X.
    + intros w [_ []].
  - eapply hoare_weaken.
    + exact (hoare_conj _ _ _ _ _ _ _ (hoare_quiet0 (cck_close ik) (Iv kinds) (q0_cck_close ik) (stable0_Iv svc prod kinds)) (release_L H ik Hn)).
    + intros w [HI L]. split; [exact HI|]. exists H1. split; assumption.
    + intros u w X. exact X.
    + intros w [_ []].
Qed.

(* ---- histories in which nothing is closed (long-lived factories and sessions, no session cache) ---------------- *)

Notation cap_ok := (cap_ok).

Lemma new_backing_open pol : b_open (new_backing pol).
Proof. unfold new_backing. destruct (cp_kind pol); intros c E; inversion E; reflexivity. Qed.

Lemma LInv_add_cache H w pol :
  Coherent.cap_ok pol -> LInv NoX H w ->
  LInv NoX H (with_caches (w_caches w ++ [{| kc_backing := new_backing pol; kc_latest := [] |}]) w).
Proof.
  intros CO L. pose proof L as [A B C D E F G G2].
  set (nk := {| kc_backing := new_backing pol; kc_latest := [] |}).
  assert (Ent : forall cid ks e, centry_at (with_caches (w_caches w ++ [nk]) w) cid ks e -> centry_at w cid ks e).
  { intros cid ks e [ND [kc [X Y]]]. wsimpl. split; [exact ND|]. destruct (lt_dec cid (length (w_caches w))) as [Lt|Ge].
    - rewrite nth_error_app1 in X by exact Lt. exists kc. split; assumption.
    - assert (cid = length (w_caches w)) by (assert (cid < length (w_caches w ++ [nk]))%nat by (apply nth_error_Some; congruence); rewrite app_length in H0; cbn in H0; lia).
      subst cid. rewrite nth_error_app2 in X by lia. rewrite Nat.sub_diag in X. inversion X; subst kc. exfalso.
      destruct (new_cache_ok svc prod KSk w pol CO) as [_ [Z _]]. destruct (Z ks e Y) as [i [c [_ _]]]. unfold nk in Y. cbn [kc_backing] in Y.
      unfold new_backing in Y. destruct (cp_kind pol); cbn in Y; discriminate Y. }
  constructor.
  - intros k [cid [ks [e [X Y]]]]. apply A. exists cid, ks, e. split; [exact (Ent _ _ _ X) | exact Y].
  - exact B.
  - intros c1 s1 e1 c2 s2 e2 X1 X2 Y. exact (C _ _ _ _ _ _ (Ent _ _ _ X1) (Ent _ _ _ X2) Y).
  - exact D.
  - exact E.
  - exact F.
  - intros cid kc c ND X Y. wsimpl. destruct (lt_dec cid (length (w_caches w))) as [Lt|Ge].
    + rewrite nth_error_app1 in X by exact Lt. exact (G cid kc c ND X Y).
    + assert (cid = length (w_caches w)) by (assert (cid < length (w_caches w ++ [nk]))%nat by (apply nth_error_Some; congruence); rewrite app_length in H0; cbn in H0; lia).
      subst cid. rewrite nth_error_app2 in X by lia. rewrite Nat.sub_diag in X. inversion X; subst kc. exact (new_backing_open pol c Y).
  - intros cid kc ND X. wsimpl. destruct (lt_dec cid (length (w_caches w))) as [Lt|Ge].
    + rewrite nth_error_app1 in X by exact Lt. exact (G2 cid kc ND X).
    + assert (cid = length (w_caches w)) by (assert (cid < length (w_caches w ++ [nk]))%nat by (apply nth_error_Some; congruence); rewrite app_length in H0; cbn in H0; lia).
      subst cid. rewrite nth_error_app2 in X by lia. rewrite Nat.sub_diag in X. inversion X; subst kc.
      exact (proj1 (new_cache_ok svc prod KSk w pol CO)).
Qed.

Definition no_scache (w : world) : Prop := forall f fa, nth_error (w_factories w) f = Some fa -> fa_scache fa = None.

Lemma LInv_bookkeeping Ex H w w' : w_kobjs w' = w_kobjs w -> w_secrets w' = w_secrets w -> w_caches w' = w_caches w -> LInv Ex H w -> LInv Ex H w'.
Proof. intros E1 E2 E3. apply LInv_same. repeat split; assumption. Qed.

Lemma new_factory_L H p :
  Coherent.pol_ok p -> p_cache_sessions p = false ->
  hoare (fun w => LInv NoX H w /\ no_scache w) (new_factory p svc prod None) (fun _ w => LInv NoX H w /\ no_scache w) (fun _ => False).
Proof.
  intros [CS CI0] NS w [L NSc]. unfold new_factory, bind. rewrite NS.
  assert (Fin : forall w1 sk ik, LInv NoX H w1 -> w_factories w1 = w_factories w ->
            let w2 := with_factories (w_factories w1 ++ [{| fa_policy := p; fa_svc := svc; fa_prod := prod; fa_suffix := None; fa_sk := sk; fa_ik := ik; fa_scache := None |}]) w1 in
            LInv NoX H w2 /\ no_scache w2).
  { intros w1 sk ik L1 Ef w2. split; [eapply LInv_bookkeeping; [..|exact L1]; reflexivity|].
    intros f fa X. unfold w2 in X. wsimpl. rewrite Ef in X. destruct (lt_dec f (length (w_factories w))) as [Lt|Ge].
    - rewrite nth_error_app1 in X by exact Lt. exact (NSc f fa X).
    - assert (f = length (w_factories w)) by (assert (f < length (w_factories w ++ [{| fa_policy := p; fa_svc := svc; fa_prod := prod; fa_suffix := None; fa_sk := sk; fa_ik := ik; fa_scache := None |}]))%nat by (apply nth_error_Some; congruence); rewrite app_length in H0; cbn in H0; lia).
      subst f. rewrite nth_error_app2 in X by lia. rewrite Nat.sub_diag in X. inversion X. reflexivity. }
  destruct (p_cache_sk p).
  - rewrite new_keycache_run. cbn [ret]. pose proof (LInv_add_cache H w (p_sk_pol p) CS L) as L1.
    set (w1 := with_caches (w_caches w ++ [{| kc_backing := new_backing (p_sk_pol p); kc_latest := [] |}]) w) in *.
    destruct (use_shared_ik p).
    + rewrite new_keycache_run. cbn [ret]. pose proof (LInv_add_cache H w1 (p_ik_pol p) CI0 L1) as L2.
      unfold gets, upd, ret. cbn [fst snd]. apply Fin; [exact L2 | reflexivity].
    + unfold gets, upd, ret. cbn [fst snd]. apply Fin; [exact L1 | reflexivity].
  - cbn [ret]. destruct (use_shared_ik p).
    + rewrite new_keycache_run. cbn [ret]. pose proof (LInv_add_cache H w (p_ik_pol p) CI0 L) as L2.
      unfold gets, upd, ret. cbn [fst snd]. apply Fin; [exact L2 | reflexivity].
    + unfold gets, upd, ret. cbn [fst snd]. apply Fin; [exact L | reflexivity].
Qed.

Lemma new_session_L kinds H f id cached0 :
  hoare (fun w => IL kinds H w /\ no_scache w) (new_session f id cached0) (fun _ w => LInv NoX H w /\ no_scache w) (fun w => LInv NoX H w /\ no_scache w).
Proof.
  intros w [[HI L] NSc]. unfold new_session, get_factory, bind, gets, fail, ret, upd. cbv beta iota.
  destruct (nth_error (w_factories w) f) as [fa|] eqn:Ef; cbv beta iota; [|split; assumption].
  pose proof HI as [_ [_ _ F _]]. pose proof (F f fa Ef) as [_ [_ [_ [_ [_ [_ Pik]]]]]].
  destruct (use_shared_ik (fa_policy fa)).
  - cbn [fst snd]. split; [eapply LInv_bookkeeping; [..|exact L]; reflexivity | exact NSc].
  - destruct (p_cache_ik (fa_policy fa)).
    + rewrite new_keycache_run. cbn [fst snd]. pose proof (LInv_add_cache H w (p_ik_pol (fa_policy fa)) Pik L) as L1.
      split; [eapply LInv_bookkeeping; [..|exact L1]; reflexivity | exact NSc].
    + cbn [fst snd]. split; [eapply LInv_bookkeeping; [..|exact L]; reflexivity | exact NSc].
Qed.

(* the same two constructors for any policy (with or without a session cache) *)
Lemma new_factory_LInv H p :
  Coherent.pol_ok p -> hoare (LInv NoX H) (new_factory p svc prod None) (fun _ w => LInv NoX H w) (fun _ => False).
Proof.
  intros [CS CI0] w L. unfold new_factory, bind.
  set (sc := if p_cache_sessions p then Some (new_cache {| c_kind := p_sess_kind p; c_cap := p_sess_cap p; c_expiry := if p_sess_dur p >? 0 then p_sess_dur p else 0 |}) else None).
  assert (Fin : forall w1 sk ik, LInv NoX H w1 ->
            LInv NoX H (with_factories (w_factories w1 ++ [{| fa_policy := p; fa_svc := svc; fa_prod := prod; fa_suffix := None; fa_sk := sk; fa_ik := ik; fa_scache := sc |}]) w1)).
  { intros w1 sk ik L1. eapply LInv_bookkeeping; [..|exact L1]; reflexivity. }
  destruct (p_cache_sk p).
  - rewrite new_keycache_run. cbn [ret]. pose proof (LInv_add_cache H w (p_sk_pol p) CS L) as L1.
    set (w1 := with_caches (w_caches w ++ [{| kc_backing := new_backing (p_sk_pol p); kc_latest := [] |}]) w) in *.
    destruct (use_shared_ik p).
    + rewrite new_keycache_run. cbn [ret]. pose proof (LInv_add_cache H w1 (p_ik_pol p) CI0 L1) as L2.
      unfold gets, upd, ret. cbn [fst snd]. apply Fin; exact L2.
    + unfold gets, upd, ret. cbn [fst snd]. apply Fin; exact L1.
  - cbn [ret]. destruct (use_shared_ik p).
    + rewrite new_keycache_run. cbn [ret]. pose proof (LInv_add_cache H w (p_ik_pol p) CI0 L) as L2.
      unfold gets, upd, ret. cbn [fst snd]. apply Fin; exact L2.
    + unfold gets, upd, ret. cbn [fst snd]. apply Fin; exact L.
Qed.

Lemma new_session_LInv kinds H f id cached0 :
  hoare (IL kinds H) (new_session f id cached0) (fun _ w => LInv NoX H w) (LInv NoX H).
Proof.
  intros w [HI L]. unfold new_session, get_factory, bind, gets, fail, ret, upd. cbv beta iota.
  destruct (nth_error (w_factories w) f) as [fa|] eqn:Ef; cbv beta iota; [|exact L].
  pose proof HI as [_ [_ _ F _]]. pose proof (F f fa Ef) as [_ [_ [_ [_ [_ [_ Pik]]]]]].
  destruct (use_shared_ik (fa_policy fa)).
  - cbn [fst snd]. eapply LInv_bookkeeping; [..|exact L]; reflexivity.
  - destruct (p_cache_ik (fa_policy fa)).
    + rewrite new_keycache_run. cbn [fst snd]. pose proof (LInv_add_cache H w (p_ik_pol (fa_policy fa)) Pik L) as L1.
      eapply LInv_bookkeeping; [..|exact L1]; reflexivity.
    + cbn [fst snd]. eapply LInv_bookkeeping; [..|exact L]; reflexivity.
Qed.

Definition HIL (w : world) : Prop := exists kinds H, IL kinds H w /\ no_scache w.

Definition benignL (o : hop) : Prop :=
  match o with
  | HNewFactory p s0 pr suf => s0 = svc /\ pr = prod /\ suf = None /\ Coherent.pol_ok p /\ p_cache_sessions p = false
  | HGetSession _ _ | HEncrypt _ _ _ | HDecrypt _ _ _ _ | HAdvance _ | HRevoke _ _ => True
  | _ => False
  end.

Lemma no_scache_qF {A} (m : M A) w : qF m -> no_scache w -> no_scache (snd (m w)).
Proof. intros Q N f fa X. rewrite (proj1 (Q w)) in X. exact (N f fa X). Qed.

Lemma IL_begin_op kinds H fs w : IL kinds H w -> IL kinds H (begin_op fs w).
Proof. intros [HI L]. split; [eapply Iv_ext; [..|exact HI]; reflexivity | eapply LInv_bookkeeping; [..|exact L]; reflexivity]. Qed.

Lemma ILge_HIL kinds H w : ILge kinds H w -> no_scache w -> HIL w.
Proof. intros [HI [H' [_ L]]] N. exists kinds, H'. split; [split; assumption | exact N]. Qed.

(* the caches session s works with (its factory's system-key cache, its own or the shared intermediate-key cache) are live *)
Definition sess_live (s : nat) (w : world) : Prop :=
  forall x fa, nth_error (w_sessions w) s = Some x -> nth_error (w_factories w) (ss_factory x) = Some fa -> cache_live (fa_sk fa) /\ cache_live (ss_ik x).

Lemma session_env_live s : hoare (sess_live s) (session_env s) (fun e _ => env_live e) (fun _ => True).
Proof.
  intros w SL. unfold session_env, bind, get_session, get_factory, gets. cbn.
  destruct (nth_error (w_sessions w) s) as [x|] eqn:Es; cbn; [|exact I].
  destruct (nth_error (w_factories w) (ss_factory x)) as [fa|] eqn:Ef; cbn; [|exact I].
  exact (SL x fa Es Ef).
Qed.

Lemma session_env_IL kinds H s :
  hoare (fun w => IL kinds H w /\ sess_live s w) (session_env s) (fun e w => (env_ok kinds e /\ env_live e) /\ IL kinds H w) (ILge kinds H).
Proof.
  eapply hoare_weaken.
  - exact (hoare_conj _ _ _ _ _ _ _
             (hoare_conj _ _ _ _ _ _ _ (session_env_spec svc prod kinds s) (hoare_qL _ _ _ (qL_session_env s) (stableL_LInv NoX H) (fun w X => X)))
             (session_env_live s)).
  - intros w [[HI L] SL]. split; [split; assumption | exact SL].
  - intros e w [[[HI EO] L] EL]. split; [split; assumption | split; assumption].
  - intros w [[HI L] _]. split; [exact HI | apply Lge_of; exact L].
Qed.

Lemma encrypt_op_IL kinds H s payload :
  hoare (fun w => IL kinds H w /\ sess_live s w) (e <- session_env s ;; encrypt_payload e (PPayload payload)) (fun _ w => ILge kinds H w) (ILge kinds H).
Proof.
  eapply (hoare_bind _ _ _); [exact (session_env_IL kinds H s)|].
  intro e. apply hoare_pure. intros [EO EL].
  eapply hoare_post; [exact (encrypt_payload_IL kinds e (PPayload payload) EO EL H)|]. intros d w X. exact (proj1 X).
Qed.

Lemma decrypt_op_IL kinds H s r :
  hoare (fun w => IL kinds H w /\ sess_live s w) (e <- session_env s ;; decrypt_data_row_record e r) (fun _ w => ILge kinds H w) (ILge kinds H).
Proof.
  eapply (hoare_bind _ _ _); [exact (session_env_IL kinds H s)|].
  intro e. apply hoare_pure. intros [EO EL].
  exact (decrypt_data_row_record_IL kinds e r EO EL H).
Qed.

(* ---- from here on: histories in which no key cache is ever closed (the set of dead caches is empty) ------------- *)
Section NoClose.
Hypothesis DE : forall c, ~ Dd c.
Lemma all_live_c c : cache_live c. Proof. intros cid _. apply DE. Qed.
Lemma all_live_e e : env_live e. Proof. split; apply all_live_c. Qed.
Lemma all_live_s s w : sess_live s w. Proof. intros x fa _ _. split; apply all_live_c. Qed.

Theorem hstepL_inv h o : benignL o -> HIL (h_world h) -> HIL (h_world (snd (hstep h o))).
Proof.
  intros B [kinds [H [HIL0 NSc]]].
  destruct o; cbn [benignL] in B; try contradiction; cbn [hstep].
  - (* new factory *)
    destruct B as [-> [-> [-> [PO NS]]]]. pose proof (IL_begin_op kinds H [] _ HIL0) as [HI0 L0].
    pose proof (new_factory_spec svc prod kinds p PO _ HI0) as X.
    pose proof (new_factory_L H p PO NS (begin_op [] (h_world h)) (conj L0 NSc)) as Y.
    destruct (new_factory p svc prod None (begin_op [] (h_world h))) as [[er|a] w']; cbn [snd h_world]; [contradiction|].
    destruct X as [kinds' HI']. destruct Y as [L' N']. exists kinds', H. split; [split; assumption | exact N'].
  - (* get session: no session cache, so a new session *)
    pose proof (IL_begin_op kinds H [] _ HIL0) as HIL1. set (w0 := begin_op [] (h_world h)) in *.
    assert (NS0 : no_scache w0) by exact NSc.
    unfold factory_get_session. destruct (negb (get_session_ok id)); [cbn [ret snd h_world]; exists kinds, H; split; assumption|].
    unfold get_factory, bind at 1, gets. cbv beta iota. unfold bind at 1. cbv beta iota.
    destruct (nth_error (w_factories w0) f) as [fa|] eqn:Ef.
    + cbn [ret]. rewrite (NS0 f fa Ef).
      pose proof (new_session_spec svc prod kinds f id false w0 (proj1 HIL1)) as X.
      pose proof (new_session_L kinds H f id false w0 (conj HIL1 NS0)) as Y.
      unfold bind. destruct (new_session f id false w0) as [[er|a] w']; cbn [snd h_world ret].
      * destruct X as [kinds' HI']. destruct Y as [L' N']. exists kinds', H. split; [split; assumption | exact N'].
      * destruct X as [kinds' HI']. destruct Y as [L' N']. exists kinds', H. split; [split; assumption | exact N'].
    + cbn [fail snd h_world]. exists kinds, H. split; assumption.
  - (* encrypt *)
    pose proof (IL_begin_op kinds H faults _ HIL0) as HIL1.
    pose proof (encrypt_op_IL kinds H s payload _ (conj HIL1 (all_live_s s _))) as X.
    assert (QF : qF (e <- session_env s;; encrypt_payload e (PPayload payload))) by (apply qF_bind; [apply qF_session_env | intro; apply qF_encrypt_payload]).
    pose proof (no_scache_qF _ (begin_op faults (h_world h)) QF NSc) as N.
    destruct ((e <- session_env s;; encrypt_payload e (PPayload payload)) (begin_op faults (h_world h))) as [[er|d] w']; cbn [snd h_world] in *; eapply ILge_HIL; eassumption.
  - (* decrypt *)
    destruct (nth_error (h_recs h) rec) as [r0|]; [|cbn [snd h_world]; exists kinds, H; split; assumption].
    pose proof (IL_begin_op kinds H faults _ HIL0) as HIL1.
    pose proof (decrypt_op_IL kinds H s (fold_left (apply_mut (h_recs h)) muts r0) _ (conj HIL1 (all_live_s s _))) as X.
    assert (QF : qF (e <- session_env s;; decrypt_data_row_record e (fold_left (apply_mut (h_recs h)) muts r0))) by (apply qF_bind; [apply qF_session_env | intro; apply qF_decrypt_data_row_record]).
    pose proof (no_scache_qF _ (begin_op faults (h_world h)) QF NSc) as N.
    destruct ((e <- session_env s;; decrypt_data_row_record e (fold_left (apply_mut (h_recs h)) muts r0)) (begin_op faults (h_world h))) as [[er|a] w']; cbn [snd h_world] in *; eapply ILge_HIL; eassumption.
  - (* clock *)
    cbn [snd h_world]. destruct HIL0 as [HI L]. exists kinds, H. split; [split; [eapply Iv_ext; [..|exact HI]; reflexivity | eapply LInv_bookkeeping; [..|exact L]; reflexivity] | exact NSc].
  - (* revocation *)
    cbn [snd h_world]. destruct HIL0 as [HI L]. exists kinds, H. split; [|exact NSc].
    split; [apply Iv_store_flagged; [apply revoke_flagged | exact HI] | eapply LInv_bookkeeping; [..|exact L]; reflexivity].
Qed.

End NoClose.

Notation sk_row := (sk_row svc prod).
Notation ik_row := (ik_row svc prod).

(* ---- totality of the cache layer ---------------------------------------------------------------------------- *)

Lemma stableS_exists_k k : stableS (fun w => exists_k w k).
Proof. intros w w' [_ [[_ K] _]] [o Ho]. destruct (K _ _ Ho) as [o' [A _]]. exists o'. exact A. Qed.

Lemma exists_k_pres {A} (m : M A) w k : pres Rs m -> exists_k w k -> exists_k (snd (m w)) k.
Proof. intros Pm Ex. exact (stableS_exists_k k _ _ (Pm w) Ex). Qed.

Lemma kobj_get_run k w o : nth_error (w_kobjs w) k = Some o -> kobj_get k w = (inr o, w).
Proof. intro E. unfold kobj_get, bind, get_kobjs, gets. cbn. rewrite E. reflexivity. Qed.
Lemma get_cache_run cid w kc : nth_error (w_caches w) cid = Some kc -> get_cache cid w = (inr kc, w).
Proof. intro E. unfold get_cache, bind, gets. cbn. rewrite E. reflexivity. Qed.

Lemma Iv_cache kinds cid b w : Iv kinds w -> nth_error kinds cid = Some b -> exists kc, nth_error (w_caches w) cid = Some kc /\ cache_ok svc prod (kd_of b) w kc.
Proof.
  intros [_ [L C _ _]] Hk. destruct (nth_error (w_caches w) cid) as [kc|] eqn:E.
  - exists kc. split; [reflexivity | exact (C cid kc b E Hk)].
  - exfalso. apply nth_error_None in E. assert (cid < List.length kinds)%nat by (apply nth_error_Some; congruence). lia.
Qed.

Lemma n_kc_read cid meta : noerr (fun w => exists kc, nth_error (w_caches w) cid = Some kc) (kc_read cid meta).
Proof.
  intros w [kc E]. unfold kc_read, bind. rewrite (get_cache_run cid w kc E). unfold get_now, gets.
  match goal with |- context [backing_get ?b ?n ?i] => destruct (backing_get b n i) as [b' r] end.
  unfold put_cache, upd, ret. eexists; eexists; reflexivity.
Qed.

Lemma n_reload_required e rci : noerr (fun w => exists_k w (ce_key e)) (reload_required e rci).
Proof. intros w [o Ho]. unfold reload_required, bind. rewrite (kobj_get_run _ w o Ho). unfold get_now, gets, ret. eexists; eexists; reflexivity. Qed.

Lemma n_kc_get_fresh kinds cid b rci meta :
  nth_error kinds cid = Some b -> ~ Dd cid -> okid (kd_of b) (km_id meta) -> noerr (Iv kinds) (kc_get_fresh cid rci meta).
Proof.
  intros Hk NDc Ok. unfold kc_get_fresh.
  eapply noerr_bind; [ | exact (kc_read_at kinds cid b meta Hk NDc Ok) | ].
  - eapply noerr_pre; [apply n_kc_read|]. intros w HI. destruct (Iv_cache kinds cid b w HI Hk) as [kc [E _]]. exists kc. exact E.
  - intros [e|]; [|apply noerr_ret].
    eapply noerr_bind with (Q1 := fun _ _ => True) (E := fun _ => True); [ | intros w _; destruct (reload_required e rci w) as [[?|?] ?]; exact I | intro; apply noerr_ret].
    eapply noerr_pre; [apply n_reload_required|]. cbv beta. intros w Hw. destruct (Hw e eq_refl) as [o [Ho _]]. exists o. exact Ho.
Qed.

Lemma n_closes ev : noerr (fun w => forall s0 e, In (s0, e) ev -> exists_k w (ce_key e)) (closes ev).
Proof.
  unfold closes. induction ev as [|[s0 e] ev IH]; cbn [fold_right snd]; [apply noerr_ret|].
  intros w Hw. unfold bind. destruct (n_cck_close (ce_key e) w (Hw s0 e (or_introl eq_refl))) as [[] [w1 E1]]. rewrite E1.
  apply IH. intros s1 e1 Hin. pose proof (exists_k_pres (cck_close (ce_key e)) w (ce_key e1) (pres_cck_close Rs Rs_frame _) (Hw s1 e1 (or_intror Hin))) as X.
  rewrite E1 in X. exact X.
Qed.

Lemma cache_ok_exists kd w kc ks e : cache_ok svc prod kd w kc -> b_abs (kc_backing kc) ks = Some e -> exists_k w (ce_key e).
Proof. intros [_ [EN _]] Hb. destruct (EN ks e Hb) as [i [c [_ [[o [Ho _]] _]]]]. exists o. exact Ho. Qed.

Lemma n_kc_write kinds cid b meta e :
  nth_error kinds cid = Some b -> noerr (fun w => Iv kinds w /\ exists_k w (ce_key e)) (kc_write cid meta e).
Proof.
  intros Hk w [HI [o Ho]]. destruct (Iv_cache kinds cid b w HI Hk) as [kc [Ec CO]].
  unfold kc_write, bind. rewrite (kobj_get_run _ w o Ho), (get_cache_run cid w kc Ec).
  match goal with |- context [if is_latest meta then ?a else ?c] => destruct (if is_latest meta then a else c) as [meta' latest'] end.
  unfold get_now, gets.
  pose proof (backing_get_spec (kc_backing kc) (w_now w) (cache_key (km_id meta') (km_created meta')) (proj1 CO)) as BG.
  destruct (backing_get (kc_backing kc) (w_now w) (cache_key (km_id meta') (km_created meta'))) as [b1 existing].
  destruct BG as [G1 [Eex Eabs]].
  set (pre := match existing with Some ex => if Nat.eqb (ce_key ex) (ce_key e) then ret tt else cck_close (ce_key ex) | None => ret tt end).
  assert (Npre : exists w1, pre w = (inr tt, w1) /\ Rs w w1).
  { unfold pre. destruct existing as [ex|]; [|exists w; split; [reflexivity | apply (pres_ret Rs Rs_frame tt w)]].
    destruct (Nat.eqb (ce_key ex) (ce_key e)); [exists w; split; [reflexivity | apply (pres_ret Rs Rs_frame tt w)]|].
    assert (X : exists_k w (ce_key ex)) by (eapply cache_ok_exists; [exact CO | symmetry; exact Eex]).
    destruct (n_cck_close (ce_key ex) w X) as [[] [w1 E1]]. exists w1. split; [exact E1|].
    pose proof (pres_cck_close Rs Rs_frame (ce_key ex) w) as R. rewrite E1 in R. exact R. }
  destruct Npre as [w1 [E1 R1]]. rewrite E1.
  pose proof (backing_set_spec b1 (w_now w) (cache_key (km_id meta') (km_created meta')) e G1) as BS.
  destruct (backing_set b1 (w_now w) (cache_key (km_id meta') (km_created meta')) e) as [b2 evicted]. destruct BS as [_ [_ EV]].
  unfold put_cache, upd.
  apply n_closes. intros s0 e0 Hin. pose proof (EV s0 e0 Hin) as Hb. rewrite Eabs in Hb.
  pose proof (cache_ok_exists _ w kc s0 e0 CO Hb) as X. pose proof (stableS_exists_k (ce_key e0) w w1 R1 X) as [o1 Ho1]. exists o1. exact Ho1.
Qed.

Lemma handed_exists kd meta w k : handed kd meta w k -> exists_k w k.
Proof. intros [[_ [c [m [[o [Ho _]] _]]]] _]. exists o. exact Ho. Qed.

Lemma noerr_q0 {A B} (F : world -> Prop) (m : M A) (f : A -> M B) :
  quiet0 m -> stable0 F -> noerr F m -> (forall a, noerr F (f a)) -> noerr F (bind m f).
Proof. intros Q S Nm Nf. eapply noerr_bind with (Q1 := fun _ => F); [exact Nm | exact (hoare_quiet0 m F Q S) | exact Nf]. Qed.

Lemma noerr_bind_ret {A B} (P : world -> Prop) (m : M A) (g : A -> B) : noerr P m -> noerr P (bind m (fun a => ret (g a))).
Proof. intros Nm w Hw. destruct (Nm w Hw) as [a [w1 E]]. exists (g a), w1. unfold bind. rewrite E. reflexivity. Qed.

Lemma n_kc_load kinds cid b meta loader (P : world -> Prop) :
  nth_error kinds cid = Some b -> okid (kd_of b) (km_id meta) -> loader_ok svc prod kinds (kd_of b) loader meta ->
  (forall w, P w -> Iv kinds w) -> noerr P (loader meta) -> noerr P (kc_load cid meta loader).
Proof.
  intros Hk Ok [LP LS] PI NL. unfold kc_load. set (kd := kd_of b).
  eapply noerr_bind with (Q1 := fun k w => Iv kinds w /\ handed kd meta w k); [exact NL | eapply hoare_pre; [exact LS | exact PI] |].
  intro k.
  pose (A0 := fun w => Iv kinds w /\ handed kd meta w k).
  assert (SA0 : stable0 A0) by (apply stable0_and; [apply stable0_Iv | apply stable0_of_S, stableS_handed]).
  apply (noerr_q0 A0); [apply q0_kobj_get | exact SA0 | |].
  { eapply noerr_pre; [apply n_kobj_get|]. intros w [_ Hh]. exact (handed_exists _ _ _ _ Hh). }
  intro ko.
  eapply noerr_bind with (Q1 := fun r w => (Iv kinds w /\ forall e, r = Some e -> handed kd meta w (ce_key e)) /\ handed kd meta w k).
  { eapply noerr_pre; [apply n_kc_read|]. intros w [HI _]. destruct (Iv_cache kinds cid b w HI Hk) as [kc [E _]]. exists kc. exact E. }
  { exact (hoare_carry (kc_read cid meta) (fun w => handed kd meta w k) _ _ _ (pres_kc_read Rs Rs_frame cid meta)
             (stableS_handed svc prod kd meta k) (kc_read_spec svc prod kinds cid b meta Hk Ok)). }
  intro r.
  pose (A1 := fun w => (Iv kinds w /\ forall e, r = Some e -> handed kd meta w (ce_key e)) /\ handed kd meta w k).
  assert (SA1 : stable0 A1).
  { apply stable0_and; [apply stable0_and; [apply stable0_Iv|] | apply stable0_of_S, stableS_handed].
    intros w w' R H e0 He. eapply (stable0_of_S _ (stableS_handed svc prod kd meta (ce_key e0))); [exact R | exact (H e0 He)]. }
  apply (noerr_q0 A1); [apply q0_get_now | exact SA1 | apply n_get_now |].
  intro now.
  assert (Qx : quiet0 (match r with
                       | Some e => eo <- kobj_get (ce_key e) ;; ret (ko_created eo =? ko_created ko)
                       | None => ret false end)) by (destruct r; q0_go).
  apply (noerr_q0 A1); [exact Qx | exact SA1 | |].
  { destruct r as [e|]; [|apply noerr_ret]. apply noerr_bind_ret. eapply noerr_pre; [apply n_kobj_get|].
    intros w [[_ He] _]. exact (handed_exists _ _ _ _ (He e eq_refl)). }
  intro same.
  assert (Fresh : noerr A1 (cck_wrap k;;; kc_write cid meta {| ce_loaded := now; ce_key := k |};;; ret k)).
  { apply (noerr_q0 A1); [apply q0_cck_wrap | exact SA1 | |].
    { eapply noerr_pre; [apply n_cck_wrap|]. intros w [_ Hh]. exact (handed_exists _ _ _ _ Hh). }
    intros _. apply noerr_bind_ret with (g := fun _ => k). eapply noerr_pre; [exact (n_kc_write kinds cid b meta _ Hk)|].
    intros w [[HI _] Hh]. split; [exact HI | exact (handed_exists _ _ _ _ Hh)]. }
  destruct r as [e|]; [destruct same|]; [|exact Fresh|exact Fresh].
  apply (noerr_q0 A1); [apply q0_ck_set_revoked | exact SA1 | |].
  { eapply noerr_pre; [apply n_ck_set_revoked|]. intros w [[_ He] _]. exact (handed_exists _ _ _ _ (He e eq_refl)). }
  intros _.
  apply (noerr_q0 A1); [apply q0_ck_close | exact SA1 | |].
  { eapply noerr_pre; [apply n_ck_close|]. intros w [_ Hh]. exact (handed_exists _ _ _ _ Hh). }
  intros _. apply noerr_bind_ret with (g := fun _ => ce_key e). eapply noerr_pre; [exact (n_kc_write kinds cid b meta _ Hk)|].
  intros w [[HI He] _]. split; [exact HI | exact (handed_exists _ _ _ _ (He e eq_refl))].
Qed.

Lemma n_incr_ret k : noerr (fun w => exists_k w k) (cck_increment k;;; ret k).
Proof. apply noerr_bind_ret with (g := fun _ => k). apply n_cck_increment. Qed.
Lemma n_wrap_ret k : noerr (fun w => exists_k w k) (cck_wrap k;;; ret k).
Proof. apply noerr_bind_ret with (g := fun _ => k). apply n_cck_wrap. Qed.

(* the precondition must survive the cache probes that precede a load *)
Lemma n_get_or_load kinds c b rci meta loader (P : world -> Prop) :
  cache_kind kinds c b -> cache_live c -> okid (kd_of b) (km_id meta) -> loader_ok svc prod kinds (kd_of b) loader meta ->
  (forall w, P w -> Iv kinds w) ->
  (forall cid, c = Some cid -> hoare P (kc_get_fresh cid rci meta) (fun _ => P) (fun _ => True)) ->
  noerr P (loader meta) -> noerr P (get_or_load c rci meta loader).
Proof.
  intros Hc CL Ok LO PI PK NL. pose proof LO as [LP LS]. unfold get_or_load. destruct c as [cid|].
  - pose proof (Hc cid eq_refl) as Hk. pose proof (CL cid eq_refl) as NDc. specialize (PK cid eq_refl).
    assert (GF : hoare P (kc_get_fresh cid rci meta) (fun f w => P w /\ forall k fr, f = Some (k, fr) -> handed (kd_of b) meta w k) (fun _ => True)).
    { eapply hoare_weaken; [exact (hoare_conj _ _ _ _ _ _ _ PK (hoare_pre _ _ _ _ _ (kc_get_fresh_spec svc prod kinds cid b rci meta Hk Ok) PI)) | | |]; cbv beta; tauto. }
    assert (NG : noerr P (kc_get_fresh cid rci meta)) by (eapply noerr_pre; [exact (n_kc_get_fresh kinds cid b rci meta Hk NDc Ok) | exact PI]).
    assert (Hit : forall k, noerr (fun w => P w /\ forall k0 fr, Some (k, true) = Some (k0, fr) -> handed (kd_of b) meta w k0) (cck_increment k;;; ret k)).
    { intro k. eapply noerr_pre; [apply n_incr_ret|]. intros w [_ Hh]. exact (handed_exists _ _ _ _ (Hh k true eq_refl)). }
    assert (Tail : noerr P (k <- kc_load cid meta loader;; cck_increment k;;; ret k)).
    { eapply noerr_bind with (Q1 := fun k w => Iv kinds w /\ handed (kd_of b) meta w k).
      - exact (n_kc_load kinds cid b meta loader P Hk Ok LO PI NL).
      - eapply hoare_pre; [exact (kc_load_spec svc prod kinds cid b meta loader Hk Ok LO) | exact PI].
      - intro k. eapply noerr_pre; [apply n_incr_ret|]. intros w [_ Hh]. exact (handed_exists _ _ _ _ Hh). }
    assert (Second : noerr P (f2 <- kc_get_fresh cid rci meta;; match f2 with
                                | Some (k, true) => cck_increment k;;; ret k
                                | _ => k <- kc_load cid meta loader;; cck_increment k;;; ret k end)).
    { eapply noerr_bind; [exact NG | exact GF |]. intros [[k [|]]|]; [apply Hit | | ]; (eapply noerr_pre; [exact Tail | cbv beta; tauto]). }
    eapply noerr_bind; [exact NG | exact GF |]. intros [[k [|]]|]; [apply Hit | | ]; (eapply noerr_pre; [exact Second | cbv beta; tauto]).
  - eapply noerr_bind with (Q1 := fun k w => Iv kinds w /\ handed (kd_of b) meta w k); [exact NL | eapply hoare_pre; [exact LS | exact PI] |].
    intro k. eapply noerr_pre; [apply n_wrap_ret|]. intros w [_ Hh]. exact (handed_exists _ _ _ _ Hh).
Qed.

(* ---- totality of the loaders ------------------------------------------------------------------------------ *)

Lemma n_system_key_from_ekr r m : e_key r = CKms (PKey m) -> noerr NF (system_key_from_ekr r).
Proof.
  intro Ek. unfold system_key_from_ekr.
  eapply noerr_bind with (Q1 := fun _ w => NF w); [ | exact (hoare_NF _ (qF_kms_decrypt _)) | intro; apply n_new_crypto_key].
  rewrite Ek. eapply n_kms_decrypt. reflexivity.
Qed.

Lemma n_load_system_key meta m :
  km_id meta = SKid -> noerr (fun w => sk_row (w_store w) (km_created meta) m /\ NF w) (load_system_key meta).
Proof.
  intro Eid. unfold load_system_key. rewrite Eid.
  eapply noerr_bind.
  - eapply noerr_pre; [apply n_m_load|]. cbv beta. tauto.
  - apply hoare_nf with (E := fun _ => True); [apply qF_m_load|].
    exact (m_load_spec (fun w => sk_row (w_store w) (km_created meta) m) (fun _ => True) SKid (km_created meta)
             (stable0_of_S _ (stableS_sk_row svc prod (km_created meta) m)) (fun _ _ => I)).
  - intros r w [[[r0 [Hf [_ [_ Hk]]]] Er] Hnf]. cbv beta in Er. rewrite Hf in Er. subst r.
    exact (n_system_key_from_ekr r0 m Hk w Hnf).
Qed.

(* the running precondition of a fault-free load: invariants, no planned fault, and a fact about stored rows *)
Definition PT kinds (H : holds) (F : world -> Prop) (w : world) : Prop := IL kinds H w /\ NF w /\ F w.

Lemma PT_get_fresh kinds H (F : world -> Prop) cid b rci meta :
  stableS F -> nth_error kinds cid = Some b -> ~ Dd cid -> okid (kd_of b) (km_id meta) ->
  hoare (PT kinds H F) (kc_get_fresh cid rci meta) (fun _ => PT kinds H F) (fun _ => True).
Proof.
  intros SF Hk NDc Ok.
  eapply hoare_weaken.
  - exact (hoare_conj _ _ _ _ _ _ _
             (hoare_frame (kc_get_fresh cid rci meta) F _ _ _ (pres_kc_get_fresh Rs Rs_frame cid rci meta) SF (kc_get_fresh_IL kinds cid b rci meta H Hk NDc Ok))
             (hoare_NF _ (qF_kc_get_fresh cid rci meta))).
  - unfold PT. cbv beta. tauto.
  - unfold PT. cbv beta. tauto.
  - auto.
Qed.

Lemma PT_Iv kinds H F w : PT kinds H F w -> Iv kinds w.
Proof. intros [[HI _] _]. exact HI. Qed.

Lemma n_get_or_load_system_key kinds e pm H (F : world -> Prop) m :
  env_ok kinds e -> env_live e -> km_id pm = SKid -> stableS F -> (forall w, F w -> sk_row (w_store w) (km_created pm) m) ->
  noerr (PT kinds H F) (get_or_load_system_key e pm).
Proof.
  intros EO EL Eid SF FR. pose proof EO as [_ [_ [_ [Hsk _]]]]. unfold get_or_load_system_key.
  assert (Ok : okid (kd_of true) (km_id pm)) by exact Eid.
  apply (n_get_or_load kinds (en_sk e) true (p_rci (en_pol e)) pm load_system_key (PT kinds H F) Hsk (proj1 EL) Ok (load_system_key_ok svc prod kinds pm Eid)).
  - apply PT_Iv.
  - intros cid Ec. exact (PT_get_fresh kinds H F cid true _ pm SF (Hsk cid Ec) (proj1 EL cid Ec) Ok).
  - eapply noerr_pre; [exact (n_load_system_key pm m Eid)|]. intros w [_ [Hnf HF]]. split; [exact (FR w HF) | exact Hnf].
Qed.

Lemma key_bytes_run w k p : open_k w k -> mat_of w k p -> key_bytes k w = (inr p, w).
Proof.
  intros [o [sc [A1 [A2 [A3 A4]]]]] [o' [sc' [B1 [B2 B3]]]]. rewrite A1 in B1. inversion B1; subst o'. rewrite A3 in B2. inversion B2; subst sc'.
  unfold key_bytes, bind, kobj_get, get_kobjs, gets, secret_bytes, get_secrets. cbn. rewrite A1. cbn. rewrite A3, A4. rewrite B3. reflexivity.
Qed.


(* facts that survive every step that touches neither rows, key objects' identity, caches nor the fault plan *)
Definition SQ (F : world -> Prop) : Prop := forall w w', Rq0 w w' -> same_live w w' -> sameF w w' -> F w -> F w'.

Lemma noerr_qr {A B} (F : world -> Prop) (m : M A) (phi : A -> world -> Prop) (f : A -> M B) :
  quiet0 m -> qL m -> qF m -> SQ F -> hoare (fun _ => True) m phi (fun _ => True) ->
  noerr F m -> (forall a, noerr (fun w => F w /\ phi a w) (f a)) -> noerr F (bind m f).
Proof.
  intros Q0 QL QF S Hr Nm Nf. eapply noerr_bind with (Q1 := fun a w => F w /\ phi a w) (E := fun _ => True); [exact Nm | | exact Nf].
  intros w Hw. specialize (Q0 w). specialize (QL w). specialize (QF w). specialize (Hr w I).
  destruct (m w) as [[e|a] w1]; [exact I|]. cbn [snd] in *. split; [exact (S w w1 Q0 QL QF Hw) | exact Hr].
Qed.

Lemma noerr_ret_bind {A B} (P : world -> Prop) (a : A) (f : A -> M B) : noerr P (f a) -> noerr P (bind (ret a) f).
Proof. intros N w Hw. exact (N w Hw). Qed.

Lemma is_latest_nz meta : km_created meta <> 0 -> is_latest meta = false.
Proof. intro N. unfold is_latest. apply Z.eqb_neq. exact N. Qed.

(* a held key object whose material is known *)
Definition heldkey (H : holds) (k : nat) (c : Z) (mat : nat) (w : world) : Prop :=
  LInv NoX H w /\ NF w /\ created_of w k c /\ mat_of w k (PKey mat).

Lemma SQ_heldkey H k c mat : SQ (heldkey H k c mat).
Proof.
  intros w w' R0 SL SF [L [Hnf [Hc Hm]]]. split; [exact (LInv_same _ _ _ _ SL L)|]. split; [unfold NF in *; rewrite (proj2 SF); exact Hnf|].
  split; [exact (stable_created_of k c w w' (Rq0_Rq _ _ R0) Hc) | exact (stable_mat_of k (PKey mat) w w' (Rq0_Rq _ _ R0) Hm)].
Qed.

Lemma heldkey_open H k c mat w : H k >= 1 -> heldkey H k c mat w -> open_k w k.
Proof. intros Hge [L _]. exact (proj1 (l_held _ _ _ _ L k ltac:(lia))). Qed.

Lemma n_intermediate_key_from_ekr e sk r H c' skm n m :
  H sk >= 1 -> e_parent r = Some {| km_id := SKid; km_created := c' |} -> e_key r = CAead skm n (PKey m) ->
  noerr (heldkey H sk c' skm) (intermediate_key_from_ekr e sk r).
Proof.
  intros Hge Ep Ek. unfold intermediate_key_from_ekr. set (F := heldkey H sk c' skm).
  apply (noerr_qr F (kobj_get sk) (fun o w' => nth_error (w_kobjs w') sk = Some o)); [apply q0_kobj_get | apply qL_kobj_get | apply qF_kobj_get | apply SQ_heldkey | apply kobj_get_res | |].
  { eapply noerr_pre; [apply n_kobj_get|]. intros w HF. exact (open_exists_k _ _ (heldkey_open _ _ _ _ _ Hge HF)). }
  intro sko. rewrite Ep. cbn [km_created].
  apply (noerr_pull _ (ko_created sko = c')).
  { intros w [[_ [_ [[o [Ho Hc]] _]]] Hn]. rewrite Ho in Hn. inversion Hn; subst o. exact Hc. }
  intros ->. rewrite Z.eqb_refl. apply noerr_ret_bind.
  eapply noerr_pre with (P' := F); [|cbv beta; tauto].
  apply (noerr_qr F (key_bytes sk) (fun p w' => mat_of w' sk p)); [apply q0_key_bytes | apply qL_key_bytes | apply qF_key_bytes | apply SQ_heldkey | apply key_bytes_res | |].
  { eapply noerr_pre; [apply n_key_bytes|]. intros w HF. exact (heldkey_open _ _ _ _ _ Hge HF). }
  intro skb. apply (noerr_pull _ (skb = PKey skm)).
  { intros w [[_ [_ [_ Hm]]] Hm']. exact (mat_of_fun _ _ _ _ Hm' Hm). }
  intros ->. rewrite Ek.
  eapply noerr_bind with (Q1 := fun _ w => NF w) (E := fun _ => True).
  - eapply noerr_pre; [eapply n_aead_decrypt; cbn [aead_open]; rewrite Nat.eqb_refl; reflexivity|]. intros w [[_ [Hnf _]] _]. exact Hnf.
  - eapply hoare_weaken; [exact (hoare_NF _ (qF_aead_decrypt _ _)) | | |]; cbv beta; [intros w [[_ [Hnf _]] _]; exact Hnf | auto | auto].
  - intro ikb. apply n_new_crypto_key.
Qed.

Lemma PT_quiet kinds H (F : world -> Prop) {A} (m : M A) :
  quiet0 m -> qL m -> qF m -> stableS F -> hoare (PT kinds H F) m (fun _ => PT kinds H F) (fun _ => True).
Proof.
  intros Q0 QL QF SF w [[HI L] [Hnf HF]]. specialize (Q0 w). specialize (QL w). specialize (QF w).
  destruct (m w) as [[e|a] w1]; [exact I|]. cbn [snd] in *. split; [split|split].
  - exact (stable0_Iv svc prod kinds w w1 Q0 HI).
  - exact (LInv_same _ _ _ _ QL L).
  - unfold NF in *. rewrite (proj2 QF). exact Hnf.
  - exact (stable0_of_S _ SF w w1 Q0 HF).
Qed.

Lemma n_load_intermediate_key kinds e meta H r c' skm n m :
  env_ok kinds e -> env_live e -> km_id meta = ik_id e -> c' <> 0 ->
  e_parent r = Some {| km_id := SKid; km_created := c' |} -> e_key r = CAead skm n (PKey m) ->
  noerr (PT kinds H (fun w => store_find (ik_id e) (km_created meta) (w_store w) = Some r /\ sk_row (w_store w) c' skm))
        (load_intermediate_key e meta).
Proof.
  intros EO EL Eid Nz Ep Ek. unfold load_intermediate_key. rewrite Eid.
  apply (noerr_pull _ (forall x, H x >= 0)); [intros w [[_ L] _]; exact (l_nonneg _ _ _ _ L)|]. intro Hn.
  set (F := fun w => store_find (ik_id e) (km_created meta) (w_store w) = Some r /\ sk_row (w_store w) c' skm).
  assert (SF : stableS F) by (apply stableS_and; [apply stableS_find | apply stableS_sk_row]).
  set (pm := {| km_id := SKid; km_created := c' |}).
  eapply noerr_bind with (Q1 := fun r0 w => PT kinds H F w /\ r0 = store_find (ik_id e) (km_created meta) (w_store w)) (E := fun _ => True).
  - eapply noerr_pre; [apply n_m_load|]. intros w [_ [Hnf _]]. exact Hnf.
  - eapply hoare_weaken.
    + exact (hoare_conj _ _ _ _ _ _ _ (PT_quiet kinds H F (m_load (ik_id e) (km_created meta)) (q0_m_load _ _) (qL_m_load _ _) (qF_m_load _ _) SF)
               (m_load_spec (fun _ => True) (fun _ => True) (ik_id e) (km_created meta) (stable0_pure True) (fun _ _ => I))).
    + cbv beta. tauto.
    + cbv beta. tauto.
    + auto.
  - intro r0. apply (noerr_pull _ (r0 = Some r)).
    { intros w [[_ [_ [Hf _]]] Er]. rewrite Hf in Er. exact Er. }
    intros ->. rewrite Ep.
    eapply noerr_pre with (P' := PT kinds H F); [|cbv beta; tauto].
    pose proof EO as [_ [_ [_ [Hsk _]]]].
    assert (Ok : okid (kd_of true) (km_id pm)) by reflexivity.
    eapply noerr_bind with (Q1 := fun sk w => (held_post kinds KSk pm H sk w /\ F w) /\ NF w) (E := fun _ => True).
    + exact (n_get_or_load_system_key kinds e pm H F skm EO EL eq_refl SF (fun w HF => proj2 HF)).
    + eapply hoare_weaken.
      * exact (hoare_conj _ _ _ _ _ _ _
                 (hoare_frame (get_or_load_system_key e pm) F _ _ _ (pres_get_or_load_system_key Rs Rs_frame e pm) SF
                    (get_or_load_IL kinds (en_sk e) true (p_rci (en_pol e)) pm load_system_key Hsk (proj1 EL) Ok
                       (load_system_key_ok svc prod kinds pm eq_refl) (load_system_key_okL kinds pm eq_refl) H))
                 (hoare_NF _ (qF_get_or_load_system_key e pm))).
      * unfold PT. cbv beta. tauto.
      * cbv beta. intros a w X. exact X.
      * auto.
    + intro sk. apply noerr_finally.
      intros w [[[H' [Le [[HI L] Hh]]] [_ Hrow]] Hnf].
      assert (Hge : H' sk >= 1).
      { pose proof (Le sk) as X. rewrite hadd_same in X. pose proof (Hn sk). lia. }
      destruct Hh as [[_ [c2 [m2 [Hc2 [Hm2 Hr2]]]]] Hcr].
      pose proof (Hcr (is_latest_nz pm Nz)) as Hc'. cbn [km_created pm] in Hc'.
      pose proof (created_of_fun _ _ _ _ Hc2 Hc') as ->. cbn [row_ok kd_of] in Hr2.
      pose proof (sk_row_fun svc prod _ _ _ _ Hr2 Hrow) as ->.
      apply (n_intermediate_key_from_ekr e sk r H' c' skm n m Hge Ep Ek).
      split; [exact L|]. split; [exact Hnf|]. split; assumption.
Qed.

Lemma n_decrypt_row ik key data H c ikm n dkm n' p :
  H ik >= 1 -> e_key key = CAead ikm n (PKey dkm) -> data = CAead dkm n' p ->
  noerr (heldkey H ik c ikm) (decrypt_row ik key data).
Proof.
  intros Hge Ek Ed. unfold decrypt_row. set (F := heldkey H ik c ikm).
  apply (noerr_qr F (key_bytes ik) (fun p w' => mat_of w' ik p)); [apply q0_key_bytes | apply qL_key_bytes | apply qF_key_bytes | apply SQ_heldkey | apply key_bytes_res | |].
  { eapply noerr_pre; [apply n_key_bytes|]. intros w HF. exact (heldkey_open _ _ _ _ _ Hge HF). }
  intro ikb. apply (noerr_pull _ (ikb = PKey ikm)).
  { intros w [[_ [_ [_ Hm]]] Hm']. exact (mat_of_fun _ _ _ _ Hm' Hm). }
  intros ->. rewrite Ek, Ed.
  eapply noerr_bind with (Q1 := fun raw w => NF w /\ aead_open (PKey ikm) (CAead ikm n (PKey dkm)) = Some raw) (E := fun _ => True).
  - eapply noerr_pre; [eapply n_aead_decrypt; cbn [aead_open]; rewrite Nat.eqb_refl; reflexivity|]. intros w [[_ [Hnf _]] _]. exact Hnf.
  - eapply hoare_weaken; [exact (hoare_conj _ _ _ _ _ _ _ (hoare_NF _ (qF_aead_decrypt _ _)) (aead_decrypt_res _ _)) | | |]; cbv beta;
      [intros w [[_ [Hnf _]] _]; split; [exact Hnf | exact I] | auto | auto].
  - intro raw. apply (noerr_pull _ (raw = PKey dkm)).
    { intros w [_ X]. cbn [aead_open] in X. rewrite Nat.eqb_refl in X. congruence. }
    intros ->. eapply noerr_pre; [eapply n_aead_decrypt; cbn [aead_open]; rewrite Nat.eqb_refl; reflexivity|]. cbv beta. tauto.
Qed.

Lemma valid_own_id kinds e : env_ok kinds e -> is_valid_ik_id (en_part e) (ik_id e) = true.
Proof. intros [A [B [C _]]]. unfold is_valid_ik_id, ik_id, intermediate_key_id. rewrite C. apply str_eqb_refl. Qed.

(* fault-free DecryptDataRowRecord of a well-formed record whose keys are stored cannot fail *)
Lemma n_decrypt_data_row_record kinds e r H key c rk c' skm n0 ikm n dkm n' p :
  env_ok kinds e -> env_live e -> c <> 0 -> c' <> 0 ->
  d_key r = Some key -> e_parent key = Some {| km_id := ik_id e; km_created := c |} ->
  e_parent rk = Some {| km_id := SKid; km_created := c' |} -> e_key rk = CAead skm n0 (PKey ikm) ->
  e_key key = CAead ikm n (PKey dkm) -> d_data r = CAead dkm n' p ->
  noerr (PT kinds H (fun w => store_find (ik_id e) c (w_store w) = Some rk /\ sk_row (w_store w) c' skm))
        (decrypt_data_row_record e r).
Proof.
  intros EO EL Nz Nz' Dk Ep Epk Ekk Ek Ed. unfold decrypt_data_row_record. rewrite Dk, Ep. cbn [km_id]. rewrite (valid_own_id kinds e EO). cbn [negb].
  apply (noerr_pull _ (forall x, H x >= 0)); [intros w [[_ L] _]; exact (l_nonneg _ _ _ _ L)|]. intro Hn.
  set (pm := {| km_id := ik_id e; km_created := c |}).
  set (F := fun w => store_find (ik_id e) c (w_store w) = Some rk /\ sk_row (w_store w) c' skm).
  assert (SF : stableS F) by (apply stableS_and; [apply stableS_find | apply stableS_sk_row]).
  pose proof EO as [_ [_ [_ [_ Hik]]]].
  assert (Ok : okid (kd_of false) (km_id pm)) by (cbn [km_id pm kd_of]; rewrite (ik_id_env svc prod kinds e EO); eexists; reflexivity).
  pose proof (load_intermediate_key_ok svc prod kinds e pm EO eq_refl) as LO.
  eapply noerr_bind with (Q1 := fun ik w => (held_post kinds KIk pm H ik w /\ F w) /\ NF w) (E := fun _ => True).
  - apply (n_get_or_load kinds (en_ik e) false (p_rci (en_pol e)) pm (load_intermediate_key e) (PT kinds H F) Hik (proj2 EL) Ok LO).
    + apply PT_Iv.
    + intros cid Ec. exact (PT_get_fresh kinds H F cid false _ pm SF (Hik cid Ec) (proj2 EL cid Ec) Ok).
    + exact (n_load_intermediate_key kinds e pm H rk c' skm n0 ikm EO EL eq_refl Nz' Epk Ekk).
  - eapply hoare_weaken.
    + exact (hoare_conj _ _ _ _ _ _ _
               (hoare_frame (get_or_load (en_ik e) (p_rci (en_pol e)) pm (load_intermediate_key e)) F _ _ _
                  (pres_get_or_load Rs Rs_frame _ _ _ _ (fun x => pres_load_intermediate_key Rs Rs_frame e x)) SF
                  (get_or_load_IL kinds (en_ik e) false (p_rci (en_pol e)) pm (load_intermediate_key e) Hik (proj2 EL) Ok LO
                     (load_intermediate_key_okL kinds e pm EO EL eq_refl) H))
               (hoare_NF _ (qF_get_or_load _ _ _ _ (fun x => qF_load_intermediate_key e x)))).
    + unfold PT. cbv beta. tauto.
    + cbv beta. intros a w X. exact X.
    + auto.
  - intro ik. apply noerr_finally.
    intros w [[[H' [Le [[HI L] Hh]]] [Hfind _]] Hnf].
    assert (Hge : H' ik >= 1) by (pose proof (Le ik) as X; rewrite hadd_same in X; pose proof (Hn ik); lia).
    destruct Hh as [[_ [c2 [m2 [Hc2 [Hm2 Hr2]]]]] Hcr].
    pose proof (Hcr (is_latest_nz pm Nz)) as Hc'. cbn [km_created pm] in Hc'.
    pose proof (created_of_fun _ _ _ _ Hc2 Hc') as ->. cbn [row_ok kd_of km_id pm] in Hr2.
    destruct Hr2 as [r' [c3 [skm3 [n3 [Hf3 [_ [_ [_ Ek3]]]]]]]]. rewrite Hfind in Hf3. inversion Hf3; subst r'. rewrite Ekk in Ek3.
    assert (Em : m2 = ikm) by (injection Ek3; intros; congruence). rewrite Em in Hm2.
    apply (n_decrypt_row ik key (d_data r) H' c ikm n dkm n' p Hge Ek Ed).
    split; [exact L|]. split; [exact Hnf|]. split; assumption.
Qed.

(* ---- the round trip on a live, cached session ----------------------------------------------------------------- *)

(* no row carries the creation stamp 0 (Unix time 0), which the key cache reserves for "the latest key" *)
Definition nz_store (st : list row) : Prop := forall i c r, store_find i c st = Some r -> c <> 0.

Theorem genuine_decrypts_live kinds H w s x d p :
  IL kinds H w -> sess_live s w -> nz_store (w_store w) -> nth_error (w_sessions w) s = Some x ->
  genuine (w_store w) (p_id (ss_part x)) d p ->
  fst ((e <- session_env s ;; decrypt_data_row_record e d) (begin_op [] w)) = inr p.
Proof.
  intros HIL0 SLs NZ Hs G. pose proof (IL_begin_op kinds H [] w HIL0) as HIL1. set (w0 := begin_op [] w) in *.
  assert (SL0 : sess_live s w0) by exact SLs.
  assert (Hnf : NF w0) by reflexivity.
  assert (Hs0 : nth_error (w_sessions w0) s = Some x) by exact Hs.
  assert (St : w_store w0 = w_store w) by reflexivity.
  clearbody w0.
  pose proof HIL1 as [HI1 L1]. pose proof HI1 as [_ [_ _ _ S]]. destruct (S s x Hs0) as [[fa Hfa] _].
  set (e := {| en_part := ss_part x; en_pol := fa_policy fa; en_sk := fa_sk fa; en_ik := ss_ik x |}).
  assert (Run : session_env s w0 = (inr e, w0)).
  { unfold session_env, bind, get_session, get_factory, gets. cbn. rewrite Hs0. cbn. rewrite Hfa. reflexivity. }
  pose proof (session_env_spec svc prod kinds s w0 HI1) as X. rewrite Run in X. destruct X as [_ EO].
  assert (EL : env_live e) by exact (SL0 x fa Hs0 Hfa).
  unfold bind. rewrite Run.
  destruct G as [key [c [ikm [n [dkm [n' [Dk [Ep [[rk [c' [skm [n0 [Hf [_ [Epk [Hsk Ekk]]]]]]]] [Ek Ed]]]]]]]]]].
  assert (Nz : c <> 0) by exact (NZ _ _ _ Hf).
  assert (Nz' : c' <> 0) by (destruct Hsk as [r' [Hf' _]]; exact (NZ _ _ _ Hf')).
  assert (Eid : ik_id e = IKid (p_id (ss_part x))) by exact (ik_id_env svc prod kinds e EO).
  rewrite <- Eid in Ep, Hf.
  destruct (n_decrypt_data_row_record kinds e d H key c rk c' skm n0 ikm n dkm n' p EO EL Nz Nz' Dk Ep Epk Ekk Ek Ed w0) as [a [w' Ew]].
  { split; [exact HIL1|]. split; [exact Hnf|]. rewrite St. split; assumption. }
  rewrite Ew. cbn [fst]. f_equal.
  destruct (decrypt_authentic e d w0 a w' Ew) as [key2 [pm2 [ikm2 [drk2 [n1 [n2 [_ [_ [_ [_ Ed2]]]]]]]]]].
  rewrite Ed in Ed2. congruence.
Qed.

Section NoClose2.
Hypothesis DE : forall c, ~ Dd c.

Lemma benignL_benign o : benignL o -> benign svc prod o.
Proof. destruct o; cbn [benignL benign]; tauto. Qed.

Lemma HIL_init t0 : HIL (h_world (hinit t0)).
Proof.
  exists [], (fun _ => 0). split; [split|].
  - destruct (HInv_init svc prod t0) as [[kinds HI] _]. 
    split; [intros i c r H; discriminate H|]. constructor; cbn.
    + reflexivity.
    + intros cid kc b H. destruct cid; discriminate H.
    + intros f fa H. destruct f; discriminate H.
    + intros s0 x H. destruct s0; discriminate H.
  - constructor; cbn.
    + intros k [cid [ks [e [[_ [kc [Hc _]]] _]]]]. destruct cid; discriminate Hc.
    + intros k Hk. lia.
    + intros cid ks e cid' ks' e' [_ [kc [Hc _]]]. destruct cid; discriminate Hc.
    + intros k k' o o' Hk. destruct k; discriminate Hk.
    + intros k o Hk. destruct k; discriminate Hk.
    + intro k. lia.
    + intros cid kc c _ Hc. destruct cid; discriminate Hc.
    + intros cid kc _ Hc. destruct cid; discriminate Hc.
  - intros f fa Hf. destruct f; discriminate Hf.
Qed.

Lemma hrunL_inv ops : forall h, Forall benignL ops -> HIL (h_world h) -> HIL (h_world (snd (hrun h ops))).
Proof.
  induction ops as [|o ops IH]; intros h FB HI; cbn [hrun]; [exact HI|].
  inversion FB as [|? ? Bo Bops]; subst.
  pose proof (hstepL_inv DE h o Bo HI) as H1. destruct (hstep h o) as [[res ev] h1]. cbn [snd] in H1.
  specialize (IH h1 Bops H1). destruct (hrun h1 ops) as [rest hf]. exact IH.
Qed.

Lemma genuine_hstep h o pid d p :
  benignL o -> genuine (w_store (h_world h)) pid d p -> genuine (w_store (h_world (snd (hstep h o)))) pid d p.
Proof.
  intros B G.
  assert (Keep : sdk_op o = true -> genuine (w_store (h_world (snd (hstep h o)))) pid d p).
  { intro So. destruct (sdk_step_R Rs Rs_frame h o So) as [K _]. eapply genuine_kept; [exact K | exact G]. }
  destruct o; cbn [benignL] in B; try contradiction; try (apply Keep; reflexivity).
  - cbn [hstep snd h_world]. exact G.
  - cbn [hstep snd h_world]. wsimpl. eapply genuine_flagged; [apply revoke_flagged | exact G].
Qed.

Lemma genuine_hrun ops : forall h pid d p,
  Forall benignL ops -> genuine (w_store (h_world h)) pid d p -> genuine (w_store (h_world (snd (hrun h ops)))) pid d p.
Proof.
  induction ops as [|o ops IH]; intros h pid d p FB G; cbn [hrun]; [exact G|].
  inversion FB as [|? ? Bo Bops]; subst.
  pose proof (genuine_hstep h o pid d p Bo G) as G1. destruct (hstep h o) as [[res ev] h1]. cbn [snd] in G1.
  specialize (IH h1 pid d p Bops G1). destruct (hrun h1 ops) as [rest hf]. exact IH.
Qed.

Lemma recs_hstep_prefix h o j d : nth_error (h_recs h) j = Some d -> nth_error (h_recs (snd (hstep h o))) j = Some d.
Proof.
  intro Hj. destruct o; cbn [hstep]; try exact Hj.
  - match goal with |- context [let (_, _) := ?m in _] => destruct m as [[er|a] w'] end; exact Hj.
  - match goal with |- context [let (_, _) := ?m in _] => destruct m as [[er|a] w'] end; exact Hj.
  - match goal with |- context [let (_, _) := ?m in _] => destruct m as [[er|a] w'] end; cbn [snd h_recs]; [exact Hj|].
    apply nth_error_app_keep. exact Hj.
  - destruct (nth_error (h_recs h) rec) as [r0|]; [|exact Hj].
    match goal with |- context [let (_, _) := ?m in _] => destruct m as [[er|a] w'] end; exact Hj.
  - match goal with |- context [let (_, _) := ?m in _] => destruct m as [[er|a] w'] end; exact Hj.
  - match goal with |- context [let (_, _) := ?m in _] => destruct m as [[er|a] w'] end; exact Hj.
Qed.

Lemma recs_hrun_prefix ops : forall h j d, nth_error (h_recs h) j = Some d -> nth_error (h_recs (snd (hrun h ops))) j = Some d.
Proof.
  induction ops as [|o ops IH]; intros h j d Hj; cbn [hrun]; [exact Hj|].
  pose proof (recs_hstep_prefix h o j d Hj) as H1. destruct (hstep h o) as [[res ev] h1]. cbn [snd] in H1.
  specialize (IH h1 j d H1). destruct (hrun h1 ops) as [rest hf]. exact IH.
Qed.

(* any recorded, genuine record decrypts to its payload in any live session of its partition, key caches and all *)
Theorem live_decrypt_of_recorded h s x j d n :
  HIL (h_world h) -> nz_store (w_store (h_world h)) -> nth_error (w_sessions (h_world h)) s = Some x ->
  nth_error (h_recs h) j = Some d -> genuine (w_store (h_world h)) (p_id (ss_part x)) d (PPayload n) ->
  fst (fst (hstep h (HDecrypt s j [] []))) = ODec (Some n).
Proof.
  intros [kinds [H [HIL0 _]]] NZ Hs Hj G. cbn [hstep]. rewrite Hj. cbn [fold_left].
  pose proof (genuine_decrypts_live kinds H (h_world h) s x d (PPayload n) HIL0 (all_live_s DE s _) NZ Hs G) as X.
  destruct ((e <- session_env s;; decrypt_data_row_record e d) (begin_op [] (h_world h))) as [r w']. cbn [fst] in *. rewrite X. reflexivity.
Qed.

Lemma session_env_run s x fa w :
  nth_error (w_sessions w) s = Some x -> nth_error (w_factories w) (ss_factory x) = Some fa ->
  session_env s w = (inr {| en_part := ss_part x; en_pol := fa_policy fa; en_sk := fa_sk fa; en_ik := ss_ik x |}, w).
Proof. intros Hs Hf. unfold session_env, bind, get_session, get_factory, gets. cbn. rewrite Hs. cbn. rewrite Hf. reflexivity. Qed.

(* Encrypt, then anything (more factories and sessions, encrypts, decrypts with any fault plans, clock changes, revocations),
   then a fault-free Decrypt in any live session of the same partition id: the payload comes back *)
Theorem encrypt_then_decrypt_live h s1 x1 payload faults :
  HInv svc prod h -> HIL (h_world h) -> nth_error (w_sessions (h_world h)) s1 = Some x1 ->
  match hstep h (HEncrypt s1 payload faults) with
  | (OEnc _ _, _, h1) =>
      forall ops s2 x2, Forall benignL ops ->
        let h2 := snd (hrun h1 ops) in
        nz_store (w_store (h_world h2)) -> nth_error (w_sessions (h_world h2)) s2 = Some x2 -> p_id (ss_part x2) = p_id (ss_part x1) ->
        fst (fst (hstep h2 (HDecrypt s2 (List.length (h_recs h)) [] []))) = ODec (Some payload)
  | _ => True
  end.
Proof.
  intros HV HL Hs.
  pose proof (hstepL_inv DE h (HEncrypt s1 payload faults) I HL) as HL1.
  destruct HV as [[kinds HI] RO]. cbn [hstep] in *.
  assert (HI0 : Iv kinds (begin_op faults (h_world h))) by (eapply Iv_ext; [..|exact HI]; reflexivity).
  set (w0 := begin_op faults (h_world h)) in *.
  assert (Hs0 : nth_error (w_sessions w0) s1 = Some x1) by exact Hs. clearbody w0.
  pose proof HI0 as [_ [_ _ _ S]]. destruct (S s1 x1 Hs0) as [[fa Hfa] _].
  pose proof (session_env_run s1 x1 fa w0 Hs0 Hfa) as Run.
  pose proof (session_env_spec svc prod kinds s1 w0 HI0) as X. rewrite Run in X. destruct X as [_ EO].
  set (e := {| en_part := ss_part x1; en_pol := fa_policy fa; en_sk := fa_sk fa; en_ik := ss_ik x1 |}) in *.
  pose proof (encrypt_payload_spec svc prod kinds e (PPayload payload) EO w0 HI0) as Y.
  unfold bind in *. rewrite Run in *.
  destruct (encrypt_payload e (PPayload payload) w0) as [[er|d] w1]; cbn [outcome snd h_world] in *.
  { destruct er; exact I. }
  destruct Y as [_ G]. destruct (d_key d) as [k|]; [|exact I]. destruct (e_parent k); [|exact I].
  cbv beta iota.
  intros ops s2 x2 FB NZ Hs2 Epid.
  set (h1 := {| h_world := w1; h_recs := h_recs h ++ [d] |}) in *.
  set (h2 := snd (hrun h1 ops)) in *.
  change (fst (fst (hstep h2 (HDecrypt s2 (List.length (h_recs h)) [] []))) = ODec (Some payload)).
  assert (Hj : nth_error (h_recs h2) (List.length (h_recs h)) = Some d).
  { apply recs_hrun_prefix. cbn [h_recs h1]. rewrite nth_error_app2 by lia. rewrite Nat.sub_diag. reflexivity. }
  apply (live_decrypt_of_recorded h2 s2 x2 _ d payload); [exact (hrunL_inv ops h1 FB HL1) | exact NZ | exact Hs2 | exact Hj |].
  rewrite Epid. exact (genuine_hrun ops h1 _ d _ FB G).
Qed.

Definition nz_storeb (st : list row) : bool := forallb (fun x : row => negb (snd (fst x) =? 0)) st.
Lemma nz_storeb_ok st : nz_storeb st = true -> nz_store st.
Proof.
  induction st as [|[[i0 c0] r0] st IH]; intros Hb i c r Hf; cbn [store_find] in Hf; [discriminate|].
  cbn [nz_storeb forallb fst snd] in Hb. apply andb_prop in Hb as [H1 H2].
  destruct (str_eqb i0 i && (c0 =? c)) eqn:E; [|exact (IH H2 i c r Hf)].
  apply andb_prop in E as [_ E]. apply Z.eqb_eq in E. subst c0. apply negb_true_iff, Z.eqb_neq in H1. exact H1.
Qed.

Theorem live_invariants_reachable t0 ops :
  Forall benignL ops -> HInv svc prod (snd (hrun (hinit t0) ops)) /\ HIL (h_world (snd (hrun (hinit t0) ops))).
Proof.
  intro FB. split.
  - apply invariant_reachable. eapply Forall_impl; [|exact FB]. apply benignL_benign.
  - exact (hrunL_inv ops (hinit t0) FB (HIL_init t0)).
Qed.

(* what the liveness invariant says about the keys sitting in key caches: each is open (its secret not destroyed) *)
Theorem HIL_cached_keys_open w : HIL w ->
  forall cid kc ks e, nth_error (w_caches w) cid = Some kc -> b_abs (kc_backing kc) ks = Some e -> open_k w (ce_key e).
Proof.
  intros [kinds [H [[_ L] _]]] cid kc ks e Hc Hb.
  apply (l_cached _ _ _ _ L (ce_key e)). exists cid, ks, e. split; [split; [apply DE | exists kc; split; assumption]|]. split; [intros []|reflexivity].
Qed.

End NoClose2.
End LiveCoh.

End LiveD.
