(* C04 / C05 at the key cache: which key GetOrLoadLatest may hand out for new data, and the witnesses
   (computed on the executable model) that refute the full timing statements - known findings C04-IK, C05-IK. *)
From Asherah Require Import Envelope.Session Envelope.Frame Envelope.FrameInst Envelope.Local.
From Coq Require Import Lia.

(* every key handed out for encryption either passed the revoked/expired check at the current time, or is the
   answer the loader gave in this very call *)
Theorem latest_key_checked cid rci ex id loader w k w' :
  (forall x, pres now_same (loader x)) ->
  get_or_load_latest (Some cid) rci ex id loader w = (inr k, w') ->
  (exists w1 w2, is_key_invalid k ex w1 = (inr false, w2) /\ w_now w1 = w_now w) \/
  (exists w1 w2, loader {| km_id := id; km_created := 0 |} w1 = (inr k, w2) /\ w_now w1 = w_now w).
Proof.
  intros HL H. unfold get_or_load_latest in H.
  apply bind_ok in H as [f [w1 [GF H]]].
  pose proof (pres_kc_get_fresh now_same now_same_frame cid rci {| km_id := id; km_created := 0 |} w) as T1.
  rewrite GF in T1. cbn [snd] in T1. unfold now_same in T1.
  apply bind_ok in H as [key [w2 [KL H]]].
  assert (T2 : w_now w2 = w_now w).
  { destruct f as [[k0 [|]]|].
    - inversion KL; subst. exact T1.
    - pose proof (pres_kc_load now_same now_same_frame cid {| km_id := id; km_created := 0 |} loader HL w1) as P.
      rewrite KL in P. unfold now_same in P. cbn [snd] in P. congruence.
    - pose proof (pres_kc_load now_same now_same_frame cid {| km_id := id; km_created := 0 |} loader HL w1) as P.
      rewrite KL in P. unfold now_same in P. cbn [snd] in P. congruence. }
  apply bind_ok in H as [inv [w3 [IV H]]].
  pose proof (pres_is_key_invalid now_same now_same_frame key ex w2) as T3. rewrite IV in T3. unfold now_same in T3. cbn [snd] in T3.
  destruct inv.
  - right. apply bind_ok in H as [reloaded [w4 [LD H]]].
    apply bind_ok in H as [ro [w5 [G1 H]]]. apply bind_ok in H as [now [w6 [G2 H]]].
    apply bind_ok in H as [u1 [w7 [_ H]]]. apply bind_ok in H as [u2 [w8 [_ H]]]. apply bind_ok in H as [u3 [w9 [_ H]]].
    inversion H; subst. exists w3, w4. split; [exact LD | congruence].
  - left. apply bind_ok in H as [u [w4 [_ H]]]. inversion H; subst. exists w2, w3. split; [exact IV | exact T2].
Qed.

(* ---- witnesses ------------------------------------------------------------------------------------------ *)

Definition simple_pol : cachepol := {| cp_kind := None; cp_cap := 1000 |}.
Definition pol100 : policy :=
  {| p_expire := 100 * sec; p_rci := 10 * sec; p_precision := 1 * sec; p_cache_sk := true; p_cache_ik := true; p_shared_ik := false;
     p_sk_pol := simple_pol; p_ik_pol := simple_pol; p_cache_sessions := false; p_sess_cap := 1000; p_sess_dur := 7200 * sec; p_sess_kind := Slru |}.

Definition t0 : Z := 1790000000 * sec.

(* Finding I: the system key expires; another session rotates the partition's intermediate key; a FRESH session
   that decrypts an old record first then encrypts under the old intermediate key, 20 s after its system key
   expired (interval: 10 s). *)
Definition witness_expiry : list hop :=
  [ HNewFactory pol100 (s "svc") (s "prod") None;
    HGetSession 0 (s "q"); HEncrypt 0 1 [];                 (* t0: creates SK(t0), IK_q *)
    HAdvance (50 * sec);
    HGetSession 0 (s "p"); HEncrypt 1 2 [];                 (* t0+50: creates IK_p(t0+50) under SK(t0); record 1 *)
    HAdvance (70 * sec);                                     (* t0+120: SK(t0) expired 20 s ago; IK_p(t0+50) still valid *)
    HGetSession 0 (s "p"); HEncrypt 2 3 [];                 (* session 2 rotates: new SK, new IK_p(t0+120); record 2 *)
    HGetSession 0 (s "p"); HDecrypt 3 1 [] []; HEncrypt 3 4 [] ].   (* session 3: decrypt old, then encrypt *)

Definition last_enc_parent (ops : list hop) : option Z :=
  match rev (fst (hrun (hinit t0) ops)) with
  | (OEnc pm _, _) :: _ => Some (km_created pm)
  | _ => None
  end.

Definition nth_enc_parent (n : nat) (ops : list hop) : option Z :=
  match nth_error (fst (hrun (hinit t0) ops)) n with
  | Some (OEnc pm _, _) => Some (km_created pm)
  | _ => None
  end.

(* the last encrypt names IK_p(t0+50), whose system key SK(t0) expired at t0+100, at time t0+120 > t0+100+10,
   although session 2 had already rotated to IK_p(t0+120) *)
Theorem C04_refuted_by_decrypt_refresh :
  last_enc_parent witness_expiry = Some (t0 / sec + 50) /\ nth_enc_parent 8 witness_expiry = Some (t0 / sec + 120) /\
  is_key_expired (t0 + 120 * sec - p_rci pol100) (t0 / sec) (p_expire pol100) = true.
Proof. vm_compute. repeat split; reflexivity. Qed.

(* Finding K/I for revocation: the system key is revoked at t0+60; 25 s (> 2 intervals) later a fresh session that
   decrypts first still encrypts under the intermediate key of the revoked system key, although another session
   already switched to a new system key *)
Definition witness_revocation : list hop :=
  [ HNewFactory pol100 (s "svc") (s "prod") None;
    HGetSession 0 (s "p"); HEncrypt 0 1 [];                 (* t0: SK(t0), IK_p(t0); record 0 *)
    HAdvance (60 * sec);
    HRevoke (s "_SK_svc_prod") (t0 / sec);                  (* operator revokes the system key *)
    HAdvance (25 * sec);                                     (* t0+85 *)
    HGetSession 0 (s "p"); HEncrypt 1 2 [];                 (* a new session notices and rotates: IK_p(t0+85) *)
    HGetSession 0 (s "p"); HDecrypt 2 0 [] []; HEncrypt 2 3 [] ].

Theorem C05_refuted_by_decrypt_refresh :
  last_enc_parent witness_revocation = Some (t0 / sec) /\ nth_enc_parent 7 witness_revocation = Some (t0 / sec + 85).
Proof. vm_compute. split; reflexivity. Qed.

(* Finding J: in createIntermediateKey's duplicate-store fallback the latest intermediate key's parent differs from
   the (new) system key in hand; the parent looked up by intermediateKeyFromEKR is never released: after every
   session and factory is closed one secret is still live. *)
Definition witness_leak : list hop :=
  [ HNewFactory pol100 (s "svc") (s "prod") None;
    HGetSession 0 (s "q"); HEncrypt 0 1 [];                 (* t0: SK(t0), IK_q(t0) *)
    HAdvance (5 * sec);
    HGetSession 0 (s "p"); HEncrypt 1 2 [];                 (* t0+5: IK_p(t0+5) under SK(t0) *)
    HRevoke (s "_SK_svc_prod") (t0 / sec);
    HNewFactory pol100 (s "svc") (s "prod") None;
    HGetSession 1 (s "p"); HEncrypt 2 3 [];                 (* same second: new SK(t0+5); IK_p(t0+5) store is a duplicate *)
    HCloseSession 0; HCloseSession 1; HCloseSession 2; HCloseFactory 0; HCloseFactory 1 ].

Definition live_secrets (w : world) : list nat :=
  map fst (filter (fun x => negb (s_closed (snd x))) (combine (seq 0 (length (w_secrets w))) (w_secrets w))).

Theorem C09_refuted_parent_mismatch_leak :
  live_secrets (h_world (snd (hrun (hinit t0) witness_leak))) <> [].
Proof. vm_compute. discriminate. Qed.

(* the same history without the revocation (no duplicate path): everything is released *)
Example C09_clean_teardown :
  live_secrets (h_world (snd (hrun (hinit t0)
    [ HNewFactory pol100 (s "svc") (s "prod") None; HGetSession 0 (s "q"); HEncrypt 0 1 []; HAdvance (5 * sec);
      HGetSession 0 (s "p"); HEncrypt 1 2 []; HDecrypt 1 1 [] []; HNewFactory pol100 (s "svc") (s "prod") None;
      HGetSession 1 (s "p"); HEncrypt 2 3 []; HCloseSession 0; HCloseSession 1; HCloseSession 2; HCloseFactory 0; HCloseFactory 1 ]))) = [].
Proof. vm_compute. reflexivity. Qed.
