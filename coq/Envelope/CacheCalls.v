(* C20: a fresh cached key is used without any metastore / KMS / AEAD / allocator call, for exactly one
   revoke-check interval; a stale one makes the cache consult its loader once. *)
From Asherah Require Import Envelope.Session Envelope.Local.
From Coq Require Import Lia.

(* programs that make no boundary call and leave the metastore alone *)
Definition quiet {A} (m : M A) : Prop :=
  forall w, w_calls (snd (m w)) = w_calls w /\ w_trace (snd (m w)) = w_trace w /\ w_store (snd (m w)) = w_store w /\
            w_secrets (snd (m w)) = w_secrets w /\ w_now (snd (m w)) = w_now w.

Lemma q_ret {A} (a : A) : quiet (ret a). Proof. intro w. repeat split. Qed.
Lemma q_fail {A} e : quiet (@fail A e). Proof. intro w. repeat split. Qed.
Lemma q_gets {A} (f : world -> A) : quiet (gets f). Proof. intro w. repeat split. Qed.
Lemma q_bind {A B} (m : M A) (f : A -> M B) : quiet m -> (forall a, quiet (f a)) -> quiet (bind m f).
Proof.
  intros Hm Hf w. unfold bind. specialize (Hm w). destruct (m w) as [[e|a] w1]; cbn [snd] in *; [exact Hm|].
  destruct (Hf a w1) as [H1 [H2 [H3 [H4 H5]]]]. destruct Hm as [G1 [G2 [G3 [G4 G5]]]]. repeat split; congruence.
Qed.
Lemma q_put_cache cid c : quiet (put_cache cid c). Proof. intro w. repeat split. Qed.
Lemma q_kobj_get k : quiet (kobj_get k).
Proof. unfold kobj_get. apply q_bind; [apply q_gets|]. intro ks. destruct (nth_error ks k); [apply q_ret | apply q_fail]. Qed.
Lemma q_kobj_modify k g : quiet (kobj_modify k g).
Proof. intro w. unfold kobj_modify. destruct (nth_error (w_kobjs w) k); repeat split. Qed.
Lemma q_get_cache cid : quiet (get_cache cid).
Proof. unfold get_cache. apply q_bind; [apply q_gets|]. intro cs. destruct (nth_error cs cid); [apply q_ret | apply q_fail]. Qed.

Lemma q_kc_read cid meta : quiet (kc_read cid meta).
Proof.
  unfold kc_read. apply q_bind; [apply q_get_cache|]. intro kc. apply q_bind; [apply q_gets|]. intro now.
  destruct (backing_get _ _ _) as [b' r]. apply q_bind; [apply q_put_cache | intro; apply q_ret].
Qed.

Lemma q_reload_required e rci : quiet (reload_required e rci).
Proof. unfold reload_required. apply q_bind; [apply q_kobj_get|]. intro o. apply q_bind; [apply q_gets | intro; apply q_ret]. Qed.

Lemma q_kc_get_fresh cid rci meta : quiet (kc_get_fresh cid rci meta).
Proof.
  unfold kc_get_fresh. apply q_bind; [apply q_kc_read|]. intros [e|]; [|apply q_ret].
  apply q_bind; [apply q_reload_required | intro; apply q_ret].
Qed.

Lemma q_cck_increment k : quiet (cck_increment k).
Proof. unfold cck_increment. apply q_bind; [apply q_kobj_modify | intro; apply q_ret]. Qed.

Lemma q_is_key_invalid k ex : quiet (is_key_invalid k ex).
Proof. unfold is_key_invalid. apply q_bind; [apply q_kobj_get|]. intro. apply q_bind; [apply q_gets | intro; apply q_ret]. Qed.

(* what "fresh" means: the cached flag says revoked, or the entry was loaded at most one interval ago *)
Lemma reload_required_spec e rci w b w' :
  reload_required e rci w = (inr b, w') ->
  exists o, nth_error (w_kobjs w) (ce_key e) = Some o /\ b = (if ko_revoked o then false else ce_loaded e + rci <? w_now w).
Proof.
  unfold reload_required. intro H. apply bind_ok in H as [o [w1 [G H]]].
  unfold kobj_get in G. apply bind_ok in G as [ks [w0 [G0 G]]]. unfold get_kobjs, gets in G0. inversion G0; subst. clear G0.
  destruct (nth_error (w_kobjs w0) (ce_key e)) eqn:E; [|discriminate G]. inversion G; subst. clear G.
  apply bind_ok in H as [now [w2 [G1 H]]]. unfold get_now, gets in G1. inversion G1; subst. inversion H; subst.
  exists o. split; [first [exact E | reflexivity] | reflexivity].
Qed.

(* Decrypt path: a fresh entry is returned without consulting the loader - whatever the loader is *)
Lemma bind_eq {A B} (m : M A) (f : A -> M B) w a w1 : m w = (inr a, w1) -> bind m f w = f a w1.
Proof. intro H. unfold bind. rewrite H. reflexivity. Qed.

Lemma bind_err {A B} (m : M A) (f : A -> M B) w e w1 : m w = (inl e, w1) -> bind m f w = (inl e, w1).
Proof. intro H. unfold bind. rewrite H. reflexivity. Qed.

Lemma cck_increment_ok k w o : nth_error (w_kobjs w) k = Some o -> exists w', cck_increment k w = (inr tt, w').
Proof.
  intro H. unfold cck_increment, bind, kobj_modify. rewrite H. cbn. eexists. reflexivity.
Qed.

(* Decrypt path: a fresh entry is returned without consulting the loader - whatever the loader is *)
Theorem get_or_load_fresh_hit cid rci meta loader w k w1 o :
  kc_get_fresh cid rci meta w = (inr (Some (k, true)), w1) -> nth_error (w_kobjs w1) k = Some o ->
  let r := get_or_load (Some cid) rci meta loader w in
  fst r = inr k /\ w_calls (snd r) = w_calls w /\ w_trace (snd r) = w_trace w /\ w_store (snd r) = w_store w.
Proof.
  intros F Ho. cbv zeta. unfold get_or_load. rewrite (bind_eq _ _ _ _ _ F).
  pose proof (q_kc_get_fresh cid rci meta w) as Q. rewrite F in Q. cbn [snd] in Q. destruct Q as [Q1 [Q2 [Q3 _]]].
  destruct (cck_increment_ok k w1 o Ho) as [w2 CI].
  pose proof (q_cck_increment k w1) as [I1 [I2 [I3 _]]]. rewrite CI in I1, I2, I3. cbn [snd] in *.
  rewrite (bind_eq _ _ _ _ _ CI). cbn [ret fst snd]. repeat split; congruence.
Qed.

(* Encrypt path: a fresh entry whose key is valid (not revoked, not expired) is returned without consulting
   the loader *)
Theorem get_or_load_latest_fresh_hit cid rci ex id loader w k w1 w2 :
  kc_get_fresh cid rci {| km_id := id; km_created := 0 |} w = (inr (Some (k, true)), w1) ->
  is_key_invalid k ex w1 = (inr false, w2) ->
  let r := get_or_load_latest (Some cid) rci ex id loader w in
  fst r = inr k /\ w_calls (snd r) = w_calls w /\ w_trace (snd r) = w_trace w /\ w_store (snd r) = w_store w.
Proof.
  intros F V. cbv zeta. unfold get_or_load_latest. rewrite (bind_eq _ _ _ _ _ F).
  pose proof (q_kc_get_fresh cid rci {| km_id := id; km_created := 0 |} w) as Q. rewrite F in Q. cbn [snd] in Q. destruct Q as [Q1 [Q2 [Q3 _]]].
  rewrite (bind_eq (ret k) _ w1 k w1 eq_refl). rewrite (bind_eq _ _ _ _ _ V).
  pose proof (q_is_key_invalid k ex w1) as [J1 [J2 [J3 _]]]. rewrite V in J1, J2, J3. cbn [snd] in *.
  assert (exists o, nth_error (w_kobjs w2) k = Some o) as [o Ho].
  { unfold is_key_invalid in V. apply bind_ok in V as [o [wa [G V]]].
    unfold kobj_get in G. apply bind_ok in G as [ks [wb [G0 G]]]. unfold get_kobjs, gets in G0. inversion G0; subst. clear G0.
    destruct (nth_error (w_kobjs wb) k) eqn:E; [|discriminate G]. inversion G; subst.
    apply bind_ok in V as [now [wc [G1 V]]]. unfold get_now, gets in G1. inversion G1; subst. inversion V; subst. eauto. }
  destruct (cck_increment_ok k w2 o Ho) as [w3 CI].
  pose proof (q_cck_increment k w2) as [I1 [I2 [I3 _]]]. rewrite CI in I1, I2, I3. cbn [snd] in *.
  rewrite (bind_eq _ _ _ _ _ CI). cbn [ret fst snd]. repeat split; congruence.
Qed.

(* a stale or missing entry: the cache consults its loader (the metastore) - exactly the load path *)
Theorem get_or_load_stale_loads cid rci meta loader w r1 w1 r2 w2 :
  kc_get_fresh cid rci meta w = (inr r1, w1) -> (forall k, r1 <> Some (k, true)) ->
  kc_get_fresh cid rci meta w1 = (inr r2, w2) -> (forall k, r2 <> Some (k, true)) ->
  get_or_load (Some cid) rci meta loader w = (k <- kc_load cid meta loader ;; cck_increment k ;;; ret k) w2.
Proof.
  intros F1 N1 F2 N2. unfold get_or_load. rewrite (bind_eq _ _ _ _ _ F1).
  destruct r1 as [[k1 [|]]|]; try (exfalso; apply (N1 k1); reflexivity);
    rewrite (bind_eq _ _ _ _ _ F2);
    destruct r2 as [[k2 [|]]|]; try (exfalso; apply (N2 k2); reflexivity); reflexivity.
Qed.
