(* Instances of the frame theorem: what NO operation of the SDK ever does, for every history. *)
From Asherah Require Import Envelope.Session Envelope.Frame.
From Coq Require Import Lia.
From Asherah Require Import Cache.ListLemmas.

(* ---- the metastore is append-only and never holds two rows for one (id, created) ----------------- *)

Definition row_key (x : row) : str * Z := let '(i, c, _) := x in (i, c).
Definition store_keys (s : list row) : list (str * Z) := map row_key s.

Definition store_ext (w w' : world) : Prop :=
  (exists ext, w_store w' = w_store w ++ ext) /\ (NoDup (store_keys (w_store w)) -> NoDup (store_keys (w_store w'))).

Lemma str_eqb_true_eq a b : str_eqb a b = true -> a = b.
Proof.
  revert b; induction a as [|c a IH]; intros [|d b] H; cbn in H; try discriminate; [reflexivity|].
  apply andb_true_iff in H as [H1 H2]. apply Ascii.eqb_eq in H1. apply IH in H2. congruence.
Qed.

Lemma str_eqb_refl' a : str_eqb a a = true.
Proof. induction a as [|c a IH]; cbn; [reflexivity|]. rewrite Ascii.eqb_refl, IH. reflexivity. Qed.

Lemma store_find_None id c s : store_find id c s = None -> ~ In (id, c) (store_keys s).
Proof.
  induction s as [|[[i k] r] s IH]; cbn; intro H; [tauto|].
  destruct (str_eqb i id && (k =? c)) eqn:E; [discriminate|].
  intros [H1|H1].
  - inversion H1; subst. rewrite str_eqb_refl', Z.eqb_refl in E. discriminate.
  - apply IH; assumption.
Qed.

Lemma store_ext_refl w : store_ext w w.
Proof. split; [exists []; rewrite app_nil_r; reflexivity | tauto]. Qed.

Lemma store_ext_trans a b c : store_ext a b -> store_ext b c -> store_ext a c.
Proof.
  intros [[e1 H1] N1] [[e2 H2] N2]. split.
  - exists (e1 ++ e2). rewrite H2, H1, app_assoc. reflexivity.
  - tauto.
Qed.

Lemma store_ext_same w w' : w_store w' = w_store w -> store_ext w w'.
Proof. intro E. split; [exists []; rewrite app_nil_r; exact E | rewrite E; tauto]. Qed.

Lemma store_ext_frame : frame_ok store_ext.
Proof.
  constructor; try (intros; apply store_ext_same; reflexivity).
  - apply store_ext_trans.
  - intros w id c r F. split.
    + exists [(id, c, r)]. reflexivity.
    + cbn [w_store with_store]. intro ND. unfold store_keys. rewrite map_app. cbn [map row_key].
      apply NoDup_app_single. exact ND. apply store_find_None. exact F.
Qed.

Theorem sdk_store_append_only : forall h o, sdk_op o = true ->
  store_ext (h_world h) (h_world (snd (hstep h o))).
Proof. apply (sdk_step_R store_ext store_ext_frame). Qed.

(* ---- protected memory: a released secret is never reopened, its content never changes; key objects
   keep their identity ------------------------------------------------------------------------------- *)

Definition secrets_mono (w w' : world) : Prop :=
  (forall sid sc, nth_error (w_secrets w) sid = Some sc ->
     exists sc', nth_error (w_secrets w') sid = Some sc' /\ s_mat sc' = s_mat sc /\ (s_closed sc = true -> s_closed sc' = true)) /\
  (forall k o, nth_error (w_kobjs w) k = Some o ->
     exists o', nth_error (w_kobjs w') k = Some o' /\ ko_created o' = ko_created o /\ ko_secret o' = ko_secret o).

Lemma nth_error_set_nth_same {A} (l : list A) n x y : nth_error l n = Some y -> nth_error (set_nth n x l) n = Some x.
Proof.
  revert n; induction l as [|a l IH]; intros [|n] H; cbn in *; try discriminate; [reflexivity | apply IH; exact H].
Qed.

Lemma nth_error_set_nth_other {A} (l : list A) n m x : n <> m -> nth_error (set_nth n x l) m = nth_error l m.
Proof.
  revert n m; induction l as [|a l IH]; intros [|n] [|m] H; cbn; try reflexivity; try congruence.
  apply IH. congruence.
Qed.

Lemma nth_error_app_l {A} (l l' : list A) n x : nth_error l n = Some x -> nth_error (l ++ l') n = Some x.
Proof. intro H. rewrite nth_error_app1; [exact H | apply nth_error_Some; congruence]. Qed.

Lemma secrets_mono_refl w : secrets_mono w w.
Proof. split; intros i x H; exists x; tauto. Qed.

Lemma secrets_mono_trans a b c : secrets_mono a b -> secrets_mono b c -> secrets_mono a c.
Proof.
  intros [S1 K1] [S2 K2]. split.
  - intros sid sc H. destruct (S1 _ _ H) as [sc1 [H1 [M1 C1]]]. destruct (S2 _ _ H1) as [sc2 [H2 [M2 C2]]].
    exists sc2. split; [exact H2|]. split; [congruence | tauto].
  - intros k o H. destruct (K1 _ _ H) as [o1 [H1 [A1 B1]]]. destruct (K2 _ _ H1) as [o2 [H2 [A2 B2]]].
    exists o2. split; [exact H2|]. split; congruence.
Qed.

Lemma secrets_mono_same w w' : w_secrets w' = w_secrets w -> w_kobjs w' = w_kobjs w -> secrets_mono w w'.
Proof. intros E1 E2. unfold secrets_mono. rewrite E1, E2. apply secrets_mono_refl. Qed.

Lemma secrets_mono_frame : frame_ok secrets_mono.
Proof.
  constructor; try (intros; apply secrets_mono_same; reflexivity).
  - apply secrets_mono_trans.
  - (* secret appended *)
    intros w s _. split; [|intros k o H; exists o; tauto].
    intros sid sc H. exists sc. cbn [w_secrets with_secrets]. split; [apply nth_error_app_l; exact H | tauto].
  - (* secret closed *)
    intros w sid sc H. split; [|intros k o H'; exists o; tauto].
    intros i x Hi. cbn [w_secrets with_secrets]. destruct (Nat.eq_dec sid i) as [->|N].
    + rewrite Hi in H. inversion H; subst. eexists. split; [eapply nth_error_set_nth_same; exact Hi|]. cbn. tauto.
    + exists x. rewrite nth_error_set_nth_other by exact N. tauto.
  - (* key object appended *)
    intros w o. split; [intros i x H; exists x; tauto|].
    intros k x H. exists x. cbn [w_kobjs with_kobjs]. split; [apply nth_error_app_l; exact H | tauto].
  - (* key object updated in place *)
    intros w k o o' H C S. split; [intros i x Hi; exists x; tauto|].
    intros i x Hi. cbn [w_kobjs with_kobjs]. destruct (Nat.eq_dec k i) as [->|N].
    + rewrite Hi in H. inversion H; subst. exists o'. split; [eapply nth_error_set_nth_same; exact Hi | tauto].
    + exists x. rewrite nth_error_set_nth_other by exact N. tauto.
Qed.

Theorem sdk_secrets_monotone : forall h o, sdk_op o = true ->
  secrets_mono (h_world h) (h_world (snd (hstep h o))).
Proof. apply (sdk_step_R secrets_mono secrets_mono_frame). Qed.

Lemma secrets_mono_length w w' : secrets_mono w w' -> (length (w_secrets w) <= length (w_secrets w'))%nat.
Proof.
  intros [S _]. destruct (le_lt_dec (length (w_secrets w)) (length (w_secrets w'))) as [L|L]; [exact L|].
  exfalso. destruct (nth_error (w_secrets w) (length (w_secrets w'))) as [sc|] eqn:E.
  - destruct (S _ _ E) as [sc' [H _]]. apply nth_error_Some in L. assert (nth_error (w_secrets w') (length (w_secrets w')) <> None) by congruence.
    apply nth_error_Some in H0. lia.
  - apply nth_error_None in E. lia.
Qed.

(* ---- the AEAD nonce counter never goes back ---------------------------------------------------------- *)

Definition nonce_mono (w w' : world) : Prop := (w_nonce w <= w_nonce w')%nat.

Lemma nonce_mono_frame : frame_ok nonce_mono.
Proof.
  constructor; unfold nonce_mono; intros; cbn; try lia.
Qed.

Theorem sdk_nonce_monotone : forall h o, sdk_op o = true ->
  nonce_mono (h_world h) (h_world (snd (hstep h o))).
Proof. apply (sdk_step_R nonce_mono nonce_mono_frame). Qed.

(* ---- the clock does not move inside an operation ------------------------------------------------------ *)

Definition now_same (w w' : world) : Prop := w_now w' = w_now w.

Lemma now_same_frame : frame_ok now_same.
Proof. constructor; unfold now_same; intros; cbn; congruence. Qed.
