(* Model of go/appencryption/envelope.go, function by function, in the same order of effects
   (including deferred Closes), over the key caches of KeyCache.v. *)
From Asherah Require Export Envelope.KeyCache.

Record env := {               (* envelopeEncryption *)
  en_part : Partition.partition;
  en_pol : policy;
  en_sk : option nat;         (* skCache *)
  en_ik : option nat }.       (* ikCache *)

Definition sk_id (e : env) : str := system_key_id (en_part e).
Definition ik_id (e : env) : str := intermediate_key_id (en_part e).

Definition is_envelope_invalid (e : env) (r : ekr) : M bool :=
  now <- get_now ;; ret (is_key_expired now (e_created r) (p_expire (en_pol e)) || e_revoked r).

Definition generate_key_now (e : env) : M nat :=
  now <- get_now ;; generate_key (new_key_timestamp now (p_precision (en_pol e))).

(* systemKeyFromEKR *)
Definition system_key_from_ekr (r : ekr) : M nat :=
  bytes <- kms_decrypt (e_key r) ;;
  new_crypto_key (e_created r) (e_revoked r) bytes.

(* loadSystemKey *)
Definition load_system_key (meta : keymeta) : M nat :=
  r <- m_load (km_id meta) (km_created meta) ;;
  match r with
  | None => fail ErrInvalid
  | Some r => system_key_from_ekr r
  end.

(* getOrLoadSystemKey *)
Definition get_or_load_system_key (e : env) (meta : keymeta) : M nat :=
  get_or_load (en_sk e) (p_rci (en_pol e)) meta load_system_key.

(* intermediateKeyFromEKR.  NOTE (known finding J): the system key looked up on a parent mismatch is
   never released. *)
Definition intermediate_key_from_ekr (e : env) (sk : nat) (r : ekr) : M nat :=
  sko <- kobj_get sk ;;
  sk' <- (match e_parent r with
          | Some pm => if ko_created sko =? km_created pm then ret sk
                       else get_or_load_system_key e pm
          | None => ret sk
          end) ;;
  skb <- key_bytes sk' ;;
  ikb <- aead_decrypt (e_key r) skb ;;
  new_crypto_key (e_created r) (e_revoked r) ikb.

(* tryStoreSystemKey: (success, err2) *)
Definition try_store_system_key (e : env) (sk : nat) : M bool :=
  skb <- key_bytes sk ;;
  enc <- kms_encrypt skb ;;
  o <- kobj_get sk ;;
  m_store (sk_id e) (ko_created o) {| e_revoked := false; e_created := ko_created o; e_key := enc; e_parent := None |}.

Definition must_load_latest (id : str) : M ekr :=
  r <- m_load_latest id ;;
  match r with Some r => ret r | None => fail ErrInvalid end.

(* loadLatestOrCreateSystemKey *)
Definition load_latest_or_create_system_key (e : env) (id : str) : M nat :=
  r <- m_load_latest id ;;
  valid <- (match r with
            | Some r => inv <- is_envelope_invalid e r ;; ret (negb inv)
            | None => ret false
            end) ;;
  match r, valid with
  | Some r, true => system_key_from_ekr r
  | _, _ =>
      sk <- generate_key_now e ;;
      st <- try_ (try_store_system_key e sk) ;;
      match st with
      | inr true => ret sk
      | inr false =>
          ck_close sk ;;;
          r2 <- must_load_latest id ;;
          system_key_from_ekr r2
      | inl er => ck_close sk ;;; fail er
      end
  end.

(* tryStoreIntermediateKey *)
Definition try_store_intermediate_key (e : env) (ik sk : nat) : M bool :=
  ikb <- key_bytes ik ;;
  skb <- key_bytes sk ;;
  enc <- aead_encrypt ikb skb ;;
  iko <- kobj_get ik ;;
  sko <- kobj_get sk ;;
  m_store (ik_id e) (ko_created iko)
          {| e_revoked := false; e_created := ko_created iko; e_key := enc;
             e_parent := Some {| km_id := sk_id e; km_created := ko_created sko |} |}.

(* the part of createIntermediateKey that runs once the system key is in hand *)
Definition create_ik_with_sk (e : env) (sk : nat) : M nat :=
  ik <- generate_key_now e ;;
  st <- try_ (try_store_intermediate_key e ik sk) ;;
  match st with
  | inr true => ret ik
  | inr false =>
      ck_close ik ;;;
      r2 <- must_load_latest (ik_id e) ;;
      intermediate_key_from_ekr e sk r2
  | inl er => ck_close ik ;;; fail er
  end.

(* createIntermediateKey *)
Definition create_intermediate_key (e : env) : M nat :=
  sk <- get_or_load_latest (en_sk e) (p_rci (en_pol e)) (p_expire (en_pol e)) (sk_id e)
                           (fun m => load_latest_or_create_system_key e (km_id m)) ;;
  finally (create_ik_with_sk e sk) (cck_close sk).

(* getValidIntermediateKey: None = nil *)
Definition get_valid_intermediate_key (e : env) (sk : nat) (r : ekr) : M (option nat) :=
  inv <- is_key_invalid sk (p_expire (en_pol e)) ;;
  if inv then ret None
  else
    x <- try_ (intermediate_key_from_ekr e sk r) ;;
    match x with inr ik => ret (Some ik) | inl _ => ret None end.

(* loadLatestOrCreateIntermediateKey *)
Definition load_latest_or_create_intermediate_key (e : env) (id : str) : M nat :=
  r <- m_load_latest id ;;
  usable <- (match r with
             | Some r => match e_parent r with
                         | Some _ => inv <- is_envelope_invalid e r ;; ret (negb inv)
                         | None => ret false
                         end
             | None => ret false
             end) ;;
  match r, usable with
  | Some r, true =>
      match e_parent r with
      | Some pm =>
          x <- try_ (get_or_load_system_key e pm) ;;
          match x with
          | inl _ => create_intermediate_key e
          | inr sk =>
              finally
                (v <- get_valid_intermediate_key e sk r ;;
                 match v with
                 | Some ik => ret ik
                 | None => create_intermediate_key e
                 end)
                (cck_close sk)
          end
      | None => create_intermediate_key e
      end
  | _, _ => create_intermediate_key e
  end.

(* loadIntermediateKey *)
Definition load_intermediate_key (e : env) (meta : keymeta) : M nat :=
  r <- m_load (km_id meta) (km_created meta) ;;
  match r with
  | None => fail ErrInvalid
  | Some r =>
      match e_parent r with
      | None => fail ErrInvalid
      | Some pm =>
          sk <- get_or_load_system_key e pm ;;
          finally (intermediate_key_from_ekr e sk r) (cck_close sk)
      end
  end.

(* the part of EncryptPayload that runs once the intermediate key is in hand *)
Definition encrypt_with_ik (e : env) (ik : nat) (payload : ptxt) : M drr :=
  now <- get_now ;;
  drk <- generate_key (now / sec) ;;
  finally
    (drkb <- key_bytes drk ;;
     enc_data <- aead_encrypt payload drkb ;;
     ikb <- key_bytes ik ;;
     drkb2 <- key_bytes drk ;;
     enc_key <- aead_encrypt drkb2 ikb ;;
     drko <- kobj_get drk ;;
     iko <- kobj_get ik ;;
     ret {| d_key := Some {| e_revoked := false; e_created := ko_created drko; e_key := enc_key;
                             e_parent := Some {| km_id := ik_id e; km_created := ko_created iko |} |};
            d_data := enc_data |})
    (ck_close drk).

(* EncryptPayload *)
Definition encrypt_payload (e : env) (payload : ptxt) : M drr :=
  ik <- get_or_load_latest (en_ik e) (p_rci (en_pol e)) (p_expire (en_pol e)) (ik_id e)
                           (fun m => load_latest_or_create_intermediate_key e (km_id m)) ;;
  finally (encrypt_with_ik e ik payload) (cck_close ik).

(* decryptRow *)
Definition decrypt_row (ik : nat) (key : ekr) (data : ctxt) : M ptxt :=
  ikb <- key_bytes ik ;;
  raw_drk <- aead_decrypt (e_key key) ikb ;;
  aead_decrypt data raw_drk.

(* DecryptDataRowRecord *)
Definition decrypt_data_row_record (e : env) (r : drr) : M ptxt :=
  match d_key r with
  | None => fail ErrInvalid
  | Some key =>
      match e_parent key with
      | None => fail ErrInvalid
      | Some pm =>
          if negb (is_valid_ik_id (en_part e) (km_id pm)) then fail ErrInvalid
          else
            ik <- get_or_load (en_ik e) (p_rci (en_pol e)) pm (load_intermediate_key e) ;;
            finally (decrypt_row ik key (d_data r)) (cck_close ik)
      end
  end.
