(* Local (per-call) theorems about the envelope model: what one Encrypt / Decrypt call does, from any
   world whatsoever (any caches, any store contents, any fault plan). *)
From Asherah Require Import Envelope.Session Envelope.Frame Envelope.FrameInst.
From Coq Require Import Lia.

(* ---- inversion principles for the monad -------------------------------------------------------- *)

Lemma bind_ok {A B} (m : M A) (f : A -> M B) w b w' :
  bind m f w = (inr b, w') -> exists a w1, m w = (inr a, w1) /\ f a w1 = (inr b, w').
Proof.
  unfold bind. destruct (m w) as [[e|a] w1] eqn:E; intro H; [discriminate|]. exists a, w1. split; [reflexivity | exact H].
Qed.

Lemma finally_ok {A} (m : M A) (c : M unit) w a w' :
  finally m c w = (inr a, w') -> exists w1, m w = (inr a, w1) /\ w' = snd (c w1).
Proof.
  unfold finally. destruct (m w) as [r w1] eqn:E. intro H. inversion H; subst. exists w1. split; reflexivity.
Qed.

Lemma aead_decrypt_ok c key w p w' : aead_decrypt c key w = (inr p, w') -> aead_open key c = Some p.
Proof.
  unfold aead_decrypt. intro H. apply bind_ok in H as [f [w1 [_ H]]].
  destruct f.
  - apply bind_ok in H as [? [? [_ H]]]. discriminate H.
  - destruct (aead_open key c) eqn:O.
    + apply bind_ok in H as [? [? [_ H]]]. inversion H; subst. reflexivity.
    + apply bind_ok in H as [? [? [_ H]]]. discriminate H.
Qed.

Lemma aead_open_shape key c p : aead_open key c = Some p -> exists k n, key = PKey k /\ c = CAead k n p.
Proof.
  unfold aead_open. destruct key as [k| |]; try discriminate. destruct c as [k' n q| | |]; try discriminate.
  destruct (Nat.eqb k k') eqn:E; [|discriminate]. apply Nat.eqb_eq in E. subst. intro H. inversion H; subst.
  exists k', n. split; reflexivity.
Qed.

Lemma aead_encrypt_ok p key w c w' :
  aead_encrypt p key w = (inr c, w') -> exists k, key = PKey k /\ c = CAead k (w_nonce w) p.
Proof.
  unfold aead_encrypt. intro H. apply bind_ok in H as [f [w1 [NC H]]].
  unfold next_call in NC. inversion NC; subst. clear NC.
  destruct (fault_at _ _).
  - apply bind_ok in H as [? [? [_ H]]]. discriminate H.
  - destruct key as [k| |].
    + apply bind_ok in H as [n [w2 [BN H]]]. unfold bump_nonce in BN. inversion BN; subst. clear BN.
      apply bind_ok in H as [? [? [_ H]]]. inversion H; subst. exists k. split; reflexivity.
    + apply bind_ok in H as [? [? [_ H]]]. discriminate H.
    + apply bind_ok in H as [? [? [_ H]]]. discriminate H.
Qed.

(* ---- C07: decrypt yields the plaintext sealed in the record's Data, or fails --------------------- *)

(* whatever the key object, the record and the world: a successful decryptRow means the encrypted key is a
   genuine seal of some data key under the intermediate key's material, and Data is a genuine seal of the
   returned plaintext under exactly that data key.  A modified ciphertext (CMut), junk, or a splice of Data
   and Key from different records opens under no key. *)
Theorem decrypt_row_authentic ik key data w p w' :
  decrypt_row ik key data w = (inr p, w') ->
  exists ikm drk n1 n2, e_key key = CAead ikm n1 (PKey drk) /\ data = CAead drk n2 p.
Proof.
  unfold decrypt_row. intro H.
  apply bind_ok in H as [ikb [w1 [_ H]]].
  apply bind_ok in H as [raw [w2 [D1 D2]]].
  apply aead_decrypt_ok in D1. apply aead_decrypt_ok in D2.
  apply aead_open_shape in D1 as [k1 [n1 [_ E1]]].
  apply aead_open_shape in D2 as [k2 [n2 [E2 E3]]]. subst raw.
  exists k1, k2, n1, n2. split; assumption.
Qed.

(* the same at the API: a successful DecryptDataRowRecord passed the partition guard and opened genuine,
   matching ciphertexts *)
Theorem decrypt_authentic e r w p w' :
  decrypt_data_row_record e r w = (inr p, w') ->
  exists key pm ikm drk n1 n2,
    d_key r = Some key /\ e_parent key = Some pm /\ is_valid_ik_id (en_part e) (km_id pm) = true /\
    e_key key = CAead ikm n1 (PKey drk) /\ d_data r = CAead drk n2 p.
Proof.
  unfold decrypt_data_row_record. destruct (d_key r) as [key|] eqn:K; [|discriminate].
  destruct (e_parent key) as [pm|] eqn:P; [|discriminate].
  destruct (is_valid_ik_id (en_part e) (km_id pm)) eqn:G; cbn [negb]; [|discriminate].
  intro H. apply bind_ok in H as [ik [w1 [_ H]]]. apply finally_ok in H as [w2 [H _]].
  apply decrypt_row_authentic in H as [ikm [drk [n1 [n2 [E1 E2]]]]].
  exists key, pm, ikm, drk, n1, n2. repeat split; assumption.
Qed.

(* ---- C06 at the API: a foreign key id is refused before anything is touched ----------------------- *)

Theorem decrypt_foreign_refused e r key pm w :
  d_key r = Some key -> e_parent key = Some pm -> is_valid_ik_id (en_part e) (km_id pm) = false ->
  decrypt_data_row_record e r w = (inl ErrInvalid, w).
Proof.
  intros K P G. unfold decrypt_data_row_record. rewrite K, P, G. reflexivity.
Qed.

(* ---- C03: every Encrypt seals the payload under a data key that did not exist before the call ------ *)

Lemma secret_random_ok w sid w' :
  secret_random w = (inr sid, w') ->
  sid = length (w_secrets w) /\ nth_error (w_secrets w') sid = Some {| s_mat := PKey sid; s_closed := false |}.
Proof.
  unfold secret_random. intro H. apply bind_ok in H as [f [w1 [NC H]]].
  unfold next_call in NC. inversion NC; subst. clear NC. destruct (fault_at _ _).
  - apply bind_ok in H as [? [? [_ H]]]. apply bind_ok in H as [? [? [_ H]]]. discriminate H.
  - apply bind_ok in H as [n [w2 [C H]]]. unfold secret_count, gets in C. inversion C; subst. clear C.
    apply bind_ok in H as [s' [w3 [A H]]]. unfold secret_alloc in A. inversion A; subst. clear A.
    apply bind_ok in H as [? [w4 [EM H]]]. unfold emit, upd in EM. inversion EM; subst. inversion H; subst.
    cbn [w_secrets with_calls with_secrets with_trace]. split; [reflexivity|].
    rewrite nth_error_app2 by lia. rewrite Nat.sub_diag. reflexivity.
Qed.

(* ---- state facts about the primitives used after the intermediate key is in hand ---------------------- *)

Lemma key_bytes_ok k w p w' :
  key_bytes k w = (inr p, w') ->
  w' = w /\ exists o sc, nth_error (w_kobjs w) k = Some o /\ nth_error (w_secrets w) (ko_secret o) = Some sc /\
                         s_closed sc = false /\ p = s_mat sc.
Proof.
  unfold key_bytes. intro H. apply bind_ok in H as [o [w1 [G H]]].
  unfold kobj_get in G. apply bind_ok in G as [ks [w0 [G0 G]]]. unfold get_kobjs, gets in G0. inversion G0; subst. clear G0.
  destruct (nth_error (w_kobjs w0) k) eqn:E; [|discriminate G]. inversion G; subst. clear G.
  unfold secret_bytes in H. apply bind_ok in H as [ss [w2 [G0 H]]]. unfold get_secrets, gets in G0. inversion G0; subst. clear G0.
  destruct (nth_error (w_secrets w2) (ko_secret o)) as [sc|] eqn:S; [|discriminate H].
  destruct (s_closed sc) eqn:C.
  - apply bind_ok in H as [? [? [_ H]]]. discriminate H.
  - inversion H; subst. split; [reflexivity|]. exists o, sc. repeat split; assumption.
Qed.

(* on every outcome, key_bytes / aead_encrypt / kobj_get leave the key-object and secret tables alone *)
Definition same_tables {A} (m : M A) : Prop :=
  forall w, w_kobjs (snd (m w)) = w_kobjs w /\ w_secrets (snd (m w)) = w_secrets w.

Lemma st_ret {A} (a : A) : same_tables (ret a). Proof. intro w. split; reflexivity. Qed.
Lemma st_fail {A} e : same_tables (@fail A e). Proof. intro w. split; reflexivity. Qed.
Lemma st_bind {A B} (m : M A) (f : A -> M B) : same_tables m -> (forall a, same_tables (f a)) -> same_tables (bind m f).
Proof.
  intros Hm Hf w. unfold bind. specialize (Hm w). destruct (m w) as [[e|a] w1]; cbn [snd] in *; [exact Hm|].
  destruct (Hf a w1) as [H1 H2]. destruct Hm as [H3 H4]. split; congruence.
Qed.
Lemma st_gets {A} (f : world -> A) : same_tables (gets f). Proof. intro w. split; reflexivity. Qed.
Lemma st_emit e : same_tables (emit e). Proof. intro w. split; reflexivity. Qed.
Lemma st_next_call : same_tables next_call. Proof. intro w. split; reflexivity. Qed.
Lemma st_bump : same_tables bump_nonce. Proof. intro w. split; reflexivity. Qed.

Lemma st_kobj_get k : same_tables (kobj_get k).
Proof. unfold kobj_get. apply st_bind; [apply st_gets|]. intro ks. destruct (nth_error ks k); [apply st_ret | apply st_fail]. Qed.

Lemma st_secret_bytes sid : same_tables (secret_bytes sid).
Proof.
  unfold secret_bytes. apply st_bind; [apply st_gets|]. intro ss. destruct (nth_error ss sid); [|apply st_fail].
  destruct (s_closed s); [|apply st_ret]. apply st_bind; [apply st_emit | intro; apply st_fail].
Qed.

Lemma st_key_bytes k : same_tables (key_bytes k).
Proof. unfold key_bytes. apply st_bind; [apply st_kobj_get | intro; apply st_secret_bytes]. Qed.

Lemma st_aead_encrypt p k : same_tables (aead_encrypt p k).
Proof.
  unfold aead_encrypt. apply st_bind; [apply st_next_call|]. intros [f|].
  - apply st_bind; [apply st_emit | intro; apply st_fail].
  - destruct k; try (apply st_bind; [apply st_emit | intro; apply st_fail]).
    apply st_bind; [apply st_bump|]. intro n. apply st_bind; [apply st_emit | intro; apply st_ret].
Qed.

Lemma aead_encrypt_nonce p key w c w' : aead_encrypt p key w = (inr c, w') -> w_nonce w' = S (w_nonce w).
Proof.
  unfold aead_encrypt. intro H. apply bind_ok in H as [f [w1 [NC H]]].
  unfold next_call in NC. inversion NC; subst. clear NC.
  destruct (fault_at _ _).
  - apply bind_ok in H as [? [? [_ H]]]. discriminate H.
  - destruct key as [k| |].
    + apply bind_ok in H as [n [w2 [BN H]]]. unfold bump_nonce in BN. inversion BN; subst. clear BN.
      apply bind_ok in H as [? [w3 [EM H]]]. unfold emit, upd in EM. inversion EM; subst. inversion H; subst. reflexivity.
    + apply bind_ok in H as [? [? [_ H]]]. discriminate H.
    + apply bind_ok in H as [? [? [_ H]]]. discriminate H.
Qed.

Lemma generate_key_ok c w k w' :
  generate_key c w = (inr k, w') ->
  let sid := length (w_secrets w) in
  k = length (w_kobjs w) /\
  w_kobjs w' = w_kobjs w ++ [{| ko_created := c; ko_secret := sid; ko_revoked := false; ko_once := false; ko_refs := 0 |}] /\
  w_secrets w' = w_secrets w ++ [{| s_mat := PKey sid; s_closed := false |}] /\ w_nonce w' = w_nonce w /\ w_store w' = w_store w.
Proof.
  unfold generate_key. intro H. apply bind_ok in H as [sid [w1 [SR H]]].
  unfold secret_random in SR. apply bind_ok in SR as [f [w0 [NC SR]]].
  unfold next_call in NC. inversion NC; subst. clear NC. destruct (fault_at _ _).
  - apply bind_ok in SR as [? [? [_ SR]]]. apply bind_ok in SR as [? [? [_ SR]]]. discriminate SR.
  - apply bind_ok in SR as [n [w2 [C SR]]]. unfold secret_count, gets in C. inversion C; subst. clear C.
    apply bind_ok in SR as [s' [w3 [A SR]]]. unfold secret_alloc in A. inversion A; subst. clear A.
    apply bind_ok in SR as [? [w4 [EM SR]]]. unfold emit, upd in EM. inversion EM; subst. inversion SR; subst. clear SR EM.
    unfold kobj_alloc in H. inversion H; subst. cbn. repeat split; reflexivity.
Qed.

(* ---- C03: every Encrypt seals the payload under a data key that did not exist before the call,
   with fresh nonces, and wraps exactly that data key under the intermediate key in hand ------------------ *)

Theorem encrypt_with_ik_fresh e ik payload w d w' :
  encrypt_with_ik e ik payload w = (inr d, w') ->
  exists ek ikm c,
    let drk := length (w_secrets w) in
    d_key d = Some ek /\ e_key ek = CAead ikm (S (w_nonce w)) (PKey drk) /\ d_data d = CAead drk (w_nonce w) payload /\
    e_parent ek = Some {| km_id := ik_id e; km_created := c |}.
Proof.
  unfold encrypt_with_ik. intro H.
  apply bind_ok in H as [now [w0 [GN H]]]. unfold get_now, gets in GN. inversion GN; subst. clear GN.
  apply bind_ok in H as [drk [w1 [GK H]]]. apply generate_key_ok in GK as [Ek [K1 [S1 [N1 _]]]].
  apply finally_ok in H as [w2 [H _]].
  apply bind_ok in H as [drkb [w3 [B1 H]]]. apply key_bytes_ok in B1 as [-> [o1 [sc1 [Ko [So [_ ->]]]]]].
  rewrite K1, Ek in Ko. rewrite nth_error_app2 in Ko by lia. rewrite Nat.sub_diag in Ko. inversion Ko; subst o1. clear Ko.
  cbn [ko_secret] in So. rewrite S1 in So. rewrite nth_error_app2 in So by lia. rewrite Nat.sub_diag in So. inversion So; subst sc1. clear So.
  cbn [s_mat] in H.
  apply bind_ok in H as [enc_data [w4 [E1 H]]].
  pose proof (st_aead_encrypt payload (PKey (length (w_secrets w0))) w1) as [T1 T2]. rewrite E1 in T1, T2. cbn [snd] in T1, T2.
  pose proof (aead_encrypt_nonce _ _ _ _ _ E1) as NN1.
  apply aead_encrypt_ok in E1 as [k1 [Hk1 ->]]. inversion Hk1; subst k1. clear Hk1.
  apply bind_ok in H as [ikb [w5 [B2 H]]]. apply key_bytes_ok in B2 as [-> [o2 [sc2 [Ko2 [So2 [_ ->]]]]]].
  apply bind_ok in H as [drkb2 [w6 [B3 H]]]. apply key_bytes_ok in B3 as [-> [o3 [sc3 [Ko3 [So3 [_ ->]]]]]].
  rewrite T1, K1, Ek in Ko3. rewrite nth_error_app2 in Ko3 by lia. rewrite Nat.sub_diag in Ko3. inversion Ko3; subst o3. clear Ko3.
  cbn [ko_secret] in So3. rewrite T2, S1 in So3. rewrite nth_error_app2 in So3 by lia. rewrite Nat.sub_diag in So3. inversion So3; subst sc3. clear So3.
  cbn [s_mat] in H.
  apply bind_ok in H as [enc_key [w7 [E2 H]]].
  apply aead_encrypt_ok in E2 as [ikm [Hik ->]].
  apply bind_ok in H as [drko [w8 [_ H]]]. apply bind_ok in H as [iko [w9 [_ H]]].
  inversion H; subst. clear H.
  eexists. exists ikm, (ko_created iko).
  cbn zeta. cbn [d_key d_data e_key e_parent]. rewrite NN1, N1. repeat split; reflexivity.
Qed.

(* and at the API: the data key of an Encrypt is new (no secret that existed before the call held it) *)
Theorem encrypt_fresh_data_key e payload w d w' :
  encrypt_payload e payload w = (inr d, w') ->
  exists ek ikm c drk n,
    d_key d = Some ek /\ e_key ek = CAead ikm (S n) (PKey drk) /\ d_data d = CAead drk n payload /\
    e_parent ek = Some {| km_id := ik_id e; km_created := c |} /\
    (length (w_secrets w) <= drk)%nat /\ (w_nonce w <= n)%nat.
Proof.
  unfold encrypt_payload. intro H.
  apply bind_ok in H as [ik [w1 [GL H]]].
  assert (LD : forall x, pres secrets_mono (load_latest_or_create_intermediate_key e (km_id x)) /\
                         pres nonce_mono (load_latest_or_create_intermediate_key e (km_id x))).
  { intro x. split; [apply (pres_load_latest_or_create_intermediate_key secrets_mono secrets_mono_frame) |
                     apply (pres_load_latest_or_create_intermediate_key nonce_mono nonce_mono_frame)]. }
  pose proof (pres_get_or_load_latest secrets_mono secrets_mono_frame (en_ik e) (p_rci (en_pol e)) (p_expire (en_pol e)) (ik_id e)
                (fun m => load_latest_or_create_intermediate_key e (km_id m)) (fun x => proj1 (LD x)) w) as M1.
  pose proof (pres_get_or_load_latest nonce_mono nonce_mono_frame (en_ik e) (p_rci (en_pol e)) (p_expire (en_pol e)) (ik_id e)
                (fun m => load_latest_or_create_intermediate_key e (km_id m)) (fun x => proj2 (LD x)) w) as N1.
  rewrite GL in M1, N1. cbn [snd] in M1, N1. apply secrets_mono_length in M1.
  apply finally_ok in H as [w2 [H _]].
  apply encrypt_with_ik_fresh in H as [ek [ikm [c [H1 [H2 [H3 H4]]]]]].
  exists ek, ikm, c, (length (w_secrets w1)), (w_nonce w1). repeat split; try assumption.
Qed.

(* ---- C09(a): the data key secret of an Encrypt is released before the call returns, on every path ------ *)

Lemma generate_key_fail c w e w' : generate_key c w = (inl e, w') -> w_secrets w' = w_secrets w.
Proof.
  unfold generate_key, bind. destruct (secret_random w) as [[e1|sid] w1] eqn:SR.
  - intro H. inversion H; subst. clear H.
    unfold secret_random, bind, next_call in SR. cbn [fst snd] in SR.
    destruct (fault_at (w_calls w) (w_faults w)); cbn in SR; inversion SR; subst; reflexivity.
  - unfold kobj_alloc. intro H. discriminate H.
Qed.

Lemma same_tables_body e ik payload drk :
  same_tables (drkb <- key_bytes drk ;;
               enc_data <- aead_encrypt payload drkb ;;
               ikb <- key_bytes ik ;;
               drkb2 <- key_bytes drk ;;
               enc_key <- aead_encrypt drkb2 ikb ;;
               drko <- kobj_get drk ;;
               iko <- kobj_get ik ;;
               ret {| d_key := Some {| e_revoked := false; e_created := ko_created drko; e_key := enc_key;
                                       e_parent := Some {| km_id := ik_id e; km_created := ko_created iko |} |};
                      d_data := enc_data |}).
Proof.
  repeat first [ apply st_key_bytes | apply st_aead_encrypt | apply st_kobj_get | apply st_ret | apply st_bind; [|intro] ].
Qed.

Theorem encrypt_with_ik_releases_data_key e ik payload w r w' :
  encrypt_with_ik e ik payload w = (r, w') ->
  forall sc, nth_error (w_secrets w') (length (w_secrets w)) = Some sc -> s_closed sc = true.
Proof.
  unfold encrypt_with_ik. unfold bind at 1. unfold get_now, gets. cbn [fst snd].
  unfold bind at 1. destruct (generate_key (w_now w / sec) w) as [[e1|drk] w1] eqn:GK.
  - intro H. inversion H; subst. apply generate_key_fail in GK. rewrite GK. intros sc Hs.
    assert (nth_error (w_secrets w) (length (w_secrets w)) <> None) by congruence.
    apply nth_error_Some in H0. lia.
  - apply generate_key_ok in GK as [Ek [K1 [S1 _]]].
    unfold finally. match goal with |- context [?body w1] => destruct (body w1) as [rb w2] eqn:B end.
    intro H. inversion H; subst. clear H.
    match type of B with ?body w1 = _ => pose proof (same_tables_body e ik payload (length (w_kobjs w)) w1) as [T1 T2] end.
    rewrite B in T1, T2. cbn [snd] in T1, T2.
    (* ck_close on the freshly allocated, never closed key object *)
    unfold ck_close, bind, kobj_modify. rewrite T1, K1. rewrite nth_error_app2 by lia. rewrite Nat.sub_diag. cbn [nth_error ko_once ko_secret fst snd].
    unfold secret_close, bind, secret_mark_closed. cbn [w_secrets with_kobjs]. rewrite T2, S1.
    rewrite nth_error_app2 by lia. rewrite Nat.sub_diag. cbn [nth_error fst snd].
    unfold emit, upd. cbn [snd w_secrets with_trace with_secrets].
    intros sc Hs. erewrite nth_error_set_nth_same in Hs.
    + inversion Hs; subst. reflexivity.
    + rewrite nth_error_app2 by lia. rewrite Nat.sub_diag. reflexivity.
Qed.

Lemma set_nth_length {A} n (x : A) l : length (set_nth n x l) = length l.
Proof. revert n; induction l as [|a l IH]; intros [|n]; cbn; try reflexivity. f_equal. apply IH. Qed.

Lemma secret_close_len sid w : length (w_secrets (snd (secret_close sid w))) = length (w_secrets w).
Proof.
  unfold secret_close, bind, secret_mark_closed. destruct (nth_error (w_secrets w) sid); cbn [fst snd]; [|reflexivity].
  unfold emit, upd. cbn [snd w_secrets with_trace with_secrets]. apply set_nth_length.
Qed.

Lemma ck_close_len k w : length (w_secrets (snd (ck_close k w))) = length (w_secrets w).
Proof.
  unfold ck_close, bind, kobj_modify. destruct (nth_error (w_kobjs w) k); cbn [fst snd]; [|reflexivity].
  destruct (ko_once k0); [reflexivity|]. rewrite secret_close_len. reflexivity.
Qed.

Lemma cck_close_len k w : length (w_secrets (snd (cck_close k w))) = length (w_secrets w).
Proof.
  unfold cck_close, bind, kobj_modify. destruct (nth_error (w_kobjs w) k); cbn [fst snd]; [|reflexivity].
  destruct (ko_refs k0 - 1 >? 0); [reflexivity|]. rewrite ck_close_len. reflexivity.
Qed.

(* at the API: whatever Encrypt returns (a record or an error, under any fault plan), the secret it
   allocated for the data key is closed in the final world - provided the intermediate key lookup returned *)
Theorem encrypt_releases_data_key e payload w r w' ik w1 :
  get_or_load_latest (en_ik e) (p_rci (en_pol e)) (p_expire (en_pol e)) (ik_id e)
                     (fun m => load_latest_or_create_intermediate_key e (km_id m)) w = (inr ik, w1) ->
  encrypt_payload e payload w = (r, w') ->
  forall sc, nth_error (w_secrets w') (length (w_secrets w1)) = Some sc -> s_closed sc = true.
Proof.
  intros GL. unfold encrypt_payload, bind. rewrite GL. unfold finally.
  destruct (encrypt_with_ik e ik payload w1) as [r2 w2] eqn:EW. intro H. inversion H; subst. clear H.
  intros sc Hs.
  pose proof (pres_cck_close secrets_mono secrets_mono_frame ik w2) as [SM _].
  destruct (nth_error (w_secrets w2) (length (w_secrets w1))) as [sc2|] eqn:E2.
  - pose proof (encrypt_with_ik_releases_data_key _ _ _ _ _ _ EW sc2 E2) as C2.
    destruct (SM _ _ E2) as [sc' [H1 [_ H3]]]. rewrite Hs in H1. inversion H1; subst. apply H3. exact C2.
  - (* the allocator failed: nothing was allocated at that index, and releasing the IK reference allocates nothing *)
    exfalso. apply nth_error_None in E2. pose proof (cck_close_len ik w2) as L.
    assert (nth_error (w_secrets (snd (cck_close ik w2))) (length (w_secrets w1)) <> None) by congruence.
    apply nth_error_Some in H. lia.
Qed.

(* the data key allocated by Decrypt: decryptRow never puts the raw data key in a secret at all (it is a
   heap buffer, wiped by the deferred MemClr - C10), so Decrypt allocates no data-key secret. *)

(* ---- C01 (local): what encrypt_with_ik sealed, decrypt_row opens with the same intermediate key material -- *)

Theorem roundtrip_local e ik payload w d w' ek ik2 w2 ikm n :
  encrypt_with_ik e ik payload w = (inr d, w') -> d_key d = Some ek -> e_key ek = CAead ikm n (PKey (length (w_secrets w))) ->
  key_bytes ik2 w2 = (inr (PKey ikm), w2) ->
  fault_at (w_calls w2) (w_faults w2) = None -> fault_at (S (w_calls w2)) (w_faults w2) = None ->
  fst (decrypt_row ik2 ek (d_data d) w2) = inr payload.
Proof.
  intros EW K EK KB F1 F2.
  destruct (encrypt_with_ik_fresh _ _ _ _ _ _ EW) as [ek' [ikm' [c [H1 [H2 [H3 _]]]]]].
  rewrite K in H1. inversion H1; subst ek'. rewrite EK in H2. inversion H2; subst. clear H2 H1.
  unfold decrypt_row, bind. rewrite KB. rewrite EK, H3.
  unfold aead_decrypt at 1. unfold bind, next_call. cbn [fst snd]. rewrite F1.
  cbn [aead_open]. rewrite Nat.eqb_refl. unfold emit, upd, ret. cbn [fst snd].
  unfold aead_decrypt, bind, next_call. cbn [fst snd w_calls w_faults with_calls with_trace]. rewrite F2.
  cbn [aead_open]. rewrite Nat.eqb_refl. reflexivity.
Qed.
